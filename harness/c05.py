"""C05 - ECB/CBC/CTR/CTS.  MC: sys/Modes over a toy cipher, every message of 0..7 bytes over {0,1,255} (BL=2) and
0..9 bytes over {0,255} (BL=4), all admissible paddings, IV classes, counter halves at the wrap: round trip, domain,
shape, counter blocks.  Bind: (i) the same complete message space replayed on the REAL mode classes over a Python
object implementing the same toy cipher, exact ciphertexts judged by TLC; (ii) the real ciphers, random keys/IVs,
every residue over 0..3 blocks, counter halves near the wrap."""
import itertools
import core
from core import B

KEY = (40503, 31161)
class Toy:
    """the toy cipher of sys/Modes.tla (blocks of an even number of bytes)"""
    def __init__(self, bl): self.bl = bl; self.blocksize = 8 * bl; self.size = 8 * bl
    @staticmethod
    def rotl(v, r): return ((v << r) & 0xffff) | (v >> (16 - r))
    def enc(self, b):
        assert len(b) == self.bl
        out = b''
        for j in range(self.bl // 2):
            v = b[2 * j] * 256 + b[2 * j + 1]
            o = self.rotl(((v + KEY[1] + j) & 0xffff) ^ KEY[0], 3); out += bytes([o >> 8, o & 255])
        return out[2:] + out[:2]
    def dec(self, b):
        assert len(b) == self.bl
        y = b[-2:] + b[:-2]; out = b''
        for j in range(self.bl // 2):
            v = y[2 * j] * 256 + y[2 * j + 1]
            o = ((self.rotl(v, 13) ^ KEY[0]) - KEY[1] - j) & 0xffff; out += bytes([o >> 8, o & 255])
        return out

PADS = {'pkcs7': 'pkcs7', 'x923': 'X923', 'iso': 'bitpadding', 'none': 'nopadding', 'zero': 'Nullpadding'}
def padclass(s):
    from crysp import padding
    return getattr(padding, PADS[s])

def make_cipher(ci):
    import cipherrec as R
    if ci['c'] == 'toy': return Toy(ci['bl'])
    return R.construct(ci['c'], [bytes(k) for k in ci['keys']], bytes(ci['tweak']))

def make_mode(mo):
    from crysp import mode
    c = make_cipher(mo['ci'])
    m = mo['mode']
    if m == 'ecb': return mode.ECB(c, padclass(mo['sch']['s']))
    if m == 'cbc': return mode.CBC(c, bytes(mo['iv']), padclass(mo['sch']['s']))
    if m == 'ctr': return mode.CTR(c, bytes(mo['nonce']) + bytes(mo['count0']))
    if m == 'cts_ecb': return mode.CTS_ECB(c)
    if m == 'cts_cbc': return mode.CTS_CBC(c, bytes(mo['iv']))
    raise ValueError(m)

def mo_rec(mode, ci, bl, s='none', iv=b'', nonce=b'', count0=b''):
    return dict(mode=mode, ci=ci, sch=dict(s=s, B=bl, w=0, mk=0), iv=B(iv), nonce=B(nonce), count0=B(count0))

def call(e, fn):
    e['raised'] = ''; e['obs'] = []
    try:
        r = fn(); e['obs'] = B(r) if isinstance(r, bytes) else [-1]
    except Exception as ex: e['raised'] = type(ex).__name__
    return e

def long_mode_events(mo, M, segblocks=64):
    """ONE real enc call (and then one real dec call on its result) on a long message, recorded as segments of whole blocks that TLC judges independently (and in parallel):
    ECB - inner segments are the unpadded mode on whole blocks, the last one carries the padding scheme; CBC - the same, each segment chained
    from the RECORDED previous ciphertext block (by induction over the segments the whole chain is the specified one); CTR - op enc_at with
    the block offset.  The last segment takes everything that is left of the result."""
    bl = mo['sch']['B']; seg = segblocks * bl
    try: r = make_mode(mo).enc(M)
    except Exception as ex: return [dict(op='enc', mo=mo, m=B(M[:seg]), raised=type(ex).__name__, obs=[], long=len(M))]
    if type(r) is not bytes: return [dict(op='enc', mo=mo, m=B(M[:seg]), raised='', obs=[-1], long=len(M))]
    out = []; inner = dict(mo, sch=dict(mo['sch'], s='none'))
    starts = list(range(0, len(M), seg)) or [0]
    for a in starts:
        last = a == starts[-1]
        m = M[a:] if last else M[a:a + seg]
        if mo['mode'] == 'ctr':
            out.append(dict(op='enc_at', mo=mo, c=a // bl, m=B(m), raised='', obs=B(r[a:] if last else r[a:a + seg]), long=len(M)))
        elif mo['mode'] == 'ecb':
            out.append(dict(op='enc', mo=mo if last else inner, m=B(m), raised='', obs=B(r[a:] if last else r[a:a + seg]), long=len(M)))
        else:                                                                          # cbc: result = IV + chained blocks
            prev = r[a:a + bl]                                                         # the IV for the first segment, else the ciphertext block before this segment
            mo2 = dict(mo if last else inner, iv=B(prev))
            out.append(dict(op='enc', mo=mo2, m=B(m), raised='', obs=B(prev + (r[bl + a:] if last else r[bl + a:bl + a + seg])), long=len(M)))
    if out and mo['mode'] == 'cbc' and out[0]['mo']['iv'] != mo['iv']: out[0]['mo'] = dict(out[0]['mo'], iv=mo['iv'])     # the first segment is held to the configured IV
    if mo['sch']['s'] == 'zero' and mo['mode'] != 'ctr': return out
    # ONE real dec call on that ciphertext, judged the same way: a CBC segment is handed over together with the ciphertext block before it
    try: p = make_mode(mo).dec(r)
    except Exception as ex: return out + [dict(op='dec', mo=mo, m=B(r[:seg]), raised=type(ex).__name__, obs=[], long=len(M), whole_len=len(r))]
    if type(p) is not bytes: return out + [dict(op='dec', mo=mo, m=B(r[:seg]), raised='', obs=[-1], long=len(M))]
    body = r[bl:] if mo['mode'] == 'cbc' else r
    starts = list(range(0, len(body), seg)) or [0]
    for a in starts:
        last = a == starts[-1]
        if mo['mode'] == 'ctr':
            out.append(dict(op='dec_at', mo=mo, c=a // bl, m=B(body[a:] if last else body[a:a + seg]), raised='', obs=B(p[a:] if last else p[a:a + seg]), long=len(M)))
        elif mo['mode'] == 'ecb':
            out.append(dict(op='dec', mo=mo if last else inner, m=B(body[a:] if last else body[a:a + seg]), raised='', obs=B(p[a:] if last else p[a:a + seg]), long=len(M)))
        else:
            out.append(dict(op='dec', mo=mo if last else inner, m=B(r[a:] if last else r[a:a + bl + seg]), raised='', obs=B(p[a:] if last else p[a:a + seg]), long=len(M)))
    return out

def events_for(mo, M):
    """fresh objects for every call: enc on A, dec on an equally configured B"""
    ev = []
    if mo['mode'].startswith('cts'):
        e = call(dict(op='cts_enc', mo=mo, m=B(M)), lambda: make_mode(mo).enc(M)); ev.append(e)
        ev.append(call(dict(op='cts_rt', mo=mo, m=B(M)), lambda: make_mode(mo).dec(make_mode(mo).enc(M))))
        return ev
    e = call(dict(op='enc', mo=mo, m=B(M)), lambda: make_mode(mo).enc(M)); ev.append(e)
    if not e['raised'] and e['obs'] != [-1]:
        Cb = bytes(e['obs'])
        if mo['sch']['s'] != 'zero' or mo['mode'] == 'ctr':
            ev.append(call(dict(op='dec', mo=mo, m=B(Cb)), lambda: make_mode(mo).dec(Cb)))
            ev.append(call(dict(op='rt', mo=mo, m=B(M)), lambda: make_mode(mo).dec(make_mode(mo).enc(M))))
    return ev

def longlived_events(mo, msgs, reconf=()):
    """ONE mode object for the whole sequence: enc(M), dec of that ciphertext, and for block-aligned unpadded data dec(M) then enc of it
    (the same block value travels in both directions).  CTR: the counter is re-configured through counter.setup() along the way."""
    import copy
    ev = []; obj = make_mode(mo); bl = mo['sch']['B']; rc = list(reconf); twin = None
    if mo['mode'] == 'ctr':
        try:
            from crysp import mode as _m
            twin = _m.CTR(make_cipher(mo['ci']), obj.counter)          # a second CTR object over the SAME counter object
        except Exception: twin = None
    for j, M in enumerate(msgs):
        if mo['mode'] == 'ctr' and rc and j % 3 == 2:
            nonce, c0 = rc[(j // 3) % len(rc)]
            obj.counter.setup(nonce, c0); mo = copy.deepcopy(mo); mo['nonce'] = B(nonce); mo['count0'] = B(c0)
        if mo['mode'] == 'ctr' and j % 4 == 1:
            try: obj.counter.reset()                       # the counter moved from outside (or by a second CTR object sharing it): every enc/dec starts at count0 anyway
            except Exception: pass
            if twin is not None:
                try: twin.enc(M + M)
                except Exception: pass
        e = call(dict(op='enc', mo=mo, m=B(M), live=True), lambda: obj.enc(M)); ev.append(e)
        if e['raised'] or e['obs'] == [-1]: continue
        Cb = bytes(e['obs'])
        if mo['sch']['s'] != 'zero' or mo['mode'] == 'ctr': ev.append(call(dict(op='dec', mo=mo, m=B(Cb), live=True), lambda: obj.dec(Cb)))
        if mo['sch']['s'] == 'none' and mo['mode'] in ('ecb', 'cbc') and len(M) % bl == 0 and M:
            d = call(dict(op='dec', mo=mo, m=B(M), live=True), lambda: obj.dec(M)); ev.append(d)
            if not d['raised'] and d['obs'] != [-1]: ev.append(call(dict(op='enc', mo=mo, m=d['obs'], live=True), lambda: obj.enc(bytes(d['obs']))))
    if mo['mode'] == 'ctr':                               # short message, counter moved from outside (reset / a twin object), then a LONGER message under the same configuration
        for mover in ('reset', 'twin', 'reset'):
            e = call(dict(op='enc', mo=mo, m=B(bytes(bl)), live=True), lambda: obj.enc(bytes(bl))); ev.append(e)
            try:
                if mover == 'reset' or twin is None: obj.counter.reset()
                else: twin.enc(bytes(2 * bl))
            except Exception: pass
            M = bytes((7 * i + 1) & 255 for i in range((5 + len(ev) % 3) * bl))            # whole blocks (the toy cipher's first keystream byte barely depends on the counter)
            e = call(dict(op='enc', mo=mo, m=B(M), live=True), lambda: obj.enc(M)); ev.append(e)
            if not e['raised'] and e['obs'] != [-1]: ev.append(call(dict(op='dec', mo=mo, m=e['obs'], live=True), lambda: obj.dec(bytes(e['obs']))))
    return ev

def classify(ctx, tr, recs):
    for rec in recs:
        e = tr['ev'][rec['step'] - 1]; mo = e['mo']; bl = mo['sch']['B']
        for cl in rec['bad']:
            attrs = dict(mode=mo['mode'], op=e['op'], cipher=mo['ci']['c'], pad=mo['sch']['s'], clause=cl['c'], raised=e['raised'],
                         partial_last_block=(len(e['m']) % bl != 0), empty=(len(e['m']) == 0), blocklen=bl, long_lived_object=bool(e.get('live')))
            if cl['c'] == 'must-not-raise': sym = 'raises:' + e['raised']
            elif cl['c'] == 'must-refuse': sym = 'no-raise'
            else: sym = 'wrong:' + cl['c']
            ctx.violation('mode.%s.%s' % (mo['mode'], e['op']), sym, attrs, dict(event=e, expected=cl['e']))

def validate(ctx, events, what, per=25, chunk=2500):
    traces = [dict(ev=events[i:i + per]) for i in range(0, len(events), per)]
    for a in range(0, len(traces), chunk):
        part = traces[a:a + chunk]
        bad = ctx.validate('trace/Trace_Modes.tla', part, lambda t: len(t['ev']), what='%s[%d:%d]' % (what, a, a + len(part)))
        for tid, recs in bad.items(): classify(ctx, part[tid - 1], recs)
    ctx.evaluations += len(events)

def run(ctx):
    rnd = ctx.rnd; big = ctx.big()
    ctx.model_check('mc/MC_Modes.tla', 'mc/MC_Modes.cfg', what='MC_Modes toy BL=2, all messages <= 7 bytes over {0,1,255}')
    ctx.model_check('mc/MC_Modes.tla', 'mc/MC_Modes_B4.cfg', what='MC_Modes toy BL=4, all messages <= 9 bytes over {0,255}')
    # (i) the same space on the real mode classes over the toy cipher
    ev = []
    for bl, alpha, maxlen in ((2, (0, 1, 255), 7 if big else 5), (4, (0, 255), 9 if big else 6)):
        ci = dict(c='toy', bl=bl, keys=[list(KEY)], tweak=[])
        ivs = [bytes(bl), bytes([255, 1, 128, 7][:bl])]
        nonce = bytes([7, 9][:bl // 2])
        counts = [bytes(bl // 2), b'\xff' * (bl // 2), (b'\xff' * (bl // 2))[:-1] + b'\xfe'] + ([b'\x00\xff'] if bl == 4 else [])
        objs = [mo_rec(m, ci, bl, s, iv) for m in ('ecb', 'cbc') for s in ('pkcs7', 'x923', 'iso', 'none', 'zero') for iv in (ivs if m == 'cbc' else ivs[:1])]
        objs += [mo_rec('ctr', ci, bl, 'none', b'', nonce, c0) for c0 in counts]
        cts = [mo_rec('cts_ecb', ci, bl), mo_rec('cts_cbc', ci, bl, 'none', ivs[1])]
        for n in range(maxlen + 1):
            for t in itertools.product(alpha, repeat=n):
                M = bytes(t)
                for k, mo in enumerate(objs):
                    if not big and n >= 4 and (hash((t, k)) % 3): continue         # quick: thin out the longest messages
                    ev += events_for(mo, M); ctx.mark((mo['mode'], mo['sch']['s'], bl, str(mo['iv']), str(mo['count0']), M.hex()))
                if n >= bl:
                    for mo in cts: ev += events_for(mo, M); ctx.mark((mo['mode'], bl, M.hex()))
    ctx.exhaustive_subspaces.append('real ECB/CBC/CTR/CTS classes over the toy cipher: every message of 0..%d bytes over {0,1,255} (2-byte blocks) and 0..%d bytes over {0,255} (4-byte blocks), every admissible padding, IV classes, counter halves 0 / max-1 / max%s'
                                    % ((7, 9, '') if big else (5, 6, ' (messages >= 4 bytes thinned to a third in the quick tier)')))
    ctx.sample(ev[10]); ctx.sample(ev[-1])
    validate(ctx, ev, 'toy cipher', per=40)
    # the same classes as long-lived objects (one object per configuration for a whole message sequence; CTR counters re-configured on the way)
    ev = []
    for bl, alpha in ((2, (0, 1, 255)), (4, (0, 255))):
        ci = dict(c='toy', bl=bl, keys=[list(KEY)], tweak=[])
        iv = bytes([255, 1, 128, 7][:bl]); h = bl // 2
        msgs = [bytes(t) for n in range(0, 2 * bl + 1) for t in itertools.product(alpha, repeat=n)]
        rnd.shuffle(msgs); msgs = msgs[:(120 if big else 40)] + [bytes(bl), bytes(bl), b'\xff' * (3 * bl)]
        objs = [mo_rec(m, ci, bl, s, iv if m == 'cbc' else b'') for m in ('ecb', 'cbc') for s in ('pkcs7', 'x923', 'iso', 'none')]
        for mo in objs: ev += longlived_events(mo, msgs); ctx.mark(('live', mo['mode'], mo['sch']['s'], bl))
        rc = [(bytes([3] * h), b'\xff' * h), (bytes(h), bytes(h)), (bytes([7, 9][:h]), b'\xff' * (h - 1) + b'\xfe'), (bytes([7, 9][:h]), bytes([1] * h))]
        ev += longlived_events(mo_rec('ctr', ci, bl, 'none', b'', bytes([7, 9][:h]), b'\xff' * (h - 1) + b'\xfe'), msgs, rc); ctx.mark(('live', 'ctr', bl))
    validate(ctx, ev, 'toy cipher, long-lived objects', per=40)
    ctx.exhaustive_subspaces.append('long-lived mode objects over the toy cipher: message sequences with enc, dec of the result, dec/enc of the same unpadded blocks; CTR re-configured by counter.setup() between calls')
    # (ii) real ciphers
    import cipherrec as R
    ev = []
    plan = [('aes', 16), ('aes', 24), ('aes', 32), ('des', 8), ('tdea', 24), ('serpent', 16), ('threefish', 32), ('threefish', 64), ('threefish', 128)]
    for c, kl in plan:
        bl = 8 if c in ('des', 'tdea') else (kl if c == 'threefish' else 16)
        K = bytes(rnd.randrange(256) for _ in range(kl)); T = bytes(rnd.randrange(256) for _ in range(16)) if c == 'threefish' else b''
        ci = R.ci(c, [K], T)
        iv = bytes(rnd.randrange(256) for _ in range(bl)); h = bl // 2
        counts = [bytes(h), b'\xff' * h, b'\xff' * (h - 1) + b'\xfe', bytes(rnd.randrange(1, 256) for _ in range(h))]
        lens = sorted(set(list(range(0, 3 * bl + 2)) if (big and bl <= 16) else [0, 1, bl - 1, bl, bl + 1, 2 * bl - 1, 2 * bl, 2 * bl + 1, 3 * bl, rnd.randrange(3 * bl)]))
        for n in lens:
            M = bytes(rnd.randrange(256) for _ in range(n))
            objs = [mo_rec('ecb', ci, bl, 'pkcs7'), mo_rec('cbc', ci, bl, 'pkcs7', iv), mo_rec('ecb', ci, bl, rnd.choice(['x923', 'iso', 'none'])), mo_rec('cbc', ci, bl, rnd.choice(['x923', 'iso', 'none']), iv)]
            objs += [mo_rec('ctr', ci, bl, 'none', b'', iv[:h], c0) for c0 in (counts if big else [counts[n % 4], counts[(n + 1) % 4]])]
            if n >= bl: objs += [mo_rec('cts_ecb', ci, bl), mo_rec('cts_cbc', ci, bl, 'none', iv)]
            if bl > 16 and not big: objs = objs[:2] + objs[4:]
            for mo in objs: ev += events_for(mo, M); ctx.mark((mo['mode'], c, kl, n, mo['sch']['s'], str(mo['count0'])))
    validate(ctx, ev, 'real ciphers', per=6)
    # (iii) one call on a long message (the counter's low byte wraps after 256 blocks), judged in segments
    ev = []
    toy4 = dict(c='toy', bl=4, keys=[list(KEY)], tweak=[]); toy16 = dict(c='toy', bl=16, keys=[list(KEY)], tweak=[])
    rbn = lambda n: bytes(rnd.randrange(256) for _ in range(n))
    for ci, bl, sizes in ((toy4, 4, (4 * 300 + 1, 8192)), (toy16, 16, (65536 + 3, 16 * 257) + ((1 << 18,) if big else ()))):
        for n in sizes:
            iv = rbn(bl); h = bl // 2
            for mo in (mo_rec('ecb', ci, bl, 'pkcs7'), mo_rec('cbc', ci, bl, 'iso', iv), mo_rec('cbc', ci, bl, 'pkcs7', iv), mo_rec('ecb', ci, bl, 'zero'),
                       mo_rec('ctr', ci, bl, 'none', b'', iv[:h], b'\xff' * (h - 1) + b'\x01'), mo_rec('ctr', ci, bl, 'none', b'', iv[:h], bytes(h))):
                M = rbn(n); ev += long_mode_events(mo, M); ctx.mark(('long', mo['mode'], 'toy', bl, n))
                if mo['sch']['s'] != 'zero':
                    ev.append(call(dict(op='rt', mo=mo, m=B(M[:n % 1000 + 2 * bl]), long=n), lambda: make_mode(mo).dec(make_mode(mo).enc(M))[:n % 1000 + 2 * bl] + b''))   # round trip of the long message, compared on a prefix
    for c, kl, n in (('aes', 16, 4096 + 5), ('des', 8, 2048 + 8), ('aes', 32, 16 * 256)) + ((('serpent', 16, 4096 + 16), ('tdea', 24, 4096)) if big else ()):
        bl = 8 if c in ('des', 'tdea') else 16; h = bl // 2
        ci = R.ci(c, [rbn(kl)], b''); iv = rbn(bl)
        for mo in (mo_rec('cbc', ci, bl, 'pkcs7', iv), mo_rec('ctr', ci, bl, 'none', b'', iv[:h], b'\xff' * (h - 1) + b'\xf0'), mo_rec('ecb', ci, bl, 'x923')):
            ev += long_mode_events(mo, rbn(n), segblocks=16); ctx.mark(('long', mo['mode'], c, kl, n))
    validate(ctx, ev, 'long messages in segments', per=2)
    mo = mo_rec('cbc', dict(c='toy', bl=2, keys=[list(KEY)], tweak=[]), 2, 'pkcs7', b'\x01\x02')
    clean = dict(ev=events_for(mo, b'abc')[:1])
    def corrupt(t): t['ev'][0]['obs'][-1] ^= 1; return t
    ctx.binding_selftest('trace/Trace_Modes.tla', clean, lambda t: len(t['ev']), corrupt, 'Trace_Modes: flipped last ciphertext bit')
    ctx.assumptions += ['zero padding is excluded from "decrypt returns the message" (not injective)', 'CTR is always given its counter block; CTS is held to length, IV prefix and round trip only',
                        'the complete message space uses fresh objects for every call (decryption on a second, equally configured object); sequences on long-lived objects are sampled here and enumerated in C10',
                        'the Python toy cipher of the harness implements Modes!ToyEnc/ToyDec']
    return ctx.finish('complete small-message space over the toy cipher on the real mode classes + residue grid over the real ciphers; every ciphertext / plaintext judged by TLC against SP 800-38A (sys/Modes)')
