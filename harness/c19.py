"""C19 - TLSH and Nilsimsa.  MC: the TLSH distance is symmetric / non-negative / zero on equal digests over all header
field pairs and all body byte pairs (MC_TlshDist); Nilsimsa theorems in ST_NilsimsaThm (setup).  Bind: every TLSH
configuration (3 x 5 x 2), data lengths around the gates (50, 256) and content classes incl. too-uniform data, force
both ways, reload of digests, distances from objects / bytes / mixed / both orders; Nilsimsa targets, lengths, cuts,
distances - TLC recomputes digests and distances."""
import core
from core import B

def tlsh_fields(t):
    return dict(checksum=list(t.checksum), L=int(t.Lvalue), q1=int(t.q1_ratio), q2=int(t.q2_ratio), code=list(t.tmp_code))

def run(ctx):
    ctx.claim_exhaustive = False      # keys / messages / parameters are sampled over an enumerated grid; only the spec-level models are exhaustive
    rnd = ctx.rnd; big = ctx.big()
    ctx.model_check('mc/MC_TlshDist.tla', what='MC_TlshDist (distance axioms over all single-field differences)')
    from crysp import tlsh as T, nilsimsa as N
    rb = lambda n: bytes(rnd.randrange(256) for _ in range(n))
    def text(n):
        words = [b'the', b'rain', b'in', b'spain', b'falls', b'mainly', b'on', b'plain', b'hash', b'locality', b'sensitive', b'0123', b'\n']
        out = b''
        while len(out) < n: out += rnd.choice(words) + b' '
        return out[:n]
    def binary(n): return bytes(rnd.choice([0, 255, 0, 255, 7, 65, 128]) for _ in range(n))     # zero / 0xff bytes in every window position
    ev = []; digests = {}
    lens = [0, 4, 49, 50, 51, 255, 256, 257, 700] + ([3300, 1000, 5000] if big else [1200])
    k = 0
    for buckets in (48, 128, 256):
        for wnd in (4, 5, 6, 7, 8):
            for chk in (1, 3):
                cfg = dict(buckets=buckets, wnd=wnd, chk=chk)
                for n in (lens if (big or (wnd == 5 and chk == 1)) else [lens[k % len(lens)], lens[(k + 4) % len(lens)], 600]):
                    for cls in ((0, 1, 2, 3) if big else (k % 4,)):
                        k += 1
                        data = [text(n), rb(n), b'a' * n, (b'ab' * n)[:n]][cls]               # text, random, constant, two-valued (too uniform)
                        force = bool(k % 2) or n < 256
                        e = dict(op='tlsh', cfg=cfg, data=B(data), force=force, raised='', obs=dict(none=True, digest=[]))
                        try:
                            obj = T.TLSH(buckets, wnd, chk)
                            r = obj(data, force)
                            if r is None: e['obs'] = dict(none=True, digest=[])
                            else:
                                e['obs'] = dict(none=False, digest=B(r) if isinstance(r, bytes) else [-1])
                                digests.setdefault((buckets, wnd, chk), []).append((bytes(r), obj, tlsh_fields(obj), data, force))
                        except Exception as ex: e['raised'] = type(ex).__name__
                        ev.append(e); ctx.mark((buckets, wnd, chk, n, cls, force))
                    if not big and n < 256: pass
    # inputs sitting exactly on the gates (non-zero bucket limits 64/65, 128/129, 17/18/24/25; L-value seams): their DATA comes from spec/kat/tlsh.ndjson
    import json, os
    katf = os.path.join(core.VERIF, 'spec', 'kat', 'tlsh.ndjson')
    for line in open(katf):
        q = json.loads(line)
        if q.get('op') != 'hash' or not (q.get('note', '').startswith('nonzero') or q.get('note', '').startswith('L seam') or q.get('note') == 'uniform'): continue
        data = bytes(sum(q['chunks'], []))
        cfg = dict(buckets=q['buckets'], wnd=q['wnd'], chk=q['chk'])
        e = dict(op='tlsh', cfg=cfg, data=B(data), force=bool(q['force']), raised='', obs=dict(none=True, digest=[]))
        try:
            r = T.TLSH(q['buckets'], q['wnd'], q['chk'])(data, bool(q['force']))
            e['obs'] = dict(none=r is None, digest=[] if r is None else B(r))
        except Exception as ex: e['raised'] = type(ex).__name__
        ev.append(e); ctx.mark(('gate', q['note'], q['buckets'], q['wnd'], q['chk']))
    # inputs SELECTED so that a quartile ratio is an exact percentage on which float evaluation orders disagree (q/q3*100 vs q*100/q3: 29/50, 57/100, ...);
    # the prefixes of seeded texts are scanned with an incremental bucket count (selection only - TLC judges the digest)
    try:
        from crysp.tlsh import PEARSON_T as PT
        TRI = [(2, 1, 2, 3), (3, 1, 2, 4), (5, 1, 3, 4), (7, 1, 3, 5), (11, 1, 2, 5), (13, 1, 4, 5)]
        CRIT = {(a, b) for b in range(1, 1500) for a in range(b + 1) if int(a / b * 100) != a * 100 // b or int(a * 100. / b) != a * 100 // b}
        def pm(c):
            x = 0
            for y in c: x = PT[x ^ y]
            return x
        found = 0
        for trial in range(8 if big else 4):
            src = text(7000 if big else 4500); bk = [0] * 256; got = set()
            for ew in range(5, len(src) + 1):
                w = src[ew - 5:ew]
                for (s_, a_, b_, c_) in TRI: bk[pm((s_, w[-a_], w[-b_], w[-c_]))] += 1
                if ew < 300 or ew % 3: continue
                for bkts in (128, 48, 256):
                    if bkts in got: continue
                    srt = sorted(bk[:bkts]); cs = bkts // 4; q1, q2, q3 = srt[cs - 1], srt[2 * cs - 1], srt[3 * cs - 1]
                    if q3 and ((q1, q3) in CRIT or (q2, q3) in CRIT):
                        got.add(bkts); data = src[:ew]; cfg = dict(buckets=bkts, wnd=5, chk=1)
                        e = dict(op='tlsh', cfg=cfg, data=B(data), force=False, raised='', obs=dict(none=True, digest=[]))
                        try:
                            r = T.TLSH(bkts, 5, 1)(data, False); e['obs'] = dict(none=r is None, digest=[] if r is None else B(r))
                        except Exception as ex: e['raised'] = type(ex).__name__
                        ev.append(e); found += 1; ctx.mark(('exact-percentage quartiles', bkts, q1, q2, q3))
            if found >= (6 if big else 3): break
    except ImportError: pass
    # runs of identical bytes (zero padding, '=====' rules) longer than every window inside otherwise ordinary text
    for bkts, wnd, chk in ((128, 5, 1), (128, 5, 3), (256, 8, 3), (48, 4, 1), (128, 7, 3)):
        data = text(300) + b'=' * 12 + text(200) + bytes(20) + text(150) + b'\xff' * 9 + text(60)
        e = dict(op='tlsh', cfg=dict(buckets=bkts, wnd=wnd, chk=chk), data=B(data), force=False, raised='', obs=dict(none=True, digest=[]))
        try:
            r = T.TLSH(bkts, wnd, chk)(data, False); e['obs'] = dict(none=r is None, digest=[] if r is None else core.SB(r))
        except Exception as ex: e['raised'] = type(ex).__name__
        ev.append(e); ctx.mark(('runs', bkts, wnd, chk))
    # very long inputs: one bucket counts far beyond 2^16
    for data in ([bytes(66000) + text(2500), bytes(66000)] if big else [bytes(66000) + text(2500)]):
        e = dict(op='tlsh', cfg=dict(buckets=128, wnd=5, chk=1), data=B(data), force=False, raised='', obs=dict(none=True, digest=[]))
        try:
            r = T.TLSH(128, 5, 1)(data, False); e['obs'] = dict(none=r is None, digest=[] if r is None else B(r))
        except Exception as ex: e['raised'] = type(ex).__name__
        ev.append(e); ctx.mark(('long input', len(data)))
    # the length byte for EVERY data length up to 6000 and samples beyond (the length attribute is assigned, nothing is hashed)
    lv = []
    for l in list(range(1, 6001)) + [rnd.randrange(6001, 1 << 24) for _ in range(300)] + [(1 << k) + d for k in range(13, 24) for d in (-1, 0, 1)]:
        e = dict(op='tlsh_lvalue', len=l, raised='', obs=-1)
        try:
            o = T.TLSH(128); o.data_len = l; v = o.l_capturing(); e['obs'] = int(v) if isinstance(v, int) or hasattr(v, '__int__') else -1
        except Exception as ex: e['raised'] = type(ex).__name__
        lv.append(e)
    ctx.mark(('lvalue', len(lv)))
    # the module-level singleton
    for n in (40, 300):
        data = text(n); e = dict(op='tlsh', cfg=dict(buckets=128, wnd=5, chk=1), data=B(data), force=False, raised='', obs=dict(none=True, digest=[]))
        try:
            r = T.tlsh(data); e['obs'] = dict(none=r is None, digest=[] if r is None else B(r))
        except Exception as ex: e['raised'] = type(ex).__name__
        ev.append(e)
    # reload and distances
    for (buckets, wnd, chk), lst in digests.items():
        cfg = dict(buckets=buckets, wnd=wnd, chk=chk)
        for (h, obj, fields, _d, _f) in lst[: (None if big else 2)]:
            e = dict(op='tlsh_reload', cfg=cfg, h=B(h), fields=fields, raised='', obs={})
            try:
                o2 = T.TLSH(buckets, wnd, chk).from_hash(h); o2.digest()
                e['obs'] = dict(bytes=core.SB(o2.lsh_code), fields=tlsh_fields(o2))
            except Exception as ex: e['raised'] = type(ex).__name__
            ev.append(e)
        pairs = [(lst[i], lst[j]) for i in range(len(lst)) for j in range(len(lst))][: (40 if big else 4)]
        if wnd != 5 and not big: pairs = pairs[:2]
        for (h1, o1, _, dat1, fo1), (h2, o2, _, dat2, fo2) in pairs:
            e = dict(op='tlsh_dist', cfg=cfg, d1=B(h1), d2=B(h2), raised='', obs=[])
            try:
                f1 = T.TLSH(buckets, wnd, chk).final(dat1, fo1); f2 = T.TLSH(buckets, wnd, chk).final(dat2, fo2)       # finalised objects on which digest() was never called
                vals = [T.distance(o1, o2), T.distance(h1, h2), T.distance(o1, h2), T.distance(h1, o2), T.distance(o2, o1), T.distance(h2, h1), o1.distance_to(o2),
                        T.distance(f1, f2), T.distance(f1, h2), T.distance(T.TLSH(buckets, wnd, chk).final(dat2, fo2), T.TLSH(buckets, wnd, chk).final(dat1, fo1))]
                e['obs'] = [v if isinstance(v, int) and not isinstance(v, bool) else -1 for v in vals]
            except Exception as ex: e['raised'] = type(ex).__name__
            ev.append(e); ctx.mark(('dist', buckets, wnd, chk, h1[:4].hex(), h2[:4].hex()))
    # Nilsimsa
    nds = {}
    for target in ((None, 53, 17, 1, 255, 54, 0) if big else (None, 17, 0)):
        tv = 53 if target is None else target
        for n in ([0, 1, 2, 3, 4, 5, 6, 20, 100, 300] + [32 * q + d for q in range(1, 9) for d in (2, 3, 4, 5)] if big else [0, 1, 3, 4, 5, 6, 40, 150, 34, 35, 36, 67, 68, 99, 100, 131]):   # incl. both sides of every step of the threshold (8n-28)//256
            data = text(n) if n % 2 else (rb(n) if n % 4 else binary(n))
            e = dict(op='nil', target=tv, data=B(data), raised='', obs=[])
            try:
                r = (N.Nilsimsa() if target is None else N.Nilsimsa(target))(data); e['obs'] = core.SB(r)
                nds.setdefault(tv, []).append(bytes(r))
            except Exception as ex: e['raised'] = type(ex).__name__
            ev.append(e); ctx.mark(('nil', tv, n))
        # every byte cut of seeded strings (the Nilsimsa clause of C14)
        for n in ((5, 9, 17, 40, 10, 18) if big else (5, 12, 10)):
            data = text(n) if n % 2 or n == 12 or n == 40 else binary(n)
            for cut in range(n + 1):
                e = dict(op='nil_split', target=tv, a=B(data[:cut]), b=B(data[cut:]), raised='', obs=[])
                try: e['obs'] = B((N.Nilsimsa() if target is None else N.Nilsimsa(target)).update(data[:cut]).update(data[cut:]).digest())
                except Exception as ex: e['raised'] = type(ex).__name__
                ev.append(e); ctx.mark(('nilcut', tv, n, cut))
        # more than one cut: short (0..3 byte) middle pieces, byte-at-a-time feeding, random multi-cuts
        def multi(pieces):
            e = dict(op='nil_multi', target=tv, pieces=[B(x) for x in pieces], raised='', obs=[])
            try:
                o = N.Nilsimsa() if target is None else N.Nilsimsa(target)
                for x in pieces: o.update(x)
                e['obs'] = core.SB(o.digest())
            except Exception as ex: e['raised'] = type(ex).__name__
            ev.append(e)
        data = text(23)
        for a in ((3, 7, 12) if not big else range(0, 20, 2)):
            for mid in (0, 1, 2, 3):
                multi([data[:a], data[a:a + mid], data[a + mid:]]); ctx.mark(('nilmulti', tv, a, mid))
        multi([data[j:j + 1] for j in range(len(data))])
        data = b'\xff\x00ab\x00\xff\xff\x00' + binary(12)
        for a in (4, 5, 9): multi([data[:a], data[a:a + 1], data[a + 1:]])
        multi([data[j:j + 1] for j in range(len(data))])
        for _ in range(6 if big else 2):
            d2 = text(rnd.randrange(10, 60)); cuts = sorted(rnd.randrange(len(d2) + 1) for _ in range(rnd.randrange(2, 6)))
            multi([d2[x:y] for x, y in zip([0] + cuts, cuts + [len(d2)])])
    for tv, lst in nds.items():
        for i in range(min(len(lst), 6)):
            for j in (i, (i + 1) % len(lst), (i + 3) % len(lst)):
                e = dict(op='nil_dist', d1=B(lst[i]), d2=B(lst[j]), raised='', obs=[])
                try: e['obs'] = [int(N.distance(lst[i], lst[j])), int(N.distance(lst[j], lst[i]))]
                except Exception as ex: e['raised'] = type(ex).__name__
                ev.append(e)
    ctx.exhaustive_subspaces.append('all 3 x 5 x 2 TLSH configurations; data lengths {0,4,49,50,51,255,256,257,700,...}; Nilsimsa: every byte cut of the seeded strings')
    ctx.evaluations = len(ev) + len(lv); ctx.sample({a: (v if a != 'data' else v[:20]) for a, v in ev[3].items()}); ctx.sample({a: v for a, v in ev[-1].items()})
    traces = [dict(ev=ev[i:i + 6]) for i in range(0, len(ev), 6)] + [dict(ev=lv[i:i + 300]) for i in range(0, len(lv), 300)]
    bad = ctx.validate('trace/Trace_Simil.tla', traces, lambda t: len(t['ev']), what='Trace_Simil')
    for tid, recs in bad.items():
        for rec in recs:
            e = traces[tid - 1]['ev'][rec['step'] - 1]
            for cl in rec['bad']:
                attrs = dict(op=e['op'], clause=cl['c'], raised=e['raised'])
                if e['op'] == 'tlsh':
                    attrs.update(buckets=e['cfg']['buckets'], datalen=len(e['data']), force=e['force'], expect_none=(cl['e'] == 'None'))
                ctx.violation('simil.' + e['op'], ('raises:' + e['raised']) if cl['c'] == 'must-not-raise' else 'wrong:' + cl['c'], attrs,
                              dict(event={a: v for a, v in e.items() if a != 'data'}, datalen=len(e.get('data', [])), expected=cl['e']))
    good = [e for e in ev if e['op'] == 'tlsh' and not e['raised'] and not e['obs']['none']][0]
    def corrupt(t): t['ev'][0]['obs']['digest'][3] ^= 1; return t
    ctx.binding_selftest('trace/Trace_Simil.tla', dict(ev=[good]), lambda t: len(t['ev']), corrupt, 'Trace_Simil: flipped TLSH digest bit')
    ctx.assumptions += ['TLSH inputs are bytes of at most a few kB (the L-value thresholds are exact there)', '48 buckets = first 48 of the 256 counts (reference 3.x min-hash), at least 18 non-zero buckets',
                        'the 256-entry Pearson table is pinned from the repository (validated through the three official TLSH vectors only)', 'TLSH update() across several calls is not part of C19']
    return ctx.finish('TLSH digests / None for all configurations x length gates x content classes, reloads, distances in every calling form; Nilsimsa digests, byte cuts, distances - each recomputed by TLC')
