"""Recording real crysp block ciphers and their exposed components as events for Trace_Cipher (C02, C03, C18)."""
from core import B, limbs

def ci(c, keys, tweak=b''):
    return dict(c=c, keys=[B(k) for k in keys], tweak=B(tweak))

def construct(c, keys, tweak=b''):
    from crysp import aes, des, serpent, threefish
    if c == 'aes': return aes.AES(*keys)
    if c == 'des': return des.DES(*keys)
    if c == 'tdea': return des.TDEA(*keys)
    if c == 'serpent': return serpent.Serpent(*keys)
    if c == 'threefish': return threefish.Threefish(keys[0], tweak)
    raise ValueError(c)

def ev_new(c, keys, tweak=b''):
    e = dict(op='new', ci=ci(c, keys, tweak), raised='')
    try: construct(c, keys, tweak)
    except Exception as ex: e['raised'] = type(ex).__name__
    return e

def _out(r): return B(r) if isinstance(r, bytes) else [-1]

def ev_crypt(obj, cirec, op, blk):
    e = dict(op=op, ci=cirec, blk=B(blk), raised='', obs=[])
    try: e['obs'] = _out(getattr(obj, op)(blk))
    except Exception as ex: e['raised'] = type(ex).__name__
    return e

def ev_pair_blocks(obj, cirec, blk):
    """dec(enc(B)) and enc(dec(B)) computed by the code"""
    e = dict(op='pair', name=cirec['c'], ci=cirec, x=B(blk), raised='', obs={})
    try: e['obs'] = dict(fg=_out(obj.dec(obj.enc(blk))), gf=_out(obj.enc(obj.dec(blk))))
    except Exception as ex: e['raised'] = type(ex).__name__
    return e

def block_classes(n, rnd, walk):
    out = [bytes(n), b'\xff' * n, bytes(range(n))]
    for p in walk: out.append((1 << p).to_bytes(n, 'big'))
    return out

def key_classes(c, n, rnd, nwalk, nrand):
    ks = [bytes(n), b'\xff' * n]
    bits = list(range(8 * n)); rnd.shuffle(bits)
    for p in bits[:nwalk]: ks.append((1 << p).to_bytes(n, 'big'))
    for _ in range(nrand): ks.append(bytes(rnd.randrange(256) for _ in range(n)))
    if c == 'des':
        ks += [bytes.fromhex(x) for x in ('0101010101010101', 'fefefefefefefefe', 'e0e0e0e0f1f1f1f1', '1f1f1f1f0e0e0e0e',   # weak
                                          '01fe01fe01fe01fe', 'fe01fe01fe01fe01', '1fe01fe00ef10ef1', 'e01fe01ff10ef10e',   # semi-weak
                                          '133457799bbcdff1', '123456788abcdef0')]                                    # parity variants
    if c == 'threefish':
        ks += [b'\xff' * 8 + bytes(n - 8), bytes(n - 8) + b'\xff' * 8]                  # all-one / zero 64-bit words
    # "short" words: every 32/64-bit word has leading zero bytes under either byte order (a representation sized by the value loses carries / digits)
    if n % 8 == 0: ks += [(b'\xff' * 4 + bytes(4)) * (n // 8), (bytes(4) + b'\xff' * 4) * (n // 8), (b'\xff\xff' + bytes(6)) * (n // 8), (b'\x00' * 7 + b'\xfe') * (n // 8)]
    else: ks += [(b'\xff' + bytes(3)) * (n // 4) + bytes(n % 4), (bytes(3) + b'\xff') * (n // 4) + bytes(n % 4)]
    # keys whose integer value is a multiple of 2^61-1 or 2^31-1 (the moduli of CPython's int hash) under either byte order: with the zero key in
    # the same process, anything keyed by hash(key) instead of the key itself confuses them
    if n >= 8:
        for mod in ((1 << 61) - 1, (1 << 31) - 1):
            ks += [mod.to_bytes(n, 'little'), mod.to_bytes(n, 'big')]
    return ks

# ---- components ---------------------------------------------------------------------------------------------
def bits_of(x, n): return [(x >> j) & 1 for j in range(n)]
def comp(op, fn, **kw):
    e = dict(op=op, raised='', obs=[]); e.update(kw)
    try: e['obs'] = fn()
    except Exception as ex: e['raised'] = type(ex).__name__
    return e

SKIPPED = []
def have(mod, *names):
    """all the public names a component group needs; a missing one (refactored away) -> the group is skipped with a note"""
    miss = [n for n in names if not hasattr(mod, n)]
    if miss: SKIPPED.append('%s: %s not found, component group skipped' % (getattr(mod, '__name__', mod), ', '.join(miss)))
    return not miss

def aes_components(rnd, nrand):
    from crysp import aes
    from crysp.poly import Poly
    ev = []
    if not (have(aes, 'AES', 'gmul', 'Rcon', 'Sbox', 'Sbox_inv') and have(aes.AES, 'sboxtable', 'sboxinvtable', 'ShiftRows', 'InvShiftRows', 'MixColumns', 'InvMixColumns', 'SubBytes', 'InvSubBytes')): return ev
    ev.append(comp('table', lambda: [int(x) for x in aes.AES.sboxtable.ival], name='aes_sbox'))
    ev.append(comp('table', lambda: [int(x) for x in aes.AES.sboxinvtable.ival], name='aes_sboxinv'))
    ev.append(comp('table', lambda: [int(x) for x in aes.Rcon[1:11]], name='rcon'))
    def row(a):
        out = []
        for b in range(256):
            try: out.append(int(aes.gmul(a, b)))
            except Exception: out.append(-1)
        return out
    for a in range(256): ev.append(comp('gmul_row', lambda a=a: row(a), a=a))
    o = aes.AES(bytes(16))
    states = [[(1 << (p % 8)) if p // 8 == j else 0 for j in range(16)] for p in range(128)]
    states += [[rnd.randrange(256) for _ in range(16)] for _ in range(nrand)] + [[0] * 16, [255] * 16]
    pairs = (('SubBytes', 'InvSubBytes'), ('ShiftRows', 'InvShiftRows'), ('MixColumns', 'InvMixColumns'))
    def step(name, s):
        st = Poly(list(s), 8); getattr(o, name)(st); return [int(x) for x in st.ival]
    for s in states:
        for f, g in pairs:
            ev.append(comp('aes_step', lambda f=f, s=s: step(f, s), name=f, s=list(s)))
            ev.append(comp('aes_step', lambda g=g, s=s: step(g, s), name=g, s=list(s)))
            ev.append(comp('pair', lambda f=f, g=g, s=s: dict(fg=step(g, step(f, s)), gf=step(f, step(g, s))), name=f, x=list(s)))
    # S-box pair on the whole domain
    def sb(x):
        return dict(fg=[int(aes.Sbox_inv(aes.Sbox(Poly([x], 8))).ival[0])], gf=[int(aes.Sbox(aes.Sbox_inv(Poly([x], 8))).ival[0])])
    for x in range(256): ev.append(comp('pair', lambda x=x: sb(x), name='aes_Sbox', x=[x]))
    return ev

def des_components():
    from crysp import des
    from crysp.bits import Bits
    ev = []
    if not have(des, 'S', 'IP', 'IPinv', 'PC1', 'PC2', 'E', 'P'): return ev
    def box(n):
        return [int(des.S(n, x).ival) for x in range(64)]
    for n in range(8): ev.append(comp('table', lambda n=n: box(n), name='des_sbox', n=n))
    perms = dict(IP=(des.IP, 64), IPinv=(des.IPinv, 64), PC1=(des.PC1, 64), PC2=(des.PC2, 56), E=(des.E, 32), P=(des.P, 32))
    def bl(b): return [int(v) for v in b.bitlist()]
    for name, (fn, n) in perms.items():
        for p in list(range(n)) + [-1, -2]:
            x = [1 if j == p else 0 for j in range(n)] if p >= 0 else ([1] * n if p == -1 else [j % 2 for j in range(n)])
            ev.append(comp('des_perm', lambda fn=fn, x=x: bl(fn(Bits(list(x)))), name=name, x=x))
    for p in list(range(64)) + [-1]:
        x = [1 if j == p else 0 for j in range(64)] if p >= 0 else [(j * 7 + 1) % 2 for j in range(64)]
        ev.append(comp('pair', lambda x=x: dict(fg=bl(des.IPinv(des.IP(Bits(list(x))))), gf=bl(des.IP(des.IPinv(Bits(list(x)))))), name='des_IP', x=x))
    return ev

def serpent_components(rnd, nrand):
    from crysp import serpent
    from crysp.bits import Bits
    ev = []
    if not have(serpent, '_S', '_Sinv', '_L', '_Linv', '_IP', '_FP'): return ev
    def W(bv): return [limbs(int(w), 2) for w in bv.split(32)]
    def mkX(words): return Bits(sum(w << (32 * j) for j, w in enumerate(words)), 128)
    def lw(words): return [limbs(w, 2) for w in words]
    # pattern p: column j holds nibble value (p + j) mod 16  => every (column, value) pair occurs
    pats = []
    for p in range(16):
        words = [0, 0, 0, 0]
        for j in range(32):
            v = (p + j) % 16
            for bit in range(4):
                if (v >> bit) & 1: words[bit] |= 1 << j
        pats.append(words)
    pats += [[rnd.getrandbits(32) for _ in range(4)] for _ in range(nrand)]
    for i in range(8):
        for words in pats:
            ev.append(comp('serp_s', lambda i=i, w=words: W(serpent._S(i, mkX(w))), inv=False, box=i, x=lw(words)))
            ev.append(comp('serp_s', lambda i=i, w=words: W(serpent._Sinv(i, mkX(w))), inv=True, box=i, x=lw(words)))
            ev.append(comp('pair', lambda i=i, w=words: dict(fg=W(serpent._Sinv(i, serpent._S(i, mkX(w)))), gf=W(serpent._S(i, serpent._Sinv(i, mkX(w))))), name='serp_S%d' % i, x=lw(words)))
    units = [[(1 << (p % 32)) if p // 32 == j else 0 for j in range(4)] for p in range(128)] + [[rnd.getrandbits(32) for _ in range(4)] for _ in range(nrand)]
    for words in units:
        ev.append(comp('serp_l', lambda w=words: W(serpent._L(mkX(w))), inv=False, x=lw(words)))
        ev.append(comp('serp_l', lambda w=words: W(serpent._Linv(mkX(w))), inv=True, x=lw(words)))
        ev.append(comp('pair', lambda w=words: dict(fg=W(serpent._Linv(serpent._L(mkX(w)))), gf=W(serpent._L(serpent._Linv(mkX(w))))), name='serp_L', x=lw(words)))
        xb = [int(b) for b in mkX(words).bitlist()]
        ev.append(comp('serp_p', lambda w=words: [int(b) for b in serpent._IP(mkX(w)).bitlist()], name='IP', x=xb))
        ev.append(comp('serp_p', lambda w=words: [int(b) for b in serpent._FP(mkX(w)).bitlist()], name='FP', x=xb))
        ev.append(comp('pair', lambda w=words: dict(fg=[int(b) for b in serpent._FP(serpent._IP(mkX(w))).bitlist()], gf=[int(b) for b in serpent._IP(serpent._FP(mkX(w))).bitlist()]), name='serp_IP', x=xb))
    return ev

def classify(ctx, tr, recs, api_prefix=''):
    for rec in recs:
        e = tr['ev'][rec['step'] - 1]
        for cl in rec['bad']:
            attrs = dict(op=e['op'], clause=cl['c'], raised=e.get('raised', ''))
            if 'ci' in e:
                c = e['ci']
                attrs.update(cipher=c['c'], nkeys=len(c['keys']), keylen=len(c['keys'][0]) if c['keys'] else 0, tweaklen=len(c['tweak']))
                if 'blk' in e: attrs['blklen'] = len(e['blk'])
            if 'name' in e: attrs['name'] = e['name']
            if e['op'] == 'gmul_row':
                attrs['a_zero'] = e['a'] == 0
                attrs['only_b0_raises'] = (e['raised'] == '' and isinstance(cl['e'], list) and all((o == x) or (j == 0 and o == -1) for j, (o, x) in enumerate(zip(e['obs'], cl['e']))))
            if cl['c'] == 'must-not-raise': sym = 'raises:' + e['raised']
            elif cl['c'] == 'must-reject': sym = 'no-raise'
            else: sym = 'wrong:' + cl['c']
            api = (e['ci']['c'] + '.' + e['op']) if 'ci' in e else (e['op'] + ':' + e.get('name', ''))
            ctx.violation(api, sym, attrs, dict(event={k: v for k, v in e.items() if k != 'obs' or len(str(v)) < 3000}, expected=cl['e'] if len(str(cl['e'])) < 3000 else '(long)'))

def validate(ctx, events, what, per=20, chunk=4000):
    traces = [dict(ev=events[i:i + per]) for i in range(0, len(events), per)]
    for a in range(0, len(traces), chunk):
        part = traces[a:a + chunk]
        bad = ctx.validate('trace/Trace_Cipher.tla', part, lambda t: len(t['ev']), what='%s[%d:%d]' % (what, a, a + len(part)))
        for tid, recs in bad.items(): classify(ctx, part[tid - 1], recs)
    ctx.evaluations += len(events)
