"""C18 - white-box DES.  Spec: the refinement obligation WhiteDES(tables(K)).enc(B) = DES_K(B) with DES from FIPS 46-3
(prim/Des, validated at setup against OpenSSL-frozen vectors and table theorems) - not crysp.des, so an error shared
by both is visible.  Each generated table network is a program validated on the 64 single-bit blocks, zero, ones and
random blocks; table shapes and key-independence of M1/M2/M3 are checked."""
import core
from core import B, limbs

def run(ctx):
    ctx.claim_exhaustive = False      # keys / messages / parameters are sampled over an enumerated grid; only the spec-level models are exhaustive
    rnd = ctx.rnd; big = ctx.big()
    from crysp import wb
    from crysp.bits import Bits
    rb = lambda n: bytes(rnd.randrange(256) for _ in range(n))
    keys = [bytes(8), b'\xff' * 8] + [bytes.fromhex(x) for x in ('0101010101010101', 'fefefefefefefefe', 'e0e0e0e0f1f1f1f1', '1f1f1f1f0e0e0e0e', '01fe01fe01fe01fe', 'e01fe01ff10ef10e')]
    keys += [bytes.fromhex('133457799bbcdff1'), bytes.fromhex('123456788abcdef0')]          # differ only in parity bits
    twins = [bytes.fromhex('0123456789abcdef'), bytes.fromhex('8123456789abcdef'), bytes(8), b'\x80' * 8, bytes.fromhex('01a3c5e789abcdef'), bytes.fromhex('0123456709abcd6f')]   # differ only in the top bit of some key bytes
    nk = 150 if big else 8
    walk = [(1 << p).to_bytes(8, 'big') for p in rnd.sample(range(64), 20 if big else 2)]
    keys = (keys + twins + walk + [rb(8) for _ in range(200)])[:nk] if big else (keys[:2] + keys[8:10] + twins[:4] + walk[:1] + [keys[4], rb(8)])
    traces = []; cur = []
    for ki, K in enumerate(keys):
        e = dict(op='wb_tables', key=B(K), raised='', shape={}, indep={})
        wt = None
        try:
            KT = [wb.table_rKT(r, Bits(K, 64))[1] for r in range(16)]
            M1, M2, M3 = wb.table_M1(), wb.table_M2()[0], wb.table_M3()
            lens = [len(t) for r in KT for t in r]
            e['shape'] = dict(rounds=len(KT), tables=max(len(r) for r in KT) if all(len(r) == len(KT[0]) for r in KT) else -1, minlen=min(lens), maxlen=max(lens),
                              inrange=all(isinstance(v, int) and 0 <= v <= 255 for r in KT for t in r for v in t))
            e['indep'] = dict(M1=[int(v) for v in M1], M2=[limbs(int(v), 6) for v in M2], M3=[int(v) for v in M3])
            wt = wb.WhiteDES(KT, M1, M2, M3)
        except Exception as ex: e['raised'] = type(ex).__name__
        cur.append(e)
        if wt is not None:
            blocks = [(1 << p).to_bytes(8, 'big') for p in range(64)] + [bytes(8), b'\xff' * 8] + [rb(8) for _ in range(64 if big else 4)]
            for blk in blocks:
                ev = dict(op='wb_enc', key=B(K), blk=B(blk), raised='', obs=[])
                try: ev['obs'] = core.SB(wt.enc(blk))
                except Exception as ex: ev['raised'] = type(ex).__name__
                cur.append(ev); ctx.mark((K.hex(), blk.hex()))
        if len(cur) > 150 or ki == len(keys) - 1:
            traces.append(dict(ev=cur)); cur = []
    # --- generation orders and object lifetimes -----------------------------------------------------------------------------------
    def network(KT):
        return wb.WhiteDES(KT, wb.table_M1(), wb.table_M2()[0], wb.table_M3())
    def probe(wt, K, blocks, note):
        out = []
        for blk in blocks:
            ev = dict(op='wb_enc', key=B(K), blk=B(blk), raised='', obs=[])
            try: ev['obs'] = core.SB(wt.enc(blk))
            except Exception as ex: ev['raised'] = type(ex).__name__
            out.append(ev); ctx.mark((note, K.hex(), blk.hex()))
        return out
    few = [bytes(8), b'\xff' * 8, (1 << 63).to_bytes(8, 'big'), (1).to_bytes(8, 'big'), rb(8), rb(8)]
    cur = []
    try:
        Ka, Kb, Kc = rb(8), rb(8), bytes.fromhex('0123456789abcdef')
        # (1) the tables of three keys generated round by round in turns (round outer, key inner), one of them in descending round order
        KTs = {k: [None] * 16 for k in (Ka, Kb, Kc)}
        for r in range(16):
            for k in (Ka, Kb): KTs[k][r] = wb.table_rKT(r, Bits(k, 64))[1]
            KTs[Kc][15 - r] = wb.table_rKT(15 - r, Bits(Kc, 64))[1]
        for k in (Ka, Kb, Kc): cur += probe(network(KTs[k]), k, few, 'interleaved generation')
        for order, kk in (([0, 4, 8, 12, 1, 5, 9, 13, 2, 6, 10, 14, 3, 7, 11, 15], Ka), (list(range(0, 16, 2)) + list(range(1, 16, 2)), Kb), ([15, 0, 14, 1, 13, 2, 12, 3, 11, 4, 10, 5, 9, 6, 8, 7], Kc)):
            KTo = [None] * 16
            for r in order: KTo[r] = wb.table_rKT(r, Bits(kk, 64))[1]                 # one key, rounds in a non-consecutive order, no other key in between
            cur += probe(network(KTo), kk, few[:4], 'rounds generated out of order')
        # (2) ONE key object edited in place between two generations
        KB = Bits(Ka, 64); KT1 = [wb.table_rKT(r, KB)[1] for r in range(16)]
        KB[0:64] = Bits(Kb, 64); KT2 = [wb.table_rKT(r, KB)[1] for r in range(16)]
        cur += probe(network(KT1), Ka, few[:3], 'key object edited in place') + probe(network(KT2), Kb, few, 'key object edited in place')
        # (3) one network object used for many distinct blocks, then asked again for the first ones
        # (2') the key-independent tables generated ONCE and handed to several networks (a constructor must leave its arguments alone)
        M1s, M2s, M3s = wb.table_M1(), wb.table_M2()[0], wb.table_M3(); snap0 = (list(M1s), list(M2s), list(M3s))
        nets = [(k, wb.WhiteDES(KTs[k], M1s, M2s, M3s)) for k in (Ka, Kb, Kc, Ka)]
        for k, wtk in nets: cur += probe(wtk, k, few[:3], 'shared key-independent tables')
        if (list(M1s), list(M2s), list(M3s)) != snap0: cur.append(dict(op='wb_tables', key=B(Ka), raised='ArgumentTablesChangedByConstructor', shape={}, indep={}))
        wt = network(KT1); first = [rb(8) for _ in range(3)]
        cur += probe(wt, Ka, first, 'long-lived network')
        for bad in (b'x' * 7, b'x' * 9, b'x' * 7):                       # refused calls (dec is not implemented / wrong block size) leave nothing behind
            for op in ('dec', 'enc'):
                try: getattr(wt, op)(bad)
                except Exception: pass
        cur += probe(wt, Ka, first[:2], 'after refused calls')
        for i in range(600 if big else 530): wt.enc(((i * 0x9E3779B97F4A7C15 + 1) & ((1 << 64) - 1)).to_bytes(8, 'big'))
        cur += probe(wt, Ka, first + [rb(8)], 'long-lived network')
    except Exception as ex:
        cur.append(dict(op='wb_tables', key=B(bytes(8)), raised='Harness:' + type(ex).__name__, shape={}, indep={}))
    traces.append(dict(ev=cur))
    ctx.exhaustive_subspaces.append('per generated table network: all 64 single-bit blocks + zero + ones (+ random); table shape of all 16 x 12 T-boxes')
    ctx.evaluations = sum(len(t['ev']) for t in traces)
    ctx.sample({k: v for k, v in traces[0]['ev'][1].items()}); ctx.sample(dict(op='wb_tables', shape=traces[0]['ev'][0]['shape']))
    bad = ctx.validate('trace/Trace_WhiteBox.tla', traces, lambda t: len(t['ev']), what='Trace_WhiteBox')
    for tid, recs in bad.items():
        for rec in recs:
            e = traces[tid - 1]['ev'][rec['step'] - 1]
            for cl in rec['bad']:
                attrs = dict(op=e['op'], clause=cl['c'], raised=e['raised'])
                ctx.violation('wb.' + e['op'], ('raises:' + e['raised']) if cl['c'] == 'must-not-raise' else 'wrong:' + cl['c'], attrs,
                              dict(key=e['key'], blk=e.get('blk'), obs=e.get('obs'), expected=cl['e']))
    clean = dict(ev=[x for x in traces[0]['ev'][:3]])
    def corrupt(t): t['ev'][1]['obs'][7] ^= 1; return t
    ctx.binding_selftest('trace/Trace_WhiteBox.tla', clean, lambda t: len(t['ev']), corrupt, 'Trace_WhiteBox: flipped ciphertext bit')
    ctx.assumptions += ['keys and blocks are sampled (all 2^64 x 2^64 is out of reach): weak/semi-weak keys, parity variants, walking-one and random keys; single-bit, zero, ones and random blocks',
                        'the internal encoding of the tables is deliberately not specified']
    return ctx.finish('each generated table network (a program) evaluated on a basis of blocks and judged by TLC against FIPS 46-3 DES; table shapes and key-independent tables compared', level='model_checking',
                      extra=dict(programs=len(keys)))
