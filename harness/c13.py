"""C13 - HMAC.  MC: key register over a symbolic hash (MC_Hmac).  Bind: HMAC over all 14 block hashes, key
lengths around digest and block size up to 3 blocks, key replacement sequences; TLC evaluates RFC 2104 over the
TLA+ hash specifications (Trace_Hmac)."""
import core, hashrec as H
from core import B

def run(ctx):
    ctx.claim_exhaustive = False      # keys / messages / parameters are sampled over an enumerated grid; only the spec-level models are exhaustive
    rnd = ctx.rnd; big = ctx.big()
    ctx.model_check('mc/MC_Hmac.tla', what='MC_Hmac (key register, symbolic hash)')
    from crysp.hmac import HMAC
    names = H.MDSHA + H.BLAKES
    traces = []
    shared_keys = {}
    for ai, name in enumerate(names):
        Bb = H.blockbytes(name); dg = H.outlen(name)
        klens = [0, 1, dg - 1, dg, dg + 1, Bb - 1, Bb, Bb + 1, 2 * Bb, 3 * Bb]
        if big: klens += [2, Bb // 2, Bb + dg, 2 * Bb + 1, 3 * Bb - 1] + [rnd.randrange(0, 3 * Bb + 1) for _ in range(6)]
        mlens = [0, 3, Bb - 1, Bb, Bb + 1] if big else [0, 3, Bb + 1]
        seqs = []
        for i, kl in enumerate(klens):
            # new(K1); mac; setkey(K2); mac; setkey(K1); mac  with K2 of a different length class
            k2 = klens[(i + 3) % len(klens)]
            if not big and i % 2 and kl not in (Bb + 1, 2 * Bb): seqs.append([kl])
            else: seqs.append([kl, k2, kl])
        for si, seq in enumerate(seqs):
            keys = {}
            ev = []
            obj = None
            for j, kl in enumerate(seq):
                def mk(kl=kl):
                    if (si + ai) % 2 == 0:                # every other key is shared by all hashes with that key length (same bytes under SHA-512, SHA-512/224, SHA-512/256, ...)
                        if kl not in shared_keys: shared_keys[kl] = bytes(rnd.randrange(256) for _ in range(kl))
                        return shared_keys[kl]
                    k = bytearray(rnd.randrange(256) for _ in range(kl))
                    cls = (si + ai) % 6            # content classes: bytes that cancel against ipad / opad, leading zero bytes
                    if kl and cls == 1: k[0] = 0x36
                    if kl and cls == 2: k[0] = 0x5c
                    if kl and cls == 3: k[:2] = b'\x00\x00'[:kl]
                    if kl and cls == 4: k = bytearray(b'\x36' * kl)
                    return bytes(k)
                K = keys.setdefault(kl, mk())
                e = dict(op='setkey', key=B(K), raised='')
                try:
                    if obj is None: obj = HMAC(H.make(name), K)
                    else: obj.setkey(K)
                except Exception as ex: e['raised'] = type(ex).__name__
                ev.append(e)
                for ml in (mlens if j == 0 else mlens[:1 + (si % 2)]):
                    M = bytes(rnd.randrange(256) for _ in range(ml))
                    e = dict(op='mac', m=B(M), raised='', out=[])
                    try:
                        r = obj(M); e['out'] = B(r) if isinstance(r, bytes) else []
                    except Exception as ex: e['raised'] = type(ex).__name__
                    ev.append(e)
            traces.append(dict(alg=H.ALGS[name], name=name, ev=ev, klens=seq)); ctx.mark((name, str(seq)))
    for name in ('md5', 'sha1', 'sha256', 'blake256'):
        obj = HMAC(H.make(name), b'zero-edge key')
        for M in core.zero_edge_inputs(lambda x: obj(x), lambda i: b'zh-%d-%d' % (ctx.seed, i), want=1, tries=500):
            o2 = HMAC(H.make(name), b'zero-edge key'); e = dict(op='mac', m=B(M), raised='', out=[])
            try: e['out'] = B(o2(M))
            except Exception as ex: e['raised'] = type(ex).__name__
            traces.append(dict(alg=H.ALGS[name], name=name, ev=[dict(op='setkey', key=B(b'zero-edge key'), raised=''), e], klens=[13])); ctx.mark((name, 'zero-edge'))
    # long messages (page-sized pieces: exact multiples of 4096 and one byte more)
    for name in (('md5', 'sha1', 'sha256', 'sha512', 'blake256') if big else ('md5', 'sha1')):
        K = bytes(rnd.randrange(256) for _ in range(16)); obj = HMAC(H.make(name), K); ev = [dict(op='setkey', key=B(K), raised='')]
        for ml in ((4096, 8192, 4097, 12288) if big else (4096, 8192, 4097)):
            M = bytes(rnd.randrange(256) for _ in range(ml)); e = dict(op='mac', m=B(M), raised='', out=[])
            try:
                r = obj(M); e['out'] = B(r) if isinstance(r, bytes) else []
            except Exception as ex: e['raised'] = type(ex).__name__
            ev.append(e)
        traces.append(dict(alg=H.ALGS[name], name=name, ev=ev, klens=[16])); ctx.mark((name, 'long messages'))
    ctx.sample(dict(alg=traces[0]['name'], keylens=traces[0]['klens'], events=traces[0]['ev'][:3]))
    ctx.exhaustive_subspaces.append('key-length classes {0,1,dg-1,dg,dg+1,B-1,B,B+1,2B,3B} x 14 hashes; key replacement sequences K1,K2,K1')
    payload = [dict(alg=t['alg'], ev=t['ev']) for t in traces]
    bad = ctx.validate('trace/Trace_Hmac.tla', payload, lambda t: len(t['ev']), what='Trace_Hmac')
    ctx.evaluations = sum(len(t['ev']) for t in traces)
    for tid, recs in bad.items():
        t = traces[tid - 1]
        for rec in recs:
            e = t['ev'][rec['step'] - 1]
            lastkey = [x for x in t['ev'][:rec['step']] if x['op'] == 'setkey'][-1]
            Bb = H.blockbytes(t['name'])
            for cl in rec['bad']:
                attrs = dict(alg=t['name'], op=e['op'], clause=cl['c'], raised=e['raised'], key_longer_than_block=len(lastkey['key']) > Bb, long_message=len(e.get('m', [])) >= 4096,
                             nth_key=sum(1 for x in t['ev'][:rec['step']] if x['op'] == 'setkey'))
                sym = ('raises:' + e['raised']) if cl['c'] == 'must-not-raise' else 'wrong:' + cl['c']
                ctx.violation('HMAC.' + e['op'], sym, attrs, dict(alg=t['name'], keylens=t['klens'], event=e, step=rec['step'], expected=cl['e']))
    clean = dict(alg=traces[0]['alg'], ev=[e for e in traces[0]['ev'][:2]])
    def corrupt(t): t['ev'][1]['out'][0] ^= 1; return t
    ctx.binding_selftest('trace/Trace_Hmac.tla', clean, lambda t: len(t['ev']), corrupt, 'Trace_Hmac: flipped MAC bit')
    ctx.assumptions += ['hash objects with a block size: MD4, MD5, SHA-0/1, SHA-2 family, BLAKE-224..512 (salt 0)', 'keys and messages are seeded random bytes; lengths are the enumerated dimension']
    return ctx.finish('per hash: key-length classes x message lengths x key replacement sequences, every MAC recomputed by TLC over the TLA+ hash specs; distinct = (hash, key length sequence)')
