"""Running TLC and reading what it printed.  Stdlib only."""
import json, os, re, shutil, subprocess, time, tempfile

VERIF = os.path.dirname(os.path.dirname(os.path.abspath(__file__)))
SPEC = os.path.join(VERIF, 'spec')
LIBPATH = ':'.join(os.path.join(SPEC, d) for d in ('base', 'prim', 'sys', 'mc', 'trace', 'selftest'))
WORK = os.path.join(VERIF, '.work')

class TlcError(Exception):
    pass

_stat_re = re.compile(r'^(\d+) states generated, (\d+) distinct states found, (\d+) states left on queue')

def parse_printed(stdout):
    """PrintT(ToJson(x)) shows up as one line holding a TLA+ string literal: "{\\"k\\":1,...}".
    Returns the list of decoded JSON values (lines that are not such literals are ignored)."""
    out = []
    for line in stdout.splitlines():
        line = line.strip()
        if len(line) >= 2 and line[0] == '"' and line[-1] == '"':
            try:
                s = json.loads(line)          # the TLA+ string literal uses JSON-compatible escapes
            except ValueError:
                continue
            if s[:1] in '{[':
                try:
                    out.append(json.loads(s))
                except ValueError:
                    pass
    return out

def run(module, cfg=None, env=None, workers=16, timeout=3600, extra=(), simulate=None, keep=False, xss='512m', heap=None):
    """module: path to the root .tla; cfg: path to .cfg (default: same name).  Returns a dict."""
    module = os.path.abspath(module)
    cfg = os.path.abspath(cfg) if cfg else module[:-4] + '.cfg'
    os.makedirs(WORK, exist_ok=True)
    meta = tempfile.mkdtemp(prefix='tlc_', dir=WORK)
    e = dict(os.environ)
    jopts = '-Xss%s -DTLA-Library=%s' % (xss, LIBPATH)
    if heap: jopts += ' -Xmx%s' % heap
    e['JAVA_TOOL_OPTIONS'] = jopts
    e['JDK_JAVA_OPTIONS'] = '-Xss%s' % xss        # the main thread (ASSUMEs, constant definitions) needs it too
    if env: e.update({k: str(v) for k, v in env.items()})
    cmd = ['tlc', '-workers', str(workers), '-metadir', meta, '-noGenerateSpecTE', '-config', cfg]
    if simulate: cmd += ['-simulate', simulate]
    cmd += list(extra) + [module]
    t0 = time.time()
    try:
        p = subprocess.run(cmd, cwd=os.path.dirname(module), env=e, stdout=subprocess.PIPE, stderr=subprocess.STDOUT,
                           timeout=timeout, text=True, errors='replace')
        stdout, rc, timed_out = p.stdout, p.returncode, False
    except subprocess.TimeoutExpired as ex:
        stdout = (ex.stdout or b'').decode('utf-8', 'replace') if isinstance(ex.stdout, bytes) else (ex.stdout or '')
        rc, timed_out = -9, True
        subprocess.run(['pkill', '-f', meta], check=False)
    finally:
        if not keep: shutil.rmtree(meta, ignore_errors=True)
    res = dict(cmd=' '.join(cmd), rc=rc, wall=time.time() - t0, stdout=stdout, timed_out=timed_out,
               generated=None, distinct=None, queue=None, errors=[], violated=[])
    for line in stdout.splitlines():
        m = _stat_re.match(line.strip())
        if m:
            res['generated'], res['distinct'], res['queue'] = int(m.group(1)), int(m.group(2)), int(m.group(3))
        if line.startswith('Error:'):
            res['errors'].append(line.strip())
            m2 = re.match(r'Error: Invariant (\S+) is violated', line)
            if m2: res['violated'].append(m2.group(1))
            m3 = re.match(r'Error: Action property (\S+) is violated', line)
            if m3: res['violated'].append(m3.group(1))
    res['printed'] = parse_printed(stdout)
    # -coverage: "<Action line a, col b to line c, col d of module M>: distinct:generated" (last report wins)
    acts = {}
    for m in re.finditer(r'^<(\w+) line \d+, col \d+ to line \d+, col \d+ of module (\w+)(?: \([\d ]+\))?>: (\d+):(\d+)', stdout, re.M):
        acts[m.group(1)] = [int(m.group(3)), int(m.group(4))]
    res['actions'] = acts
    return res

def must_ok(res, what=''):
    """Machinery-level acceptance of a TLC run: finished, no error, empty queue."""
    if res['timed_out']: raise TlcError('%s: TLC timed out\n%s' % (what, res['stdout'][-2000:]))
    if res['errors'] or res['generated'] is None or res['queue'] != 0:
        raise TlcError('%s: TLC failed (rc=%s)\n%s' % (what, res['rc'], res['stdout'][-4000:]))
    return res
