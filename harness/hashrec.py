"""Recording real crysp hash objects (MD4, MD5, SHA-0/1, SHA-2, BLAKE) as events for Trace_Hash."""
from core import B, limbs

ALGS = {
    'md4': dict(k='md4', size=0, t=0), 'md5': dict(k='md5', size=0, t=0),
    'sha0': dict(k='sha1', size=0, t=0), 'sha1': dict(k='sha1', size=1, t=0),
    'sha224': dict(k='sha2', size=224, t=0), 'sha256': dict(k='sha2', size=256, t=0),
    'sha384': dict(k='sha2', size=384, t=0), 'sha512': dict(k='sha2', size=512, t=0),
    'sha512_224': dict(k='sha2', size=512, t=224), 'sha512_256': dict(k='sha2', size=512, t=256),
    'blake224': dict(k='blake', size=224, t=0), 'blake256': dict(k='blake', size=256, t=0),
    'blake384': dict(k='blake', size=384, t=0), 'blake512': dict(k='blake', size=512, t=0),
}
MDSHA = ['md4', 'md5', 'sha0', 'sha1', 'sha224', 'sha256', 'sha384', 'sha512', 'sha512_224', 'sha512_256']
BLAKES = ['blake224', 'blake256', 'blake384', 'blake512']

def big(name):
    a = ALGS[name]
    return a['k'] in ('sha2', 'blake') and a['size'] > 256
def blockbytes(name): return 128 if big(name) else 64
def wordbytes(name): return 8 if big(name) else 4
def outlen(name):
    a = ALGS[name]
    if a['k'] in ('md4', 'md5'): return 16
    if a['k'] == 'sha1': return 20
    if a['k'] == 'sha2': return (a['t'] or a['size']) // 8
    return a['size'] // 8

def make(name):
    from crysp import md, sha, blake
    a = ALGS[name]
    if a['k'] == 'md4': return md.MD4()
    if a['k'] == 'md5': return md.MD5()
    if a['k'] == 'sha1': return sha.SHA1(a['size'])
    if a['k'] == 'sha2': return sha.SHA2(a['size'], a['t']) if a['t'] else sha.SHA2(a['size'])
    return blake.Blake(a['size'])

def salt_words(name, salt):
    """salt int -> 4 words (s0 most significant), each as limbs"""
    wb = wordbytes(name); nl = wb // 2
    ws = [(salt >> (8 * wb * (3 - j))) & ((1 << (8 * wb)) - 1) for j in range(4)]
    return [limbs(w, nl) for w in ws]

def obs_out(r):
    return B(r) if isinstance(r, bytes) else []

class Rec:
    def __init__(self, name):
        self.name = name; self.o = make(name); self.ev = []; self.kept = []
        self.isblake = ALGS[name]['k'] == 'blake'
    def bitcnt(self):
        try: return limbs(int(self.o.padmethod.bitcnt), 8)
        except Exception: return limbs(0, 8)
    def init(self, salt=0):
        e = dict(op='init', salt=salt_words(self.name, salt), raised='')
        try:
            if self.isblake and salt: self.o.initstate(salt)
            else: self.o.initstate()                    # no salt: the plain call (a BLAKE object must then forget an earlier salt)
        except Exception as ex: e['raised'] = type(ex).__name__
        self.ev.append(e); return e
    def call(self, m, bitlen=None, salt=0):
        e = dict(op='call', m=B(m), bitlen=-1 if bitlen is None else bitlen, salt=salt_words(self.name, salt), raised='', out=[])
        try:
            if self.isblake:
                r = self.o(m, salt, bitlen) if (bitlen is not None or salt) else self.o(m)
            else:
                r = self.o(m, bitlen) if bitlen is not None else self.o(m)
            e['out'] = obs_out(r); self.kept.append((e, r))
        except Exception as ex: e['raised'] = type(ex).__name__
        e['bitcnt'] = self.bitcnt()
        self.ev.append(e); return e
    def update(self, m, bitlen=None, padding=False):
        e = dict(op='update', m=B(m), bitlen=-1 if bitlen is None else bitlen, padding=bool(padding), raised='', out=[])
        try:
            kw = {}
            if bitlen is not None: kw['bitlen'] = bitlen
            r = self.o.update(m, padding=padding, **kw)
            e['out'] = obs_out(r)
        except Exception as ex: e['raised'] = type(ex).__name__
        e['bitcnt'] = self.bitcnt()
        self.ev.append(e); return e
    def preset(self, v):
        self.o.padmethod.bitcnt = v
        e = dict(op='preset', cnt=limbs(v, 8)); self.ev.append(e); return e
    def trace(self, scen=None):
        # a returned digest is a VALUE: it must still read the same after all later calls on the object (no shared output buffer)
        for e, r in self.kept:
            if not e['raised'] and obs_out(r) != e['out']: e['raised'] = 'ResultChangedByLaterCall'
        return dict(alg=ALGS[self.name], name=self.name, ev=self.ev, scen=scen)

def content(rnd, n, cls):
    if cls == 1: return bytes(n)
    if cls == 2: return b'\xff' * n
    if cls == 3: return bytes(rnd.randrange(256) for _ in range(max(n - 1, 0))) + (b'\x80' if n else b'')
    if cls == 4: return bytes((i * 7 + 1) & 0xff for i in range(n))
    return bytes(rnd.randrange(256) for _ in range(n))

def classify(ctx, tr, recs, prop_api='hash'):
    for rec in sorted(recs, key=lambda r: r['step']):
        e = tr['ev'][rec['step'] - 1]
        before = 0
        for p in tr['ev'][:rec['step'] - 1]:
            if p['op'] in ('init', 'call'): before = 0
            elif p['op'] == 'update' and not p['raised']:
                before += 8 * len(p['m']) if p['bitlen'] < 0 else p['bitlen']
        for cl in rec['bad']:
            L = (8 * len(e['m']) if e.get('bitlen', -1) < 0 else e['bitlen']) if 'm' in e else 0
            Bb = 8 * blockbytes(tr['name'])
            attrs = dict(alg=tr['name'], op=e['op'], clause=cl['c'], raised=e.get('raised', ''), empty_piece=('m' in e and len(e['m']) == 0),
                         bits_before=before, padding=bool(e.get('padding', e['op'] == 'call')), lmod8=L % 8, nblocks_total=(before + L) // Bb)
            if cl['c'] == 'must-not-raise': sym = 'raises:' + e['raised']
            elif cl['c'] == 'must-refuse': sym = 'no-raise'
            else: sym = 'wrong:' + cl['c']
            ctx.violation('%s.%s' % (tr['alg']['k'], e['op']), sym, attrs, dict(scenario=tr.get('scen'), alg=tr['name'], event=e, step=rec['step'], expected=cl['e'],
                                                                      history=[(x['op'], len(x.get('m', [])), x.get('bitlen'), x.get('padding')) for x in tr['ev']]))

def validate(ctx, traces, what, chunk=3000):
    for a in range(0, len(traces), chunk):
        part = traces[a:a + chunk]
        payload = [dict(alg=t['alg'], ev=t['ev']) for t in part]
        bad = ctx.validate('trace/Trace_Hash.tla', payload, lambda t: len(t['ev']), what='%s[%d:%d]' % (what, a, a + len(part)))
        for tid, recs in bad.items(): classify(ctx, part[tid - 1], recs)
    ctx.evaluations += sum(len(t['ev']) for t in traces)
