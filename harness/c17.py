"""C17 - MD6.  MC: the tree/sequence plan of sys/Md6Tree for 0..70 leaf blocks and L in {0,1,2,3,4,64} (node ids
unique, z = 1 only on the last node, p only on the last node of a level, heights) - ST_Md6Thm, run here as a model
check.  Bind: MD6(d, K, L) with rounds set on the object over digest sizes, key lengths, modes, round counts, message
sizes from 0 to 17+ leaf blocks and every bit-length residue; TLC recomputes every digest."""
import core, tlc, os
from core import B

def md6_event(d, key, L, r, M, bitlen):
    from crysp.md import MD6
    e = dict(op='md6', d=d, key=B(key), L=L, m=B(M), bitlen=-1 if bitlen is None else bitlen, raised='', obs=[])
    try:
        h = MD6(d, key, L)
        if r is not None: h.rounds = r
        e['r'] = -1 if r is None else int(h.rounds)          # default round count: the SPEC derives it (40 + d/4, at least 80 with a key)
        out = h(M, bitlen) if bitlen is not None else h(M)
        e['obs'] = B(out) if isinstance(out, bytes) else [-1]
    except Exception as ex:
        e['raised'] = type(ex).__name__
        e.setdefault('r', -1 if r is None else r)
    return e

def run(ctx):
    ctx.claim_exhaustive = False      # keys / messages / parameters are sampled over an enumerated grid; only the spec-level models are exhaustive
    rnd = ctx.rnd; big = ctx.big()
    res = tlc.run(os.path.join(tlc.SPEC, 'selftest', 'ST_Md6Thm.tla'), timeout=900)
    if res['errors'] or res['rc'] != 0 or res['timed_out']: raise core.Machinery('ST_Md6Thm (plan theorems) failed: %s' % res['stdout'][-1500:])
    ctx.tlc_cmds.append('MC ST_Md6Thm (Md6Plan for 0..70 leaf blocks, L in {0,1,2,3,4,64}: unique node ids, z only on the last node, p, heights): ' + res['cmd']); ctx.states += 1; ctx.transitions += 1
    ctx.mc_runs.append(dict(model='ST_Md6Thm', wall=round(res['wall'], 1)))
    rb = lambda n: bytes(rnd.randrange(256) for _ in range(n))
    ev = []
    ds = [1, 8, 160, 224, 256, 384, 511, 512]; keys = [0, 1, 63, 64]; Ls = [0, 1, 2, 3, 64]
    # sizes (bytes): 0, 1, around the 512/384-byte block boundaries, 2..4, 5..16, 17+ leaf blocks
    sizes = [0, 1, 383, 384, 385, 511, 512, 513, 1023, 1024, 1025, 4 * 512, 4 * 512 + 1, 5 * 512 - 3, 16 * 512, 17 * 512 + 5]
    if big: sizes += [767, 768, 769, 3 * 512, 9 * 512 + 100, 33 * 512, 65 * 512 + 1]
    k = 0
    for n in sizes:
        for L in Ls:
            k += 1
            if not big and n > 4 * 512 + 1 and L in (2, 3) and k % 2: continue
            d = ds[k % 8]; kl = keys[k % 4]
            r = [6, 7, 6, 8][k % 4] if n > 1024 else [6, 9, None, 7][k % 4]         # >= 6 rounds: below that the last digest words do not depend on every input word (control word, key, node id) - a 2-round digest cannot see a wrong z or p
            if n <= 1024 and k % 5 == 0: r = [1, 2, 3, 5][(k // 5) % 4]            # the round count itself: small counts on short messages
            if r is None and not big and k % 3: r = 4
            bo = [0, 0, 1, 7, 3, 5, 2, 6, 4][k % 9]
            bitlen = None if (bo == 0 or n == 0) else 8 * n - bo
            ev.append(md6_event(d, rb(kl), L, r, rb(n), bitlen)); ctx.mark((d, kl, L, r, n, bo))
    for d in ds:                                                                # every digest size incl. d mod 8 != 0, keyed / unkeyed, seq / tree
        for L in (0, 64, 1):
            for kl in (0, 5):
                ev.append(md6_event(d, rb(kl), L, 6, rb(rnd.choice([3, 600, 1100])), None)); ctx.mark(('d', d, L, kl))
    for bo in range(1, 8):                                                      # every bit-length residue, one and several leaf blocks
        for n, L in ((2, 64), (700, 64), (700, 0), (2100, 1)):
            ev.append(md6_event(256, b'', L, 6, rb(n), 8 * n - bo)); ctx.mark(('bits', bo, n, L))
    for n, cut, L in ((700, 50, 64), (700, 50, 0), (1500, 3, 1), (40, 39, 64)):            # explicit byte-aligned bit length, data longer than that (bytes after the cut are ignored)
        ev.append(md6_event(256, b'', L, 8, rb(n), 8 * (n - cut))); ctx.mark(('bytealigned-bitlen', n, cut, L))
    for n, bl, L in ((600, 4000, 64), (600, 4096, 64), (2000, 77, 1), (1600, 4097, 2), (2600, 8 * 1024, 64), (900, 8 * 384, 0), (900, 8 * 384 - 5, 0)):    # the bit length ends in an EARLIER block than the buffer does
        ev.append(md6_event(256, b'', L, 6, rb(n), bl)); ctx.mark(('bitlen in an earlier block', n, bl, L))
    for d, key in ((128, bytes(1)), (64, bytes(8)), (256, bytes(64)), (128, b'\x00\x00\x01'), (152, bytes(3))):                                       # key content: all-zero keys are keys (default round count of the keyed mode)
        ev.append(md6_event(d, key, 64, None, rb(20), None)); ctx.mark(('zero key', d, len(key)))
    ev.append(md6_event(64, b'', 64, 170, b'abc', None)); ev.append(md6_event(512, b'k', 0, 200, rb(100), None))      # round counts beyond every default
    def md6call(x):
        from crysp.md import MD6
        h = MD6(128, b'', 64); h.rounds = 9; return h(x)
    for m in core.zero_edge_inputs(md6call, lambda i: b'zm-%d-%d' % (ctx.seed, i), want=2, tries=1500):
        ev.append(md6_event(128, b'', 64, 9, m, None)); ctx.mark(('zero-edge', m))
    ev.append(md6_event(256, b'', 64, 6, b'ab', 17))                            # bit length beyond the data
    for d, key, L, M in ((256, b'', 64, b'abc'), (224, b'', 64, b''), (512, b'key', 64, b'abc' * 50), (256, b'', 0, b'abc')):
        ev.append(md6_event(d, key, L, None, M, None))                           # default round counts
    from crysp.md import MD6
    for (d, key, L) in ((256, b'', 0), (224, b'k', 1), (256, b'', 64), (160, b'key', 2)):
        try:
            h = MD6(d, key, L); h.rounds = 6
        except Exception: continue
        for n, bo, rr in ((700, 0, 6), (3, 0, 6), (1300, 5, 9), (600, 0, 6), (2100, 0, 7), (50, 0, 6)):
            h.rounds = rr                                                          # the round count re-assigned between calls, up and down
            M = rb(n); bitlen = None if not bo else 8 * n - bo
            e = dict(op='md6', d=d, key=B(key), L=L, r=rr, m=B(M), bitlen=-1 if bitlen is None else bitlen, raised='', obs=[])
            try:
                out = h(M, bitlen) if bitlen is not None else h(M); e['obs'] = B(out)
            except Exception as ex: e['raised'] = type(ex).__name__
            ev.append(e); ctx.mark(('reuse', d, L, n))
    ctx.exhaustive_subspaces.append('configuration grid: d in {1,8,160,224,256,384,511,512} x key lengths {0,1,63,64} x L in {0,1,2,3,64} x leaf-block counts 0,1,2..4,5..16,17+ x every bitlen mod 8 (rotating combination)')
    ctx.evaluations = len(ev); ctx.sample(ev[3]); ctx.sample(ev[-1])
    traces = [dict(ev=[e]) for e in ev]
    bad = ctx.validate('trace/Trace_Md6.tla', traces, lambda t: len(t['ev']), what='Trace_Md6')
    for tid, recs in bad.items():
        for rec in recs:
            e = traces[tid - 1]['ev'][0]
            n = len(e['m'])
            for cl in rec['bad']:
                attrs = dict(clause=cl['c'], raised=e['raised'], d=e['d'], d_mod8=e['d'] % 8, keyed=len(e['key']) > 0, L=e['L'], has_bitlen=e['bitlen'] >= 0,
                             leaf_blocks=max(1, -(-n // 512)), seq_blocks=max(1, -(-n // 384)))
                sym = ('raises:' + e['raised']) if cl['c'] == 'must-not-raise' else ('no-raise' if cl['c'] == 'must-refuse' else 'wrong:' + cl['c'])
                ctx.violation('MD6.__call__', sym, attrs, dict(event={k: v for k, v in e.items() if k != 'm'}, mlen=n, expected=cl['e']))
    clean = dict(ev=[md6_event(256, b'', 64, 2, b'abc', None)])
    def corrupt(t): t['ev'][0]['obs'][-1] ^= 1; return t
    ctx.binding_selftest('trace/Trace_Md6.tla', clean, lambda t: len(t['ev']), corrupt, 'Trace_Md6: flipped digest bit')
    ctx.assumptions += ['rounds is set through the public attribute of the object; big trees are run at r <= 5 to keep TLC affordable, default rounds on short messages',
                        'bitlen=None/0 is "omitted"', 'message/key content seeded']
    return ctx.finish('MD6 digests over digest sizes x key lengths x modes x rounds x tree shapes x bit-length residues, each recomputed by TLC from the MD6 definition (prim/Md6, sys/Md6Tree)')
