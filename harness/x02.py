"""X02 - supplementary (beyond the 20 properties): TLSH fed in pieces.  C14 lists the hash objects with incremental update and
C19 speaks about one-shot digests only; TLSH nevertheless has a public update()/final().  Expectation taken from prim/Tlsh: the digest
of the concatenation.  Differences are OBSERVATIONS (exit 0)."""
import core
from core import B

def run(ctx):
    ctx.claim_exhaustive = False
    rnd = ctx.rnd
    from crysp import tlsh as T
    def text(n):
        words = [b'the', b'rain', b'in', b'spain', b'falls', b'mainly', b'on', b'plain', b'hash', b'locality', b'sensitive', b'0123', b'\n']
        out = b''
        while len(out) < n: out += rnd.choice(words) + b' '
        return out[:n]
    ev = []
    for buckets in (128, 48, 256):
        for n, cuts in ((400, (200,)), (700, (5, 350)), (300, (0,)), (300, (300,)), (1200, (400, 800, 1199))):
            data = text(n); pieces = [data[a:b] for a, b in zip((0,) + cuts, cuts + (n,))]
            e = dict(op='tlsh', cfg=dict(buckets=buckets, wnd=5, chk=1), data=B(data), force=False, raised='', obs=dict(none=True, digest=[]), pieces=[len(p) for p in pieces])
            try:
                o = T.TLSH(buckets, 5, 1)
                for p in pieces[:-1]: o.update(p)
                r = o.final(pieces[-1], False)
                if r is None: e['obs'] = dict(none=True, digest=[])
                else: r.digest(); e['obs'] = dict(none=False, digest=B(r.lsh_code))
            except Exception as ex: e['raised'] = type(ex).__name__
            ev.append(e); ctx.mark((buckets, n, cuts))
    traces = [dict(ev=ev[i:i + 5]) for i in range(0, len(ev), 5)]
    bad = ctx.validate('trace/Trace_Simil.tla', traces, lambda t: len(t['ev']), what='TLSH fed in pieces (Trace_Simil)')
    ctx.evaluations = len(ev)
    for tid, recs in bad.items():
        for rec in recs:
            e = traces[tid - 1]['ev'][rec['step'] - 1]
            for cl in rec['bad']:
                ctx.violation('tlsh.update+final', ('raises:' + e['raised']) if cl['c'] == 'must-not-raise' else 'wrong:digest-of-pieces',
                              dict(buckets=e['cfg']['buckets'], pieces=len(e['pieces']), empty_piece=0 in e['pieces'], raised=e['raised']), dict(pieces=e['pieces'], expected=cl['e']))
    ctx.assumptions += ['supplementary: no listed property covers TLSH.update/final in pieces; differences are reported as observations']
    return ctx.finish('TLSH objects fed in 2-4 pieces compared by TLC with the digest of the concatenation (prim/Tlsh)')
