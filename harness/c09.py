"""C09 - padding schemes.  MC: sys/Padding.tla (bit level, every bit string) + MC_PadBytes (byte-level
spec = bit-level spec) + MC_PadLong (compressed evaluation of long messages = plain evaluation) + MC_PadHist (all call histories).  Bind: every history and the single-call
length grid replayed on the real padding objects, every step judged by Trace_Padding."""
import json, os
import core
from core import B, limbs

SCHEMES = ['none', 'zero', 'iso', 'pkcs7', 'x923', 'md', 'sha', 'blake']
BITGRAN = {'zero', 'iso', 'md', 'sha', 'blake'}

def make(s, Bb, w=None, hsize=None):
    """returns (real object, scheme record) ; Bb block bytes"""
    from crysp import padding as P
    l = Bb * 8
    if s == 'none': return P.nopadding(l), dict(s=s, B=Bb, w=0, mk=0)
    if s == 'zero': return P.Nullpadding(l), dict(s=s, B=Bb, w=0, mk=0)
    if s == 'iso': return P.bitpadding(l), dict(s=s, B=Bb, w=0, mk=0)
    if s == 'pkcs7': return P.pkcs7(l), dict(s=s, B=Bb, w=0, mk=0)
    if s == 'x923': return P.X923(l), dict(s=s, B=Bb, w=0, mk=0)
    if s == 'md': return P.MDpadding(l, w * 8), dict(s=s, B=Bb, w=w, mk=0)
    if s == 'sha': return P.SHApadding(l, w * 8), dict(s=s, B=Bb, w=w, mk=0)
    if s == 'blake':
        o = P.Blakepadding(hsize)
        return o, dict(s=s, B=o.blocklen, w=o.wsize // 8, mk=1 if hsize in (256, 512) else 0)
    raise ValueError(s)

def variants(s, big):
    """(Bb, w, hsize) instances of a scheme"""
    if s in ('md', 'sha'):
        v = [(64, 4, None), (128, 8, None)]
        if big: v += [(16, 4, None), (32, 8, None), (24, 4, None), (48, 8, None)]
        return v
    if s == 'blake':
        return [(64, 4, 256), (128, 8, 512), (64, 4, 224), (128, 8, 384)]
    v = [1, 2, 8, 16]
    if s in ('none', 'zero', 'iso'): v += [64, 128]
    if big: v += [3, 4, 5, 7, 24, 32, 127]
    if big and s in ('pkcs7', 'x923'): v += [64, 128]
    return [(b, None, None) for b in v]

def run_iter(obj, m, bitlen, padding):
    """step the real generator, recording each yielded block with the counters at that moment"""
    ev = dict(op='iter', m=B(m), bitlen=-1 if bitlen is None else bitlen, padding=padding,
              raised='', blocks=[], cnts=[])
    kw = {'padding': padding}
    if bitlen is not None: kw['bitlen'] = bitlen
    elif len(m) % 3 == 1: kw['bitlen'] = None              # "omitted" spelled as an explicit None (the way the hash front-ends forward it)
    try:
        for blk in obj.iterblocks(m, **kw):
            ev['blocks'].append(B(bytes(blk)))
            ev['cnts'].append(limbs(obj.bitcnt, 8))
    except Exception as e:
        ev['raised'] = type(e).__name__
    ev['after'] = dict(bitcnt=limbs(obj.bitcnt, 8), padcnt=int(obj.padcnt), padflag=bool(obj.padflag))
    return ev

def run_iter_long(obj, Bb, pat, K, tail, bitlen, padding):
    """a message of K copies of one block and a short tail (up to a megabyte): the output is recorded in compressed form - the
    maximal leading run of equal blocks, the maximal leading arithmetic progression (step 8B) of counters, the rest literally"""
    m = pat * K + tail
    ev = dict(op='iterlong', pat=B(pat), K=K, tail=B(tail), bitlen=-1 if bitlen is None else bitlen, padding=padding, raised='',
              bhead=dict(b=[], n=0), brest=[], chead=dict(first=limbs(0, 8), n=0), crest=[])
    kw = {'padding': padding}
    if bitlen is not None: kw['bitlen'] = bitlen
    blocks = []; cnts = []
    try:
        for blk in obj.iterblocks(m, **kw):
            blocks.append(bytes(blk)); cnts.append(int(obj.bitcnt))
    except Exception as e:
        ev['raised'] = type(e).__name__
    if blocks:
        n = 1
        while n < len(blocks) and blocks[n] == blocks[0]: n += 1
        ev['bhead'] = dict(b=B(blocks[0]), n=n); ev['brest'] = [B(x) for x in blocks[n:n + 8]]
        n = 1
        while n < len(cnts) and cnts[n] == cnts[0] + n * 8 * Bb: n += 1
        ev['chead'] = dict(first=limbs(cnts[0], 8), n=n); ev['crest'] = [limbs(x, 8) for x in cnts[n:n + 8]]
    ev['after'] = dict(bitcnt=limbs(obj.bitcnt, 8), padcnt=int(obj.padcnt), padflag=bool(obj.padflag))
    return ev

def run_iter_gen(obj, gen, m, bitlen, padding):
    """consume a generator that was CREATED earlier (a generator function does nothing until its first next()): the call counts from here"""
    ev = dict(op='iter', m=B(m), bitlen=-1 if bitlen is None else bitlen, padding=padding, raised='', blocks=[], cnts=[])
    try:
        for blk in gen:
            ev['blocks'].append(B(bytes(blk))); ev['cnts'].append(limbs(obj.bitcnt, 8))
    except Exception as e:
        ev['raised'] = type(e).__name__
    ev['after'] = dict(bitcnt=limbs(obj.bitcnt, 8), padcnt=int(obj.padcnt), padflag=bool(obj.padflag))
    return ev

def run_remove(obj, c):
    ev = dict(op='remove', c=B(c), raised='', out=[])
    try:
        ev['out'] = core.SB(obj.remove(c))
    except Exception as e:
        ev['raised'] = type(e).__name__
    return ev

def residues(sch, big, rnd):
    Bb, w = sch['B'], sch['w']
    if Bb <= 16 or (big and Bb <= 32): return list(range(Bb))
    r = {0, 1, 2, Bb // 2, Bb - 2, Bb - 1}
    if w: r |= {Bb - 2 * w - 2, Bb - 2 * w - 1, Bb - 2 * w, Bb - 2 * w + 1}
    r |= {rnd.randrange(Bb) for _ in range(4 if big else 1)}
    return sorted(x for x in r if 0 <= x < Bb)

def content(rnd, n, cls):
    if cls == 0: return bytes(rnd.randrange(256) for _ in range(n))
    if cls == 1: return bytes(n)
    if cls == 2: return b'\xff' * n
    if cls == 3: return bytes(rnd.randrange(256) for _ in range(max(n - 1, 0))) + (b'\x80' if n else b'')
    if cls == 4: return bytes(rnd.randrange(256) for _ in range(max(n - 2, 0))) + (b'\x01\x00'[:n] if n else b'')
    if cls == 5: return bytes(rnd.randrange(256) for _ in range(max(n - 1, 0))) + (b'\x01' if n else b'')
    return bytes((i * 7 + 1) & 0xff for i in range(n))

def rc_residue(sch, rc):
    Bb, w = sch['B'], sch['w']
    if rc == 1: return 0
    if rc == 2: return 1 if Bb > 1 else 0
    if rc == 3: return max(Bb - 2 * w - 1, 0) if w else Bb // 2
    if rc == 4: return (Bb - 2 * w) if w else max(Bb - 2, 0)
    return Bb - 1

def instantiate(hist, s, var, rnd, k):
    """abstract history -> recorded trace on a real object"""
    obj, sch = make(s, *var)
    Bb = sch['B']
    ev = []; stream = b''; fed = 0; flag = False
    for j, c in enumerate(hist):
        op = c['op']
        if op == 'cont':
            m = content(rnd, c['k'] * Bb, (k + j) % 3)
            e = run_iter(obj, m, None, False)
            if not flag and not e['raised']: fed += len(m) * 8
            stream += b''.join(bytes(x) for x in e['blocks'])
        elif op == 'contbad':
            if Bb > 1: e = run_iter(obj, content(rnd, Bb + 1 + (k % (Bb - 1)), 0), None, False)
            else: e = run_iter(obj, b'\xa5', 5, False)
        elif op == 'final':
            n = c['k'] * Bb + rc_residue(sch, c['rc'])
            m = content(rnd, n, (k + j) % 7)
            bo = (k + j) % 8 if (s in BITGRAN and fed == 0 and n > 0) else 0
            if bo == 0 and n > 0 and fed == 0 and (k % 3 == 0): bitlen = 8 * n          # explicit full bit length
            elif bo: bitlen = 8 * n - bo
            else: bitlen = None
            e = run_iter(obj, m, bitlen, True)
            stream += b''.join(bytes(x) for x in e['blocks'])
            if not flag and not e['raised']: flag = True
        elif op == 'overlong':
            n = (k % 3) * Bb + (k % (Bb + 1))
            e = run_iter(obj, content(rnd, n, 0), 8 * n + 1 + (k % 9), True)
        elif op == 'reset':
            if k % 2: obj.reset()
            else: obj = obj.new
            e = dict(op='reset'); stream = b''; fed = 0; flag = False
        elif op == 'remove':
            e = run_remove(obj, stream)
        ev.append(e)
    return dict(sch=sch, ev=ev, scen=dict(kind='history', scheme=s, calls=[(c['op'], c['k'], c['rc']) for c in hist]))

def single(s, var, nblk, res, bo, cls, rnd, explicit):
    obj, sch = make(s, *var)
    n = nblk * sch['B'] + res
    m = content(rnd, n, cls)
    extra = rnd.randrange(3) if explicit and n > 0 and s in BITGRAN else 0       # data longer than the bit length says
    data = m + bytes(rnd.randrange(256) for _ in range(extra))
    bitlen = (8 * n - bo) if (bo or explicit) and n > 0 else None
    if bitlen is None: data = m
    e = run_iter(obj, data, bitlen, True)
    c = b''.join(bytes(x) for x in e['blocks'])
    ev = [e, run_remove(obj, c)]
    return dict(sch=sch, ev=ev, scen=dict(kind='single', scheme=s, nblk=nblk, res=res, bo=bo, cls=cls))

def malformed(s, var, rnd, k):
    """remove() on strings that are / are not valid PKCS#7 / X9.23 paddings (TLC classifies them)"""
    obj, sch = make(s, *var)
    Bb = sch['B']
    ev = []
    for t in range(6):
        n = Bb * (1 + (k + t) % 2)
        c = bytearray(rnd.randrange(256) for _ in range(n))
        mode = (k + t) % 6
        q = rnd.randrange(1, Bb + 1)
        if mode == 0: c[-1] = 0
        elif mode == 1: c[-1] = min(Bb + 1 + rnd.randrange(3), 255)
        elif mode == 2:                                   # valid
            c[-q:] = (bytes([q]) * q) if s == 'pkcs7' else (bytes(q - 1) + bytes([q]))
        elif mode == 3:                                   # one filler byte wrong
            c[-q:] = (bytes([q]) * q) if s == 'pkcs7' else (bytes(q - 1) + bytes([q]))
            if q > 1:
                pos = n - q + rnd.randrange(q - 1); c[pos] ^= 1 + rnd.randrange(255)
        elif mode == 4: c[-1] = q                           # random filler
        else:                                                 # zeros + a count byte: 0, inside the block, just beyond the block, = input length, arbitrary
            c = bytearray(n); c[-1] = [0, Bb, min(Bb + 1, 255), min(n, 255), rnd.randrange(256), max(Bb - 1, 0)][(k + t // 6) % 6]
        ev.append(run_remove(obj, bytes(c)))
    return dict(sch=sch, ev=ev, scen=dict(kind='malformed', scheme=s))

def bits_here(e):
    if e['bitlen'] >= 0: return e['bitlen']
    return 8 * len(e['m']) if e['op'] == 'iter' else 8 * (len(e['pat']) * e['K'] + len(e['tail']))

def classify(ctx, tr, bad):
    sch = tr['sch']
    failed_before = []                 # entry points with a failed clause earlier in this trace (knock-on effects)
    for rec in sorted(bad, key=lambda r: r['step']):
        e = tr['ev'][rec['step'] - 1]
        # bits fed before this call in the current epoch
        before = 0; flag = False
        for p in tr['ev'][:rec['step'] - 1]:
            if p['op'] == 'reset': before = 0; flag = False
            elif p['op'] in ('iter', 'iterlong') and not p['raised'] and not flag:
                L = bits_here(p)
                before += L
                if p['padding']: flag = True
        for cl in rec['bad']:
            if e['op'] in ('iter', 'iterlong'):
                L = bits_here(e)
                attrs = dict(scheme=sch['s'], clause=cl['c'], padding=e['padding'], empty_piece=(L == 0 and len(e.get('m', e.get('tail'))) == 0),
                             bits_before=before, bits_here=L, after_pad=flag, raised=e['raised'])
                if any(p['op'] == 'preset' for p in tr['ev'][:rec['step']]): attrs['preset_counter'] = True
                api = 'padding.%s.iterblocks' % sch['s']
            else:
                attrs = dict(scheme=sch['s'], clause=cl['c'], raised=e['raised'], len_c=len(e['c']), blocklen=sch['B'],
                             last_byte=(e['c'][-1] if e['c'] else -1))
                api = 'padding.%s.remove' % sch['s']
            last_reset = max([0] + [q + 1 for q, pe in enumerate(tr['ev'][:rec['step']]) if pe['op'] == 'reset'])
            attrs['after_failed'] = ','.join(sorted({a for st_, a in failed_before if st_ > last_reset}))
            if cl['c'] == 'must-not-raise': sym = 'raises:' + e['raised']
            elif cl['c'] in ('must-refuse', 'must-raise-PaddingError'): sym = 'no-raise' if not e['raised'] else 'raises:' + e['raised']
            else: sym = 'wrong:' + cl['c']
            ctx.violation(api, sym, attrs, dict(scenario=tr['scen'], scheme=sch, event=e, step=rec['step'], expected=cl['e']))
        failed_before.append((rec['step'], api))

def nsteps(t): return len(t['ev'])

def run(ctx):
    rnd = ctx.rnd
    big = ctx.big()
    # ---- 1. the specification itself, exhaustively within small bounds ---------------------------
    for cfg in (['MC_Padding_zero', 'MC_Padding_iso', 'MC_Padding_pkcs7', 'MC_Padding_x923', 'MC_Padding_none',
                 'MC_Padding_md', 'MC_Padding_sha', 'MC_Padding_blake1', 'MC_Padding_blake0']):
        if (not big) and cfg in ('MC_Padding_x923', 'MC_Padding_blake0'): continue
        ctx.model_check('mc/MC_Padding.tla', 'mc/%s.cfg' % cfg, what=cfg, env={'MAXBITS': '14' if big else '12'})
    ctx.model_check('mc/MC_PadBytes.tla', what='MC_PadBytes (byte-level spec = bit-level spec)')
    ctx.model_check('mc/MC_PadLong.tla', 'mc/MC_PadLong.cfg', what='MC_PadLong (compressed evaluation of pat^K + tail = plain evaluation)')
    ctx.exhaustive_subspaces.append('specification: every bit string up to 12 bits (B=8 bits) for none/zero/iso/pkcs7/x923, all call sequences incl. reset; md/sha/blake B=16,W=4 up to 40 bits in 4 content classes')
    # ---- 2. all call histories from the model -------------------------------------------------
    D = 4 if big else 3
    r = ctx.model_check('mc/MC_PadHist.tla', 'mc/MC_PadHist_D%d.cfg' % D, what='MC_PadHist depth %d' % D)
    hists = [p for p in r['printed'] if isinstance(p, list)]
    if len(hists) < 100: raise core.Machinery('scenario model printed only %d histories' % len(hists))
    ctx.exhaustive_subspaces.append('all %d call histories of depth %d over the alphabet cont(0..2)/contbad/final(0..1 blocks x 5 residue classes)/overlong/reset/remove' % (len(hists), D))
    traces = []
    for k, h in enumerate(hists):
        if big and D == 4 and k % 4: continue               # depth 4: every 4th history x all schemes
        ss = SCHEMES if (big or len(h) <= 2 or k % 8 == 0) else [SCHEMES[k % 8]]
        for s in ss:
            vs = variants(s, big)
            traces.append(instantiate(h, s, vs[(k // 8) % len(vs)], rnd, k))
    # ---- 3. single-call length grid --------------------------------------------------------------
    k = 0
    for s in SCHEMES:
        for var in variants(s, big):
            _, sch = make(s, *var)
            for nblk in range(4):
                for res in residues(sch, big, rnd):
                    bos = range(8) if s in BITGRAN else [0]
                    for bo in bos:
                        if bo and nblk * sch['B'] + res == 0: continue
                        if not big and sch['B'] > 16 and bo not in (0, 1, 7) and (k % 3): k += 1; continue
                        k += 1
                        traces.append(single(s, var, nblk, res, bo, k % 7, rnd, explicit=(k % 5 == 0)))
    # one call with more than 4096 bytes for block lengths that do not divide 4096 (and two that do)
    for s in ('zero', 'iso', 'pkcs7', 'none', 'sha'):
        for Bb in ((3, 5, 7, 9, 24, 8) if big else (3, 7, 24, 16)):
            if s == 'sha':
                if Bb not in (24, 16): continue
                var = (Bb, 4, None)
            else: var = (Bb, None, None)
            obj, sch = make(s, *var); n = 4096 + Bb * 5 + (0 if s == 'none' else 2); n -= (n % Bb) if s == 'none' else 0
            e = run_iter(obj, content(rnd, n, 0), None, True)
            traces.append(dict(sch=sch, ev=[e], scen=dict(kind='long single call', scheme=s, n=n)))
    # messages of 64 KiB .. 1 MiB: K copies of one block + a short tail, judged in compressed form (PadBytes!IterLong; MC_PadLong)
    for s in SCHEMES:
        for var in variants(s, False):
            _, sch = make(s, *var); Bb = sch['B']
            sizes = [65536 + 8] if Bb < 8 else [65536, (1 << 20)] + ([3 * (1 << 19), 4096 * 5] if big else [])
            for size in sizes:
                K = size // Bb
                for q, res in enumerate(sorted({0, 1 % Bb, rc_residue(sch, 3), rc_residue(sch, 4), Bb - 1, Bb + 1} if Bb > 1 else {0, 1, 2})):
                    if s == 'none' and res % Bb: res = (res // Bb) * Bb
                    pat = [bytes(Bb), content(rnd, Bb, 0), b'\xff' * Bb][q % 3]
                    tail = content(rnd, res, (q + K) % 7)
                    bo = (q * 3 + 1) % 8 if (s in BITGRAN and res > 0 and q % 2) else 0
                    bitlen = (8 * (K * Bb + res) - bo) if (bo or q % 3 == 0) else None
                    obj, _ = make(s, *var)
                    ev = [run_iter_long(obj, Bb, pat, K, tail, bitlen, True)]
                    if q == 0:                                                      # the same as a continuation of whole blocks + a final piece, on a fresh object
                        obj2, _ = make(s, *var)
                        ev2 = [run_iter(obj2, content(rnd, Bb * (K % 3), 0), None, False),                        # a short piece first (none, one or two blocks), then the long continuation, then the final piece
                               run_iter_long(obj2, Bb, pat, K, b'', None, False), run_iter_long(obj2, Bb, pat, 0, tail + content(rnd, 3 if s != 'none' else 0, 0), None, True)]
                        traces.append(dict(sch=sch, ev=ev2, scen=dict(kind='long continuation + final', scheme=s, K=K)))
                    traces.append(dict(sch=sch, ev=ev, scen=dict(kind='long message', scheme=s, K=K, res=res, bo=bo)))
    # many calls on one object: 40 continuation pieces (one block, now and then none or two), the final piece, remove; reset; a second, shorter epoch
    for q, s in enumerate(SCHEMES):
        var = variants(s, False)[q % len(variants(s, False))]; obj, sch = make(s, *var); Bb = sch['B']; ev = []; stream = b''
        for epoch, ncont in enumerate((40, 3)):
            for j in range(ncont):
                e = run_iter(obj, content(rnd, Bb * (1 if j % 6 else (j // 6) % 3), j % 3), None, False); ev.append(e)
                stream += b''.join(bytes(x) for x in e['blocks'])
            e = run_iter(obj, content(rnd, (Bb if s == 'none' else Bb // 2 + 1 + q % 3), 0), None, True); ev.append(e)
            stream += b''.join(bytes(x) for x in e['blocks'])
            if len(stream) < 6000: ev.append(run_remove(obj, stream))
            obj.reset(); ev.append(dict(op='reset')); stream = b''
        traces.append(dict(sch=sch, ev=ev, scen=dict(kind='many calls on one object', scheme=s)))
    # generators created up-front and consumed later, in order: each call takes effect when it is consumed
    for s in SCHEMES:
        var = variants(s, False)[-1]; obj, sch = make(s, *var); Bb = sch['B']
        m1, m2, m3 = content(rnd, Bb, 0), content(rnd, 2 * Bb, 0), content(rnd, Bb + (0 if s == 'none' else 3), 0)
        try: gens = [obj.iterblocks(m1, padding=False), obj.iterblocks(m2, padding=False), obj.iterblocks(m3, padding=True), obj.iterblocks(m1, padding=False)]
        except Exception: continue
        ev = [run_iter_gen(obj, g, m, None, p) for g, m, p in zip(gens, (m1, m2, m3, m1), (False, False, True, False))]
        traces.append(dict(sch=sch, ev=ev, scen=dict(kind='generators created before use', scheme=s)))
    # length fields that need more than one word: the public bit counter is preset, then a final piece (and a continuation + final piece)
    for s in ('md', 'sha', 'blake'):
        for var in variants(s, big):
            obj0, sch = make(s, *var); Bb = sch['B']; fw = 16 * sch['w']
            for v in ((1 << 32) - 8 * Bb, 1 << 32, (1 << (fw // 2)) - 8 * Bb, 1 << (fw // 2), (1 << fw) - 16 * Bb, (1 << 32) + (1 << 35)):
                for n in ((1, Bb - 1, Bb + 3) if big else (1, Bb + 3)):
                    obj, _ = make(s, *var); obj.bitcnt = v
                    e = run_iter(obj, content(rnd, n, 0), None, True)
                    traces.append(dict(sch=sch, ev=[dict(op='preset', cnt=limbs(v, 8)), e], scen=dict(kind='preset', scheme=s, v=str(v), n=n)))
                obj, _ = make(s, *var); obj.bitcnt = v
                e1 = run_iter(obj, content(rnd, Bb, 0), None, False); e2 = run_iter(obj, content(rnd, 5, 0), None, True)
                traces.append(dict(sch=sch, ev=[dict(op='preset', cnt=limbs(v, 8)), e1, e2], scen=dict(kind='preset+cont', scheme=s, v=str(v))))
    for s in ('pkcs7', 'x923'):
        for var in variants(s, big):
            for k2 in range(12 if big else 6):
                traces.append(malformed(s, var, rnd, k2))
    ctx.evaluations = sum(len(t['ev']) for t in traces)
    for t in traces:
        sc = t['scen']
        ctx.mark((sc['kind'], sc['scheme'], t['sch']['B'], json.dumps(sc.get('calls', [sc.get('nblk'), sc.get('res'), sc.get('bo')]))))
    ctx.sample(dict(scenario=traces[0]['scen'], scheme=traces[0]['sch'], events=traces[0]['ev'][:3]))
    ctx.sample(dict(scenario=traces[-1]['scen'], scheme=traces[-1]['sch'], events=traces[-1]['ev'][:2]))
    # ---- 4. TLC judges every step -----------------------------------------------------------------
    payload = [dict(sch=t['sch'], ev=t['ev']) for t in traces]
    CH = 6000
    for a in range(0, len(payload), CH):
        bad = ctx.validate('trace/Trace_Padding.tla', payload[a:a + CH], nsteps, what='Trace_Padding[%d:%d]' % (a, a + CH))
        for tid, recs in bad.items():
            classify(ctx, traces[a + tid - 1], recs)
    # ---- 5. the binding bites -------------------------------------------------------------------
    clean = single('pkcs7', (8, None, None), 1, 3, 0, 0, rnd, False)
    def corrupt(t):
        t['ev'][0]['blocks'][-1][-1] ^= 1; return t
    ctx.binding_selftest('trace/Trace_Padding.tla', dict(sch=clean['sch'], ev=clean['ev']), nsteps, corrupt, 'Trace_Padding: flipped bit in a recorded block')
    def corrupt2(t):
        t['ev'][0]['cnts'][0][0] += 8; return t
    ctx.binding_selftest('trace/Trace_Padding.tla', dict(sch=clean['sch'], ev=clean['ev']), nsteps, corrupt2, 'Trace_Padding: recorded bit counter off by 8')
    ctx.assumptions += ['bitlen=None/omitted means "all of the data"; a bit length is only given on the first call of an epoch',
                        'byte-granular schemes (none, pkcs7, x923) are driven with whole bytes',
                        'remove() of malformed input is demanded to raise PaddingError only for PKCS#7 / X9.23 (as the statement says)',
                        'pad-bit counter compared only for zero/iso/pkcs7/x923 (the schemes that define it)']
    return ctx.finish('every call history from MC_PadHist x scheme (x block size round-robin) and the single-call grid '
                      '(scheme x block size x 0..3 blocks x residue x L mod 8 x content class); distinct = distinct (kind, scheme, block size, calls/lengths)')
