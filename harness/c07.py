"""C07 - Bits construction and conversions.  Spec: base/BitVec (Load/FromBytes/ToBytes/Pack/Unpack...),
theorems in MC_BitVec (Conversions).  Bind: every value of every size <= N through every conversion and
round trip, byte-string constructors under every bit order, every byte count 1..40 through pack/unpack in
both endiannesses, wide samples - recorded from the real class, judged by Trace_BitVec."""
import core
from bitsrec import NONE, enc, mk, int_to_bits
from bitsrec import run as rec

def bits_of(x, n): return [(x >> j) & 1 for j in range(n)]

def conv_events(a):
    """all conversions out of (and back into) the vector with bit list a"""
    from crysp.bits import Bits, pack, unpack
    n = len(a); ev = []
    def E(op, fn, render=None, **kw):
        b = mk(a)
        e = dict(op=op, a=list(a)); e.update(kw)
        ev.append(rec(e, lambda: fn(b), [b], render=render, alias_check=False))
    E('to_bytes', lambda b: b.bytes(), render=lambda r: list(r))
    E('to_bytes', lambda b: bytes(b), render=lambda r: list(r))
    E('to_bytes', lambda b: bytes.fromhex(b.hex().decode()), render=lambda r: list(r))
    E('pack', lambda b: pack(b), render=lambda r: list(r), be=False)
    E('pack', lambda b: pack(b, '>L'), render=lambda r: list(r), be=True)
    E('bitlist', lambda b: b.bitlist(), dir=1)
    E('bitlist', lambda b: b.bitlist(-1), dir=-1)
    E('iter', lambda b: list(b))
    E('str', lambda b: str(b), render=lambda s: [int(c) if c in '01' else 3 for c in s])
    E('dots', lambda b: b.todots(), render=lambda s: ([1 if c == '.' else 0 if c == ' ' else 3 for c in s[1:-1]] if s[:1] == '|' and s[-1:] == '|' and len(s) >= 2 else [3]))
    E('int', lambda b: b.int(), render=lambda r: int_to_bits(r, n))
    E('int', lambda b: int(b), render=lambda r: int_to_bits(r, n))
    E('index', lambda b: b.__index__(), render=lambda r: int_to_bits(r, n))
    E('len', lambda b: len(b))
    if n > 0:
        E('sint', lambda b: b.int(-1), render=lambda r: dict(neg=1 if r < 0 else 0, mag=int_to_bits(abs(r), n)))
    for i in (range(-n - 1, n + 1) if n <= 16 else sorted({-n - 1, -n, -n + 1, -1, 0, 1, n // 2, n - 1, n, (7 * n) // 9, -(n // 3)})):
        E('bit', lambda b, i=i: b.bit(i), i=i)
    E('rt_bytes', lambda b: Bits(b.bytes(), size=n))
    E('rt_bitlist', lambda b: Bits(b.bitlist()))
    E('rt_str', lambda b: Bits([int(c) for c in str(b)]))
    E('from_bits', lambda b: Bits(b), size=NONE)
    for sz in {0, max(n - 1, 0), n, n + 1, n + 9}:
        E('from_bits', lambda b, sz=sz: Bits(b, sz), size=sz)
    x = sum(v << j for j, v in enumerate(a))
    if n <= 24:
        ev.append(rec(dict(op='from_int', x=x, size=n), lambda: Bits(x, n), [], alias_check=False))
        ev.append(rec(dict(op='from_int', x=x, size=NONE), lambda: Bits(x), [], alias_check=False))
        for sz in {0, max(n - 1, 0), n + 3}:
            ev.append(rec(dict(op='from_int', x=x, size=sz), lambda sz=sz: Bits(x, sz), [], alias_check=False))
    else:
        nat = list(a)
        while nat and nat[-1] == 0: nat.pop()
        ev.append(rec(dict(op='from_bigint', a=nat, size=NONE), lambda: Bits(x), [], alias_check=False))
        ev.append(rec(dict(op='from_bigint', a=nat, size=n), lambda: Bits(x, n), [], alias_check=False))
        ev.append(rec(dict(op='from_bigint', a=nat, size=n // 2), lambda: Bits(x, n // 2), [], alias_check=False))
    ev.append(rec(dict(op='from_list', a=list(a)), lambda: Bits(list(a)), [], alias_check=False))
    if n % 8 == 0 and n > 0:
        E('rt_pack', lambda b: Bits(*unpack(pack(b), bigend=False)), be=False)
        E('rt_pack', lambda b: Bits(*unpack(pack(b, '>L'), bigend=True)), be=True)
    return ev

def bytes_events(s, orders, sizes):
    from crysp.bits import Bits
    ev = []
    for o in orders:
        for sz in sizes:
            e = dict(op='from_bytes', s=list(s), order=o, size=sz)
            if sz == NONE: ev.append(rec(e, lambda: Bits(s, bitorder=o), [], alias_check=False))
            else: ev.append(rec(e, lambda: Bits(s, sz, o), [], alias_check=False))
    return ev

def unpack_events(s):
    from crysp.bits import Bits, unpack
    return [rec(dict(op='unpack', s=list(s), be=be), lambda be=be: Bits(*unpack(s, bigend=be)), [], alias_check=False) for be in (False, True)]

def classify(ctx, tr, recs):
    for rec in recs:
        e = tr['ev'][rec['step'] - 1]
        for cl in rec['bad']:
            attrs = dict(op=e['op'], clause=cl['c'], raised=e.get('raised', ''))
            if e['op'] in ('unpack', 'rt_pack', 'pack'):
                nb = len(e['s']) if 's' in e else len(e['a']) // 8
                attrs.update(bigend=bool(e.get('be', False)), nbytes=nb)
            if e['op'] in ('from_bytes', 'load'): attrs.update(order=e['order'], nbytes=len(e['s']))
            if cl['c'] == 'must-not-raise': sym = 'raises:' + e['raised']
            elif cl['c'] == 'must-raise': sym = 'no-raise'
            else: sym = 'wrong:' + cl['c']
            ctx.violation('Bits.' + e['op'], sym, attrs, dict(event=e, expected=cl['e']))

def validate_events(ctx, events, what, chunk=60000):
    traces = [dict(obj0=[], ev=events[i:i + 50]) for i in range(0, len(events), 50)]
    n = chunk // 50
    for a in range(0, len(traces), n):
        part = traces[a:a + n]
        bad = ctx.validate('trace/Trace_BitVec.tla', part, lambda t: len(t['ev']), what='%s[%d:%d]' % (what, a, a + len(part)))
        for tid, recs in bad.items(): classify(ctx, part[tid - 1], recs)
    ctx.evaluations += len(events)

WIDE = [17, 24, 31, 32, 33, 63, 64, 65, 127, 128, 129, 255, 256, 257, 1024, 2048]

def run(ctx):
    rnd = ctx.rnd; big = ctx.big()
    ctx.model_check('mc/MC_BitVec.tla', 'mc/MC_BitVec.cfg', what='MC_BitVec (conversion theorems, widths <= 4)')
    N = 12 if big else 9
    ev = []
    for n in range(N + 1):
        for x in range(1 << n):
            ev += conv_events(bits_of(x, n))
            ctx.mark(('v', n, x))
    ctx.exhaustive_subspaces.append('every value of every size 0..%d through every conversion, constructor and round trip' % N)
    if big:
        for n in range(N + 1, 17):
            for _ in range(1500):
                x = rnd.getrandbits(n); ev += conv_events(bits_of(x, n)); ctx.mark(('v', n, x))
    ctx.sample(ev[1000]); ctx.sample(ev[-3])
    validate_events(ctx, ev, 'conversions size<=%d' % N)
    # byte-string constructors
    ev = []
    cls = [0, 1, 2, 0x0f, 0x10, 0x55, 0x7f, 0x80, 0x81, 0xaa, 0xf0, 0xfe, 0xff, 0x33, 0xc3, 0x01]
    ev += bytes_events(b'', [-1, 1, 2, 3], [NONE, 0, 3])
    for v in range(256): ev += bytes_events(bytes([v]), [-1, 1, 0, 2], [NONE, 0, 1, 5, 8, 9, 13])
    for v1 in cls:
        for v2 in cls: ev += bytes_events(bytes([v1, v2]), [-1, 1, 0, 2, 3], [NONE, 7, 13, 16, 21])
    for L in (3, 4, 6, 8, 12):
        for _ in range(40 if big else 8):
            s = bytes(rnd.choice(cls + [rnd.randrange(256)]) for _ in range(L))
            ev += bytes_events(s, [-1, 1, 0, 2, 3, 4, 5, L], [NONE, 8 * L - 3, 8 * L, 8 * L + 5])
    for s0 in (b'\x00\x00\x0a\x0b', b'\x00\x00\x00\x00\x01\x02', b'\x0a\x0b\x00\x00', b'\x01\x02\x00\x00\x03\x04', b'\x00\x00\x00\x07\x00\x00', b'\x00' * 6, b'\x00\x00\x00\x00\x00\x00\x00\x09'):
        ev += bytes_events(s0, [-1, 1, 0, 2, 3, 4, len(s0)], [NONE, 8 * len(s0) - 9, 8 * len(s0)])       # all-zero groups at the start / middle / end of a mixed-endian string
    for L in (16, 24, 32):
        s0 = bytes(rnd.randrange(256) for _ in range(L))
        ev += bytes_events(s0, [-1, 1, 0, 2, 4, 8, L // 2, L], [NONE, 8 * L - 5, 8 * L])                 # k-byte groups with k = 4, 8, 12, 16
    for e in ev: ctx.mark(('b', str(e['s']), e['order'], e['size']))
    ctx.exhaustive_subspaces.append('every 1-byte string and 256 class pairs of 2-byte strings under bitorder -1,+1,0,2(,3) and several sizes')
    validate_events(ctx, ev, 'bytes constructors')
    # load() histories on ONE object: the object denotes exactly the last loaded string, whatever it held before
    from bitsrec import Obj
    strings = [b'', b'\x80', b'\x01\x0f', b'\xff\x00\xa5', b'\x0c\x0d\x0a\x0b', b'\x00', b'\x00\x00']
    def orders_for(x): return [-1, 1] + ([2] if len(x) % 2 == 0 and x else []) + ([0] if x else [])
    ltr = []
    for s1 in strings:
        for s2 in strings:
            for s3 in (b'', b'\x5a', s1):
                o = Obj([1, 0, 1]); evs = []
                for j, x in enumerate((s1, s2, s3)):
                    od = orders_for(x); evs.append(o.mutate(dict(op='load', s=list(x), order=od[(j + len(s1) + len(s2)) % len(od)])))
                ltr.append(dict(obj0=[1, 0, 1], ev=evs)); ctx.mark(('load', s1, s2, s3))
    bad = ctx.validate('trace/Trace_BitVec.tla', ltr, lambda t: len(t['ev']), what='load() histories')
    for tid, recs in bad.items(): classify(ctx, ltr[tid - 1], recs)
    ctx.evaluations += sum(len(t['ev']) for t in ltr)
    ctx.exhaustive_subspaces.append('every three-step load() history over 7 strings (empty, zero bytes, 1..4 bytes) on one object')
    # unpack o pack for every byte count 1..40 (every Q/L/H/B decomposition), both endiannesses
    ev = []
    for nb in list(range(0, 41)) + [48, 56, 64, 71, 72, 73, 80, 96, 100, 128, 136, 200, 256]:
        for k in range(6 if big else 3):
            s = bytes(rnd.randrange(256) for _ in range(nb)) if k else bytes((i + 1) & 255 for i in range(nb))
            ev += unpack_events(s)
            a = bits_of(int.from_bytes(s, 'little'), 8 * nb)
            from crysp.bits import Bits, pack, unpack
            b = mk(a)
            for be in (False, True):
                ev.append(rec(dict(op='rt_pack', a=a, be=be), lambda be=be: Bits(*unpack(pack(b, '>L' if be else '<L'), bigend=be)), [b], alias_check=False))
            ctx.mark(('u', nb, k))
    ctx.exhaustive_subspaces.append('unpack and unpack(pack()) for every byte count 0..40 and 13 larger ones up to 256, both endiannesses')
    validate_events(ctx, ev, 'pack/unpack 1..40 bytes')
    # wide samples
    ev = []
    for n in WIDE:
        vals = [(1 << n) - 1, 1 << (n - 1), (1 << (n - 1)) + 1, (1 << (n // 2)), 0] + [rnd.getrandbits(n) for _ in range(6 if big else 1)]
        for x in vals: ev += conv_events(bits_of(x & ((1 << n) - 1), n)); ctx.mark(('w', n, x))
    validate_events(ctx, ev, 'wide samples')
    clean = dict(obj0=[], ev=[conv_events([1, 0, 1, 1, 0, 0, 1, 0, 1])[0]])
    def corrupt(t): t['ev'][0]['obs'][0] ^= 0x40; return t
    ctx.binding_selftest('trace/Trace_BitVec.tla', clean, lambda t: len(t['ev']), corrupt, 'Trace_BitVec: flipped bit in recorded bytes()')
    ctx.assumptions += ['Bits(b"", bitorder=0) (empty string, big-endian) is not exercised', 'int(-1) is not exercised on the empty vector',
                        'equality is compared on (payload, size), not through Bits.__eq__ (which ignores size)']
    return ctx.finish('harness enumerates every value of every size <= N and all byte strings in the stated classes; TLC (Trace_BitVec over base/BitVec) '
                      'judges every recorded conversion; distinct = distinct (size, value) / (byte string, order, size) / byte count')
