"""C16 - Poly.  Spec: base/PolyVec (+ MC_PolyVec laws).  Bind: all vector pairs of small dims over Z/2^k
(k = 1,2,3) under every operator, index expressions, re-chunking and packing, sampled big rings - recorded
from the real Poly class and judged by Trace_PolyVec."""
import itertools, operator
import core
NONE = -9999

def cenc(x, k):
    """coefficient -> JSON (k > 0: k-bit list, flagged with 2 when out of the ring; k = 0: the int)"""
    if not isinstance(x, int) or isinstance(x, bool): return [3] if k else -999998       # a coefficient is stored as a plain int
    if k == 0: return int(x)
    out = [(x >> j) & 1 for j in range(k)]
    if x < 0 or (x >> k): out = out + [2]
    return out
def venc(vals, k): return [cenc(x, k) for x in vals]
def penc(p, k):
    """real Poly -> JSON coefficient list; the ring must still be k"""
    out = venc(list(p.ival or []), k)
    if p.size != k: out = out + [[9, p.size]] if k else out + [-999999]
    return out
def mkp(vals, k):
    from crysp.poly import Poly
    return Poly(list(vals), k)
def snap(p): return (list(p.ival or []), p.size)

OPS = {'add': operator.add, 'sub': operator.sub, 'xor': operator.xor, 'and': operator.and_, 'or': operator.or_, 'concat': operator.floordiv}

def rec(e, fn, operands, k, render=None):
    before = [snap(o) for o in operands]
    e['raised'] = ''; e['obs'] = []; e['others_unchanged'] = True
    try:
        r = fn()
        e['obs'] = render(r) if render else penc(r, k)
        if not render and r.ival and not e.get('ip'):
            r.ival[0] = (r.ival[0] + 1)                      # the result must not share its list with an operand - nor BE an operand (a later assignment to one would rewrite the other)
    except Exception as ex:
        e['raised'] = type(ex).__name__
    e['others_unchanged'] = before == [snap(o) for o in operands]
    return e

def ev_bin(op, k, a, b, ip=False):
    A, Bp = mkp(a, k), mkp(b, k)
    if ip:                                          # augmented assignment x op= y: the value of x op y
        def f():
            x = A
            if op == 'add': x += Bp
            elif op == 'sub': x -= Bp
            elif op == 'xor': x ^= Bp
            elif op == 'and': x &= Bp
            elif op == 'or': x |= Bp
            else: x //= Bp
            return x
        return rec(dict(op=op, k=k, l=venc(a, k), r=venc(b, k), ip=True), f, [Bp], k)
    return rec(dict(op=op, k=k, l=venc(a, k), r=venc(b, k)), lambda: OPS[op](A, Bp), [A, Bp], k)

def live_history(k, a, steps):
    """one Poly object through reads (degree / dim), operators with the object on either side, and index assignments"""
    A = mkp(a, k); ev = []
    for st in steps:
        if st[0] == 'peek':
            try: A.degree; A.dim
            except Exception: pass
        elif st[0] in ('split', 'pack'):
            from crysp.bits import pack as _pack
            if st[0] == 'split':
                e = dict(op='split', k=k, l=[], k2=st[1], be=st[2], live='l')
                ev.append(rec(e, lambda: A.split(st[1], st[2]), [A], k, render=lambda r: penc(r, st[1])))
            else:
                ev.append(rec(dict(op='pack', k=k, l=[], live='l'), lambda: _pack(A), [A], k, render=lambda r: list(r)))
        elif st[0] == 'setdim':
            e = dict(op='set_dim', n=st[1], k=k, raised='')
            try: A.dim = st[1]
            except Exception as ex: e['raised'] = type(ex).__name__
            e['obj'] = penc(A, k); e['others_unchanged'] = True; ev.append(e)
        elif st[0] in OPS:
            Bp = mkp(st[1], k); side = st[2]
            e = dict(op=st[0], k=k, l=[] if side == 'l' else venc(st[1], k), r=venc(st[1], k) if side == 'l' else [], live=side)
            ev.append(rec(e, (lambda: OPS[st[0]](A, Bp)) if side == 'l' else (lambda: OPS[st[0]](Bp, A)), [A, Bp], k))
        else:
            e = dict(op='set_int', i=st[1], val=venc([st[2]], k), k=k, raised='')
            try: A[st[1]] = st[2]
            except Exception as ex: e['raised'] = type(ex).__name__
            e['obj'] = penc(A, k); e['others_unchanged'] = True; ev.append(e)
    return dict(obj0=venc(a, k), ev=ev)

def ev_un(op, k, a, **kw):
    from crysp.bits import pack
    A = mkp(a, k)
    e = dict(op=op, k=k, l=venc(a, k)); e.update(kw)
    if op == 'neg': return rec(e, lambda: -A, [A], k)
    if op == 'addneg': return rec(e, lambda: A + (-A), [A], k)
    if op == 'shl': return rec(e, lambda: A << kw['n'], [A], k)
    if op == 'shr': return rec(e, lambda: A >> kw['n'], [A], k)
    if op == 'dim': return rec(e, lambda: A.dim, [A], k, render=lambda r: r if isinstance(r, int) else -1)
    if op == 'split': return rec(e, lambda: A.split(kw['k2'], kw['be']), [A], k, render=lambda r: penc(r, kw['k2']))
    if op == 'pack': return rec(e, lambda: pack(A), [A], k, render=lambda r: list(r))
    if op == 'pack_be_frame': return rec(e, lambda: pack(A, '>L'), [A], k, render=lambda r: [])
    if op == 'get_int': return rec(e, lambda: A[kw['i']], [A], k)
    if op == 'get_slice':
        sl = slice(*[None if x == NONE else x for x in (kw['start'], kw['stop'], kw['step'])])
        return rec(e, lambda: A[sl], [A], k, render=lambda r: [] if r is None else penc(r, k))
    if op == 'get_list': return rec(e, lambda: A[list(kw['idx'])], [A], k)
    raise ValueError(op)

def mutate(k, a, e, valform):
    from crysp.poly import Poly
    from crysp.bits import Bits
    A = mkp(a, k); src = list(A.ival)
    vals = e.pop('vals')
    if valform == 'list': v = list(vals)
    elif valform == 'tuple': v = tuple(vals)
    elif valform == 'poly': v = mkp(vals, k)
    elif valform == 'bits': v = [Bits(x, k) for x in vals] if k else list(vals)
    else: v = vals[0]
    keep = [v] if isinstance(v, Poly) else []
    before = [snap(x) for x in keep]; v0 = list(v) if isinstance(v, list) else None
    e['raised'] = ''
    try:
        if e['op'] == 'set_int': A[e['i']] = (Bits(vals[0], k) if (valform == 'bits' and k) else vals[0])
        elif e['op'] == 'set_slice': A[slice(*[None if x == NONE else x for x in (e['start'], e['stop'], e['step'])])] = v
        else: A[list(e['idx'])] = v
    except Exception as ex:
        e['raised'] = type(ex).__name__
    e['val'] = venc(vals, k); e['k'] = k
    e['obj'] = penc(A, k)
    e['others_unchanged'] = before == [snap(x) for x in keep] and (v0 is None or v0 == v)
    return dict(obj0=venc(a, k), ev=[e])

def vecs(k, maxdim):
    for d in range(maxdim + 1):
        for t in itertools.product(range(1 << k), repeat=d): yield list(t)

def classify(ctx, tr, recs):
    for rec_ in recs:
        e = tr['ev'][rec_['step'] - 1]
        for cl in rec_['bad']:
            attrs = dict(op=e['op'], clause=cl['c'], raised=e.get('raised', ''), k=e.get('k', -1))
            if 'l' in e and 'r' in e: attrs.update(dim_l=len(e['l']), dim_r=len(e['r']), left_shorter=len(e['l']) < len(e['r']), both_empty=(len(e['l']) + len(e['r']) == 0))
            elif 'l' in e: attrs.update(dim_l=len(e['l']))
            if cl['c'] == 'must-not-raise': sym = 'raises:' + e['raised']
            elif cl['c'] == 'must-raise': sym = 'no-raise'
            else: sym = 'wrong:' + cl['c']
            ctx.violation('Poly.' + e['op'], sym, attrs, dict(obj0=tr['obj0'], event=e, expected=cl['e']))

def validate_events(ctx, events, what, chunk=60000):
    traces = [dict(obj0=[], ev=events[i:i + 50]) for i in range(0, len(events), 50)]
    validate_traces(ctx, traces, what, chunk // 50)
def validate_traces(ctx, traces, what, n=20000):
    for a in range(0, len(traces), n):
        part = traces[a:a + n]
        bad = ctx.validate('trace/Trace_PolyVec.tla', part, lambda t: len(t['ev']), what='%s[%d:%d]' % (what, a, a + len(part)))
        for tid, recs in bad.items(): classify(ctx, part[tid - 1], recs)
    ctx.evaluations += sum(len(t['ev']) for t in traces)

def run(ctx):
    rnd = ctx.rnd; big = ctx.big()
    ctx.model_check('mc/MC_PolyVec.tla', 'mc/MC_PolyVec_D3.cfg' if big else 'mc/MC_PolyVec.cfg', what='MC_PolyVec laws')
    ev = []
    plan = [(1, 4), (2, 4 if big else 3), (3, 2)]
    for k, md in plan:
        V = list(vecs(k, md))
        for a in V:
            for b in V:
                for op in ('add', 'sub', 'xor', 'and', 'or'): ev.append(ev_bin(op, k, a, b))
                if len(a) + len(b) <= 4: ev.append(ev_bin('concat', k, a, b))
            for op in ('neg', 'addneg', 'dim'): ev.append(ev_un(op, k, a))
            for n in range(k + 2):
                ev.append(ev_un('shl', k, a, n=n)); ev.append(ev_un('shr', k, a, n=n))
        ctx.exhaustive_subspaces.append('all %d x %d vector pairs of dims 0..%d over Z/2^%d under + - ^ & | (both orders), neg, shifts, concat' % (len(V), len(V), md, k))
    # augmented forms; histories on one object (a cached degree / dimension must follow the assignments)
    for k, md in ((1, 3), (2, 2), (3, 2)):
        V = list(vecs(k, md))
        for a in V:
            for b in V:
                for op in ('add', 'sub', 'xor', 'and', 'or', 'concat'): ev.append(ev_bin(op, k, a, b, ip=True))
    hist = []
    for k in (2, 8, 32):
        top = (1 << k) - 1
        for d in (1, 3, 5):
            for zeros in (d, d - 1, 1):
                a = [rnd.randrange(1, top + 1) for _ in range(d - zeros)] + [0] * zeros           # upper coefficients zero
                b1 = [top] * (d + 1); b2 = [rnd.randrange(top + 1) for _ in range(d)]
                for op in ('and', 'or', 'xor', 'add', 'sub'):
                    hist.append(live_history(k, a, [('peek',), (op, b1, 'l'), ('set', d - 1, top), (op, b1, 'l'), (op, b2, 'r'), ('set', 0, 0), ('peek',), ('set', -1, 0), (op, b1, 'r'), (op, b2, 'l')]))
    for k, k2 in ((8, 4), (16, 8), (32, 8), (64, 16)):                  # re-chunking and packing of ONE object across dimension changes and assignments
        for be in (False, True):
            a = [rnd.getrandbits(k) for _ in range(4)]
            hist.append(live_history(k, a, [('split', k2, be), ('pack',), ('setdim', 2), ('split', k2, be), ('pack',), ('setdim', 6), ('split', k2, be), ('pack',),
                                            ('set', 5, (1 << k) - 1), ('split', k2, be), ('pack',), ('setdim', 1), ('pack',), ('split', k2, be)]))
    for t in hist: ctx.mark(('live', str(t['obj0']), t['ev'][0]['op'], t['ev'][0]['k']))
    validate_traces(ctx, hist, 'histories on one object')
    if big:
        V3 = list(vecs(3, 3))
        for _ in range(30000):
            a, b = rnd.choice(V3), rnd.choice(V3)
            ev.append(ev_bin(rnd.choice(('add', 'sub', 'xor', 'and', 'or')), 3, a, b))
    for e in ev: ctx.mark((e['op'], e['k'], str(e['l']), str(e.get('r')), e.get('n', 0), e.get('ip', 0)))
    ctx.sample(ev[len(ev) // 2]); ctx.sample(ev[7])
    validate_events(ctx, ev, 'operators')
    # index expressions
    ev = []; tr = []
    for k in (2, 8):
        for d in range(0, 6 if big else 5):
            for rep in range(2 if k == 2 else 1):
                a = [rnd.randrange(1 << k) for _ in range(d)]
                for i in range(-d - 1, d + 1): ev.append(ev_un('get_int', k, a, i=i))
                rng = [NONE] + list(range(-d, d + 1))
                for s0 in rng:
                    for s1 in rng:
                        for st in (NONE, 1, 2, 3):
                            ev.append(ev_un('get_slice', k, a, start=s0, stop=s1, step=st))
                            n = len(range(d)[slice(*[None if x == NONE else x for x in (s0, s1, st)])])
                            if n > 0 or rnd.random() < .2:
                                form = rnd.choice(('list', 'tuple', 'poly', 'bits'))
                                tr.append(mutate(k, a, dict(op='set_slice', start=s0, stop=s1, step=st, vals=[rnd.randrange(1 << k) for _ in range(n)]), form))
                for L in range(4):
                    for idx in itertools.product(range(d), repeat=L):
                        ev.append(ev_un('get_list', k, a, idx=list(idx)))
                        if L > 0: tr.append(mutate(k, a, dict(op='set_list', idx=list(idx), vals=[rnd.randrange(1 << k) for _ in range(L)]), rnd.choice(('list', 'tuple', 'poly', 'bits'))))
                for i in range(-d - 1, d + 1):
                    tr.append(mutate(k, a, dict(op='set_int', i=i, vals=[rnd.randrange(1 << k)]), rnd.choice(('int', 'bits'))))
    for e in ev: ctx.mark((e['op'], e['k'], str(e['l']), str([e.get(x) for x in ('i', 'start', 'stop', 'step', 'idx')])))
    validate_events(ctx, ev, 'index reads')
    ctx.sample(tr[len(tr) // 2])
    validate_traces(ctx, tr, 'index writes')
    ctx.exhaustive_subspaces.append('every int index, in-range slice (start/stop None,-d..d; step None,1,2,3) and index list (length <= 3, repeats) on dims 0..%d: read and written' % (5 if big else 4))
    # re-chunking, packing, big rings
    ev = []
    for k in (8, 16, 32, 64, 12, 4, 24, 9):
        for d in range(0, 5):
            for rep in range(3 if big else 1):
                a = [rnd.choice([0, (1 << k) - 1, 1 << (k - 1), rnd.getrandbits(k)]) for _ in range(d)]
                for k2 in (1, 2, 3, 4, 6, 8, 12, 16, 32):
                    if k2 < k and k % k2 == 0:
                        for be in (False, True): ev.append(ev_un('split', k, a, k2=k2, be=be))
                ev.append(ev_un('pack', k, a)); ev.append(ev_un('pack_be_frame', k, a)); ev.append(ev_un('pack', k, a))
    for k in (0, 8, 32, 64):
        for _ in range(120 if big else 25):
            da, db = rnd.randrange(0, 21), rnd.randrange(0, 21)
            gen = (lambda: rnd.randrange(1 << 20)) if k == 0 else (lambda: rnd.choice([0, (1 << k) - 1, rnd.getrandbits(k)]))
            a, b = [gen() for _ in range(da)], [gen() for _ in range(db)]
            for op in ('add', 'sub', 'xor', 'and', 'or', 'concat'): ev.append(ev_bin(op, k, a, b))
            ev.append(ev_un('neg', k, a)); ev.append(ev_un('addneg', k, a))
            n = rnd.randrange(0, 9)
            if k: ev.append(ev_un('shl', k, a, n=n))
            ev.append(ev_un('shr', k, a, n=n))
    for e in ev[::3]: ctx.mark((e['op'], e['k'], len(str(e))))
    validate_events(ctx, ev, 'split/pack/big rings')
    clean = dict(obj0=[], ev=[ev_bin('xor', 2, [1, 2, 3], [3, 1, 0])])
    def corrupt(t): t['ev'][0]['obs'][1][0] ^= 1; return t
    ctx.binding_selftest('trace/Trace_PolyVec.tla', clean, lambda t: len(t['ev']), corrupt, 'Trace_PolyVec: flipped coefficient bit of a ^ b')
    ctx.assumptions += ['both operands of a binary operator are over the same ring', 'slices stay within the dimension and have a positive step',
                        'assigned sequences have exactly the selected length', 'ring Z (k=0): non-negative operands below 2^20',
                        'pack(a,">L") (whole-string reversal) is not compared; big-endian layout is checked through split(k2, bigend=True)']
    return ctx.finish('harness enumerates all vector pairs / index expressions for small dims and rings and samples big rings; TLC (Trace_PolyVec over base/PolyVec) judges every event')
