"""C20 - permutations, successor, combinations, subset sums.  Spec: base/Combinat (+ MC_Combinat theorems).
Bind: every list of length 0..5 over {1,2,3} (and distinct lists to 6/7), every k, p, target; each helper is
called twice in a row and interleaved with other arguments; TLC (Trace_Combinat) judges every call."""
import itertools, copy
import core

def call(fn):
    try: return fn(), ''
    except Exception as e: return None, type(e).__name__

def ev_permutk(l, k):
    from crysp.utils.perms import permutk
    w = list(l)
    obs = []
    def go():
        for p in permutk(w, k): obs.append(list(p))
        return obs
    r, exc = call(go)
    return dict(op='permutk', l=list(l), k=k, obs=obs, after=list(w), raised=exc)

def ev_nextperm(l):
    from crysp.utils.perms import nextperm
    w = list(l)
    r, exc = call(lambda: nextperm(w))
    obs = list(r) if isinstance(r, list) else ([] if exc else [-1])
    if not exc and list(w) != obs: obs = [-2] + obs            # documented as in-place: the list itself must hold the successor
    return dict(op='nextperm', l=list(l), obs=obs, raised=exc)

def ev_combink(l, p):
    from crysp.utils.perms import combink
    r, exc = call(lambda: [list(x) for x in combink(list(l), p, 0)])
    return dict(op='combink', l=list(l), p=p, obs=r or [], raised=exc)

class Opaque(dict):
    """an item object that can be neither ordered nor hashed (the helpers get (object, weight) pairs and must not look at the object)"""
    __hash__ = None

def ev_sum(which, items, s, opaque=False, live=None):
    """items: [[id, weight], ...].  opaque: the objects handed to the helper are unorderable, unhashable dicts (mapped back by identity).
    live: a list object that persists between calls (the caller edits it in place between calls); it must hold exactly `items`."""
    from crysp.utils import knapsack
    if live is not None: arg = live
    elif opaque: arg = [(Opaque(id=x[0]), x[1]) for x in items]
    else: arg = [tuple(x) for x in items]
    before = list(arg)
    r, exc = call(lambda: getattr(knapsack, which)(arg if live is not None else list(arg), s))
    e = dict(op=which, items=[list(x) for x in items], s=s, raised=exc, obs=[], kind='fail')
    if opaque: e['opaque'] = True
    if isinstance(r, list):
        snapshot = list(r)
        try: r.append(('junk', 1)); r.reverse()              # the answer belongs to the caller: editing it must not reach into later answers (each call is made twice)
        except Exception: pass
        r = snapshot
    if live is not None:
        e['live'] = True
        if len(arg) != len(before) or any(a is not b for a, b in zip(arg, before)): e['kind'] = 'other:argument-list-changed'; return e
    if exc: return e
    if r is None or r is False: e['kind'] = 'fail'
    elif isinstance(r, list):
        try:
            e['obs'] = [[int(a['id'] if isinstance(a, dict) else a), int(b)] for a, b in r]; e['kind'] = 'list'
        except Exception:
            e['kind'] = 'other'
    else: e['kind'] = 'other:' + type(r).__name__
    return e

def classify(ctx, tr, recs):
    for rec in recs:
        e = tr['ev'][rec['step'] - 1]
        for cl in rec['bad']:
            attrs = dict(op=e['op'], clause=cl['c'], raised=e['raised'], step_in_history=rec['step'])
            if e['op'] in ('exactsum', 'dynprog'):
                obs = e['obs']
                attrs['kind'] = e['kind']
                attrs['foreign_item'] = any(x not in e['items'] for x in obs)          # an element that is not in the given list at all is another defect than the known one
                attrs['reuses_item'] = (not attrs['foreign_item']) and any(obs.count(x) > e['items'].count(x) for x in obs)
                attrs['sum_ok'] = sum(x[1] for x in obs) == e['s'] if e['kind'] == 'list' else False
            attrs.pop('step_in_history')
            sym = ('raises:' + e['raised']) if cl['c'] == 'must-not-raise' else 'wrong:' + cl['c']
            ctx.violation('utils.' + e['op'], sym, attrs, dict(event=e, step=rec['step'], history=[x['op'] for x in tr['ev']], expected=cl['e']))

def run(ctx):
    rnd = ctx.rnd; big = ctx.big()
    ctx.model_check('mc/MC_Combinat.tla', 'mc/MC_Combinat_N5.cfg' if big else 'mc/MC_Combinat.cfg', what='MC_Combinat theorems')
    N = 5
    lists = [list(t) for n in range(N + 1) for t in itertools.product((1, 2, 3), repeat=n)]
    lists += [list(range(1, n + 1)) for n in (6,)] + [[3, 1, 2, 6, 5, 4], [6, 5, 4, 3, 2, 1]]
    if big: lists += [list(range(1, 8)), [7, 6, 5, 4, 3, 2, 1], [1, 1, 2, 2, 3, 3], [2, 7, 1, 4, 4, 6, 3]]
    traces = []
    for l in lists:
        ev = []
        n = len(l)
        for k in range(n + 1):
            if n - k <= 5 or big and n - k <= 7: ev.append(ev_permutk(l, k))
        ev.append(ev_nextperm(l)); ev.append(ev_nextperm(l))
        for p in range(1, n + 1):
            ev.append(ev_combink(l, p)); ev.append(ev_combink(l, p))
        ev.append(ev_nextperm(l))
        if ev: traces.append(dict(ev=ev))
        ctx.mark(('l', str(l)))
    ctx.exhaustive_subspaces.append('every list of length 0..5 over {1,2,3} (with repeats) and distinct lists up to length %d: every k for permutk, nextperm, every p for combink' % (7 if big else 6))
    # subset sums: all item lists of <= 4 (quick) / 5 (thorough) items with weights 1..4 (as multisets of weights), all targets
    M = 5 if big else 4
    for n in range(M + 1):
        for ws in itertools.combinations_with_replacement((1, 2, 3, 4), n):
            for order in ({ws, tuple(reversed(ws))}):
                items = [[i + 1, w] for i, w in enumerate(order)]
                ev = []
                for s in range(0, sum(ws) + 2):
                    ev.append(ev_sum('exactsum', items, s)); ev.append(ev_sum('exactsum', items, s))
                    ev.append(ev_sum('dynprog', items, s)); ev.append(ev_sum('dynprog', items, s))
                # the same weights carried by OTHER objects (labels tied to nothing the weights determine): an answer is made of the given items
                items2 = [[50 + 3 * n - 2 * i, w] for i, w in enumerate(order)]
                for s in range(0, sum(ws) + 2):
                    ev.append(ev_sum('dynprog', items2, s)); ev.append(ev_sum('exactsum', items2, s))
                # interleave: an earlier target again after the others
                ev.append(ev_sum('exactsum', items, max(sum(ws) - 1, 0))); ev.append(ev_sum('exactsum', items, 1))
                traces.append(dict(ev=ev)); ctx.mark(('s', str(items)))
    # identical items (true multisets) and larger weights
    for items in ([[1, 2], [1, 2], [1, 2]], [[1, 3], [2, 3], [1, 3], [5, 1]], [[9, 7], [9, 7], [8, 5], [7, 5], [6, 11]]):
        ev = []
        for s in range(0, sum(w for _, w in items) + 1):
            ev.append(ev_sum('exactsum', items, s)); ev.append(ev_sum('dynprog', items, s))
        traces.append(dict(ev=ev))
    # opaque item objects (unorderable, unhashable): every multiset again, one call per target
    for n in range(1, M + 1):
        for ws in itertools.combinations_with_replacement((1, 2, 3, 4), n):
            items = [[i + 1, w] for i, w in enumerate(ws)]
            ev = []
            for s in range(0, sum(ws) + 2):
                ev.append(ev_sum('exactsum', items, s, opaque=True)); ev.append(ev_sum('dynprog', items, s, opaque=True))
            traces.append(dict(ev=ev)); ctx.mark(('so', str(items)))
    # ONE list object edited in place between calls (append / replace / delete): every call answers for the list as it is now
    for which in ('dynprog', 'exactsum'):
        for base in ([[1, 3], [2, 5]], [[1, 2], [2, 2], [3, 7]], [[1, 4]]):
            L = [tuple(x) for x in base]; ev = []
            def cur(): return [list(x) for x in L]
            tot = sum(w for _, w in L)
            ev.append(ev_sum(which, cur(), tot, live=L)); ev.append(ev_sum(which, cur(), tot, live=L))
            L.append((9, tot)); ev.append(ev_sum(which, cur(), tot, live=L))
            L[0] = (8, L[0][1] + 1); ev.append(ev_sum(which, cur(), base[0][1], live=L)); ev.append(ev_sum(which, cur(), tot + 1, live=L))
            del L[-1]; ev.append(ev_sum(which, cur(), tot, live=L)); ev.append(ev_sum(which, cur(), tot + 1, live=L))
            L.insert(0, (7, 1)); ev.append(ev_sum(which, cur(), 1, live=L)); ev.append(ev_sum(which, cur(), tot + 2, live=L))
            traces.append(dict(ev=ev)); ctx.mark(('live', which, str(base)))
    # huge weights that cannot take part in any answer, and targets beyond 1024 (for TLC every weight above the target is the same weight: target + 1)
    def capped(items, s): return [[i, min(w, s + 1)] for i, w in items]
    for items, s in (([[1, 2 ** 64], [2, 3], [3, 4]], 7), ([[1, 3], [2, 2 ** 128], [3, 4], [4, 2 ** 40]], 7), ([[1, 2 ** 70]], 5), ([[1, 5], [2, 10 ** 30]], 5)):
        ev = []
        for which in ('exactsum', 'dynprog'):
            e = ev_sum(which, items, s); e['items'] = capped(items, s); e['obs'] = capped(e['obs'], s) if e['kind'] == 'list' else e['obs']; ev.append(e)
        traces.append(dict(ev=ev)); ctx.mark(('huge weights', str(items)[:60]))
    for items, tg in (([[1, 1024], [2, 600], [3, 424]], (1024, 2048, 1023)), ([[1, 2048], [2, 6]], (2048, 2054, 6)), ([[1, 4096], [2, 4095], [3, 1]], (4096, 8191, 4097)), ([[1, 3000], [2, 1024], [3, 1976]], (3000, 4024, 1024))):
        ev = []
        for s in tg:
            ev.append(ev_sum('exactsum', items, s)); ev.append(ev_sum('dynprog', items, s))
        traces.append(dict(ev=ev)); ctx.mark(('large targets', str(items)))
    # more than 24 items (the judge uses the reachable-sums recurrence instead of enumerating sub-collections)
    for n in (25, 26, 30):
        items = [[i + 1, 3 + (i * 7) % 11] for i in range(n)]
        first = sum(w for _, w in items[:n // 2]); ev = []
        for s in (first, items[0][1] + items[1][1], sum(w for _, w in items), first + 1, 1, 2, items[0][1], sum(w for _, w in items[:3])):       # (an unreachable target above the total would cost the real exhaustive search minutes)
            ev.append(ev_sum('exactsum', items, s))
        traces.append(dict(ev=ev)); ctx.mark(('many items', n))
    # ... with weights that are distinct powers of two: every reachable target has exactly ONE sub-collection (ascending and descending lists:
    # the answer lies in the first half, in the second half, or in both)
    for n in (25, 26, 29):
        for desc in (False, True):
            items = [[i + 1, 1 << (n - 1 - i if desc else i)] for i in range(n)]; ev = []
            for s in ((1 << 3) + (1 << 5), (1 << 12) + 1, (1 << 0), (1 << 2) + (1 << 13), (1 << 11) + (1 << 6) + (1 << 1), 3):
                ev.append(ev_sum('exactsum', items, s))
            traces.append(dict(ev=ev)); ctx.mark(('many items, unique answers', n, desc))
    # long lists with repeats: a long non-increasing tail that contains the pivot's value (successor / wrap-around)
    for n in ((17, 18, 20, 24, 33) if big else (18, 20, 33)):
        ev = []
        for q in range(6 if big else 3):
            tail = sorted((rnd.randrange(3) for _ in range(n - 2)), reverse=True)
            l = [rnd.randrange(2), rnd.choice(tail[len(tail) // 2:] + [0])] + tail
            ev.append(ev_nextperm(l)); ev.append(ev_nextperm(l[1:]))
        ev.append(ev_nextperm([0, 1] + [2] * (n // 3) + [1] * (n // 3) + [0] * (n // 3)))
        traces.append(dict(ev=ev)); ctx.mark(('longperm', n))
    ctx.exhaustive_subspaces.append('every multiset of <= %d weights in 1..4, in both orders, every target 0..sum+1; each call repeated; the same weights again on differently labelled items; again with opaque item objects; one list object edited in place between calls' % M)
    ctx.evaluations = sum(len(t['ev']) for t in traces)
    ctx.sample(traces[40]['ev'][:3]); ctx.sample(traces[-5]['ev'][:4])
    bad = ctx.validate('trace/Trace_Combinat.tla', traces, lambda t: len(t['ev']), what='Trace_Combinat')
    for tid, recs in bad.items(): classify(ctx, traces[tid - 1], recs)
    clean = dict(ev=[ev_nextperm([1, 3, 2])])
    def corrupt(t): t['ev'][0]['obs'] = [2, 3, 1]; return t
    ctx.binding_selftest('trace/Trace_Combinat.tla', clean, lambda t: len(t['ev']), corrupt, 'Trace_Combinat: wrong successor recorded')
    clean2 = dict(ev=[ev_permutk([1, 2, 3], 0)])
    def corrupt2(t): t['ev'][0]['obs'][1] = t['ev'][0]['obs'][0]; return t
    ctx.binding_selftest('trace/Trace_Combinat.tla', clean2, lambda t: len(t['ev']), corrupt2, 'Trace_Combinat: one arrangement yielded twice')
    ctx.assumptions += ['items are (object, weight) pairs with positive integer weights; the objects are ints or opaque (unorderable, unhashable) objects', 'failure value of exactsum/dynprog: None or False',
                        'permutk: multiset of arrangements is what is compared, not their order']
    return ctx.finish('harness enumerates lists / item lists completely within the bounds; TLC (Trace_Combinat over base/Combinat) judges every call of every history')
