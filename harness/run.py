import sys, os, importlib
sys.path.insert(0, os.path.dirname(os.path.abspath(__file__)))
import core
def main():
    if len(sys.argv) < 2:
        print('usage: check <ID> [--tier quick|thorough] [--seed N]'); return 2
    prop = sys.argv[1].upper()
    try:
        mod = importlib.import_module(prop.lower())
    except ImportError as e:
        print('MACHINERY-FAILURE property=%s: no check module (%s)' % (prop, e)); return 2
    return core.main(prop, mod.run)
if __name__ == '__main__':
    sys.exit(main())
