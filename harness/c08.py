"""C08 - Bits operators.  MC: MC_BitVec (sequence model = natural-number arithmetic; algebraic laws; frame
conditions) exhaustively for widths <= 4/5.  Bind: every operand pair of widths <= W under every operator,
every index expression, every single mutation, mutation histories, wide samples - recorded from the real
Bits class and judged step by step by Trace_BitVec."""
import itertools
import core
from bitsrec import NONE, ev_bin, ev_un, ev_concat_list, Obj, enc, mk

def bits_of(x, n): return [(x >> j) & 1 for j in range(n)]
def allvals(n): return [bits_of(x, n) for x in range(1 << n)]
def Bv(bits): return dict(t='b', v=list(bits))
def Iv(x): return dict(t='i', v=x)

def pure_events(W, rnd, big):
    ev = []
    for m in range(W + 1):
        for a in allvals(m):
            for n in range(W + 1):
                for b in allvals(n):
                    for op in ('and', 'or', 'xor', 'add', 'sub', 'mul', 'concat', 'hd'):
                        ev.append(ev_bin(op, Bv(a), Bv(b)))
            for x in range(1 << W):
                for op in ('and', 'or', 'xor', 'add', 'sub', 'mul', 'concat'):
                    ev.append(ev_bin(op, Bv(a), Iv(x)))
                for op in ('and', 'or', 'xor', 'add', 'sub'):
                    ev.append(ev_bin(op, Iv(x), Bv(a)))
            for op in ('neg', 'inv', 'hw'): ev.append(ev_un(op, a))
            for k in range(m + 3):
                ev.append(ev_un('shl', a, k=k)); ev.append(ev_un('shr', a, k=k))
            for k in range(m + 1):
                ev.append(ev_un('rol', a, k=k)); ev.append(ev_un('ror', a, k=k))
            for k in range(1, m + 2):
                for be in (False, True): ev.append(ev_un('split', a, k=k, be=be))
            for n in range(m + 4):
                ev.append(ev_un('zext', a, n=n))
                if m > 0: ev.append(ev_un('sext', a, n=n))
    # augmented forms (x op= y) must agree with the binary operators; helper concat() on lists of pieces
    Wa = min(W, 3)
    for m in range(Wa + 1):
        for a in allvals(m):
            for n in range(Wa + 1):
                for b in allvals(n):
                    for op in ('and', 'or', 'xor', 'add', 'sub', 'mul', 'concat'): ev.append(ev_bin(op, Bv(a), Bv(b), ip=True))
            for x in (0, 1, 5):
                for op in ('and', 'or', 'xor', 'add', 'sub'): ev.append(ev_bin(op, Bv(a), Iv(x), ip=True))
            for k in range(m + 2):
                ev.append(ev_un('shl', a, k=k, ip=True)); ev.append(ev_un('shr', a, k=k, ip=True))
    for widths in ([1], [2], [0, 2], [2, 1], [1, 2, 1], [2, 0, 1], [1, 1, 1, 2], [3, 2, 2, 1, 1]):
        for rep in range(3):
            parts = [bits_of(rnd.getrandbits(w) if w else 0, w) for w in widths]
            for be in (False, True): ev += ev_concat_list(parts, be)
    ev += ev_concat_list([bits_of(0xdeadbeef >> (8 * i) & 255, 8) for i in range(4)], True)
    for widths in ([8] * 9, [8, 8, 3, 8, 8, 8, 8, 8, 8, 8], [8, 1, 8, 8, 12, 8, 8, 8, 0, 8, 8], [8] * 4 + [16] + [8] * 7):      # long lists: byte-wide ends, other widths inside
        parts = [bits_of(rnd.getrandbits(w) if w else 0, w) for w in widths]
        for be in (False, True): ev += ev_concat_list(parts, be)
    return ev

def slice_exprs(w):
    rng = [NONE] + list(range(-w - 1, w + 2))
    return [(a, b, c) for a in rng for b in rng for c in (NONE, 1, -1, 2, -2, 3, -3)]

def index_events(Wi, rnd, big):
    ev = []
    for w in range(1, Wi + 1):
        sl = slice_exprs(w)
        lists = [list(t) for L in range(4) for t in itertools.product(range(w), repeat=L)]
        for a in allvals(w):
            for i in range(-w - 1, w + 1): ev.append(ev_un('get_int', a, i=i))
            for (s0, s1, s2) in sl: ev.append(ev_un('get_slice', a, start=s0, stop=s1, step=s2))
            for idx in lists: ev.append(ev_un('get_list', a, idx=idx))
            for (s0, s1) in ((0, w), (1, w), (0, w - 1), (1, 1), (w, w)):           # slice bounds given as Bits objects
                for s2 in (NONE, 1, 2): ev.append(ev_un('get_slice', a, start=s0, stop=s1, step=s2, bits_bounds=True))
    return ev

def sel_len(w, s):
    return len(range(w)[slice(*[None if x == NONE else x for x in s])])

def set_traces(Wi, rnd, big):
    """single mutations: every index expression, fitting values; each is a 1-event trace on its own object"""
    tr = []
    for w in range(0, Wi + 1):
        sl = slice_exprs(w)
        lists = [list(t) for L in range(4) for t in itertools.product(range(w), repeat=L)]
        for a in allvals(w):
            evs = []
            for i in range(-w - 1, w + 1):
                for v in (0, 1):
                    evs.append(dict(op='set_int', i=i, v=v)); evs.append(dict(op='set_int', i=i, v=v, vform='bits'))
            for s in sl:
                n = sel_len(w, s)
                vals = list(range(1 << n))
                if not big and len(vals) > 2: vals = sorted(set([0, (1 << n) - 1, rnd.randrange(1 << n), 1]))[:3]
                for x in vals:
                    evs.append(dict(op='set_slice', start=s[0], stop=s[1], step=s[2], val=Iv(x)))
                    if big or rnd.random() < 0.4:
                        evs.append(dict(op='set_slice', start=s[0], stop=s[1], step=s[2], val=dict(t='l', v=bits_of(x, n))))
                    if big and x % 3 == 0:
                        evs.append(dict(op='set_slice', start=s[0], stop=s[1], step=s[2], val=Bv(bits_of(x, n))))
                if n >= 2:                                   # a Bits / list value SHORTER than the selection (zero-extended; the operand must stay as it was)
                    x = rnd.randrange(1 << (n - 1))
                    evs.append(dict(op='set_slice', start=s[0], stop=s[1], step=s[2], val=Bv(bits_of(x, n - 1))))
                    if big or rnd.random() < 0.3: evs.append(dict(op='set_slice', start=s[0], stop=s[1], step=s[2], val=dict(t='l', v=bits_of(x % 2, 1))))
            for idx in lists:
                n = len(idx)
                for x in (range(1 << n) if big else sorted({0, (1 << n) - 1, rnd.randrange(1 << n)})):
                    evs.append(dict(op='set_list', idx=idx, val=Iv(x)))
                    evs.append(dict(op='set_list', idx=idx, val=dict(t='l', v=bits_of(x, n))))
                if n >= 2:
                    evs.append(dict(op='set_list', idx=idx, val=Bv(bits_of(rnd.randrange(1 << (n - 1)), n - 1))))
            for n in range(w + 4):
                evs.append(dict(op='set_size', n=n)); evs.append(dict(op='zext_ip', n=n))
                if w > 0: evs.append(dict(op='sext_ip', n=n))
            for e in evs:
                o = Obj(a)
                tr.append(dict(obj0=list(a), ev=[o.mutate(e)]))
    return tr

def random_mutation(rnd, w):
    k = rnd.randrange(8)
    if k == 0 and w > 0: return dict(op='set_int', i=rnd.randrange(-w, w), v=rnd.randrange(2))
    if k in (1, 2) and w > 0:
        rng = [NONE] + list(range(-w - 1, w + 2))
        s = (rnd.choice(rng), rnd.choice(rng), rnd.choice((NONE, 1, 1, -1, 2, -2, 3)))
        n = sel_len(w, s); x = rnd.randrange(1 << n)
        return dict(op='set_slice', start=s[0], stop=s[1], step=s[2], val=(Iv(x) if rnd.random() < .5 else dict(t='l', v=bits_of(x, n))))
    if k == 3 and w > 0:
        idx = [rnd.randrange(w) for _ in range(rnd.randrange(4))]; x = rnd.randrange(1 << len(idx))
        return dict(op='set_list', idx=idx, val=(Iv(x) if rnd.random() < .5 else dict(t='l', v=bits_of(x, len(idx)))))
    if k == 4: return dict(op='set_size', n=rnd.randrange(0, w + 4))
    if k == 5: return dict(op='zext_ip', n=rnd.randrange(0, w + 5))
    if k == 6 and w > 0: return dict(op='sext_ip', n=rnd.randrange(0, w + 5))
    return dict(op='set_size', n=max(0, w + rnd.randrange(-2, 3)))

def history_traces(rnd, count, depth, maxw):
    tr = []
    for _ in range(count):
        w = rnd.randrange(0, maxw + 1)
        a = bits_of(rnd.getrandbits(w) if w else 0, w)
        o = Obj(a); evs = []
        for _ in range(depth):
            e = random_mutation(rnd, o.o.size)
            evs.append(o.mutate(e))
            if o.o.size > 3 * maxw + 8: break
        tr.append(dict(obj0=a, ev=evs))
    return tr

def pair_histories(w):
    """every two-step mutation history on every vector of width <= w (hidden state such as a stale mask shows at step 2)"""
    tr = []
    def alphabet(n):
        al = [dict(op='set_size', n=k) for k in range(n + 2)] + [dict(op='zext_ip', n=k) for k in range(n + 2)]
        if n > 0:
            al += [dict(op='sext_ip', n=k) for k in range(n + 2)]
            al += [dict(op='set_int', i=i, v=v) for i in (0, -1, n - 1) for v in (0, 1)]
            al += [dict(op='set_slice', start=NONE, stop=NONE, step=st, val=Iv(x)) for st in (NONE, 2, -1) for x in (0, 1)
                   if x < (1 << len(range(n)[::(None if st == NONE else st)]))]
            al += [dict(op='set_list', idx=[n - 1, 0], val=Iv(x)) for x in (1, 2)]
        return al
    import copy
    for n in range(w + 1):
        for a in allvals(n):
            for e1 in alphabet(n):
                o1 = Obj(a); r1 = o1.mutate(copy.deepcopy(e1))
                for e2 in alphabet(o1.o.size):
                    o = Obj(a); ee1 = o.mutate(copy.deepcopy(e1)); ee2 = o.mutate(copy.deepcopy(e2))
                    tr.append(dict(obj0=list(a), ev=[ee1, ee2]))
    return tr

WIDE = [31, 32, 33, 63, 64, 65, 127, 128, 129, 255, 256, 257, 1024, 2048]
def wide_events(rnd, per):
    ev = []
    def val(n, k):
        c = k % 6
        if c == 0: x = rnd.getrandbits(n)
        elif c == 1: x = (1 << n) - 1
        elif c == 2: x = 1 << (n - 1)
        elif c == 3: x = (1 << (n // 2)) + 1
        elif c == 4: x = (1 << (n // 2)) - 1
        else: x = 0
        return bits_of(x & ((1 << n) - 1), n)
    def nat(bits):   # Python int given by its significant bits
        while bits and bits[-1] == 0: bits = bits[:-1]
        return dict(t='I', v=bits)
    for n in WIDE:
        for k in range(per):
            a = val(n, k); m2 = rnd.choice(WIDE + [n, n, 1, 7]); b = val(m2, k + 1)
            for op in ('and', 'or', 'xor', 'add', 'sub', 'concat'): ev.append(ev_bin(op, Bv(a), Bv(b)))
            if n <= 257: ev.append(ev_bin('mul', Bv(a), Bv(val(min(m2, 64), k))))
            ev.append(ev_bin('add', Bv(a), nat(list(b)))); ev.append(ev_bin('sub', nat(list(b)), Bv(a))); ev.append(ev_bin('xor', nat(list(b)), Bv(a)))
            for op in ('neg', 'inv', 'hw'): ev.append(ev_un(op, a))
            for kk in {0, 1, n // 2, n - 1, n, rnd.randrange(n + 1)}:
                ev.append(ev_un('rol', a, k=kk)); ev.append(ev_un('ror', a, k=kk))
                ev.append(ev_un('shl', a, k=kk)); ev.append(ev_un('shr', a, k=kk))
            ev.append(ev_un('split', a, k=rnd.choice([8, 32, 64, 7]), be=bool(k % 2)))
            ev.append(ev_un('zext', a, n=n + rnd.randrange(70))); ev.append(ev_un('sext', a, n=n + rnd.randrange(70)))
            s = (rnd.randrange(-n, n), rnd.randrange(-n, n + 3), rnd.choice([NONE, 1, 2, -1, 5, -7]))
            ev.append(ev_un('get_slice', a, start=s[0], stop=s[1], step=s[2]))
            ev.append(ev_un('get_list', a, idx=[rnd.randrange(n) for _ in range(5)]))
    return ev

def classify(ctx, tr, recs, kind):
    for rec in recs:
        e = tr['ev'][rec['step'] - 1]
        for cl in rec['bad']:
            op = e['op']
            attrs = dict(op=op, clause=cl['c'], raised=e.get('raised', ''))
            if 'l' in e: attrs.update(left=e['l']['t'], right=e['r']['t'])
            if 'val' in e: attrs.update(value_kind=e['val']['t'])
            if op == 'set_slice':
                st = 1 if e['step'] == NONE else e['step']
                attrs.update(step=st, w=len(tr['obj0']))
            if op in ('neg',): attrs.update(w=len(e['a']))
            if cl['c'] == 'must-not-raise': sym = 'raises:' + e['raised']
            elif cl['c'] == 'must-raise': sym = 'no-raise'
            else: sym = 'wrong:' + cl['c']
            ctx.violation('Bits.' + op, sym, attrs, dict(kind=kind, obj0=tr['obj0'], event=e, step=rec['step'], expected=cl['e']))

def validate_events(ctx, events, what, chunk=40000):
    """pure events: packed 50 to a trace (independent steps) to keep the number of initial states small"""
    traces = [dict(obj0=[], ev=events[i:i + 50]) for i in range(0, len(events), 50)]
    validate_traces(ctx, traces, what, 'pure', chunk // 50)

def validate_traces(ctx, traces, what, kind, chunk=20000):
    for a in range(0, len(traces), chunk):
        part = traces[a:a + chunk]
        bad = ctx.validate('trace/Trace_BitVec.tla', part, lambda t: len(t['ev']), what='%s[%d:%d]' % (what, a, a + len(part)))
        for tid, recs in bad.items(): classify(ctx, part[tid - 1], recs, kind)
    ctx.evaluations += sum(len(t['ev']) for t in traces)

def run(ctx):
    rnd = ctx.rnd; big = ctx.big()
    ctx.model_check('mc/MC_BitVec.tla', 'mc/MC_BitVec_W5.cfg' if big else 'mc/MC_BitVec.cfg', what='MC_BitVec (spec theorems, widths <= %d)' % (5 if big else 4))
    W = 6 if big else 4
    Wi = 5 if big else 4
    pe = pure_events(W, rnd, big)
    for e in pe: ctx.mark(('p', e['op'], str(e.get('l', e.get('a', e.get('parts')))), str(e.get('r', '')), e.get('k', e.get('n', 0)), e.get('be', 0), e.get('ip', 0)))
    ctx.sample(pe[len(pe) // 2]); ctx.sample(pe[-1])
    validate_events(ctx, pe, 'operators W<=%d' % W)
    ctx.exhaustive_subspaces.append('all operand pairs of widths 0..%d (Bits/Bits, Bits/int, int/Bits) under & | ^ + - * // hd (augmented forms op= for widths <= 3); concat() of 1..5 pieces, both orders, twice on the same list; all unary ops, shifts 0..w+2, rotations 0..w, splits, extensions' % W)
    ie = index_events(Wi, rnd, big)
    for e in ie: ctx.mark(('i', e['op'], str(e['a']), str([e.get(k) for k in ('i', 'start', 'stop', 'step', 'idx', 'bits_bounds')])))
    validate_events(ctx, ie, 'index reads w<=%d' % Wi)
    st = set_traces(Wi if big else 3, rnd, big)
    ctx.sample(st[len(st) // 3])
    for t in st: ctx.mark(('s', str(t['obj0']), str({k: v for k, v in t['ev'][0].items() if k not in ('obj', 'raised', 'others_unchanged')})))
    validate_traces(ctx, st, 'single mutations', 'mutation')
    ctx.exhaustive_subspaces.append('every int index, every slice (start/stop in None,-w-1..w+1; step None,+-1,+-2,+-3) and every index list of length <= 3 on every vector of width <= %d: read; written with fitting values' % Wi)
    ph = pair_histories(3 if big else 2)
    validate_traces(ctx, ph, 'two-step mutation histories', 'history')
    ctx.exhaustive_subspaces.append('every two-step mutation history over a %d-letter-per-width alphabet on every vector of width <= %d' % (20, 3 if big else 2))
    hs = history_traces(rnd, 3000 if big else 400, 6, 8)
    for t in hs: ctx.mark(('h', str(t['obj0']), str([e['op'] for e in t['ev']])))
    ctx.sample(hs[0])
    validate_traces(ctx, hs, 'random mutation histories', 'history')
    we = wide_events(rnd, 12 if big else 2)
    validate_events(ctx, we, 'wide samples')
    for e in we[:50]: ctx.mark(('w', e['op'], len(str(e))))
    # binding self-test
    clean = dict(obj0=[], ev=[ev_bin('add', Bv([1, 0, 1]), Bv([1, 1]))])
    def corrupt(t): t['ev'][0]['obs'][0] ^= 1; return t
    ctx.binding_selftest('trace/Trace_BitVec.tla', clean, lambda t: len(t['ev']), corrupt, 'Trace_BitVec: flipped result bit of a + b')
    o = Obj([1, 0, 1, 1]); clean2 = dict(obj0=[1, 0, 1, 1], ev=[o.mutate(dict(op='set_slice', start=0, stop=NONE, step=2, val=Iv(2)))])
    def corrupt2(t): t['ev'][0]['obj'][1] ^= 1; return t
    ctx.binding_selftest('trace/Trace_BitVec.tla', clean2, lambda t: len(t['ev']), corrupt2, 'Trace_BitVec: a bit outside the assigned slice changed')
    ctx.assumptions += ['integer operands are non-negative', 'int * Bits and int // Bits are not defined by the class and not exercised',
                        'assigned values fit the selection (an int below 2^len, a list/Bits of at most the selected length - shorter ones are zero-extended)',
                        'indexing the empty vector and sign-extending it are not exercised; index lists hold in-range non-negative indices',
                        'rol/ror amounts 0..size']
    return ctx.finish('harness enumerates operand pairs / index expressions / mutations completely for small widths and samples wide vectors; '
                      'TLC (Trace_BitVec over base/BitVec) judges every recorded event; distinct = distinct (operator, operands, parameters)')
