"""C10 - one-shot results depend only on the arguments, never on earlier calls.  MC: MC_Objects enumerates every call
sequence of length <= D over a 7-letter per-kind alphabet (the specified objects have no result-relevant state).
Bind: the outcome of every (kind, call) on a freshly constructed object is recorded first (the table); every sequence
is then replayed on one long-lived instance, its sibling and the module-level singleton; TLC (Trace_Objects) decides
at every step that the observed relation call -> result is a function, i.e. equals the fresh-object outcome."""
import core

def enc(r):
    if isinstance(r, bytes): return 'bytes:' + r.hex()
    if isinstance(r, bytearray): return 'bytearray:' + bytes(r).hex()           # a result of another type than the fresh object's is a different outcome
    if r is None: return 'None'
    if isinstance(r, (int, str, bool)): return repr(r)
    if isinstance(r, (list, tuple)): return 'seq:' + repr([enc(x) for x in r])
    return 'obj:' + type(r).__name__

def outcome(fn, *a):
    try: return 'ok:' + enc(fn(*a))
    except Exception as e: return 'raise:' + type(e).__name__

class Env:
    """objects of one history: A (long-lived), B (sibling), created lazily by the kind's factory"""
    def __init__(self, factory, eager=False):
        self.factory = factory; self._a = None; self._b = None; self.extra = {}
        if eager: self.A; self.B            # both objects exist BEFORE the first call of the history (a foreign instance built later must not reach into them)
    @property
    def A(self):
        if self._a is None: self._a = self.factory()
        return self._a
    @property
    def B(self):
        if self._b is None: self._b = self.factory()
        return self._b

M1 = b'The quick brown fox jumps over the lazy dog'
M2 = bytes(range(70))
M3 = b'x' * 200
BLK = lambda n: bytes((7 * i + 3) & 255 for i in range(n))

def kinds():
    from crysp import sha, md, blake, keccak, skein, hmac, tlsh, nilsimsa, aes, des, serpent, threefish, mode, salsa20, chacha
    from crysp.padding import nopadding, pkcs7
    from crysp.bits import Bits
    K = {}
    def hashkind(name, factory, blockbytes):
        K[name] = (factory, [
            ('call M1', True, lambda e: e.A(M1)),
            ('call M2 bitlen', True, lambda e: e.A(M2, 8 * len(M2) - 5)),
            ('call overlong bitlen', False, lambda e: e.A(M1, 8 * len(M1) + 8)),
            ('update unfinished', False, lambda e: e.A.update(BLK(blockbytes), padding=False)),
            ('sibling M1', True, lambda e: e.B(M1)),
            ('call M3', True, lambda e: e.A(M3))])
    hashkind('SHA1', lambda: sha.SHA1(), 64); hashkind('SHA0', lambda: sha.SHA1(0), 64)
    hashkind('SHA2-256', lambda: sha.SHA2(256), 64); hashkind('SHA2-512/256', lambda: sha.SHA2(512, 256), 128); hashkind('SHA2-384', lambda: sha.SHA2(384), 128)
    hashkind('MD4', lambda: md.MD4(), 64); hashkind('MD5', lambda: md.MD5(), 64)
    K['SHA3'] = (lambda: sha.SHA3(256), [
        ('call M1', True, lambda e: e.A(M1)), ('call M2', True, lambda e: e.A(M2)), ('duplex', False, lambda e: e.A.duplex(b'ab')),
        ('keccak-call r', False, lambda e: keccak.Keccak.__call__(e.A, M1, None, 1024)), ('sibling M1', True, lambda e: e.B(M1)), ('shake128', True, lambda e: sha.SHAKE128(M1, 264))])
    kf = lambda: keccak.Keccak(b=1600, c=512, len=256)
    K['Keccak'] = (kf, [
        ('call M1', True, lambda e: e.A(M1)), ('call M2 bitlen', True, lambda e: e.A(M2, 13)), ('call M1 r=1344', True, lambda e: e.A(M1, None, 1344)),
        ('duplex', False, lambda e: e.A.duplex(b'ab', 11, 64)), ('sibling M1', True, lambda e: e.B(M1)), ('singleton keccak_256 M1', True, lambda e: keccak.keccak_256(M1))])
    K['Keccak-200'] = (lambda: keccak.Keccak(b=200, r=72, len=64), [
        ('call M1', True, lambda e: e.A(M1)), ('call M2 bitlen', True, lambda e: e.A(M2, 143)), ('call M1 r=136', True, lambda e: e.A(M1, None, 136)),
        ('overlong with r=136', False, lambda e: e.A(b'ab', 17, 136)), ('sibling M1', True, lambda e: e.B(M1)), ('duplex', False, lambda e: e.A.duplex(b'a', 3, 8))])
    def md6f():
        h = md.MD6(256, b'key', 64); h.rounds = 6; return h            # >= 6 rounds: fewer do not carry every input word (key, control word) into the digest
    K['MD6'] = (md6f, [
        ('call M1', True, lambda e: e.A(M1)), ('call M3 bitlen', True, lambda e: e.A(M3, 8 * len(M3) - 3)), ('overlong', False, lambda e: e.A(b'ab', 17)),
        ('call empty', True, lambda e: e.A(b'')), ('sibling M1', True, lambda e: e.B(M1)), ('call long', True, lambda e: e.A(M3 * 7))])
    def md6s():
        h = md.MD6(256, b'', 0); h.rounds = 6; return h
    K['MD6-seq'] = (md6s, [
        ('call M1', True, lambda e: e.A(M1)), ('call M3*4 bitlen', True, lambda e: e.A(M3 * 4, 8 * len(M3 * 4) - 3)), ('overlong', False, lambda e: e.A(b'ab', 17)),
        ('call empty', True, lambda e: e.A(b'')), ('sibling M1', True, lambda e: e.B(M1)), ('call long', True, lambda e: e.A(M3 * 7))])
    K['Blake'] = (lambda: blake.Blake(256), [
        ('call M1', True, lambda e: e.A(M1)), ('call M2 salt bitlen', True, lambda e: e.A(M2, 12345, 8 * len(M2) - 3)), ('overlong', False, lambda e: e.A(M1, 0, 8 * len(M1) + 1)),
        ('update unfinished', False, lambda e: e.A.update(BLK(64), padding=False)), ('sibling M1', True, lambda e: e.B(M1)), ('singleton blake256 M1', True, lambda e: blake.blake256(M1))])
    K['Blake512'] = (lambda: blake.Blake(512), [
        ('call M1', True, lambda e: e.A(M1)), ('call M3 salt', True, lambda e: e.A(M3, 1 << 200)), ('overlong', False, lambda e: e.A(M1, 0, 8 * len(M1) + 1)),
        ('update unfinished', False, lambda e: e.A.update(BLK(128), padding=False)), ('sibling M1', True, lambda e: e.B(M1)), ('singleton blake512 M1', True, lambda e: blake.blake512(M1))])
    K['Blake2b'] = (lambda: blake.Blake2(512), [
        ('call M1', True, lambda e: e.A(M1)), ('call M1 outlen=20', True, lambda e: e.A(M1, outlen=20)), ('call outlen=0', False, lambda e: e.A(M1, outlen=0)),
        ('call M3 salt pers', True, lambda e: e.A(M3, salt=BLK(16), pers=BLK(16)[::-1], fanout=2, depth=3)), ('sibling M1', True, lambda e: e.B(M1)), ('singleton blake2b M1', True, lambda e: blake.blake2b(M1))])
    K['Blake2s'] = (lambda: blake.Blake2(256), [
        ('call M1', True, lambda e: e.A(M1)), ('call M3 outlen=7 keylen=3', True, lambda e: e.A(M3, outlen=7, keylen=3)), ('update unfinished', False, lambda e: e.A.update(BLK(64), padding=False)),
        ('singleton outlen=5', True, lambda e: blake.blake2s(M1, outlen=5)), ('sibling M1', True, lambda e: e.B(M1)), ('singleton blake2s M1', True, lambda e: blake.blake2s(M1))])
    K['Skein'] = (lambda: skein.Skein(256, 256), [
        ('call M1', True, lambda e: e.A(M1)), ('call M2 bitlen', True, lambda e: e.A(M2, 8 * len(M2) - 1)), ('update only', False, lambda e: e.A.update(b'junk')),
        ('call empty', True, lambda e: e.A(b'')), ('sibling M1', True, lambda e: e.B(M1)), ('call M3', True, lambda e: e.A(M3))])
    K['Skein-mac-long'] = (lambda: skein.Skein(512, 1024, key=b'secret', nonce=b'n'), [
        ('call M1', True, lambda e: e.A(M1)), ('call M2 bitlen', True, lambda e: e.A(M2, 8 * len(M2) - 4)), ('update only', False, lambda e: e.A.update(b'junk', 'prs')),
        ('call empty', True, lambda e: e.A(b'')), ('sibling M1', True, lambda e: e.B(M1)), ('call M3', True, lambda e: e.A(M3))])
    K['Skein-tree'] = (lambda: skein.Skein(256, 256, Yl=1, Yf=1, Ym=3), [
        ('call M3', True, lambda e: e.A(M3)), ('call M1', True, lambda e: e.A(M1)), ('call empty (raises)', False, lambda e: e.A(b'')),
        ('call M2', True, lambda e: e.A(M2)), ('sibling M3', True, lambda e: e.B(M3)), ('call long', True, lambda e: e.A(M3 * 3))])
    def hmacf(): return hmac.HMAC(sha.SHA2(256), b'key-one')
    K['HMAC'] = (hmacf, [
        ('mac M1', True, lambda e: e.A(M1)), ('mac M2', True, lambda e: e.A(M2)), ('inner hash used directly', False, lambda e: e.A.h(M3, 8 * len(M3) - 7)),
        ('inner hash update unfinished', False, lambda e: e.A.h.update(BLK(64), padding=False)), ('sibling M1', True, lambda e: e.B(M1)),
        ('second HMAC sharing the hash object', True, lambda e: hmac.HMAC(e.A.h, b'another key' * 9)(M1))])
    D1 = (b'The quick brown fox jumps over the lazy dog. ' * 12)[:400]; D2 = bytes((i * i + 3 * i) & 255 for i in range(300)); D3 = b'abcdefghij' * 9
    K['TLSH'] = (lambda: tlsh.TLSH(128), [
        ('call D1', True, lambda e: e.A(D1)), ('call D3 force', True, lambda e: e.A(D3, True)), ('call too short', True, lambda e: e.A(b'short')),
        ('update unfinished', False, lambda e: e.A.update(D2) and None), ('sibling D1', True, lambda e: e.B(D1)), ('singleton tlsh D1', True, lambda e: tlsh.tlsh(D1))])
    K['Nilsimsa'] = (lambda: nilsimsa.Nilsimsa(), [
        ('call D1', True, lambda e: e.A(D1)), ('call D3', True, lambda e: e.A(D3)), ('update unfinished', False, lambda e: e.A.update(D2) and None),
        ('call empty', True, lambda e: e.A(b'')), ('sibling D1', True, lambda e: e.B(D1)), ('other target', True, lambda e: nilsimsa.Nilsimsa(17)(D1))])
    def refused2(f, g):
        """two refused calls in a row (the first one's exception is swallowed)"""
        try: f()
        except Exception: pass
        return g()
    def cipherkind(name, factory, bl):
        B1, B2, B3 = BLK(bl), BLK(bl)[::-1], bytes(bl)
        K[name] = (factory, [
            ('enc B1', True, lambda e: e.A.enc(B1)), ('dec B2', True, lambda e: e.A.dec(B2)), ('enc / dec wrong size', False, lambda e: refused2(lambda: e.A.dec(B1 + b'x'), lambda: e.A.enc(B1 + b'x'))),
            ('enc B3', True, lambda e: e.A.enc(B3)), ('sibling enc B1', True, lambda e: e.B.enc(B1)), ('dec(enc B1)', True, lambda e: e.A.dec(e.A.enc(B1)))])
    cipherkind('AES', lambda: aes.AES(BLK(16)), 16); cipherkind('AES-256', lambda: aes.AES(BLK(16) + bytes(16)), 16)       # related keys: same leading bytes, zero-extended
    cipherkind('DES', lambda: des.DES(BLK(8)), 8); cipherkind('TDEA', lambda: des.TDEA(BLK(24)), 8)
    cipherkind('Serpent', lambda: serpent.Serpent(BLK(20)), 16); cipherkind('Threefish', lambda: threefish.Threefish(BLK(32), BLK(16)), 32)
    def modekind(name, factory, bl, raising):
        K[name] = (factory, [
            ('enc M1', True, lambda e: e.A.enc(M1[:2 * bl + (0 if 'nopad' in name else 3)])), ('dec(enc M2)', True, lambda e: e.A.dec(e.B.enc(M2[:3 * bl]))), ('call that raises / iterblocks consumed', False, lambda e: (list(e.A.iterblocks(M1[:bl + (0 if 'nopad' in name else 3)])) if hasattr(e.A, 'iterblocks') else None, raising(e))[1]),
            ('enc M3', True, lambda e: e.A.enc(M3[:4 * bl])), ('sibling enc M1', True, lambda e: e.B.enc(M1[:2 * bl + (0 if 'nopad' in name else 3)])), ('enc empty / one block', True, lambda e: e.A.enc(b'' if 'nopad' not in name else M1[:bl]))])
    modekind('ECB', lambda: mode.ECB(aes.AES(BLK(16))), 16, lambda e: e.A.dec(b'x' * 17))
    modekind('CBC', lambda: mode.CBC(aes.AES(BLK(16)), BLK(16)[::-1]), 16, lambda e: e.A.dec(b'x' * 17))
    modekind('ECB-nopad', lambda: mode.ECB(des.DES(BLK(8)), nopadding), 8, lambda e: e.A.enc(b'x' * 11))                   # raises midway through the blocks
    modekind('CBC-nopad', lambda: mode.CBC(des.DES(BLK(8)), BLK(8), nopadding), 8, lambda e: e.A.enc(b'x' * 21))
    modekind('CTR', lambda: mode.CTR(aes.AES(BLK(16)), BLK(8) + b'\xff' * 8), 16, lambda e: e.A.enc(5))
    modekind('CTS_ECB', lambda: mode.CTS_ECB(aes.AES(BLK(16))), 16, lambda e: e.A.enc(5))
    modekind('CTS_CBC', lambda: mode.CTS_CBC(aes.AES(BLK(16)), BLK(16)), 16, lambda e: e.A.enc(5))
    def streamkind(name, cls):
        v1 = Bits(BLK(8), bitorder=1); v2 = Bits(bytes(8), bitorder=1)
        def ks(e):
            g = e.A.keystream(v2); next(g); next(g); return None
        K[name] = (lambda: cls(Bits(BLK(32), bitorder=1), 12), [
            ('enc v1 M1', True, lambda e: e.A.enc(v1, M1)), ('enc v2 M2', True, lambda e: e.A.enc(v2, M2)), ('keystream partly consumed', False, ks),
            ('dec v1', True, lambda e: e.A.dec(v1, M2)), ('sibling enc v1 M1', True, lambda e: e.B.enc(v1, M1)), ('enc v1 M3', True, lambda e: e.A.enc(v1, M3))])
    streamkind('Salsa20', salsa20.Salsa20); streamkind('Chacha', chacha.Chacha)
    # 7th call of every alphabet: a call on an instance of the same class that is configured DIFFERENTLY (other key /
    # size / parameters) - it perturbs only; class-level caches or tables keyed on too little show up in the next judged call
    other = {
        'SHA1': lambda e: sha.SHA1(0)(M2), 'SHA0': lambda e: sha.SHA1(1)(M2), 'SHA2-256': lambda e: sha.SHA2(224)(M2), 'SHA2-512/256': lambda e: sha.SHA2(512, 224)(M2),
        'SHA2-384': lambda e: sha.SHA2(512)(M2), 'MD4': lambda e: md.MD5()(M2), 'MD5': lambda e: md.MD4()(M2), 'SHA3': lambda e: sha.SHA3(512)(M2),
        'Keccak': lambda e: keccak.Keccak(b=800, r=256, len=128)(M2, 77), 'Keccak-200': lambda e: keccak.Keccak(b=200, r=64, len=72)(M2), 'MD6': lambda e: md.MD6(160, b'', 0)(M2), 'MD6-seq': lambda e: md.MD6(512, b'k', 1)(M3 * 9),
        'Blake': lambda e: blake.Blake(224)(M2, 7), 'Blake512': lambda e: blake.Blake(384)(M2, 7), 'Blake2b': lambda e: blake.Blake2(256)(M2, outlen=9), 'Blake2s': lambda e: blake.Blake2(512)(M2, outlen=33),
        'Skein': lambda e: skein.Skein(512, 160, key=b'k')(M2), 'Skein-mac-long': lambda e: skein.Skein(256, 64)(M2), 'Skein-tree': lambda e: skein.Skein(256, 256, Yl=2, Yf=1, Ym=2)(M3),
        'HMAC': lambda e: hmac.HMAC(md.MD5(), b'k2')(M2), 'TLSH': lambda e: tlsh.TLSH(256, 6, 3)(D2, True), 'Nilsimsa': lambda e: nilsimsa.Nilsimsa(99)(D2),
        'AES': lambda e: aes.AES(BLK(16) + bytes(16)).enc(BLK(16)), 'AES-256': lambda e: aes.AES(BLK(16)).dec(BLK(16)), 'DES': lambda e: des.DES(BLK(8)[::-1]).enc(BLK(8)),
        'TDEA': lambda e: des.TDEA(BLK(16)[::-1]).enc(BLK(8)), 'Serpent': lambda e: serpent.Serpent(BLK(32)[::-1]).enc(BLK(16)), 'Threefish': lambda e: threefish.Threefish(BLK(64), BLK(16)[::-1]).enc(BLK(64)),
        'ECB': lambda e: mode.ECB(aes.AES(BLK(32)), nopadding).enc(M1[:32]), 'CBC': lambda e: mode.CBC(des.DES(BLK(8)), BLK(8)).enc(M2), 'ECB-nopad': lambda e: mode.ECB(des.DES(BLK(8)[::-1])).enc(M2),
        'CBC-nopad': lambda e: mode.CBC(aes.AES(BLK(16)), BLK(16)).enc(M2), 'CTR': lambda e: mode.CTR(des.DES(BLK(8)), BLK(8)).enc(M2), 'CTS_ECB': lambda e: mode.CTS_ECB(des.DES(BLK(8))).enc(M2),
        'CTS_CBC': lambda e: mode.CTS_CBC(des.DES(BLK(8)), BLK(8)).enc(M2),
        'Salsa20': lambda e: salsa20.Salsa20(Bits(BLK(16), bitorder=1), 20).enc(Bits(BLK(8), bitorder=1), M2), 'Chacha': lambda e: chacha.Chacha(Bits(BLK(16), bitorder=1), 8).enc(Bits(BLK(8), bitorder=1), M2)}
    # ... and a second foreign instance of the SAME shape (same sizes / lengths) that differs only in the secret or in a field that the
    # object stores nowhere but in its derived state (salt, schema/version, rounds, tweak): templates or caches shared per size show here
    def md6o(d, key, L, r):
        h = md.MD6(d, key, L); h.rounds = r; return h
    K32 = bytes((11 * i + 5) & 255 for i in range(32))
    other2 = {
        'SHA1': lambda e: sha.SHA1().update(BLK(64), padding=False), 'SHA0': lambda e: sha.SHA1(0).update(BLK(64), padding=False), 'SHA2-256': lambda e: sha.SHA2(256).update(BLK(64), padding=False),
        'SHA2-512/256': lambda e: sha.SHA2(512, 256).update(BLK(128), padding=False), 'SHA2-384': lambda e: sha.SHA2(384).update(BLK(128), padding=False),
        'MD4': lambda e: md.MD4().update(BLK(64), padding=False), 'MD5': lambda e: md.MD5().update(BLK(64), padding=False), 'SHA3': lambda e: sha.SHA3(256).duplex(b'zz'),
        'Keccak': lambda e: keccak.Keccak(b=1600, c=512, len=256)(M2, 13, 1344), 'Keccak-200': lambda e: keccak.Keccak(b=200, r=72, len=64).duplex(b'q', 5, 8),
        'MD6': lambda e: md6o(256, b'kez', 64, 6)(M2), 'MD6-seq': lambda e: md6o(256, b'k', 0, 6)(M2),
        'Blake': lambda e: blake.Blake(256)(M2, 99), 'Blake512': lambda e: blake.Blake(512)(M2, 99), 'Blake2b': lambda e: blake.Blake2(512)(M2, salt=BLK(16), outlen=20), 'Blake2s': lambda e: blake.Blake2(256)(M2, pers=BLK(8), outlen=7),
        'Skein': lambda e: skein.Skein(256, 256, version=2)(M2), 'Skein-mac-long': lambda e: skein.Skein(512, 1024, key=b'secreT', nonce=b'n')(M2), 'Skein-tree': lambda e: skein.Skein(256, 256, Yl=1, Yf=1, Ym=3, schema=b'sha3')(M3),
        'HMAC': lambda e: hmac.HMAC(sha.SHA2(256), b'key-two')(M2), 'TLSH': lambda e: (tlsh.TLSH(128)(D2, True), e.A.from_hash(tlsh.TLSH(128, 5, 3)(D1))),        # ... and a digest of ANOTHER configuration offered to the long-lived object (refused or not, its own configuration stays) 'Nilsimsa': lambda e: nilsimsa.Nilsimsa().update(D2),
        'AES': lambda e: aes.AES(BLK(16)[::-1]).enc(BLK(16)), 'AES-256': lambda e: aes.AES(K32).enc(BLK(16)), 'DES': lambda e: des.DES(K32[:8]).dec(BLK(8)),
        'TDEA': lambda e: des.TDEA(K32[:24]).enc(BLK(8)), 'Serpent': lambda e: serpent.Serpent(K32[:20]).enc(BLK(16)), 'Threefish': lambda e: threefish.Threefish(BLK(32), K32[:16]).enc(BLK(32)),
        'ECB': lambda e: mode.ECB(aes.AES(K32[:16])).enc(M1), 'CBC': lambda e: mode.CBC(aes.AES(BLK(16)), K32[:16]).enc(M2), 'ECB-nopad': lambda e: mode.ECB(des.DES(K32[:8]), nopadding).enc(M2[:16]),
        'CBC-nopad': lambda e: mode.CBC(des.DES(BLK(8)), K32[:8], nopadding).enc(M2[:16]), 'CTR': lambda e: mode.CTR(aes.AES(BLK(16)), K32[:16]).enc(M2), 'CTS_ECB': lambda e: mode.CTS_ECB(aes.AES(K32[:16])).enc(M2),
        'CTS_CBC': lambda e: mode.CTS_CBC(aes.AES(BLK(16)), K32[:16]).enc(M2),
        'Salsa20': lambda e: salsa20.Salsa20(Bits(K32, bitorder=1), 12).enc(Bits(BLK(8), bitorder=1), M2), 'Chacha': lambda e: chacha.Chacha(Bits(K32, bitorder=1), 12).enc(Bits(BLK(8), bitorder=1), M2)}
    def both(name):
        def f(e):
            try: other[name](e)
            finally: other2[name](e)
        return f
    for name in K:
        K[name][1].append(('other configuration instances (different shape; same shape with another secret)', False, both(name)))
    return K

FRESH = {}
def fresh_tables(names):
    """outcome of every call of every kind on fresh objects, each kind in its own fresh Python process"""
    import subprocess, sys, json, os
    from concurrent.futures import ThreadPoolExecutor
    def one(name):
        p = subprocess.run([sys.executable, os.path.abspath(__file__), '--fresh', name], stdout=subprocess.PIPE, stderr=subprocess.PIPE, text=True, env=dict(os.environ))
        if p.returncode != 0: raise core.Machinery('fresh-table subprocess failed for %s: %s' % (name, p.stderr[-500:]))
        return name, json.loads(p.stdout.strip().splitlines()[-1])
    with ThreadPoolExecutor(12) as ex: return dict(ex.map(one, names))

def replay_kinds(ctx, jobs):
    """replay the sequences of each kind on long-lived objects, one worker process per kind (kinds are independent; each process
    has its own module-level singletons, which stay alive across that kind's sequences)"""
    import subprocess, sys, json, os
    from concurrent.futures import ThreadPoolExecutor
    def one(job):
        name, use = job
        f = os.path.join(ctx.work, 'seq_%s.json' % name.replace('/', '_'))
        json.dump(use, open(f, 'w'))
        p = subprocess.run([sys.executable, os.path.abspath(__file__), '--replay', name, f], stdout=subprocess.PIPE, stderr=subprocess.PIPE, text=True, env=dict(os.environ))
        if p.returncode != 0: raise core.Machinery('replay subprocess failed for %s: %s' % (name, p.stderr[-500:]))
        return name, list(zip(use, json.loads(p.stdout.strip().splitlines()[-1])))
    with ThreadPoolExecutor(14) as ex: return list(ex.map(one, jobs))

STATEFUL = {'ECB', 'CBC', 'ECB-nopad', 'CBC-nopad', 'CTR', 'CTS_ECB', 'CTS_CBC', 'Blake2b', 'Blake2s', 'Keccak', 'Keccak-200', 'SHA3', 'Skein', 'Skein-mac-long', 'Skein-tree', 'AES', 'TLSH', 'Nilsimsa', 'HMAC', 'MD6', 'MD6-seq'}

def run(ctx):
    rnd = ctx.rnd; big = ctx.big()
    seqs = {}
    for D in ((2, 3, 4) if big else (2, 3)):
        r = ctx.model_check('mc/MC_Objects.tla', 'mc/MC_Objects_D%d.cfg' % D if D != 3 else 'mc/MC_Objects.cfg', what='MC_Objects depth %d' % D)
        seqs[D] = [p for p in r['printed'] if isinstance(p, list) and p and isinstance(p[0], int)]
        if len(seqs[D]) != sum(7 ** j for j in range(1, D + 1)): raise core.Machinery('MC_Objects printed %d sequences for depth %d' % (len(seqs[D]), D))
    K = kinds()
    global FRESH
    FRESH = fresh_tables(sorted(K))
    traces = []
    jobs = []
    for name, (factory, alpha) in K.items():
        assert len(alpha) == 7, name
        D = (4 if name in STATEFUL else 3) if big else (3 if name in STATEFUL else 2)
        use = seqs[D]
        if big and D == 4: use = [s for i, s in enumerate(use) if len(s) < 4 or i % 3 == 0]        # depth 4: every third sequence
        # sequences that START with the differently configured instance go first: then that instance is the first of its class
        # to run in its process (a cache keyed on too little is filled by it and met by the long-lived object afterwards)
        use = sorted(use, key=lambda q: (q[0] != 7, len(q)))
        # every history twice: objects created lazily at their first use (a foreign instance may run before A exists) and eagerly before the first call
        jobs.append((name, use + [[-q[0]] + list(q[1:]) for q in use]))
    for name, res in replay_kinds(ctx, jobs):
        alpha = K[name][1]
        tab = [dict(key=name + '/' + lab, out=FRESH[name][lab]) for lab, judged, fn in alpha]
        fresh = {t['key']: t['out'] for t in tab}
        for s, outs in res:
            evs = []
            for c, o in zip(s, outs):
                c = abs(c)
                lab, judged, fn = alpha[c - 1]; key = name + '/' + lab
                evs.append(dict(key=key, judged=bool(judged and fresh[key].startswith('ok:')), out=o))
            traces.append(dict(tab=tab, ev=evs, kind=name, seq=s)); ctx.mark((name, str(s)))
    ctx.exhaustive_subspaces.append('all call sequences of length <= %s over a 7-call alphabet per kind (%d kinds): default call, call with other options, call that raises, incremental/auxiliary call, sibling instance, singleton / other message, differently configured instance'
                                    % ('4 (stateful kinds, every third of depth 4) / 3' if big else '3 (kinds with shared state) / 2', len(K)))
    ctx.evaluations = sum(len(t['ev']) for t in traces)
    ctx.sample(dict(kind=traces[50]['kind'], seq=traces[50]['seq'], events=traces[50]['ev'])); ctx.sample(dict(kind=traces[-1]['kind'], table=[(t['key'], t['out'][:40]) for t in traces[-1]['tab']]))
    payload = [dict(tab=t['tab'], ev=t['ev']) for t in traces]
    CH = 4000
    for a in range(0, len(payload), CH):
        bad = ctx.validate('trace/Trace_Objects.tla', payload[a:a + CH], lambda t: len(t['ev']), what='Trace_Objects[%d:%d]' % (a, a + CH))
        for tid, recs in bad.items():
            t = traces[a + tid - 1]; alpha = K[t['kind']][1]
            for rec in recs:
                e = t['ev'][rec['step'] - 1]
                prior = [alpha[abs(c) - 1][0] for c in t['seq'][:rec['step'] - 1]]
                attrs = dict(kind=t['kind'], call=e['key'].split('/', 1)[1], after=sorted(set(prior)), eager=t['seq'][0] < 0, raised=(e['out'] if e['out'].startswith('raise:') else ''))
                ctx.violation('objects.' + t['kind'], ('raises:' + e['out'][6:]) if e['out'].startswith('raise:') else 'wrong:value-differs-from-fresh-object', attrs,
                              dict(kind=t['kind'], objects_created='before the history' if t['seq'][0] < 0 else 'at first use', sequence=[alpha[abs(c) - 1][0] for c in t['seq']], step=rec['step'], observed=e['out'][:200], fresh=rec['bad'][0]['e'][:200]))
    t0 = traces[10]
    def corrupt(t): t['ev'][-1]['out'] = t['ev'][-1]['out'] + '00'; t['ev'][-1]['judged'] = True; return t
    ctx.binding_selftest('trace/Trace_Objects.tla', dict(tab=t0['tab'], ev=t0['ev']), lambda t: len(t['ev']), corrupt, 'Trace_Objects: a result differing from the fresh-object result')
    ctx.assumptions += ['judged calls are the one-shot operations that succeed on a fresh object; calls that raise, unfinished incremental calls and auxiliary entry points only perturb',
                        'explicit configuration calls (setkey, setrate, assigning outlen/rounds) are not in the alphabets', 'the reference outcome of every call comes from fresh objects in a pristine interpreter (one subprocess per kind)', 'module-level singletons are compared with a fresh equally configured object; they stay alive across histories (deterministic order)',
                        'RC4 is a continuing stream by design (C06) and not a kind here']
    return ctx.finish('TLC-enumerated call sequences replayed on long-lived objects / siblings / singletons; every judged outcome compared by TLC with the outcome of the same call on a fresh object')


if __name__ == '__main__':
    import sys, json
    if len(sys.argv) == 3 and sys.argv[1] == '--fresh':
        core.setup_repo_import()
        factory, alpha = kinds()[sys.argv[2]]
        print(json.dumps({lab: outcome(fn, Env(factory)) for lab, judged, fn in alpha}))
    if len(sys.argv) == 4 and sys.argv[1] == '--replay':
        core.setup_repo_import()
        factory, alpha = kinds()[sys.argv[2]]
        out = []
        for s in json.load(open(sys.argv[3])):
            eager = bool(s and s[0] < 0); s = [abs(c) for c in s]          # a negative first letter: objects A and B are constructed before the history starts
            env = Env(factory, eager)
            out.append([outcome(alpha[c - 1][2], env) for c in s])
        print(json.dumps(out))
