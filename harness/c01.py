"""C01 - MD4/MD5/SHA-0/1/2 digests.  MC: padding machine + hash object with symbolic compression (structure of
the padded message, counters).  Bind: one-shot calls over the length-class grid for all ten algorithms, byte and
bit lengths, data longer than the bit length, over-long bit lengths (must raise), preset bit counters across
2^32 / 2^64; TLC recomputes every digest with the real compression functions (Trace_Hash)."""
import core, hashrec as H

def lengths(name, big, rnd):
    Bb = 8 * H.blockbytes(name); w2 = 16 * H.wordbytes(name)
    if big: return list(range(0, 3 * Bb + 1))
    L = set(range(0, 18)) | set(range(Bb - w2 - 10, Bb - w2 + 11)) | set(range(Bb - 9, Bb + 10)) | set(range(2 * Bb - w2 - 10, 2 * Bb + 10)) | {3 * Bb - 1, 3 * Bb, 3 * Bb + 1}
    L |= {rnd.randrange(0, 4 * Bb) for _ in range(8)}
    return sorted(x for x in L if x >= 0)

def run(ctx):
    rnd = ctx.rnd; big = ctx.big()
    for cfg in ('MC_Padding_md', 'MC_Padding_sha'): ctx.model_check('mc/MC_Padding.tla', 'mc/%s.cfg' % cfg, what=cfg, env={'MAXBITS': '12'})
    for cfg in ('MC_MDObj_sha', 'MC_MDObj_md'): ctx.model_check('mc/MC_MDObj.tla', 'mc/%s.cfg' % cfg, what=cfg)
    traces = []
    k = 0
    for name in H.MDSHA:
        Bb = 8 * H.blockbytes(name)
        for L in lengths(name, big, rnd):
            k += 1
            n = (L + 7) // 8
            r = H.Rec(name)
            m = H.content(rnd, n, k % 5)
            if L % 8 == 0 and k % 2 == 0:
                r.call(m)                                            # byte string, bit length omitted
            else:
                extra = bytes(rnd.randrange(256) for _ in range(rnd.choice((0, 0, 1, 3, Bb // 8)))) if L > 0 else b''
                if L == 0: r.call(m)
                else: r.call(m + extra, L)                           # prefix of L bits of a (possibly longer) byte string
            traces.append(r.trace(dict(kind='oneshot', L=L)))
            ctx.mark((name, L % Bb, L // Bb, L % 8))
        # digests that start with zero bytes (inputs SELECTED with hashlib where it has the algorithm; TLC still judges)
        import hashlib
        hn = {'md5': 'md5', 'sha1': 'sha1', 'sha224': 'sha224', 'sha256': 'sha256', 'sha384': 'sha384', 'sha512': 'sha512', 'sha512_224': 'sha512_224', 'sha512_256': 'sha512_256'}.get(name)
        if hn:
            found = 0; q = 0
            while found < (4 if big else 2) and q < 200000:
                m = b'lz-%d-%d' % (ctx.seed, q); q += 1
                dg = hashlib.new(hn, m).digest()
                if dg[0] == 0 or dg[-1] == 0:
                    r = H.Rec(name); r.call(m); traces.append(r.trace(dict(kind='zero-edge digest'))); found += 1; ctx.mark((name, 'lz', q))
        # several one-shot calls on ONE object (the chaining value must be re-initialised each time)
        r = H.Rec(name)
        ma, mb = H.content(rnd, 70, 0), H.content(rnd, 5, 0)
        for m in (ma, mb, ma, b'', mb): r.call(m)
        traces.append(r.trace(dict(kind='reuse'))); ctx.mark((name, 'reuse'))
        # long messages (page-sized: exact multiples of 4096 bytes, one more, one bit less)
        if big or name in ('md5', 'sha1', 'sha256'):
            r = H.Rec(name)
            for n, L in ((4096, None), (8192, None), (4097, None), (4096, 8 * 4096 - 1)) if (big or name == 'md5') else ((4096, None), (4097, None)):
                r.call(H.content(rnd, n, 0), L) if L else r.call(H.content(rnd, n, 0))
            traces.append(r.trace(dict(kind='long'))); ctx.mark((name, 'long'))
        # more than 64 KiB in one call, with an explicit bit length (total, not per piece)
        if name in ('md4', 'md5') or (big and name in ('sha1', 'sha256')):
            n = 65536 + 200; r = H.Rec(name)
            r.call(H.content(rnd, n, 0), 8 * n if name == 'md4' else 8 * n - 3)
            traces.append(r.trace(dict(kind='64k+bitlen'))); ctx.mark((name, '64k+bitlen'))
        # bit length beyond the data: must raise
        r = H.Rec(name)
        for n, over in ((0, 1), (1, 1), (5, 7), (Bb // 8, 1), (Bb // 8 + 3, 8 * Bb), (2, 1 << 20)):
            r.call(H.content(rnd, n, 0), 8 * n + over)
        r.call(b'abc')                                               # and the object still works afterwards
        traces.append(r.trace(dict(kind='overlong')))
        # counters that need more than one word: preset the public bit counter, then hash a final piece
        cw = 16 * H.wordbytes(name)                                  # bits of the length field
        presets = [(1 << 32) - Bb, (1 << 32), (1 << 32) - 2 * Bb, (1 << cw) - Bb, (1 << cw) - 2 * Bb, (1 << (cw // 2)) - Bb, (1 << (cw // 2))]
        for v in presets:
            for n in (0, 1, Bb // 8 - 1, Bb // 8, Bb // 8 + 7) if (big or v in presets[:4]) else (1, Bb // 8):
                r = H.Rec(name); r.init(); r.preset(v); r.update(H.content(rnd, n, 0), padding=True)
                traces.append(r.trace(dict(kind='preset', v=str(v), n=n))); ctx.mark((name, 'preset', v, n))
    ctx.sample(dict(alg=traces[3]['name'], events=traces[3]['ev'])); ctx.sample(dict(alg=traces[-1]['name'], scen=traces[-1]['scen'], events=traces[-1]['ev']))
    ctx.exhaustive_subspaces.append('length classes: %s for each of the 10 algorithms' % ('every L in 0..3B' if big else 'boundary set around 0, B-2w, B, 2B-2w, 2B, 3B with every L mod 8'))
    H.validate(ctx, traces, 'one-shot digests')
    r = H.Rec('sha256'); r.call(b'binding self-test')
    def corrupt(t): t['ev'][0]['out'][5] ^= 4; return t
    ctx.binding_selftest('trace/Trace_Hash.tla', dict(alg=H.ALGS['sha256'], ev=r.ev), lambda t: len(t['ev']), corrupt, 'Trace_Hash: flipped digest bit')
    ctx.assumptions += ['bitlen=None/0 is the API spelling of "omitted"', 'message content is sampled (seeded classes); the length-class space is what is enumerated',
                        'preset: assigning padmethod.bitcnt stands for that many bits hashed before']
    return ctx.finish('per algorithm: TLC-judged one-shot calls over the length-class grid (L mod block, blocks, L mod 8), over-long bit lengths, preset counters; distinct = (algorithm, L mod B, blocks, L mod 8)')
