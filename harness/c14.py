"""C14 - piecewise hashing.  MC: hash object with symbolic compression: idle state = fold over fed blocks,
piecewise = one-shot, for all cut sets (MC_MDObj).  Bind: every call history of MC_PadHist replayed on the real
MD4/MD5/SHA-1/SHA-2/BLAKE objects (BLAKE2: see c11/blake2rec) - TLC recomputes chaining values and digests;
Nilsimsa: every byte cut."""
import core, hashrec as H, blake2rec as B2

def instantiate(name, hist, rnd, k):
    r = H.Rec(name); Bb = H.blockbytes(name)
    wb = H.wordbytes(name); fed = 0; flag = False
    salt = rnd.getrandbits(32 * wb) if (name in H.BLAKES and k % 2) else 0       # BLAKE: salted piecewise hashing (the salt is per epoch, not per piece)
    r.init(salt) if salt else r.init()
    for j, c in enumerate(hist):
        op = c['op']
        if op == 'cont':
            e = r.update(H.content(rnd, c['k'] * Bb, (k + j) % 3), padding=False)
            if not flag and not e['raised']: fed += c['k'] * Bb
        elif op == 'contbad':
            r.update(H.content(rnd, Bb + 1 + (k % (Bb - 1)), 0), padding=False)
        elif op == 'final':
            res = [0, 1, Bb - 2 * wb - 1, Bb - 2 * wb, Bb - 1][c['rc'] - 1]
            n = c['k'] * Bb + res
            bo = (k + j) % 8 if (fed == 0 and n > 0 and (k % 2)) else 0
            e = r.update(H.content(rnd, n, (k + j) % 5), bitlen=(8 * n - bo) if bo else None, padding=True)
            if not flag and not e['raised']: flag = True
        elif op == 'overlong':
            n = (k % 3) * Bb + (k % 7)
            r.update(H.content(rnd, n, 0), bitlen=8 * n + 1 + (k % 9), padding=True)
        elif op == 'reset':
            if salt and (k + j) % 2: salt = 0              # a salted epoch followed by a plain re-initialisation: the old salt is gone
            (r.init(salt) if salt else r.init()); fed = 0; flag = False
        # 'remove' has no counterpart on a hash object
    return r.trace(dict(kind='history', calls=[(c['op'], c['k'], c['rc']) for c in hist]))

def instantiate2(b, hist, rnd, k):
    r = B2.Rec2(b); Bb = 128 if b else 64
    r.init(B2.par(b, outlen=[None, 20, 1][k % 3]), explicit_outlen=bool(k % 3))
    for j, c in enumerate(hist):
        op = c['op']
        if op == 'cont': r.update(H.content(rnd, c['k'] * Bb, (k + j) % 3), padding=False)
        elif op == 'contbad': r.update(H.content(rnd, Bb + 1 + (k % (Bb - 1)), 0), padding=False)
        elif op == 'final':
            res = [0, 1, Bb // 2, Bb - 2, Bb - 1][c['rc'] - 1]
            r.update(H.content(rnd, c['k'] * Bb + res, (k + j) % 5), padding=True)
        elif op == 'reset': r.init(B2.par(b))
    return r.trace(dict(kind='history', calls=[(c['op'], c['k'], c['rc']) for c in hist]))

def run(ctx):
    rnd = ctx.rnd; big = ctx.big()
    for cfg in ('MC_MDObj_sha', 'MC_MDObj_blake', 'MC_MDObj_md'): ctx.model_check('mc/MC_MDObj.tla', 'mc/%s.cfg' % cfg, what=cfg)
    ctx.exhaustive_subspaces.append('specification: every cut of messages up to 3.5 blocks (B=16 bits, 4 content classes) into aligned pieces + final piece, re-initialisation included: IdleIsPrefix, PiecewiseIsOneShot')
    D = 4 if big else 3
    res = ctx.model_check('mc/MC_PadHist.tla', 'mc/MC_PadHist_D%d.cfg' % D, what='MC_PadHist depth %d' % D)
    hists = [[c for c in p if c['op'] != 'remove'] for p in res['printed'] if isinstance(p, list)]
    seen = set(); uniq = []
    for h in hists:
        key = str([(c['op'], c['k'], c['rc']) for c in h])
        if key not in seen and h: seen.add(key); uniq.append(h)
    names = H.MDSHA + H.BLAKES
    traces = []
    nall = len(uniq)
    if big:                                        # depth-4 histories: all of depth <= 3, a seeded sample of the longest ones (pure-Python hashing cost)
        long = [h for h in uniq if len(h) >= 4]; short = [h for h in uniq if len(h) < 4]
        uniq = short + (rnd.sample(long, 5000) if len(long) > 5000 else long)
    for k, h in enumerate(uniq):
        useful = any(c['op'] in ('cont', 'final') for c in h)
        if not useful: continue
        if not big and not any(c['op'] == 'cont' for c in h) and k % 3: continue      # quick: thin out histories without a continuation
        pick = names if (big and k % 7 == 0) else ([names[k % len(names)], names[(k * 5 + 3) % len(names)]] if big else [names[k % len(names)]])
        for name in dict.fromkeys(pick):
            traces.append(instantiate(name, h, rnd, k)); ctx.mark((name, str(traces[-1]['scen']['calls'])))
    # longer messages with random aligned cuts
    for q in range(300 if big else 40):
        name = names[q % len(names)]; Bb = H.blockbytes(name)
        r = H.Rec(name)
        if name in H.BLAKES and q % 2: r.init(rnd.getrandbits(32 * H.wordbytes(name)))
        else: r.init()
        for _ in range(rnd.randrange(1, 5)): r.update(H.content(rnd, rnd.randrange(0, 4) * Bb, 0), padding=False)
        r.update(H.content(rnd, rnd.randrange(0, 3 * Bb), 0), padding=True)
        traces.append(r.trace(dict(kind='random-cuts'))); ctx.mark((name, 'rnd', q))
    ctx.exhaustive_subspaces.append('%d of the %d call histories of depth <= %d (all of depth <= 3; cont 0..2 blocks / bad continuation / final 0..1 blocks x 5 residue classes / over-long / re-init) over 14 hash objects (round-robin%s)' % (len(uniq), nall, D, ', every seventh on all' if big else ''))
    # many pieces on one object: 33..48 continuation calls (one block, now and then none or two) before the final piece - whatever a hash object
    # keeps per call (a window of earlier pieces, a call counter) has had time to overflow
    for q, name in enumerate(names if big else ['md5', 'sha1', 'sha256', 'sha384', 'blake256', 'blake512', 'md4']):
        Bb = H.blockbytes(name); r = H.Rec(name); r.init()
        for j in range(33 + (q * 5) % 16): r.update(H.content(rnd, Bb * (1 if j % 7 else (j // 7) % 3), j % 3), padding=False)
        r.update(H.content(rnd, 5 + q, 0), padding=True)
        traces.append(r.trace(dict(kind='many-pieces'))); ctx.mark((name, 'many pieces'))
    # a large continuation piece (4 KiB and more in one update) after a short one, then the final piece
    for q, name in enumerate(names if big else ['md5', 'sha1', 'sha256', 'sha512', 'blake256']):
        Bb = H.blockbytes(name); r = H.Rec(name); r.init()
        r.update(H.content(rnd, Bb, 0), padding=False)
        r.update(H.content(rnd, (4096 // Bb + 1 + q) * Bb, 0), padding=False)
        r.update(H.content(rnd, Bb + 3, 0), padding=True)
        traces.append(r.trace(dict(kind='large continuation piece'))); ctx.mark((name, 'large piece'))
    # two objects of the same class fed alternately (per-object pad state and counters must not be shared)
    for name in (names if big else ['md5', 'md4', 'sha1', 'sha256', 'sha512', 'blake256']):
        Bb = H.blockbytes(name)
        ra, rb_ = H.Rec(name), H.Rec(name)
        ra.init(); rb_.init()
        ra.update(H.content(rnd, 2 * Bb, 0)); rb_.update(H.content(rnd, Bb, 0)); ra.update(H.content(rnd, Bb, 0)); rb_.update(H.content(rnd, 7, 0), padding=True)
        ra.update(H.content(rnd, Bb + 9, 0), padding=True); rb_.init(); rb_.update(H.content(rnd, 3, 0), padding=True)
        traces.append(ra.trace(dict(kind='interleaved-A'))); traces.append(rb_.trace(dict(kind='interleaved-B'))); ctx.mark((name, 'interleaved'))
    ctx.sample(dict(alg=traces[5]['name'], scen=traces[5]['scen'], events=[{k: v for k, v in e.items() if k != 'm'} for e in traces[5]['ev']]))
    H.validate(ctx, traces, 'piecewise histories')
    t2 = []
    for k, h in enumerate(uniq):
        h2 = [c for c in h if c['op'] != 'overlong']
        if not any(c['op'] in ('cont', 'final') for c in h2): continue
        if not big and k % 4: continue
        t2.append(instantiate2(bool(k % 2), h2, rnd, k)); ctx.mark(('blake2', k % 2, str(t2[-1]['scen']['calls'])))
    ctx.sample(dict(b=t2[3]['b'], scen=t2[3]['scen'], events=[{x: v for x, v in e.items() if x != 'm'} for e in t2[3]['ev']]))
    B2.validate(ctx, t2, 'BLAKE2 piecewise histories')
    # Nilsimsa: every byte cut, several cuts with short middle pieces, byte-at-a-time feeding (Trace_Simil over prim/Nilsimsa)
    from crysp import nilsimsa as N
    from core import B
    nev = []
    def words(n, _k=[0]):
        _k[0] += 1
        if _k[0] % 3 == 0: return bytes(rnd.choice([0, 255, 0, 255, 7, 65, 128]) for _ in range(n))      # binary data: zero and 0xff bytes in every window position
        out = b''
        while len(out) < n: out += rnd.choice([b'the', b'rain', b'in', b'spain', b'falls', b'mainly', b'0123', b'\n']) + b' '
        return out[:n]
    def feed(target, pieces, op):
        e = dict(op=op, target=53 if target is None else target, raised='', obs=[])
        if op == 'nil_split': e.update(a=B(pieces[0]), b=B(pieces[1]))
        else: e['pieces'] = [B(x) for x in pieces]
        try:
            o = N.Nilsimsa() if target is None else N.Nilsimsa(target)
            for x in pieces: o.update(x)
            e['obs'] = core.SB(o.digest())
        except Exception as ex: e['raised'] = type(ex).__name__
        nev.append(e)
    for target in ((None, 17, 1) if big else (None, 17)):
        for n in ((5, 9, 17, 40) if big else (6, 14)):
            data = words(n)
            for cut in range(n + 1): feed(target, [data[:cut], data[cut:]], 'nil_split'); ctx.mark(('nilcut', target, n, cut))
        data = words(24)
        for a in (range(0, 21, 2) if big else (2, 7, 13)):
            for mid in (0, 1, 2, 3): feed(target, [data[:a], data[a:a + mid], data[a + mid:]], 'nil_multi'); ctx.mark(('nilmulti', target, a, mid))
        feed(target, [data[j:j + 1] for j in range(len(data))], 'nil_multi')
        for _ in range(8 if big else 2):
            d2 = words(rnd.randrange(10, 70)); cuts = sorted(rnd.randrange(len(d2) + 1) for _ in range(rnd.randrange(2, 6)))
            feed(target, [d2[x:y] for x, y in zip([0] + cuts, cuts + [len(d2)])], 'nil_multi')
    for ta, tb in ((None, None), (None, 17), (17, 17)):           # two objects fed alternately: histogram and window are per object
        oa = N.Nilsimsa() if ta is None else N.Nilsimsa(ta); ob = N.Nilsimsa() if tb is None else N.Nilsimsa(tb)
        pa, pb = [words(9), words(14), words(5)], [words(4), words(21), words(2)]
        res = {}
        try:
            for x, y in zip(pa, pb): oa.update(x); ob.update(y)
            N.Nilsimsa()(words(30))                          # a third object used in between
            res['a'] = oa.digest(); res['b'] = ob.digest()
        except Exception as ex: res['err'] = type(ex).__name__
        for tag, t_, ps in (('a', ta, pa), ('b', tb, pb)):
            e = dict(op='nil_multi', target=53 if t_ is None else t_, pieces=[B(x) for x in ps], raised=res.get('err', ''), obs=core.SB(res[tag]) if tag in res else [])
            nev.append(e)
    for target in (None, 17):                       # digest() resets: consecutive digests from ONE object, including after very short inputs
        o = N.Nilsimsa() if target is None else N.Nilsimsa(target)
        for pieces in ([words(20)], [b'a'], [words(9), words(4)], [b'xy'], [words(30)], [b''], [words(3), b'', words(5)]):
            e = dict(op='nil_multi', target=53 if target is None else target, pieces=[B(x) for x in pieces], raised='', obs=[])
            try:
                for x in pieces: o.update(x)
                e['obs'] = core.SB(o.digest())
            except Exception as ex: e['raised'] = type(ex).__name__
            nev.append(e)
    ntr = [dict(ev=nev[i:i + 8]) for i in range(0, len(nev), 8)]
    nbad = ctx.validate('trace/Trace_Simil.tla', ntr, lambda t: len(t['ev']), what='Nilsimsa cuts (Trace_Simil)')
    ctx.evaluations += len(nev)
    for tid, recs in nbad.items():
        for rec in recs:
            e = ntr[tid - 1]['ev'][rec['step'] - 1]
            ps = [e['a'], e['b']] if e['op'] == 'nil_split' else e['pieces']
            for cl in rec['bad']:
                ctx.violation('nilsimsa.update', ('raises:' + e['raised']) if cl['c'] == 'must-not-raise' else 'wrong:digest-of-pieces', dict(op=e['op'], npieces=len(ps), piece_lengths=[len(x) for x in ps][:12], raised=e['raised']),
                              dict(event=e, expected=cl['e']))
    ctx.exhaustive_subspaces.append('hash objects fed with 33..48 continuation pieces before the final piece'); ctx.exhaustive_subspaces.append('Nilsimsa: every single byte cut of the seeded strings; three-piece cuts with middle pieces of 0..3 bytes; byte-at-a-time feeding')
    r = H.Rec('md5'); r.init(); r.update(b'x' * 64, padding=False); r.update(b'tail', padding=True)
    def corrupt(t): t['ev'][1]['bitcnt'][0] += 8; return t
    ctx.binding_selftest('trace/Trace_Hash.tla', dict(alg=H.ALGS['md5'], ev=r.ev), lambda t: len(t['ev']), corrupt, 'Trace_Hash: bit counter after a piece off by 8')
    ctx.assumptions += ['a bit length is only given on the first piece of an epoch', 'the bit counter is compared after every non-final piece; after the final piece C09 governs it',
                        'the value returned by a non-final update() is compared only when it has the digest length (it is the encoded chaining value)']
    return ctx.finish('every TLC-generated call history replayed on real hash objects with seeded data; TLC recomputes chaining value, counter and digest at every step; distinct = (algorithm, history)')
