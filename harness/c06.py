"""C06 - Salsa20, ChaCha, RC4.  MC: the RC4 stream object over N = 8 (every split of 6 bytes, S stays a permutation,
one continuous stream).  Bind: Salsa20/ChaCha for both key sizes, nonces, every even round count, message lengths
around block boundaries, prefixes, start blocks 2^32-2 .. 2^32 (hook) for the counter carry, the Salsa20 core;
RC4 key lengths 1..256 and piece sequences on one object incl. empty pieces - TLC recomputes every keystream."""
import core
from core import B, limbs

def stream_event(kind, key, nonce, rounds, m, ctr0=0, op='enc', prehash=None):
    from crysp.bits import Bits
    from crysp.salsa20 import Salsa20
    from crysp.chacha import Chacha
    e = dict(op=kind, key=B(key), nonce=B(nonce), rounds=rounds, ctr0=limbs(ctr0, 4), m=B(m), raised='', obs=[], dir=op)
    try:
        cls = Salsa20 if kind == 'salsa' else Chacha
        o = cls(Bits(key, bitorder=1), rounds)
        if ctr0: o._verif_block0 = ctr0
        if prehash is not None:                       # the bare hash function called on the KEYED object first: it must not disturb the key block
            try: o.hash(prehash)
            except Exception: pass
        r = getattr(o, op)(Bits(nonce, bitorder=1), m); e['obs'] = B(r) if isinstance(r, bytes) else [-1]
    except Exception as ex: e['raised'] = type(ex).__name__
    return e

def long_stream_events(kind, key, nonce, rounds, m, seg=1024, op='enc'):
    """ONE real call on a long message, recorded as independent segment events: keystream block b depends only on (key, nonce, b), so the
    segment that starts at byte 64*c is the message segment xor the keystream from block c (spec law checked in ST_Salsa / ST_Chacha);
    TLC judges the segments in parallel.  The last segment takes everything that is left of the result (a longer result shows there)."""
    from crysp.bits import Bits
    from crysp.salsa20 import Salsa20
    from crysp.chacha import Chacha
    base = dict(op=kind, key=B(key), nonce=B(nonce), rounds=rounds, raised='', dir=op, long=len(m))
    try:
        o = (Salsa20 if kind == 'salsa' else Chacha)(Bits(key, bitorder=1), rounds)
        r = getattr(o, op)(Bits(nonce, bitorder=1), m)
    except Exception as ex:
        return [dict(base, ctr0=limbs(0, 4), m=B(m[:seg]), obs=[], raised=type(ex).__name__)]
    if type(r) is not bytes: return [dict(base, ctr0=limbs(0, 4), m=B(m[:seg]), obs=[-1])]
    out = []
    for a in range(0, max(len(m), 1), seg):
        last = a + seg >= len(m)
        out.append(dict(base, ctr0=limbs(a // 64, 4), m=B(m[a:a + seg]), obs=B(r[a:] if last else r[a:a + seg]), seg_start=a))
    return out

def stream_history(kind, key, rounds, rb):
    """ONE cipher object: the caller re-uses one nonce object and edits it in place between calls; a nonce of a wrong size is refused in between
    and the same integer is then passed as a proper 64-bit nonce.  Every recorded call is still enc(v, M) = M xor keystream(key, value of v at call time)."""
    from crysp.bits import Bits
    from crysp.salsa20 import Salsa20
    from crysp.chacha import Chacha
    out = []
    try: o = (Salsa20 if kind == 'salsa' else Chacha)(Bits(key, bitorder=1), rounds)
    except Exception: return out
    def call(vobj, nonce_bytes, m, op='enc'):
        e = dict(op=kind, key=B(key), nonce=B(nonce_bytes), rounds=rounds, ctr0=limbs(0, 4), m=B(m), raised='', obs=[], dir=op)
        try:
            r = getattr(o, op)(vobj, m); e['obs'] = B(r) if isinstance(r, bytes) else [-1]
        except Exception as ex: e['raised'] = type(ex).__name__
        out.append(e)
    n1, n2, n3 = rb(8), rb(8), (5).to_bytes(8, 'little')
    v = Bits(n1, bitorder=1)
    call(v, n1, rb(100)); call(v, n1, rb(70))
    v[0:64] = Bits(n2, bitorder=1)                      # the SAME nonce object now holds another value
    call(v, n2, rb(100)); call(v, n2, rb(130), 'dec')
    try: o.enc(Bits(5), rb(40))                         # refused: the nonce is not 64 bits wide
    except Exception: pass
    call(Bits(n3, bitorder=1), n3, rb(90)); call(Bits(n1, bitorder=1), n1, rb(64))
    return out

def run(ctx):
    ctx.claim_exhaustive = False      # keys / messages / parameters are sampled over an enumerated grid; only the spec-level models are exhaustive
    rnd = ctx.rnd; big = ctx.big()
    ctx.model_check('mc/MC_Rc4.tla', what='MC_Rc4 (N=8: every split of 6 bytes, 4 keys)')
    rb = lambda n: bytes(rnd.randrange(256) for _ in range(n))
    ev = []
    lens = [0, 1, 63, 64, 65, 127, 128, 129, 191, 200]
    k = 0
    for kind in ('salsa', 'chacha'):
        for klen in (16, 32):
            keys = [bytes(klen), b'\xff' * klen, rb(klen)] + ([rb(klen) for _ in range(4)] if big else [])
            for key in keys:
                for nonce in ([bytes(8), rb(8)] + ([b'\xff' * 8, (1).to_bytes(8, 'little')] if big else [])):
                    for rounds in ((2, 4, 6, 8, 10, 12, 14, 16, 18, 20) if big else (8, 20, [2, 4, 6, 10, 12, 14, 16, 18][k % 8])):
                        k += 1
                        for n in (lens if big and rounds in (8, 20) else [lens[k % 10], lens[(k * 3 + 1) % 10]]):
                            m = rb(n)
                            ev.append(stream_event(kind, key, nonce, rounds, m)); ctx.mark((kind, klen, rounds, n))
                            if n > 1 and k % 2:
                                ev.append(stream_event(kind, key, nonce, rounds, m[:n // 2]))            # the prefix law
                            if k % 3 == 0: ev.append(stream_event(kind, key, nonce, rounds, m, op='dec'))
        # counter carry from the low to the high word (hook H1: start block)
        for c0 in ((1 << 32) - 2, (1 << 32) - 1, 1 << 32, (1 << 32) + 1) + (((1 << 48) - 1, (1 << 33) - 1) if big else ()):
            for rounds in (8, 20):
                ev.append(stream_event(kind, rb(32), rb(8), rounds, rb(150), ctr0=c0)); ctx.mark((kind, 'carry', c0, rounds))
        # the last blocks of the 2^64-block stream (the message ends inside block 2^64-1)
        for c0, n in (((1 << 64) - 1, 64), ((1 << 64) - 1, 5), ((1 << 64) - 2, 128), ((1 << 64) - 2, 100)):
            ev.append(stream_event(kind, rb(32), rb(8), 8, rb(n), ctr0=c0)); ctx.mark((kind, 'last blocks', c0, n))
        for klen in (16, 32):
            ev.append(stream_event(kind, rb(klen), rb(8), 20, rb(70), prehash=rb(64))); ev.append(stream_event(kind, rb(klen), rb(8), 12, rb(70), prehash=bytes(64), op='dec'))
            ctx.mark((kind, 'hash() before enc', klen))
    for kind in ('salsa', 'chacha'):
        for klen, rounds in ((32, 20), (16, 8)):
            ev += stream_history(kind, rb(klen), rounds, rb); ctx.mark((kind, 'nonce object edited in place / refused nonce', klen))
    # one object, 26 calls (nonces and lengths vary, enc and dec alternate): every call is still M xor keystream(key, nonce) from block 0
    from crysp.bits import Bits as _Bits
    from crysp.salsa20 import Salsa20 as _S
    from crysp.chacha import Chacha as _C
    for kind in ('salsa', 'chacha'):
        key = rb(32)
        try: o = (_S if kind == 'salsa' else _C)(_Bits(key, bitorder=1), 8)
        except Exception: o = None
        for j in range(26 if o is not None else 0):
            nonce = rb(8); m = rb(1 + (j * 37) % 150); opn = 'dec' if j % 3 == 2 else 'enc'
            e = dict(op=kind, key=B(key), nonce=B(nonce), rounds=8, ctr0=limbs(0, 4), m=B(m), raised='', obs=[], dir=opn, nth_call=j + 1)
            try:
                r = getattr(o, opn)(_Bits(nonce, bitorder=1), m); e['obs'] = B(r) if isinstance(r, bytes) else [-1]
            except Exception as ex: e['raised'] = type(ex).__name__
            ev.append(e)
        ctx.mark((kind, 'many calls on one object'))
    from crysp.salsa20 import Salsa20
    for cls in range(8 if big else 4):
        x = [bytes(64), b'\xff' * 64, bytes(range(64)), rb(64), rb(64), rb(64), rb(64), rb(64)][cls]
        e = dict(op='salsa_hash', x=B(x), raised='', obs=[])
        try: e['obs'] = B(Salsa20().hash(x))
        except Exception as ex: e['raised'] = type(ex).__name__
        ev.append(e); ctx.mark(('hash', cls))
    # long messages: one real call, judged segment by segment (1 KiB = 16 blocks each); 16 KiB is where the low byte of the block counter wraps
    longev = []
    for kind in ('salsa', 'chacha'):
        for klen, rounds, n in (((32, 8, 65536 + 100), (16, 20, 16384 + 64 + 5), (32, 12, 4096), (32, 20, 5000)) + (((32, 8, (1 << 20) + 7), (16, 20, 70000)) if big else ())):
            longev += long_stream_events(kind, rb(klen), rb(8), rounds, rb(n), op='enc' if n % 2 else 'dec'); ctx.mark((kind, 'long', n, rounds))
    traces = [dict(ev=ev[i:i + 6]) for i in range(0, len(ev), 6)] + [dict(ev=longev[i:i + 2]) for i in range(0, len(longev), 2)]
    # RC4: one object, a sequence of pieces
    from crysp.rc4 import RC4
    def rc4_trace(key, pieces):
        t = [dict(op='rc4_new', key=B(key), raised='')]
        try: o = RC4(key)
        except Exception as ex:
            t[0]['raised'] = type(ex).__name__; return dict(ev=t)
        for j, p in enumerate(pieces):
            e = dict(op='rc4_xor', m=B(p), raised='', obs=[])
            try:
                r = o.enc(p) if j % 2 == 0 else o.dec(p); e['obs'] = B(r) if isinstance(r, bytes) else [-1]
            except Exception as ex: e['raised'] = type(ex).__name__
            t.append(e)
        return dict(ev=t)
    for kl in ([1, 2, 5, 16, 255, 256] + ([3, 8, 40, 128] if big else [])):
        key = rb(kl)
        for rep in range(3 if big else 2):
            cuts = [rnd.choice([0, 0, 1, 2, 7, 31, 64, 100]) for _ in range(rnd.randrange(1, 7))] + [0] * (rep % 2)
            traces.append(rc4_trace(key, [rb(c) for c in cuts])); ctx.mark(('rc4', kl, str(cuts)))
        traces.append(rc4_trace(key, [b'']))                                   # the empty message
        traces.append(rc4_trace(key, [rb(1), rb(300), rb(2), rb(150)]))          # a deviation of the permutation may show only dozens of bytes after the cut
    traces.append(rc4_trace(rb(16), [rb((j * 5) % 11) for j in range(45)])); ctx.mark(('rc4', 'many pieces'))      # 45 calls on one object
    # one call on several KiB (the index i wraps every 256 bytes), judged in 512-byte segments along the continuous stream, then a second call
    def rc4_long(key, n1, n2):
        t = [dict(op='rc4_new', key=B(key), raised='')]
        o = RC4(key)
        for j, n in enumerate((n1, n2)):
            m = rb(n)
            try: r = o.enc(m) if j == 0 else o.dec(m); exc = ''
            except Exception as ex: r = b''; exc = type(ex).__name__
            if exc or type(r) is not bytes:
                t.append(dict(op='rc4_xor', m=B(m[:512]), raised=exc, obs=[-1], long=n)); break
            for a in range(0, n, 512):
                last = a + 512 >= n
                t.append(dict(op='rc4_xor', m=B(m[a:a + 512]), raised='', obs=B(r[a:] if last else r[a:a + 512]), long=n))
        return dict(ev=t)
    for kl, n1, n2 in (((16, 8192 + 3, 700), (5, 4096, 257)) + (((256, 65536 + 1, 1000),) if big else ())):
        try: traces.append(rc4_long(rb(kl), n1, n2)); ctx.mark(('rc4 long', kl, n1, n2))
        except Exception as ex: ctx.violation('stream.rc4_new', 'raises:' + type(ex).__name__, dict(op='rc4_new', keylen=kl), dict(key_len=kl))
    # all compositions of 6 bytes into <= 4 pieces (the MC model's splits, on real data)
    import itertools
    key = rb(7)
    for parts in itertools.product(range(0, 4), repeat=4):
        if sum(parts) == 6: traces.append(rc4_trace(key, [rb(c) for c in parts])); ctx.mark(('rc4split', str(parts)))
    for kl in (0, 257, 300): traces.append(rc4_trace(bytes(kl), []))           # key lengths outside 1..256 are rejected
    ctx.exhaustive_subspaces.append('RC4 object: every composition of 6 bytes into 4 pieces of 0..3 bytes; Salsa20/ChaCha: both key sizes x round counts x |M| in {0,1,63,64,65,127,128,129,191,200}; single calls on 4 KiB .. 64 KiB (thorough: 1 MiB) judged in segments')
    ctx.evaluations = sum(len(t['ev']) for t in traces)
    ctx.sample(traces[0]['ev'][0]); ctx.sample(traces[-8]['ev'])
    bad = ctx.validate('trace/Trace_Stream.tla', traces, lambda t: len(t['ev']), what='Trace_Stream')
    for tid, recs in bad.items():
        for rec in recs:
            e = traces[tid - 1]['ev'][rec['step'] - 1]
            for cl in rec['bad']:
                attrs = dict(op=e['op'], clause=cl['c'], raised=e['raised'], mlen=len(e.get('m', e.get('x', []))), rounds=e.get('rounds', 0), keylen=len(e.get('key', [])),
                             step=rec['step'], high_counter=('ctr0' in e and any(e['ctr0'][1:])))
                sym = ('raises:' + e['raised']) if cl['c'] == 'must-not-raise' else ('no-raise' if cl['c'].startswith('must-re') else 'wrong:' + cl['c'])
                ctx.violation('stream.' + e['op'], sym, attrs, dict(event=e, expected=cl['e'], trace=[(x['op'], len(x.get('m', []))) for x in traces[tid - 1]['ev']]))
    clean = dict(ev=[stream_event('chacha', bytes(32), bytes(8), 20, b'abcdef')])
    def corrupt(t): t['ev'][0]['obs'][2] ^= 16; return t
    ctx.binding_selftest('trace/Trace_Stream.tla', clean, lambda t: len(t['ev']), corrupt, 'Trace_Stream: flipped ciphertext bit')
    ctx.assumptions += ['keys and nonces are passed as Bits(bytes, bitorder=1) as in the test-suite', 'start blocks other than 0 use hook H1 (attribute _verif_block0, guarded by BDCHT_CRYSP_VERIF=1)',
                        'keys, nonces and messages are seeded; sizes, round counts, lengths and splits are the enumerated dimensions']
    return ctx.finish('Salsa20/ChaCha ciphertexts for key sizes x round counts x length classes x counter-carry start blocks, Salsa20 core, RC4 piece sequences on one object: every byte recomputed by TLC')
