"""C15 - CRC.  MC: width-8 CRCs for reflected polynomials (table = bitwise, backward o forward = id), CRC-32 forging
postcondition (MC_Crc).  Bind: crc32 on classes and random data, generic table-driven CRC for widths 8..64 with
random reflected polynomials and init/final values, backward computation, crc32_fix / crc32_fix_pos at every
position with target classes - TLC recomputes CRCs bitwise and evaluates the forging postconditions.  Inputs of 4 KiB ..
1.5 MiB are recorded run-length encoded and judged with Crc!CrcRegRuns (the byte step as an affine map, powers by squaring;
MC_Crc proves it equal to the bytewise evaluation on small cases)."""
import core
from core import B, limbs

def W(v, nl):
    if not isinstance(v, int) or isinstance(v, bool): return [-1]        # a CRC value is an int (a Bits register with the same value is another result)
    return limbs(v, nl)

def run(ctx):
    ctx.claim_exhaustive = False      # keys / messages / parameters are sampled over an enumerated grid; only the spec-level models are exhaustive
    rnd = ctx.rnd; big = ctx.big()
    ctx.model_check('mc/MC_Crc.tla', 'mc/MC_Crc_all.cfg' if big else 'mc/MC_Crc.cfg', what='MC_Crc (width 8%s)' % (', all 128 polynomials' if big else ', 8 polynomials'))
    from crysp import crc as C
    from crysp.bits import Bits
    rb = lambda n: bytes(rnd.randrange(256) for _ in range(n))
    ev = []
    def rec(e, fn, render):
        e['raised'] = ''; e['obs'] = []
        try: e['obs'] = render(fn())
        except Exception as ex: e['raised'] = type(ex).__name__
        ev.append(e); return e
    # the exported CRC-32 tables used through the generic functions, before any CRC-32 helper has run in this process
    d0 = rb(11)
    for pos in (0, 5, 10):
        rec(dict(op='back', P=W(0xEDB88320, 2), init=W(0xffffffff, 2), data=B(d0), pos=pos, width=32), lambda pos=pos: C.crc_back_pos(d0, pos, C.TABLE32_1b, 0xffffffff, C.crc(d0, C.TABLE32_1, 0xffffffff, 0xffffffff)), lambda r: W(r, 2))
    ctx.mark(('exported tables first',))
    for init, final in ((0, 0), (0x12345678, 0), (0xffffffff, 0xffffffff), (0, 0xffffffff)):            # the exported forward table with other initial / final values, and a chunked computation
        rec(dict(op='crc', P=W(0xEDB88320, 2), init=W(init, 2), final=W(final, 2), data=B(d0), width=32), lambda init=init, final=final: C.crc(d0, C.TABLE32_1, init, final), lambda r: W(r, 2))
    mid = C.crc(d0[:4], C.TABLE32_1, 0xffffffff, 0)
    try: midv = int(mid)
    except Exception: midv = 0
    rec(dict(op='crc', P=W(0xEDB88320, 2), init=W(midv, 2), final=W(0xffffffff, 2), data=B(d0[4:]), width=32), lambda: C.crc(d0[4:], C.TABLE32_1, midv, 0xffffffff), lambda r: W(r, 2))
    datas = [b'', b'\x00', b'\xff', b'a', b'abc', b'123456789', bytes(32), b'\xff' * 32] + [rb(n) for n in (list(range(1, 41, 3 if not big else 1)) + [64, 100, 255, 256, 300])] + ([rb(rnd.randrange(300)) for _ in range(60)] if big else [])
    for d in datas:
        rec(dict(op='crc32', data=B(d)), lambda d=d: C.crc32(d), lambda r: W(r, 2)); ctx.mark(('crc32', len(d), d[:4].hex()))
    import zlib as _z
    zs = [b'zc-%d-%d' % (ctx.seed, i) for i in range(3000)]
    for d in [x for x in zs if _z.crc32(x) >> 24 == 0][:2] + [x for x in zs if _z.crc32(x) & 0xff == 0][:2] + [x for x in zs if _z.crc32(x) < (1 << 16)][:1]:
        rec(dict(op='crc32', data=B(d)), lambda d=d: C.crc32(d), lambda r: W(r, 2)); ctx.mark(('crc32-zero-edge', d))
    # generic reflected CRCs
    for width in (8, 12, 16, 24, 31, 32, 33, 40, 64):
        nl = (width + 15) // 16
        for rep in range(6 if big else 2):
            P = rnd.getrandbits(width) | (1 << (width - 1))
            if rep == 0 and width == 32: P = 0xEDB88320
            if rep == 0 and width == 16: P = 0xA001
            if rep == 0 and width == 8: P = 0x8C
            if rep == 0 and width == 64: P = 0xC96C5795D7870F42
            try: tab = C.crc_table(Bits(P, width)); btab = C.crc_back_table(Bits(P, width))
            except Exception as ex:
                ctx.violation('crc.crc_table', 'raises:' + type(ex).__name__, dict(width=width), dict(P=hex(P))); continue
            for init, final in ((0, 0), ((1 << width) - 1, (1 << width) - 1), (rnd.getrandbits(width), rnd.getrandbits(width)), ((1 << width) - 1, 0)):
                for d in (b'', b'\x01', b'123456789', rb(rnd.randrange(1, 60))):
                    rec(dict(op='crc', P=W(P, nl), init=W(init, nl), final=W(final, nl), data=B(d), width=width),
                        lambda d=d, init=init, final=final: C.crc(d, tab, init, final), lambda r: W(r, nl)); ctx.mark(('crc', width, P, init, final, len(d)))
            # backward: from the CRC of the whole data back to the register after data[:pos]
            for d in (rb(9), rb(33)):
                init = (1 << width) - 1; final = rnd.getrandbits(width)
                for pos in sorted({0, 1, len(d) // 2, len(d) - 1}):
                    if width < 8: continue
                    rec(dict(op='back', P=W(P, nl), init=W(init, nl), data=B(d), pos=pos, width=width),
                        lambda d=d, pos=pos, init=init, final=final: C.crc_back_pos(d, pos, btab, final, C.crc(d, tab, init, final)), lambda r: W(r, nl)); ctx.mark(('back', width, P, pos))
    for P, w1, w2 in ((0xA001, 16, 24), (0x8C, 8, 12), (0xEDB88320, 32, 40)):      # a table cache must not be keyed on the value alone
        for width in (w1, w2, w1):
            nl = (width + 15) // 16
            try: tab = C.crc_table(Bits(P, width))
            except Exception as ex: ctx.violation('crc.crc_table', 'raises:' + type(ex).__name__, dict(width=width), dict(P=hex(P))); continue
            init = (1 << width) - 1
            rec(dict(op='crc', P=W(P, nl), init=W(init, nl), final=W(0, nl), data=B(b'123456789'), width=width), lambda tab=tab, init=init: C.crc(b'123456789', tab, init, 0), lambda r, nl=nl: W(r, nl)); ctx.mark(('samevalue', P, width))
    import zlib
    for q in range(12 if big else 5):                                              # forged window containing zero bytes (also the most significant one)
        d = rb(10 + q); pos = q % (len(d) - 3)
        patch = bytes([rnd.randrange(256), rnd.randrange(256), [0, rnd.randrange(256)][q % 2], 0])
        want = d[:pos] + patch + d[pos + 4:]; t = zlib.crc32(want)
        rec(dict(op='fix', data=B(d), pos=pos, target=W(t, 2)), lambda d=d, t=t, pos=pos: C.crc32_fix_pos(d, pos, t), lambda r: core.SB(r)); ctx.mark(('fixzero', q))
        d2 = d[:-4]; want2 = d2 + patch[::-1]; t2 = zlib.crc32(want2 + b'')
        rec(dict(op='fix', data=B(d2 + b'abcd'), pos=len(d2), target=W(zlib.crc32(d2 + patch), 2)), lambda d2=d2, patch=patch: C.crc32_fix(d2 + b'abcd', zlib.crc32(d2 + patch)), lambda r: core.SB(r))
    # prefixes that leave the running register at 0 / at all ones (crc32 of the prefix = 0xffffffff / 0) right where the patch goes
    for q in range(4 if big else 2):
        pre = rb(3 * q); reg = zlib.crc32(pre) ^ 0xffffffff
        for want_reg in (0, 0xffffffff):
            pre2 = pre + (reg ^ want_reg).to_bytes(4, 'little')              # four bytes that steer the register to want_reg
            d = pre2 + rb(4) + rb(q + 1); t = rnd.getrandbits(32)
            rec(dict(op='fix', data=B(d), pos=len(pre2), target=W(t, 2)), lambda d=d, t=t, p=len(pre2): C.crc32_fix_pos(d, p, t), lambda r: core.SB(r)); ctx.mark(('fix-register', want_reg, q))
            rec(dict(op='crc32', data=B(pre2)), lambda x=pre2: C.crc32(x), lambda r: W(r, 2))
            rec(dict(op='back', P=W(0xEDB88320, 2), init=W(0xffffffff, 2), data=B(d), pos=len(pre2), width=32), lambda d=d, p=len(pre2): C.crc32_back_pos(d, p, C.crc32(d)), lambda r: W(r, 2))
    for d in (rb(8), rb(21)):
        for pos in range(len(d)):
            rec(dict(op='back', P=W(0xEDB88320, 2), init=W(0xffffffff, 2), data=B(d), pos=pos, width=32), lambda d=d, pos=pos: C.crc32_back_pos(d, pos, C.crc32(d)), lambda r: W(r, 2))
    # forging helpers
    targets = [0, 1, 1 << 31, 0xffffffff, 0xdeadbeef] + [rnd.getrandbits(32) for _ in range(6 if big else 1)]
    for d in [rb(4), rb(5), rb(8), rb(13)] + ([rb(n) for n in (6, 7, 16, 40)] if big else []):
        for t in targets:
            rec(dict(op='fix', data=B(d), pos=len(d) - 4, target=W(t, 2)), lambda d=d, t=t: C.crc32_fix(d, t), lambda r: core.SB(r)); ctx.mark(('fix', len(d), t))
            for pos in range(0, len(d) - 3):
                rec(dict(op='fix', data=B(d), pos=pos, target=W(t, 2)), lambda d=d, t=t, pos=pos: C.crc32_fix_pos(d, pos, t), lambda r: core.SB(r)); ctx.mark(('fixpos', len(d), pos, t))
    for d, t in ((rb(9), 305419896), (rb(6), 0xdeadbeef), (rb(12), 10)):                                # targets given as text (decimal, 0x-prefixed): the API parses them with int(target, 0)
        for form in (str(t), hex(t)):
            rec(dict(op='fix', data=B(d), pos=len(d) - 4, target=W(t, 2)), lambda d=d, form=form: C.crc32_fix(d, form), lambda r: core.SB(r)); ctx.mark(('fix text target', form))
    # ---- long inputs (beyond what TLC can take byte by byte): run-length encoded, judged by Crc!CrcRegRuns (affine powers) ----
    def rle(b):
        out = []; i = 0; n = len(b)
        while i < n:
            j = i
            while j < n and b[j] == b[i]: j += 1
            out.append([b[i], j - i]); i = j
        return out
    def longdata(total):
        """mostly long runs with a few short literal stretches, exact total length"""
        parts = []; left = total
        while left > 0:
            kind = rnd.randrange(3)
            n = min(left, rnd.randrange(1, 9) if kind == 0 else rnd.randrange(200, max(201, total // 3)))
            parts.append(rb(n) if kind == 0 else bytes([rnd.choice((0, 0, 255, 128, rnd.randrange(256)))]) * n); left -= n
        return b''.join(parts)
    sizes = [4096, 4097, 5000, 8192, 12288, 65535, 65536, 65537, 1 << 20, (1 << 20) + 5] + ([(1 << 20) - 1, 3 * (1 << 19), 3 * (1 << 19) + 7, 100003, 16384, 20480] if big else [])      # round sizes (whole pages / chunks) and their neighbours
    for n in sizes:
        d = longdata(n)
        rec(dict(op='crc32r', runs=rle(d), datalen=n), lambda d=d: C.crc32(d), lambda r: W(r, 2)); ctx.mark(('crc32 long', n))
    for width, P, n in ((16, 0xA001, 70001), (64, 0xC96C5795D7870F42, 9000), (8, 0x8C, 4099), (33, rnd.getrandbits(33) | (1 << 32), 12345), (16, 0xA001, 8192), (40, rnd.getrandbits(40) | (1 << 39), 65536)):
        nl = (width + 15) // 16
        try: tab = C.crc_table(Bits(P, width))
        except Exception as ex: ctx.violation('crc.crc_table', 'raises:' + type(ex).__name__, dict(width=width), dict(P=hex(P))); continue
        d = longdata(n); init = (1 << width) - 1; final = rnd.getrandbits(width)
        rec(dict(op='crcr', P=W(P, nl), init=W(init, nl), final=W(final, nl), runs=rle(d), width=width, datalen=n), lambda d=d, tab=tab, init=init, final=final: C.crc(d, tab, init, final), lambda r, nl=nl: W(r, nl)); ctx.mark(('crc long', width, n))
    def fixr(d, pos, t, fn):
        def render(r):
            if type(r) is not bytes: return dict(olen=-1, ohead=[], owin=[], otail=[])          # strict: the result must BE bytes
            return dict(olen=len(r), ohead=rle(r[:pos]), owin=list(r[pos:pos + 4]), otail=rle(r[pos + 4:]))
        e = dict(op='fixr', dlen=len(d), datalen=len(d), pos=pos, dhead=rle(d[:pos]), dtail=rle(d[pos + 4:]), target=W(t, 2), raised='', olen=-1, ohead=[], owin=[], otail=[], obs=[])
        try: e.update(render(fn()))
        except Exception as ex: e['raised'] = type(ex).__name__
        ev.append(e)
    for n in [4100, 8196, 65536 + 4, 65536 + 9, (1 << 20) + 4] + ([(1 << 20), 200000, 12292] if big else []):                          # the data in front of the window is a whole number of pages, or not
        d = longdata(n); t = rnd.getrandbits(32)
        fixr(d, n - 4, t, lambda d=d, t=t: C.crc32_fix(d, t)); ctx.mark(('fix long', n))
        for pos in sorted(x for x in ({0, 4096, 8192, n // 2, n - 4} if n < (1 << 20) or big else {n // 3, 1 << 19}) if 0 <= x <= n - 4):
            fixr(d, pos, t ^ pos, lambda d=d, t=t, pos=pos: C.crc32_fix_pos(d, pos, t ^ pos)); ctx.mark(('fixpos long', n, pos))
    ctx.exhaustive_subspaces.append('crc32_fix_pos at every position of the short data strings x target classes {0, 1, 2^31, 2^32-1, ...}')
    ctx.evaluations = len(ev); ctx.sample(ev[5]); ctx.sample(ev[-1])
    traces = [dict(ev=ev[i:i + 10]) for i in range(0, len(ev), 10)]
    bad = ctx.validate('trace/Trace_Crc.tla', traces, lambda t: len(t['ev']), what='Trace_Crc')
    for tid, recs in bad.items():
        for r in recs:
            e = traces[tid - 1]['ev'][r['step'] - 1]
            for cl in r['bad']:
                attrs = dict(op=e['op'], clause=cl['c'], raised=e['raised'], width=e.get('width', 32), datalen=e['datalen'] if 'datalen' in e else len(e['data']), pos=e.get('pos', -1))
                ctx.violation('crc.' + e['op'], ('raises:' + e['raised']) if cl['c'] == 'must-not-raise' else 'wrong:' + cl['c'], attrs, dict(event=e, expected=cl['e']))
    clean = dict(ev=[ev[3]])
    def corrupt(t): t['ev'][0]['obs'][0] ^= 1; return t
    ctx.binding_selftest('trace/Trace_Crc.tla', clean, lambda t: len(t['ev']), corrupt, 'Trace_Crc: flipped CRC bit')
    f = [e for e in ev if e['op'] == 'fix'][0]
    def corrupt2(t): t['ev'][0]['obs'][0] ^= 1; return t
    ctx.binding_selftest('trace/Trace_Crc.tla', dict(ev=[f]), lambda t: len(t['ev']), corrupt2, 'Trace_Crc: patched data altered outside / CRC no longer the target')
    ctx.assumptions += ['polynomials are given in reflected form with the x^0 term (top bit) set', 'init/final values fit the width', 'data and targets seeded; positions enumerated']
    return ctx.finish('crc32 / generic CRC / backward values recomputed bitwise by TLC; forging results judged by their postcondition (length, window, CRC-32 = target)')
