"""C11 - BLAKE and BLAKE2.  MC: hash object with symbolic counter-carrying compression (MC_MDObj_blake): counter of
block i = message bits up to it, 0 for a pad-only block; BLAKE padding (MC_Padding_blake0/1).  Bind: BLAKE-224..512
over the length grid (bytes and bits), salts, preset counters across the word boundary; BLAKE2b/2s over the length
grid, every digest length, parameter-block fields at their range ends - TLC recomputes every digest."""
import core, hashrec as H, blake2rec as B2

def run(ctx):
    ctx.claim_exhaustive = False      # keys / messages / parameters are sampled over an enumerated grid; only the spec-level models are exhaustive
    rnd = ctx.rnd; big = ctx.big()
    for cfg in ('MC_Padding_blake1', 'MC_Padding_blake0'): ctx.model_check('mc/MC_Padding.tla', 'mc/%s.cfg' % cfg, what=cfg, env={'MAXBITS': '12'})
    ctx.model_check('mc/MC_MDObj.tla', 'mc/MC_MDObj_blake.cfg', what='MC_MDObj_blake (per-block counter, pad-only block = 0)')
    traces = []
    k = 0
    for name in H.BLAKES:
        Bb = 8 * H.blockbytes(name); w = H.wordbytes(name); lf = 16 * w
        if big: Ls = list(range(0, 2 * Bb + 9)) + [3 * Bb - 1, 3 * Bb, 3 * Bb + 1, 4 * Bb, 4 * Bb + 8]
        else:
            Ls = set(range(0, 10)) | set(range(Bb - lf - 12, Bb - lf + 10)) | set(range(Bb - 9, Bb + 10)) | set(range(2 * Bb - lf - 4, 2 * Bb - lf + 4)) | {2 * Bb, 3 * Bb, 4 * Bb, 4 * Bb + 8}
            Ls |= {8 * x for x in range(Bb // 8 - 2 * w - 1, Bb // 8 + 2)}
        salts = [0, 1, (1 << (32 * w)) - 1, rnd.getrandbits(32 * w)]
        for L in sorted(x for x in Ls if x >= 0):
            k += 1; n = (L + 7) // 8
            r = H.Rec(name); m = H.content(rnd, n, k % 5); s = salts[k % 4] if k % 3 else 0
            if L % 8 == 0 and k % 2 == 0 and not s: r.call(m)
            elif L == 0: r.call(m, None, s)
            else: r.call(m + bytes(rnd.randrange(256) for _ in range(k % 3)), L, s)
            traces.append(r.trace(dict(kind='oneshot', L=L, salt=str(s)))); ctx.mark((name, L % Bb, L // Bb, L % 8, k % 4))
        # page-sized one-shot messages (a whole number of pages, one byte more, one bit less; a salted one)
        for n, L, s in (((4096, None, 0), (4097, None, salts[3]), (8192, 8 * 8192 - 1, 0), (5000, None, 0)) + (((12288, None, 0), (16384 + 3, None, salts[2])) if big else ())) if (big or name in ('blake256', 'blake512')) else ((4096, None, 0), (4097, None, 0)):
            r = H.Rec(name); m = H.content(rnd, n, 0)
            if s or L is not None: r.call(m, L, s)
            else: r.call(m)
            traces.append(r.trace(dict(kind='long', n=n, salt=str(s)))); ctx.mark((name, 'long', n))
        r = H.Rec(name)
        for n, over in ((0, 1), (3, 2), (Bb // 8, 8)): r.call(H.content(rnd, n, 0), 8 * n + over)
        traces.append(r.trace(dict(kind='overlong')))
        cw = 8 * w
        for v in ((1 << cw) - Bb, (1 << cw), (1 << cw) - 2 * Bb, (1 << (2 * cw)) - Bb):
            for n in (1, Bb // 8 - 1, Bb // 8, Bb // 8 + 5):
                r = H.Rec(name); r.init(salts[n % 4]); r.preset(v); r.update(H.content(rnd, n, 0), padding=True)
                traces.append(r.trace(dict(kind='preset', v=str(v), n=n))); ctx.mark((name, 'preset', v, n))
    for name in H.BLAKES:
        o = H.make(name)
        for m in core.zero_edge_inputs(lambda x: o(x), lambda i: b'ze-%d-%d' % (ctx.seed, i), want=2 if big else 1, tries=900):
            r = H.Rec(name); r.call(m); traces.append(r.trace(dict(kind='zero-edge digest'))); ctx.mark((name, 'ze', m))
    ctx.sample(dict(alg=traces[3]['name'], events=traces[3]['ev']))
    H.validate(ctx, traces, 'BLAKE one-shot')
    # BLAKE2
    from crysp import blake
    t2 = []
    for b in (True, False):
        Bb = 128 if b else 64; mx = 64 if b else 32; sl = 16 if b else 8
        single = blake.blake2b if b else blake.blake2s
        lens = sorted(set([0, 1, 2, Bb - 1, Bb, Bb + 1, 2 * Bb - 1, 2 * Bb, 2 * Bb + 1, 3 * Bb, 3 * Bb + 7, 4 * Bb, 4 * Bb + 1] + ([rnd.randrange(5 * Bb) for _ in range(20)] if big else [rnd.randrange(4 * Bb)])))
        for n in lens:
            r = B2.Rec2(b, single if n % 2 else None)
            r.call(H.content(rnd, n, n % 5), B2.par(b)); t2.append(r.trace(dict(kind='len', n=n))); ctx.mark(('b2', b, 'len', n))
        for n in ((4096, 4097, 8192, 5000) + ((12288, 16384 + 3) if big else ())):                                   # page-sized one-shot messages
            r = B2.Rec2(b, single if n % 2 else None)
            r.call(H.content(rnd, n, 0), B2.par(b)); t2.append(r.trace(dict(kind='long', n=n))); ctx.mark(('b2', b, 'long', n))
        outs = range(1, mx + 1) if big else [1, 2, 20, mx // 2, mx - 1, mx]
        for o in outs:
            r = B2.Rec2(b); r.call(H.content(rnd, (o * 7) % (2 * Bb + 3), 0), B2.par(b, outlen=o), explicit_outlen=True); t2.append(r.trace(dict(kind='outlen', o=o))); ctx.mark(('b2', b, 'out', o))
        full = lambda n: bytes(rnd.randrange(256) for _ in range(n))
        pars = [B2.par(b, salt=full(sl)), B2.par(b, pers=full(sl)), B2.par(b, salt=full(sl), pers=full(sl), outlen=mx - 3),
                B2.par(b, fanout=0), B2.par(b, fanout=255, depth=255), B2.par(b, depth=2, leafl=0xffffffff), B2.par(b, leafl=0x12345678, noffset=1),
                B2.par(b, noffset=(1 << (64 if b else 48)) - 1), B2.par(b, outlen=5, inner=mx), B2.par(b, outlen=16, inner=17, depth=2, fanout=2), B2.par(b, noffset=1 << 32), B2.par(b, noffset=(1 << 32) - 1), B2.par(b, ndepth=255, inner=mx), B2.par(b, ndepth=1, inner=1, keylen=mx), B2.par(b, keylen=1, outlen=5),
                B2.par(b, fanout=2, depth=3, leafl=4096, noffset=5, ndepth=2, inner=mx // 2, salt=full(sl), pers=full(sl), keylen=7, outlen=mx // 2 + 1)]
        for i, p in enumerate(pars):
            for n in ((0, 3, Bb + 9) if big else (3, Bb + 9)[i % 2:][:1]):
                r = B2.Rec2(b); r.call(H.content(rnd, n, 0), p); t2.append(r.trace(dict(kind='params', i=i, n=n))); ctx.mark(('b2', b, 'par', i, n))
        for m in core.zero_edge_inputs(lambda x: (blake.Blake2(512 if b else 256))(x), lambda i: b'z2-%d-%d' % (ctx.seed, i), want=2, tries=900):
            r = B2.Rec2(b); r.call(m, B2.par(b)); t2.append(r.trace(dict(kind='zero-edge digest')))
        # ONE object, consecutive calls whose parameter blocks differ in exactly one field (anything derived from the parameters must follow every field)
        base = dict(outlen=mx - 1, keylen=2, fanout=2, depth=3, leafl=64, noffset=1, ndepth=1, inner=mx // 2, salt=full(sl), pers=full(sl))
        alt = dict(outlen=mx - 2, keylen=3, fanout=3, depth=4, leafl=65, noffset=2, ndepth=0, inner=mx // 2 - 1, salt=full(sl), pers=full(sl))
        r = B2.Rec2(b, single); m0 = H.content(rnd, Bb + 9, 0)
        r.call(m0, B2.par(b, **base))
        for f in base:
            p2 = dict(base); p2[f] = alt[f]
            r.call(m0, B2.par(b, **p2), explicit_outlen=True); r.call(m0, B2.par(b, **base), explicit_outlen=True)
        t2.append(r.trace(dict(kind='one field at a time'))); ctx.mark(('b2', b, 'one field at a time'))
        # byte counters that need the second word (t0 -> t1) or more than 53 bits: preset, then pieces
        cw = 64 if b else 32
        for T0 in ((1 << cw) - Bb, (1 << cw) - 2 * Bb, 1 << cw, (1 << 53) + 3 * Bb if b else (1 << 24) + 3 * Bb, (1 << (2 * cw)) - 2 * Bb):
            for n in ((5, Bb, Bb + 5, 2 * Bb + 44) if big else (5, Bb + 5)):
                r = B2.Rec2(b); r.init(B2.par(b)); r.preset(T0); r.update(H.content(rnd, n, 0), padding=True); t2.append(r.trace(dict(kind='preset', T0=str(T0), n=n)))
            r = B2.Rec2(b); r.init(B2.par(b)); r.preset(T0); r.update(H.content(rnd, Bb, 0)); r.update(H.content(rnd, 7, 0), padding=True); t2.append(r.trace(dict(kind='preset+cont', T0=str(T0))))
            ctx.mark(('b2', b, 'preset', T0))
        for o in (0, mx + 1):                                   # digest length out of range: must be rejected
            r = B2.Rec2(b); r.call(b'abc', B2.par(b, outlen=o), explicit_outlen=True); t2.append(r.trace(dict(kind='bad-outlen', o=o)))
    ctx.sample(dict(b=t2[5]['b'], scen=t2[5]['scen'], events=t2[5]['ev']))
    ctx.exhaustive_subspaces.append('BLAKE: length classes around 0, B-2w, B, 2B-2w, 2B (+every L in 0..2B+8 in thorough) x L mod 8 x salt classes; BLAKE2: %s digest length, parameter fields at range ends' % ('every' if big else 'boundary'))
    B2.validate(ctx, t2, 'BLAKE2 one-shot')
    r = B2.Rec2(True); r.call(b'abc', B2.par(True))
    def corrupt(t): t['ev'][0]['out'][0] ^= 1; return t
    ctx.binding_selftest('trace/Trace_Blake2.tla', dict(b=True, par0=B2.par(True), ev=r.ev), lambda t: len(t['ev']), corrupt, 'Trace_Blake2: flipped digest bit')
    ctx.assumptions += ['BLAKE2 salt/personalization are empty or full-length', 'keylen is a parameter-block field (the library takes no key bytes)', 'message content sampled; length classes enumerated']
    return ctx.finish('BLAKE and BLAKE2 one-shot digests over the length grid, salts, digest lengths and parameter-block fields, each recomputed by TLC from prim/Blake and prim/Blake2 (validated against the submission vectors and hashlib)')
