"""Recording real crysp.bits.Bits behaviour as events for Trace_BitVec (C07, C08)."""
NONE = -9999

def enc(b):
    """Bits -> list of its `size` bits (bit 0 first); a payload that exceeds the size is flagged with a 2"""
    n = b.size
    v = b.ival
    out = [(v >> j) & 1 for j in range(n)]
    if v < 0 or (v >> n) != 0: out = out + [2]
    return out

def int_to_bits(r, n):
    if not isinstance(r, int) or isinstance(r, bool): return [3]
    out = [(r >> j) & 1 for j in range(n)]
    if r < 0 or (r >> n) != 0: out = out + [2]
    return out

def mk(bits):
    """operand with the given bits; built from the bit list, and if that constructor itself is broken, from (value, size) -
    the constructor's own behaviour is judged by the from_list events, it must not take the whole run down"""
    from crysp.bits import Bits
    try:
        b = Bits(list(bits))
        if b.size == len(bits): return b
    except Exception:
        pass
    return Bits(sum(v << j for j, v in enumerate(bits)), len(bits))

def snap(o):
    from crysp.bits import Bits
    return (o.ival & ((1 << o.size) - 1), o.size) if isinstance(o, Bits) else ('py', repr(o))

def real_operand(o):
    """operand record -> real Python operand"""
    if o['t'] == 'b': return mk(o['v'])
    if o['t'] == 'i': return int(o['v'])
    if o['t'] == 'I': return sum(b << j for j, b in enumerate(o['v']))
    raise ValueError(o)

def run(ev, fn, operands=(), render=None, alias_check=True):
    """ev: event dict (op + args).  fn(): performs the real operation.  operands: real objects that must
    not change.  render(result) -> JSON observation.  Fills raised / obs / others_unchanged."""
    from crysp.bits import Bits
    before = [snap(o) for o in operands]
    ev['raised'] = ''; ev['obs'] = []; ev['others_unchanged'] = True
    try:
        r = fn()
    except Exception as e:
        ev['raised'] = type(e).__name__
        ev['others_unchanged'] = before == [snap(o) for o in operands]
        return ev
    try:
        ev['obs'] = render(r) if render else (enc(r) if isinstance(r, Bits) else r)
    except Exception as e:
        ev['raised'] = 'Render:' + type(e).__name__
    same = before == [snap(o) for o in operands]
    if same and alias_check and isinstance(r, Bits) and r.size > 0:
        try:
            r[0] = 1 - r.bit(0)                   # the result must not share storage with an operand
            r.size = r.size + 1
        except Exception:
            pass
        same = before == [snap(o) for o in operands]
    ev['others_unchanged'] = same
    return ev

# ---- pure binary / unary operators -----------------------------------------------------------------
import operator
BINOPS = {'and': operator.and_, 'or': operator.or_, 'xor': operator.xor, 'add': operator.add, 'sub': operator.sub,
          'mul': operator.mul, 'concat': operator.floordiv}

def ev_bin(op, l, r, ip=False):
    L, R = real_operand(l), real_operand(r)
    if ip:                                        # augmented assignment  x op= y : same value as x op y; y (and any other holder of x's old object) is not judged here
        def f():
            x = L
            if op == 'and': x &= R
            elif op == 'or': x |= R
            elif op == 'xor': x ^= R
            elif op == 'add': x += R
            elif op == 'sub': x -= R
            elif op == 'mul': x *= R
            elif op == 'concat': x //= R
            return x
        return run(dict(op=op, l=l, r=r, ip=True), f, [R, L], alias_check=False)      # L: another reference to the old left operand still reads the old value
    if op == 'hd':
        return run(dict(op=op, l=l, r=r), lambda: L.hd(R), [L, R], render=lambda x: x if isinstance(x, int) else -1)
    return run(dict(op=op, l=l, r=r), lambda: BINOPS[op](L, R), [L, R])

def ev_un(op, bits, **kw):
    from crysp.utils.operators import rol, ror
    from crysp.bits import Bits
    a = mk(bits)
    e = dict(op=op, a=list(bits)); e.update(kw)
    if kw.get('ip'):                               # x <<= k / x >>= k
        def f():
            x = a
            if op == 'shl': x <<= kw['k']
            else: x >>= kw['k']
            return x
        return run(e, f, [], alias_check=False)
    if op == 'neg': f = lambda: -a
    elif op == 'inv': f = lambda: ~a
    elif op == 'shl': f = lambda: a << kw['k']
    elif op == 'shr': f = lambda: a >> kw['k']
    elif op == 'rol': f = lambda: rol(a, kw['k'])
    elif op == 'ror': f = lambda: ror(a, kw['k'])
    elif op == 'split':
        def as_list(l):
            if not isinstance(l, list): raise TypeError('split() must return a list')
            return [enc(x) for x in l]
        return run(e, lambda: a.split(kw['k'], kw['be']), [a], render=as_list, alias_check=False)
    elif op == 'zext':
        c = Bits(a); return run(e, lambda: c.zeroextend(kw['n']), [a], alias_check=False)
    elif op == 'sext':
        c = Bits(a); return run(e, lambda: c.signextend(kw['n']), [a], alias_check=False)
    elif op == 'hw':
        return run(e, lambda: a.hw(), [a], render=lambda x: x if isinstance(x, int) else -1)
    elif op == 'get_int': f = lambda: a[kw['i']]
    elif op == 'get_slice':
        wrap = (lambda x: Bits(x, max(x.bit_length(), 1)) if (kw.get('bits_bounds') and isinstance(x, int) and x >= 0) else x)      # bounds given as vectors (__index__)
        sl = slice(*[None if x == NONE else wrap(x) for x in (kw['start'], kw['stop'], kw['step'])])
        f = lambda: a[sl]
    elif op == 'get_list': f = lambda: a[list(kw['idx'])]
    else: raise ValueError(op)
    return run(e, f, [a])

def ev_concat_list(parts, be):
    """utils.operators.concat on a list of Bits: called TWICE on the same list (the list and its elements must be as they were)"""
    from crysp.utils.operators import concat
    objs = [mk(p) for p in parts]; lst = list(objs)
    out = []
    for _ in range(2):
        e = dict(op='concat_list', parts=[list(p) for p in parts], be=be)
        run(e, lambda: concat(lst, be) if be else concat(lst), objs, alias_check=len(parts) > 1)
        if len(lst) != len(objs) or any(x is not y for x, y in zip(lst, objs)): e['others_unchanged'] = False
        out.append(e)
    return out

# ---- mutations of one object ---------------------------------------------------------------------------
class Obj:
    """the object under mutation, the Bits it was copied from, and an independent copy taken at the start"""
    def __init__(self, bits):
        from crysp.bits import Bits
        self.src = mk(bits)
        self.o = Bits(self.src)
        self.src0 = snap(self.src)

    def mutate(self, e):
        from crysp.bits import Bits
        o = self.o
        op = e['op']
        val = None
        if 'val' in e:
            v = e['val']
            val = int(v['v']) if v['t'] == 'i' else (list(v['v']) if v['t'] == 'l' else mk(v['v']))
        keep = [self.src] + ([val] if isinstance(val, Bits) else [])
        before = [snap(x) for x in keep]
        lst0 = list(val) if isinstance(val, list) else None
        e['raised'] = ''
        try:
            if op == 'set_int': o[e['i']] = (mk([e['v']]) if e.get('vform') == 'bits' else e['v'])       # the value as an int or as a 1-bit vector
            elif op == 'set_slice':
                o[slice(*[None if x == NONE else x for x in (e['start'], e['stop'], e['step'])])] = val
            elif op == 'set_list': o[list(e['idx'])] = val
            elif op == 'set_size': o.size = e['n']
            elif op == 'zext_ip':
                r = o.zeroextend(e['n'])
                if r is not o: e['raised'] = 'NotInPlace'
            elif op == 'load': o.load(bytes(e['s']), e['order'])
            elif op == 'sext_ip':
                r = o.signextend(e['n'])
                if r is not o: e['raised'] = 'NotInPlace'
            else: raise ValueError(op)
        except Exception as ex:
            e['raised'] = type(ex).__name__
        e['obj'] = enc(o)
        e['others_unchanged'] = (before == [snap(x) for x in keep]) and (lst0 is None or lst0 == val) and snap(self.src) == self.src0
        if 'val' in e and e['val']['t'] == 'l': e['val'] = dict(t='b', v=e['val']['v'])     # the spec sees a list value as its bits
        return e
