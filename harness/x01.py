"""X01 - supplementary (beyond the 20 properties): the polynomial view of Poly.  Spec: base/PolyVec PMul / PDegree / PEq / PIsZero
(+ laws in MC_PolyVec).  Bind: products, degrees (also after assignments on the same object), equality across dimensions - recorded
from the real class, judged by Trace_PolyVec.  Differences are OBSERVATIONS (exit 0): no listed property speaks about these methods."""
import itertools
import core
from c16 import venc, penc, mkp, rec, vecs, classify, validate_traces, live_history, OPS

def run(ctx):
    rnd = ctx.rnd; big = ctx.big()
    ctx.claim_exhaustive = False
    ctx.model_check('mc/MC_PolyVec.tla', 'mc/MC_PolyVec.cfg', what='MC_PolyVec laws (incl. product, degree, equality)')
    ev = []
    for k, md in ((0, 2), (2, 2), (8, 2)):
        V = [[rnd.randrange(1, 4) if k == 0 else x for x in v] for v in vecs(min(k, 2) or 1, md)] if k != 2 else list(vecs(2, md))
        for a in V[:40]:
            A = mkp(a, k)
            ev.append(rec(dict(op='degree', k=k, l=venc(a, k)), lambda: A.degree, [A], k, render=lambda r: r if isinstance(r, int) else -99))
            ev.append(rec(dict(op='is_zero', k=k, l=venc(a, k)), lambda: bool(A.is_zero()), [A], k, render=lambda r: bool(r)))
            for b in V[:12]:
                Bp = mkp(b, k)
                ev.append(rec(dict(op='mul', k=k, l=venc(a, k), r=venc(b, k)), lambda: A * Bp, [A, Bp], k))
                ev.append(rec(dict(op='eq', k=k, l=venc(a, k), r=venc(b, k)), lambda: bool(A == Bp), [A, Bp], k, render=lambda r: bool(r)))
                ev.append(rec(dict(op='eq', k=k, l=venc(a, k), r=venc(b + [0], k)), lambda: bool(A == mkp(b + [0], k)), [A], k, render=lambda r: bool(r)))
    traces = [dict(obj0=[], ev=ev[i:i + 50]) for i in range(0, len(ev), 50)]
    # degree of ONE object across assignments
    for k in (0, 8):
        for a in ([1, 2, 0, 0], [0, 0], [3, 0, 0], [5]):
            A = mkp(a, k); cur = list(a); evs = []
            for (i, v) in ((len(a) - 1, 5), (0, 0), (len(a) - 1, 0), (0, 7)):
                evs.append(rec(dict(op='degree', k=k, l=[], live='l'), lambda: A.degree, [A], k, render=lambda r: r if isinstance(r, int) else -99))
                e = dict(op='set_int', i=i, val=venc([v], k), k=k, raised='')
                try: A[i] = v
                except Exception as ex: e['raised'] = type(ex).__name__
                e['obj'] = penc(A, k); e['others_unchanged'] = True; evs.append(e)
            evs.append(rec(dict(op='degree', k=k, l=[], live='l'), lambda: A.degree, [A], k, render=lambda r: r if isinstance(r, int) else -99))
            traces.append(dict(obj0=venc(a, k), ev=evs))
    for t in traces: ctx.mark(('x01', str(t['obj0']), len(t['ev']), t['ev'][0]['op']))
    validate_traces(ctx, traces, 'Poly as a polynomial')
    ctx.assumptions += ['supplementary: no listed property covers Poly.__mul__, degree, is_zero, ==; differences are reported as observations']
    return ctx.finish('products / degrees / equality of small vectors over Z, Z/4, Z/256 and degree histories on one object, judged by TLC against base/PolyVec')
