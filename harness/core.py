"""Common machinery of every check: run context, trace batches, TLC validation with
completeness accounting, known-findings matching, evidence, exit codes.  Stdlib only.

Exit codes: 0 property held on everything explored (KNOWN-FINDING lines allowed),
            1 at least one VIOLATION line, 2 machinery failure (nothing it says is a verdict)."""
import hashlib, json, os, random, shutil, sys, time, traceback

HERE = os.path.dirname(os.path.abspath(__file__))
VERIF = os.path.dirname(HERE)
sys.path.insert(0, HERE)
import tlc
COVERAGE = os.environ.get("VERIF_COVERAGE") == "1"      # -coverage 1 slows heavy models by orders of magnitude: opt-in (tools/vacuity.py)

REPO = os.environ.get('VERIF_REPO', '/repo')
GUARD = 'BDCHT_CRYSP_VERIF'

def setup_repo_import():
    """Import crysp from the CURRENT working tree of /repo (pure Python: nothing to build)."""
    os.environ[GUARD] = '1'
    if REPO not in sys.path: sys.path.insert(0, REPO)
    sys.dont_write_bytecode = True

class Machinery(Exception):
    pass

# ----------------------------------------------------------------------------------------------
def SB(x):
    """strict: a result that is to be a byte string must BE bytes (a bytearray / Bits / iterator with the right content is another result)"""
    return list(x) if isinstance(x, bytes) else [-1, len(x) if hasattr(x, '__len__') else -1]

def B(b):
    """bytes -> JSON array of 0..255"""
    return list(b)

def limbs(v, n):
    """non-negative int -> n 16-bit limbs, least significant first (TLC ints are 32 bit)"""
    return [(v >> (16 * i)) & 0xffff for i in range(n)]

def outcome(fn, *a, **k):
    """Run a call; returns ('ok', value) or ('raise', ExceptionClassName).  Never lets the exception out
    (KeyboardInterrupt/SystemExit excepted)."""
    try:
        return ('ok', fn(*a, **k))
    except Exception as e:          # noqa: the class name is the observation
        return ('raise', type(e).__name__)

def zero_edge_inputs(call, gen, want=2, tries=1500):
    """INPUT SELECTION (not an oracle): inputs for which the real code's output starts or ends with a zero byte - the class on
    which 'integer -> bytes' conversions that drop leading zeros go wrong.  call(x) -> bytes; gen(i) -> candidate input."""
    out = []
    for i in range(tries):
        x = gen(i)
        try: r = call(x)
        except NameError: raise                      # a harness slip, not the library's behaviour
        except Exception: continue
        if isinstance(r, (bytes, bytearray)) and len(r) > 0 and (r[0] == 0 or r[-1] == 0):
            out.append(x)
            if len(out) >= want: break
    return out

# ----------------------------------------------------------------------------------------------
class Findings:
    """known_findings.json: entries {property, api, symptom, when, what, status}.  'open' entries
    suppress matching violations (printed as KNOWN-FINDING); 'fixed' entries suppress nothing."""
    def __init__(self, path=os.path.join(VERIF, 'known_findings.json')):
        self.entries = []
        if os.path.exists(path):
            self.entries = json.load(open(path)).get('findings', [])

    @staticmethod
    def _pred(p, v):
        if isinstance(p, dict):
            for op, arg in p.items():
                if op == 'eq' and not v == arg: return False
                if op == 'ne' and not v != arg: return False
                if op == 'gt' and not (v is not None and v > arg): return False
                if op == 'ge' and not (v is not None and v >= arg): return False
                if op == 'lt' and not (v is not None and v < arg): return False
                if op == 'le' and not (v is not None and v <= arg): return False
                if op == 'in' and v not in arg: return False
                if op == 'nin' and v in arg: return False
                if op == 'mod' and not (v is not None and v % arg[0] == arg[1]): return False
                if op == 'nmod' and not (v is not None and v % arg[0] != arg[1]): return False
            return True
        return v == p

    def match(self, prop, viol):
        for e in self.entries:
            if e.get('status', 'open') != 'open': continue
            if e['property'] != prop or e['api'] != viol['api'] or e['symptom'] != viol['symptom']: continue
            attrs = viol.get('attrs', {})
            if all(k in attrs and self._pred(p, attrs[k]) for k, p in e.get('when', {}).items()):
                return e
        return None

# ----------------------------------------------------------------------------------------------
class Ctx:
    def __init__(self, prop, tier=None, seed=None):
        self.prop = prop
        self.tier = tier or os.environ.get('VERIF_TIER') or 'quick'
        if self.tier not in ('quick', 'thorough'): self.tier = 'quick'
        s = seed if seed is not None else os.environ.get('VERIF_SEED')
        try: self.seed = int(s) if s is not None and str(s) != '' else 0
        except ValueError: self.seed = 0
        self.rnd = random.Random(self.seed * 1000003 + int(hashlib.sha1(prop.encode()).hexdigest()[:8], 16))
        self.t0 = time.time()
        self.work = os.path.join(VERIF, '.work', '%s_%d' % (prop, os.getpid()))
        shutil.rmtree(self.work, ignore_errors=True)
        os.makedirs(self.work)
        self.alt = 'VERIF_REPO' in os.environ          # run against another checkout (seeded changes): keep /repo's evidence and replays untouched
        self.out = os.path.join(VERIF, 'out', 'replay', prop) if not self.alt else os.path.join(VERIF, 'out', 'alt', '%s_%d' % (prop, os.getpid()), 'replay')
        shutil.rmtree(self.out, ignore_errors=True)
        os.makedirs(self.out, exist_ok=True)
        self.findings = Findings()
        self.states = 0; self.transitions = 0
        self.traces = 0; self.evaluations = 0
        self.nontrivial = set()
        self.samples = []
        self.violations = []          # unsuppressed
        self.known = {}               # finding 'what' -> count
        self.tlc_cmds = []
        self.notes = []
        self.exhaustive_subspaces = []
        self.skipped = []
        self.selftests = []
        self.assumptions = []
        self.mc_runs = []
        self.claim_exhaustive = None   # None: true iff a finite sub-space was enumerated completely (exhaustive_subspaces); harnesses whose lists only name grid dimensions set False

    # ---- bookkeeping -------------------------------------------------------------------------
    def big(self): return self.tier == 'thorough'
    def sample(self, x, limit=6):
        if len(self.samples) < limit: self.samples.append(x)
    def mark(self, key):
        """count a DISTINCT non-trivial case (key must identify it)"""
        self.nontrivial.add(key if isinstance(key, (str, int, tuple)) else json.dumps(key, sort_keys=True))
    def add_tlc(self, res, what):
        self.tlc_cmds.append('%s: %s  [%s generated, %s distinct, %.1fs]' % (what, res['cmd'].replace(tlc.VERIF, '/verif'), res['generated'], res['distinct'], res['wall']))
        self.states += res['distinct'] or 0
        self.transitions += res['generated'] or 0

    # ---- model checking of the specification itself ----------------------------------------------
    MAY_BE_DISABLED = {}          # cfg file name -> actions that this configuration disables on purpose

    def model_check(self, module, cfg=None, what=None, env=None, timeout=3600, workers=16, expect_printed=False, extra=()):
        """Run a bounded exhaustive TLC model of the SPECIFICATION.  A violated invariant there is a
        machinery failure (the spec is wrong), not a property violation of the code."""
        res = tlc.run(os.path.join(tlc.SPEC, module), cfg=os.path.join(tlc.SPEC, cfg) if cfg else None, env=env,
                      timeout=timeout, workers=workers, extra=list(extra) + (['-coverage', '1'] if COVERAGE else []))
        what = what or module
        if res['timed_out'] or res['errors'] or res['generated'] is None or res['queue'] != 0:
            raise Machinery('model check %s failed: %s\n%s' % (what, res['errors'][:3], res['stdout'][-3000:]))
        self.add_tlc(res, 'MC ' + what)
        never = sorted(a for a, (d, g) in res['actions'].items() if g == 0 and a not in self.MAY_BE_DISABLED.get(os.path.basename(cfg or module), ()))
        if never and COVERAGE:                      # vacuity: an action of the model that no behaviour ever took
            raise Machinery('model check %s is vacuous: action(s) %s never taken' % (what, never))
        self.mc_runs.append(dict(model=what, distinct=res['distinct'], generated=res['generated'], wall=round(res['wall'], 1),
                                 actions={a: v[1] for a, v in res['actions'].items()}))
        return res

    # ---- trace validation -----------------------------------------------------------------------
    def validate(self, module, traces, expected_steps, what=None, cfg=None, timeout=3600, workers=16, env=None):
        """traces: list of JSON-able records (one per trace).  The trace spec has one initial state per
        trace and takes `expected_steps(trace)` steps for it; it prints {tid, step, bad:[...]} for every
        step with a failed clause and {tid, done:true, nbad:n} at the end of each trace.
        Returns dict tid(1-based) -> list of bad records.  Raises Machinery unless the accounting is exact."""
        what = what or module
        if not traces: return {}
        path = os.path.join(self.work, 'batch_%d.ndjson' % len(self.tlc_cmds))
        with open(path, 'w') as f:
            for t in traces: f.write(json.dumps(t, separators=(',', ':')) + '\n')
        e = {'TRACE_FILE': path}
        if env: e.update(env)
        res = tlc.run(os.path.join(tlc.SPEC, module), cfg=os.path.join(tlc.SPEC, cfg) if cfg else None, env=e,
                      timeout=timeout, workers=workers)
        if res['timed_out'] or res['errors'] or res['generated'] is None or res['queue'] != 0:
            try:
                with open(os.path.join(VERIF, 'out', 'last_tlc_error_%s.log' % self.prop), 'w') as f: f.write(res['stdout'])
            except OSError: pass
            raise Machinery('trace validation %s failed: %s\n%s' % (what, res['errors'][:3], res['stdout'][-3000:]))
        want = sum(1 + expected_steps(t) for t in traces)
        if res['distinct'] != want:
            raise Machinery('trace validation %s: accounting mismatch, TLC found %s distinct states, batch predicts %d'
                            % (what, res['distinct'], want))
        done = {}; bad = {}
        for p in res['printed']:
            if not isinstance(p, dict) or 'tid' not in p: continue
            if p.get('done'): done[p['tid']] = p.get('nbad', 0)
            elif 'bad' in p: bad.setdefault(p['tid'], []).append(p)
        if set(done) != set(range(1, len(traces) + 1)):
            raise Machinery('trace validation %s: %d of %d traces reported completion' % (what, len(done), len(traces)))
        for tid, n in done.items():
            got = sum(len(b['bad']) for b in bad.get(tid, []))
            if got != n:
                raise Machinery('trace validation %s: trace %d reports %d failed clauses but %d were printed' % (what, tid, n, got))
        self.add_tlc(res, 'TRACE ' + what)
        self.traces += len(traces)
        return bad

    def binding_selftest(self, module, trace, expected_steps, corrupt, what, cfg=None):
        """Corrupt one recorded field of an ACCEPTED trace and require TLC to reject exactly it.  The candidate trace comes
        from this very run: if the code under test is broken there (TLC does not accept the candidate, or it cannot even
        be corrupted), the self-test is recorded as not applicable - the main validation reports that breakage as
        violations; a self-test can only fail the run when a clean, accepted trace is NOT rejected after corruption."""
        detail = dict(what=what)
        try:
            bad = self.validate(module, [trace], expected_steps, what=what + ' (selftest clean)', cfg=cfg)
            detail['clean_accepted'] = not bad
            if bad:
                detail['result'] = 'not applicable: the candidate trace is itself rejected (reported by the main validation)'
                self.selftests.append(detail); return
            t2 = corrupt(json.loads(json.dumps(trace)))
        except (IndexError, KeyError, TypeError, ValueError) as ex:
            detail['result'] = 'not applicable: candidate trace unusable (%s)' % type(ex).__name__
            self.selftests.append(detail); return
        bad2 = self.validate(module, [t2], expected_steps, what=what + ' (selftest corrupted)', cfg=cfg)
        detail['corrupted_rejected'] = bool(bad2)
        self.selftests.append(detail)
        if not bad2:
            raise Machinery('binding self-test failed for %s: a corrupted trace was accepted' % what)

    # ---- verdicts ------------------------------------------------------------------------------
    def violation(self, api, symptom, attrs, detail):
        """Register one failed step.  api: public entry point; symptom: 'wrong-value' | 'raises:<Class>' |
        'no-raise' | ...; attrs: small dict of recorded event fields used by known-finding predicates;
        detail: anything needed to replay (scenario, recorded trace, TLC's expected value)."""
        v = dict(api=api, symptom=symptom, attrs=attrs)
        e = self.findings.match(self.prop, v)
        if e is not None:
            self.known[e['what']] = self.known.get(e['what'], 0) + 1
            return False
        key = hashlib.sha1(json.dumps([api, symptom, attrs], sort_keys=True, default=str).encode()).hexdigest()[:12]
        path = os.path.join(self.out, '%s_%s.json' % (api.replace('/', '_').replace(' ', '_')[:40], key))
        if not os.path.exists(path) and len(os.listdir(self.out)) < 400:
            with open(path, 'w') as f:
                json.dump(dict(property=self.prop, api=api, symptom=symptom, attrs=attrs, detail=detail, seed=self.seed, tier=self.tier),
                          f, indent=1, default=str)
        self.violations.append(dict(api=api, symptom=symptom, attrs=attrs, replay=path))
        return True

    # ---- the end --------------------------------------------------------------------------------
    def finish(self, rule, level='model_checking', extra=None):
        wall = time.time() - self.t0
        for what, n in sorted(self.known.items()):
            print('KNOWN-FINDING: property=%s %s (%d occurrence%s in this run)' % (self.prop, what, n, '' if n == 1 else 's'))
        shown = {}
        extra_check = self.prop.startswith('X')      # supplementary comparison beyond the 20 properties: observations, never a verdict on a property
        for v in self.violations:
            k = (v['api'], v['symptom'])
            shown[k] = shown.get(k, 0) + 1
            if shown[k] > 3 or len(shown) > 60: continue          # a few replay files per (entry point, symptom) are enough
            if extra_check: print('OBSERVATION extra=%s replay=%s   # %s %s %s' % (self.prop, v['replay'], v['api'], v['symptom'], json.dumps(v['attrs'], sort_keys=True, default=str)[:200]))
            else: print('VIOLATION property=%s replay=%s   # %s %s %s' % (self.prop, v['replay'], v['api'], v['symptom'], json.dumps(v['attrs'], sort_keys=True, default=str)[:200]))
        cov = dict(states=max(self.states, 1) if self.states else 0, transitions=self.transitions,
                   traces_validated_against_impl=self.traces,
                   samples=self.samples or ['(no sample recorded)'],
                   evaluations=self.evaluations, distinct_nontrivial=len(self.nontrivial), rule=rule,
                   exhaustive=(bool(self.exhaustive_subspaces) if self.claim_exhaustive is None else bool(self.claim_exhaustive)), exhaustive_subspaces=self.exhaustive_subspaces,
                   model_checking_runs=self.mc_runs, binding_selftest=self.selftests,
                   known_findings_matched=self.known, skipped_components=self.skipped,
                   tlc_cmds=self.tlc_cmds[:40], notes=self.notes,
                   trusted_base=['TLC 2.x / SANY', 'CommunityModules Json/Bitwise/IOUtils overrides',
                                 'harness recorder (harness/*.py)', 'specification validated per DESIGN.md section 5'])
        if extra: cov.update(extra)
        ev = dict(property_id=self.prop, tier=self.tier, seed=self.seed, level=level, coverage=cov,
                  assumptions=self.assumptions, wall_s=round(wall, 2), violations=len(self.violations))
        evdir = os.path.join(VERIF, 'evidence') if not self.alt else os.path.dirname(self.out)
        if extra_check and not self.alt: evdir = os.path.join(VERIF, 'out', 'extras')
        os.makedirs(evdir, exist_ok=True)
        with open(os.path.join(evdir, self.prop + '.json'), 'w') as f:
            json.dump(ev, f, indent=1, default=str)
        shutil.rmtree(self.work, ignore_errors=True)
        print('%s %s: %d evaluations, %d traces validated, %d TLC states, %d known-finding hits, %d violations, %.1fs'
              % (self.prop, self.tier, self.evaluations, self.traces, self.states, sum(self.known.values()), len(self.violations), wall))
        return 1 if (self.violations and not extra_check) else 0

def main(prop, body):
    """Entry point used by bin/check: body(ctx) does the work and returns ctx.finish(...)."""
    import argparse
    ap = argparse.ArgumentParser()
    ap.add_argument('--tier', default=None)
    ap.add_argument('--seed', default=None)
    ap.add_argument('--replay', default=None)
    a = ap.parse_args(sys.argv[2:])
    setup_repo_import()
    ctx = Ctx(prop, a.tier, a.seed)
    ctx.replay = a.replay
    def salvage(msg):
        print('MACHINERY-FAILURE property=%s: %s' % (prop, msg))
        shutil.rmtree(ctx.work, ignore_errors=True)
        if ctx.violations:          # established before the failure: still reported (each has a replay file and TLC's verdict)
            seen = {}
            for v in ctx.violations:
                k = (v['api'], v['symptom']); seen[k] = seen.get(k, 0) + 1
                if seen[k] <= 3: print('VIOLATION property=%s replay=%s   # %s %s' % (prop, v['replay'], v['api'], v['symptom']))
            return 1
        return 2
    if a.replay:
        # --replay <file>: re-run this property's check on the current tree (same tier/seed as recorded) and report whether the
        # recorded violation (entry point, symptom, recorded event fields) is reproduced: exit 1 if it is, 0 if it is gone
        try:
            rec = json.load(open(a.replay))
            ctx.tier = rec.get('tier', ctx.tier); ctx.seed = int(rec.get('seed', ctx.seed))
            ctx.rnd = random.Random(ctx.seed * 1000003 + int(hashlib.sha1(prop.encode()).hexdigest()[:8], 16))
        except (OSError, ValueError) as e:
            print('MACHINERY-FAILURE property=%s: cannot read replay file: %s' % (prop, e)); return 2
        print('REPLAY %s: %s %s %s' % (a.replay, rec.get('api'), rec.get('symptom'), json.dumps(rec.get('attrs'), sort_keys=True)[:300]))
        try:
            body(ctx)
        except Exception as e:
            print('MACHINERY-FAILURE property=%s: %s' % (prop, str(e)[:500]))
            if not ctx.violations: return 2
        hit = [v for v in ctx.violations if v['api'] == rec.get('api') and v['symptom'] == rec.get('symptom') and v['attrs'] == rec.get('attrs')]
        print('REPLAY result: %s' % ('REPRODUCED (%d occurrence(s))' % len(hit) if hit else 'not reproduced on this tree'))
        if hit: print('VIOLATION property=%s replay=%s' % (prop, hit[0]['replay']))
        return 1 if hit else 0
    try:
        rc = body(ctx)
    except Machinery as e:
        return salvage(str(e))
    except tlc.TlcError as e:
        return salvage(str(e))
    except Exception:
        traceback.print_exc()
        return salvage('harness exception')
    return rc
