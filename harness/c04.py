"""C04 - Keccak sponge, SHA-3, SHAKE, duplex.  MC: pad10*1 for all rates <= 40 and lengths <= 3r; whole sponge over
Keccak-f[25] and f[50] for EVERY rate and every L <= 2r+2 (MC_Sponge).  Bind: the real Keccak object for all seven
widths, rates incl. non-multiples of 8 and r < 8, L mod r in {0,1,r-2,r-1} x L mod 8, data longer than the bit
length, several squeezes, both bit-order conventions; SHA3-n / SHAKE around the rate boundary; duplex sequences."""
import core
from core import B

def call_event(b, r, d, nist, M, bitlen):
    from crysp.keccak import Keccak
    if not bitlen: M, bitlen = (M if bitlen is None else b''), None      # a zero bit length is the API's "omitted": only with the empty message
    e = dict(op='call', b=b, r=r, d=d, nist=bool(nist), m=B(M), bitlen=-1 if bitlen is None else bitlen, raised='', obs=[])
    try:
        h = Keccak(b=b, r=r, len=d)
        if not nist: h.duplexing = True
        out = h(M, bitlen) if bitlen is not None else h(M)
        e['obs'] = B(out) if isinstance(out, bytes) else [-1]
    except Exception as ex: e['raised'] = type(ex).__name__
    return e

def msg(rnd, L, extra, cls):
    n = (L + 7) // 8 + extra
    if cls == 1: return b'\xff' * n
    if cls == 2: return bytes(n)
    return bytes(rnd.randrange(256) for _ in range(n))

def run(ctx):
    rnd = ctx.rnd; big = ctx.big()
    ctx.model_check('mc/MC_Sponge.tla', 'mc/MC_Sponge.cfg', what='MC_Sponge w=1 (Keccak-f[25]): every rate, every L <= 2r+2')
    if big: ctx.model_check('mc/MC_Sponge.tla', 'mc/MC_Sponge_W2.cfg', what='MC_Sponge w=2 (Keccak-f[50])')
    ev = []
    k = 0
    # exhaustive configuration space of the smallest width(s)
    for b in ((25, 50) if big else (25,)):
        for r in range(1, b):
            for L in range(0, 2 * r + 3):
                for nist in ((False, True) if L % 8 else (False,)):
                    k += 1
                    d = [1, r, r + 1, 2 * r + 1][k % 4]
                    ev.append(call_event(b, r, d, nist, msg(rnd, L, k % 2, k % 3), L if (L or k % 2) else None)); ctx.mark((b, r, L, nist, d))
    ctx.exhaustive_subspaces.append('Keccak[b=%s]: every rate 0 < r < b, every L in 0..2r+2, both bit orders' % ('25, 50' if big else '25'))
    # boundary grid for the larger widths
    for b in (50, 100, 200, 400, 800, 1600):
        w = b // 25
        rates = sorted(set([3, 7, 8, 9, w, 8 * w - 1 if 8 * w - 1 < b else 5, b // 2, b - 2 * w, b - 9, b - 8, b - 1] + ([576, 832, 1024, 1088, 1152, 1344, 1536] if b == 1600 else []) + [rnd.randrange(1, b) for _ in range(3 if big else 1)]))
        rates = [r for r in rates if 0 < r < b and r <= 1536]
        if not big and b >= 400: rates = rates[::2] + ([1088] if b == 1600 else [])
        for r in rates:
            Ls = sorted(set([0, 1, r - 2, r - 1, r, r + 1, 2 * r - 2, 2 * r - 1, 2 * r] + ([rnd.randrange(3 * r)] if r > 8 else list(range(0, 2 * r + 2)))))
            if not big and b >= 400: Ls = [x for x in Ls if x in (0, 1, r - 2, r - 1, r, 2 * r - 1)]
            for L in [x for x in Ls if x >= 0]:
                for bo in ((0, 1, 5, 7) if big else (0, 3)):
                    LL = L + bo if L + bo <= 3 * r else L
                    for nist in ((False, True) if LL % 8 else (False,)):
                        k += 1
                        d = [1, r - 1, r, r + 1, 2 * r + 3][k % 5]
                        if d < 1: d = 1
                        if b == 1600 and not big and r >= 64: d = min(d, r)
                        ev.append(call_event(b, r, d, nist, msg(rnd, LL, (k % 3 == 0) * 2, k % 3), LL if (LL or k % 2) else None)); ctx.mark((b, r, LL, nist, d))
        # a bit length beyond the data must be refused
        ev.append(call_event(b, b // 2, 8, False, b'\x01\x02', 17))
    from crysp.keccak import Keccak as _K
    for b, r, d in ((200, 64, 32), (400, 128, 64), (1600, 1088, 256)):
        for m in core.zero_edge_inputs(lambda x: _K(b=b, r=r, len=d)(x), lambda i: b'zk-%d-%d' % (ctx.seed, i), want=1, tries=400 if b < 1600 else 120):
            ev.append(call_event(b, r, d, True, m, None)); ctx.mark((b, r, 'zero-edge'))
    # module singletons and SHA-3 / SHAKE
    from crysp import keccak, sha
    def generic(op, fn, **kw):
        e = dict(op=op, raised='', obs=[]); e.update(kw)
        try:
            out = fn(); e['obs'] = B(out) if isinstance(out, bytes) else [-1]
        except Exception as ex: e['raised'] = type(ex).__name__
        return e
    for n, obj in ((224, keccak.keccak_224), (256, keccak.keccak_256), (384, keccak.keccak_384), (512, keccak.keccak_512)):
        rate = 1600 - 2 * n
        for ln in ((0, 3, rate // 8 - 1, rate // 8) if big else (3, rate // 8)):
            M = msg(rnd, 8 * ln, 0, 0)
            ev.append(generic('call', lambda obj=obj, M=M: obj(M), b=1600, r=rate, d=n, nist=True, m=B(M), bitlen=-1)); ctx.mark(('single', n, ln))
        for ln in (([0, 1] + list(range(rate // 8 - 2, rate // 8 + 2)) + [2 * rate // 8]) if big else (0, rate // 8 - 1, rate // 8)):
            M = msg(rnd, 8 * ln, 0, 0)
            ev.append(generic('sha3', lambda n=n, M=M: sha.SHA3(n)(M), n=n, m=B(M))); ctx.mark(('sha3', n, ln))
    for n, fn in ((128, sha.SHAKE128), (256, sha.SHAKE256)):
        rate = 1600 - 2 * n
        for ln in (([0, 1] + list(range(rate // 8 - 2, rate // 8 + 2))) if big else (1, rate // 8 - 1, rate // 8)):
            for d in ((8, rate - 8, rate, rate + 8, 2 * rate + 24) if big else (8, rate + 8)):
                M = msg(rnd, 8 * ln, 0, 0)
                ev.append(generic('shake', lambda fn=fn, M=M, d=d: fn(M, d), n=n, m=B(M), d=d)); ctx.mark(('shake', n, ln, d))
    traces = [dict(ev=ev[i:i + 8]) for i in range(0, len(ev), 8)]
    # duplex call sequences on one object
    for b, r in ((25, 11), (200, 64), (200, 77), (1600, 1088), (100, 9)) + (((50, 23), (400, 160), (800, 544), (1600, 1344)) if big else ()):
        for rep in range(3 if big else 1):
            from crysp.keccak import Keccak
            h = Keccak(b=b, r=r, len=r); seq = []
            for j in range(4 if b < 1600 or big else 2):
                L = [0, r - 2, rnd.randrange(0, r - 1), r - 1][(j + rep) % 4]
                d = [r, 1, rnd.randrange(1, r + 1), r][(j + rep) % 4]
                M = msg(rnd, L, 0, 0)
                e = dict(op='duplex', b=b, r=r, d=d, m=B(M), bitlen=L if L else -1, raised='', obs=[])
                try:
                    out = h.duplex(M, L if L else None, d); e['obs'] = B(out)
                except Exception as ex: e['raised'] = type(ex).__name__
                seq.append(e)
                if j == 1 and rep == 0 and b <= 400:          # a sponge call with a per-call rate between two duplex calls: the duplex state must survive
                    M2 = msg(rnd, 24, 0, 0); r2 = max(8, r - 8)
                    e2 = dict(op='call', b=b, r=r2, d=r, nist=True, m=B(M2), bitlen=-1, raised='', obs=[])
                    try: e2['obs'] = B(h(M2, None, r2))
                    except Exception as ex: e2['raised'] = type(ex).__name__
                    seq.append(e2)
            traces.append(dict(ev=seq)); ctx.mark(('duplex', b, r, rep))
    # an object in the native (LSB-first) bit order: sponge call with a ragged bit length, duplex calls, ragged sponge call again - the order setting survives
    for b, r in ((200, 72), (1600, 1088), (25, 11)):
        h = Keccak(b=b, r=r, len=min(r, 64)); h.duplexing = True; seq = []
        for j in range(5):
            if j in (1, 2):
                L = [0, r - 2, 5][(j + b) % 3]; M = msg(rnd, L, 0, 0); d = [r, 1][j % 2]
                e = dict(op='duplex', b=b, r=r, d=d, m=B(M), bitlen=L if L else -1, raised='', obs=[])
                try: e['obs'] = B(h.duplex(M, L if L else None, d))
                except Exception as ex: e['raised'] = type(ex).__name__
            else:
                L = [13, 8 * 9 + 3, r + 1][j % 3]; M = msg(rnd, L, 0, 0)
                e = dict(op='call', b=b, r=r, d=min(r, 64), nist=False, m=B(M), bitlen=L, raised='', obs=[])
                try: e['obs'] = B(h(M, L))
                except Exception as ex: e['raised'] = type(ex).__name__
            seq.append(e)
        traces.append(dict(ev=seq)); ctx.mark(('native order + duplex', b, r))
    # a REFUSED call that carried a per-call rate (bit length beyond the data), then ordinary calls: the configured rate is back
    for b, r0, r2 in ((1600, 1088, 1344), (200, 72, 136), (200, 72, 40)):
        h = Keccak(b=b, r=r0, len=64); seq = []
        for j, (M, L, rr) in enumerate(((msg(rnd, 40, 0, 0), None, None), (b'ab', 17, r2), (msg(rnd, 8 * 30, 0, 0), None, None), (b'abc', 25, r2), (msg(rnd, 8 * 20 - 3, 0, 0), 8 * 20 - 3, None))):
            e = dict(op='call', b=b, r=rr or r0, d=64, nist=True, m=B(M), bitlen=-1 if L is None else L, raised='', obs=[])
            try:
                out = h(M, L, rr) if rr else (h(M, L) if L else h(M)); e['obs'] = B(out)
            except Exception as ex: e['raised'] = type(ex).__name__
            seq.append(e)
        traces.append(dict(ev=seq)); ctx.mark(('refused call with rate', b, r0, r2))
    # blank duplex calls around an explicit setrate(): the padded blank block belongs to the rate in force
    for b, r1, r2 in ((200, 64, 40), (1600, 1088, 576), (25, 11, 7)):
        h = Keccak(b=b, r=r1, len=r1); seq = []
        for r_, M, L in ((r1, b'', 0), (r1, b'', 0), (r2, b'', 0), (r2, msg(rnd, 5, 0, 0), 5), (r1, b'', 0)):
            if h.r != r_:
                try: h.setrate(r_)
                except Exception: pass
            e = dict(op='duplex', b=b, r=r_, d=min(r_, 16), m=B(M), bitlen=L if L else -1, raised='', obs=[])
            try: e['obs'] = B(h.duplex(M, L if L else None, min(r_, 16)))
            except Exception as ex: e['raised'] = type(ex).__name__
            seq.append(e)
        traces.append(dict(ev=seq)); ctx.mark(('blank duplex around setrate', b, r1, r2))
    # positional construction Keccak(b, c): the second positional argument is the CAPACITY
    for b, c, dl in ((1600, 512, 256), (1600, 1024, 64), (200, 40, 64), (800, 256, 128), (25, 5, 13)):
        M = msg(rnd, 8 * 11, 0, 0); e = dict(op='call', b=b, r=b - c, d=dl, nist=True, m=B(M), bitlen=-1, raised='', obs=[])
        try: e['obs'] = B(Keccak(b, c, len=dl)(M))
        except Exception as ex: e['raised'] = type(ex).__name__
        traces.append(dict(ev=[e])); ctx.mark(('positional', b, c))
    # a per-call rate / setrate() that the object refuses (rate above 1536), exception caught, then ordinary calls and a duplex call at the configured rate
    for b, r0, bad in ((1600, 1088, 1580), (1600, 576, 1599)):
        h = Keccak(b=b, r=r0, len=64); seq = []
        for step in range(4):
            if step == 1:
                try: h(b'abc', None, bad)
                except Exception: pass
                continue
            if step == 2:
                try: h.setrate(bad + 1)
                except Exception: pass
            M = msg(rnd, 8 * (5 + step), 0, 0); e = dict(op='call', b=b, r=r0, d=64, nist=True, m=B(M), bitlen=-1, raised='', obs=[])
            try: e['obs'] = B(h(M))
            except Exception as ex: e['raised'] = type(ex).__name__
            seq.append(e)
        traces.append(dict(ev=seq)); ctx.mark(('refused rate', b, r0, bad))
    # one long-lived object called at several rates (larger, then smaller, then the configured one): per-call r applies to that call only
    from crysp.keccak import Keccak
    for b, r0, rs in ((1600, 1088, (1344, None, 1027, 1024, None)), (200, 72, (136, None, 40, None)), (25, 11, (20, 3, None, 24, None)), (200, 72, (40, 136, None)), (1600, 1088, (576, None))) + (((800, 544, (700, None, 100, None)),) if big else ()):
        dl = (64 if b > 25 else 13) if (b, r0, rs) not in ((200, 72, (40, 136, None)), (1600, 1088, (576, None))) else (256 if b == 200 else 2048)      # the last two: output longer than both rates
        h = Keccak(b=b, r=r0, len=dl); seq = []
        for j, rr in enumerate(rs):
            M = msg(rnd, 8 * (3 + 7 * j), 0, 0)
            e = dict(op='call', b=b, r=rr or r0, d=dl, nist=True, m=B(M), bitlen=-1, raised='', obs=[])
            try:
                out = h(M, None, rr) if rr else h(M); e['obs'] = B(out)
            except Exception as ex: e['raised'] = type(ex).__name__
            seq.append(e)
        traces.append(dict(ev=seq)); ctx.mark(('rates', b, str(rs)))
    ctx.evaluations = sum(len(t['ev']) for t in traces)
    ctx.sample(traces[0]['ev'][0]); ctx.sample(traces[-1]['ev'][:2])
    CH = 1500
    for a in range(0, len(traces), CH):
        part = traces[a:a + CH]
        bad = ctx.validate('trace/Trace_Keccak.tla', part, lambda t: len(t['ev']), what='Trace_Keccak[%d:%d]' % (a, a + len(part)))
        for tid, recs in bad.items():
            for rec in recs:
                e = part[tid - 1]['ev'][rec['step'] - 1]
                for cl in rec['bad']:
                    L = (8 * len(e['m']) if e.get('bitlen', -1) < 0 else e['bitlen'])
                    r = e.get('r', 0)
                    attrs = dict(op=e['op'], clause=cl['c'], raised=e['raised'], b=e.get('b', 1600), r=r, nist=e.get('nist', False),
                                 lmodr=(L % r if r else -1), rate_below_8=(0 < r < 8), data_longer=(len(e['m']) > (L + 7) // 8), lmod8=L % 8, step=rec['step'])
                    sym = ('raises:' + e['raised']) if cl['c'] == 'must-not-raise' else ('no-raise' if cl['c'] == 'must-refuse' else 'wrong:' + cl['c'])
                    ctx.violation('keccak.' + e['op'], sym, attrs, dict(event=e, expected=cl['e']))
    clean = dict(ev=[call_event(200, 64, 32, False, b'abc', None)])
    def corrupt(t): t['ev'][0]['obs'][0] ^= 2; return t
    ctx.binding_selftest('trace/Trace_Keccak.tla', clean, lambda t: len(t['ev']), corrupt, 'Trace_Keccak: flipped output bit')
    ctx.assumptions += ['bitlen=0/None is "omitted"', 'duplex inputs obey the construction\'s precondition (|sigma| <= r-2, d <= r) except where refusal is checked',
                        'NIST convention: the partial byte is the byte at index L div 8; its L mod 8 most significant bits are shifted to the low end (x >> (8 - L mod 8))']
    return ctx.finish('exhaustive configuration space of Keccak[25] (and [50] in thorough), boundary grid for all seven widths, SHA-3/SHAKE around the rate boundary, duplex sequences; every output recomputed by TLC from sys/Sponge')
