"""C02 - block ciphers equal their standards.  Spec theorems: ST_*Thm modules (tables are permutations, inverses,
GF(2^8) laws) checked at setup; here TLC judges the CODE: exhaustive component tables (S-boxes, gmul on all
65536 pairs, Rcon, DES S-boxes and permutations on unit vectors, Serpent boxes in every column, linear layers
on a basis) and end-to-end enc/dec for every cipher/size over key, tweak and block classes, every TDEA keying
form, every Serpent key length, and rejection of undefined sizes."""
import core, cipherrec as R
from core import B

def run(ctx):
    rnd = ctx.rnd; big = ctx.big()
    ev = []
    # (a) components, exhaustive
    ev += R.aes_components(rnd, 40 if big else 6)
    ev += R.des_components()
    ev += R.serpent_components(rnd, 20 if big else 3)
    ev = [e for e in ev if e['op'] != 'pair']                    # inverse pairs belong to C03
    for e in ev: ctx.mark((e['op'], e.get('name', ''), str(e.get('a', e.get('n', e.get('box', '')))), str(e.get('x', e.get('s', '')))[:80]))
    ctx.exhaustive_subspaces += ['AES S-box and inverse (256 each), gmul on all 65536 byte pairs, Rcon[1..10]', 'DES S(n,x) (512 values), IP, IPinv, PC1, PC2, E, P on every unit vector',
                                 'Serpent _S/_Sinv: 8 boxes x 16 values x 32 columns; _L/_Linv/_IP/_FP on all 128 unit vectors']
    R.validate(ctx, ev, 'components')
    # (b) end to end
    ev = []
    nwalk, nrand = (64, 60) if big else (4, 3)
    plan = [('aes', 16), ('aes', 24), ('aes', 32), ('des', 8), ('serpent', 16), ('serpent', 24), ('serpent', 32), ('threefish', 32), ('threefish', 64), ('threefish', 128)]
    for c, n in plan:
        bl = 8 if c == 'des' else (n if c == 'threefish' else 16)
        keys = R.key_classes(c, n, rnd, nwalk, nrand)
        for ki, K in enumerate(keys):
            tweaks = [b''] if c != 'threefish' else ([bytes(16), b'\xff' * 16, bytes(rnd.randrange(256) for _ in range(16))] if (big or ki < 2) else [bytes(rnd.randrange(256) for _ in range(16))])
            for T in tweaks:
                cirec = R.ci(c, [K], T)
                try: obj = R.construct(c, [K], T)
                except Exception as ex:
                    e = R.ev_new(c, [K], T); ev.append(e); continue
                walk = rnd.sample(range(8 * bl), (8 if big else 1))
                blocks = R.block_classes(bl, rnd, walk)[: (None if big or ki < 2 else 1)] + [bytes(rnd.randrange(256) for _ in range(bl))]
                for blk in blocks:
                    ev.append(R.ev_crypt(obj, cirec, 'enc', blk)); ev.append(R.ev_crypt(obj, cirec, 'dec', blk))
                    ctx.mark((c, n, ki, blk.hex()[:16], T.hex()[:8]))
    for c, n in plan:
        bl = 8 if c == 'des' else (n if c == 'threefish' else 16)
        K = bytes(rnd.randrange(256) for _ in range(n)); T = bytes(rnd.randrange(256) for _ in range(16)) if c == 'threefish' else b''
        obj = R.construct(c, [K], T); cirec = R.ci(c, [K], T)
        gen = lambda i, bl=bl: bytes(rnd.randrange(256) for _ in range(bl))
        for op in ('enc', 'dec'):
            for blk in core.zero_edge_inputs(lambda x, op=op: getattr(obj, op)(x), gen, want=2 if big else 1, tries=600 if bl <= 32 else 150):
                ev.append(R.ev_crypt(obj, cirec, op, blk)); ctx.mark((c, n, 'zero-edge', op, blk.hex()[:8]))
    # (b') many distinct keys in one process, then the first ones again (anything that remembers key material per key has to survive its own capacity)
    from crysp import aes as _aes, des as _des
    for c, cls, n, bl, count in (('des', _des.DES, 8, 8, 1100), ('aes', _aes.AES, 16, 16, 300 if not big else 1100)):
        first = [bytes(rnd.randrange(256) for _ in range(n)) for _ in range(3)]
        blk = bytes(rnd.randrange(256) for _ in range(bl))
        objs = [R.construct(c, [K]) for K in first]
        for K, o in zip(first, objs): ev.append(R.ev_crypt(o, R.ci(c, [K]), 'enc', blk))
        try:
            for i in range(count): cls(((i + 1) * 0x9E3779B97F4A7C15 % (1 << (8 * n))).to_bytes(n, 'big')).enc(blk)
        except Exception: pass
        for K, o in zip(first, objs):
            ev.append(R.ev_crypt(o, R.ci(c, [K]), 'enc', blk)); ev.append(R.ev_crypt(R.construct(c, [K]), R.ci(c, [K]), 'dec', blk))
        ctx.mark((c, 'many keys', count))
    # (c) keying forms: TDEA (separate keys, one string), Serpent key lengths 1..32
    def k8(): return bytes(rnd.randrange(256) for _ in range(8))
    for rep in range(4 if big else 2):
        k1, k2, k3 = k8(), k8(), k8()
        for keys in ([k1], [k1, k2], [k1, k2, k3], [k1 + k2], [k1 + k2 + k3], [k1, k1, k1], [k1, k2, k1], [k1, k1, k3], [k1, k2, k2], [k1 + k1 + k3], [k1 + k2 + k2], [k1, k1]):
            e = R.ev_new('tdea', keys); ev.append(e)
            if not e['raised']:
                obj = R.construct('tdea', keys)
                for blk in (bytes(8), k8()):
                    ev.append(R.ev_crypt(obj, R.ci('tdea', keys), 'enc', blk)); ev.append(R.ev_crypt(obj, R.ci('tdea', keys), 'dec', blk))
            ctx.mark(('tdea', str([len(k) for k in keys]), rep))
    for n in range(1, 33):
        K = bytes(rnd.randrange(256) for _ in range(n)); obj = R.construct('serpent', [K]); blk = bytes(rnd.randrange(256) for _ in range(16))
        ev.append(R.ev_crypt(obj, R.ci('serpent', [K]), 'enc', blk)); ev.append(R.ev_crypt(obj, R.ci('serpent', [K]), 'dec', blk)); ctx.mark(('serpent-keylen', n))
    # (d) rejection: every key length 0..40 (Threefish 31..33, 63..65, 127..129), tweak != 16 bytes, block length +-1
    for c in ('aes', 'des', 'serpent'):
        for n in range(0, 41):
            if c == 'serpent' and n == 0: continue
            ev.append(R.ev_new(c, [bytes(n)])); ctx.mark((c, 'keylen', n))
    for n in list(range(0, 41)) + [63, 64, 65, 127, 128, 129, 256]: ev.append(R.ev_new('threefish', [bytes(n)], bytes(16)))
    for t in (0, 8, 15, 17, 32): ev.append(R.ev_new('threefish', [bytes(32)], bytes(t)))
    for keys in ([bytes(7)], [bytes(9)], [bytes(12)], [bytes(17)], [bytes(23)], [bytes(25)], [bytes(32)], [bytes(8), bytes(7)], [bytes(8), bytes(8), bytes(9)], [bytes(16), bytes(8)]):
        ev.append(R.ev_new('tdea', keys))
    for c, n in plan + [('tdea', 8)]:
        keys = [bytes(range(n))] if c != 'tdea' else [bytes(range(8))]
        T = bytes(16) if c == 'threefish' else b''
        obj = R.construct(c, keys, T); bl = 8 if c in ('des', 'tdea') else (n if c == 'threefish' else 16)
        for d in (-1, 1, bl):
            for op in ('enc', 'dec'): ev.append(R.ev_crypt(obj, R.ci(c, keys, T), op, bytes(bl + d)))
    ctx.sample(ev[0]); ctx.sample(ev[-1])
    R.validate(ctx, ev, 'end-to-end + keying forms + rejection')
    clean = dict(ev=[R.ev_crypt(R.construct('aes', [bytes(16)]), R.ci('aes', [bytes(16)]), 'enc', bytes(range(16)))])
    def corrupt(t): t['ev'][0]['obs'][3] ^= 1; return t
    ctx.binding_selftest('trace/Trace_Cipher.tla', clean, lambda t: len(t['ev']), corrupt, 'Trace_Cipher: flipped ciphertext bit')
    ctx.skipped += R.SKIPPED
    ctx.assumptions += ['keys and blocks are sampled by class (zero, ones, walking one, DES weak/semi-weak/parity variants, all-one words, random); components and size/keying configurations are exhaustive',
                        'Serpent keys of 1..32 bytes; the empty key is not exercised', '"rejected" = any exception']
    return ctx.finish('component tables compared exhaustively and end-to-end enc/dec judged by TLC against the TLA+ transcriptions of FIPS 197, FIPS 46-3/SP 800-67, the Serpent submission and Skein 1.3; distinct = (cipher, size, key class, block)')
