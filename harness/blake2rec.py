"""Recording crysp Blake2 objects for Trace_Blake2 (C11, C14, C10)."""
from core import B, limbs

def par(b, outlen=None, keylen=0, fanout=1, depth=1, leafl=0, noffset=0, ndepth=0, inner=0, salt=b'', pers=b''):
    return dict(outlen=(64 if b else 32) if outlen is None else outlen, keylen=keylen, fanout=fanout, depth=depth, leafl=limbs(leafl, 2),
                noffset=limbs(noffset, 4), ndepth=ndepth, inner=inner, salt=B(salt), pers=B(pers))

def kwargs(b, p, explicit_outlen):
    """the keyword arguments a user passes for parameter record p (defaults omitted)"""
    kw = {}
    d = par(b)
    if explicit_outlen or p['outlen'] != d['outlen']: kw['outlen'] = p['outlen']
    for k in ('keylen', 'fanout', 'depth', 'ndepth', 'inner'):
        if p[k] != d[k]: kw[k] = p[k]
    if p['leafl'] != d['leafl']: kw['leafl'] = sum(v << (16 * i) for i, v in enumerate(p['leafl']))
    if p['noffset'] != d['noffset']: kw['noffset'] = sum(v << (16 * i) for i, v in enumerate(p['noffset']))
    if p['salt']: kw['salt'] = bytes(p['salt'])
    if p['pers']: kw['pers'] = bytes(p['pers'])
    return kw

class Rec2:
    def __init__(self, b, obj=None):
        from crysp import blake
        self.b = b; self.o = obj if obj is not None else blake.Blake2(512 if b else 256); self.ev = []
    def bitcnt(self):
        try: return limbs(int(self.o.padmethod.bitcnt), 8)
        except Exception: return limbs(0, 8)
    def call(self, m, p, explicit_outlen=False):
        e = dict(op='call', m=B(m), par=p, raised='', out=[])
        try:
            r = self.o(m, **kwargs(self.b, p, explicit_outlen)); e['out'] = B(r) if isinstance(r, bytes) else [-1]
        except Exception as ex: e['raised'] = type(ex).__name__
        self.ev.append(e); return e
    def init(self, p, explicit_outlen=False):
        e = dict(op='init', par=p, raised='')
        try: self.o.initstate(**kwargs(self.b, p, explicit_outlen))
        except Exception as ex: e['raised'] = type(ex).__name__
        self.ev.append(e); return e
    def update(self, m, padding=False):
        e = dict(op='update', m=B(m), padding=bool(padding), raised='', out=[])
        try:
            r = self.o.update(m, padding=padding); e['out'] = B(r) if isinstance(r, bytes) else [-1]
        except Exception as ex: e['raised'] = type(ex).__name__
        e['bitcnt'] = self.bitcnt()
        self.ev.append(e); return e
    def preset(self, nbytes):
        """as if nbytes (a multiple of the block size) had been hashed before: the public counter of the pad object is assigned"""
        self.o.padmethod.bitcnt = 8 * nbytes
        e = dict(op='preset', base=limbs(nbytes, 8 if self.b else 4)); self.ev.append(e); return e
    def trace(self, scen=None): return dict(b=self.b, par0=par(self.b), ev=self.ev, scen=scen)

def classify(ctx, tr, recs):
    Bb = 128 if tr['b'] else 64
    for rec in sorted(recs, key=lambda r: r['step']):
        e = tr['ev'][rec['step'] - 1]
        before = 0
        for p in tr['ev'][:rec['step'] - 1]:
            if p['op'] in ('init', 'call'): before = 0
            elif p['op'] == 'update' and not p['raised']: before += len(p['m'])
        for cl in rec['bad']:
            n = len(e.get('m', []))
            attrs = dict(variant='2b' if tr['b'] else '2s', op=e['op'], clause=cl['c'], raised=e.get('raised', ''), bytes_before=before, empty_piece=('m' in e and n == 0),
                         padding=bool(e.get('padding', e['op'] == 'call')), total_blocks=-(-(before + n) // Bb), default_outlen=(e.get('par', {}).get('outlen') in (None, 64 if tr['b'] else 32)))
            if cl['c'] == 'must-not-raise': sym = 'raises:' + e['raised']
            elif cl['c'] in ('must-refuse', 'must-reject-parameters'): sym = 'no-raise'
            else: sym = 'wrong:' + cl['c']
            ctx.violation('blake2.%s' % e['op'], sym, attrs, dict(scenario=tr.get('scen'), event=e, step=rec['step'], expected=cl['e'],
                                                             history=[(x['op'], len(x.get('m', [])), x.get('padding'), (x.get('par') or {}).get('outlen')) for x in tr['ev']]))

def validate(ctx, traces, what, chunk=3000):
    for a in range(0, len(traces), chunk):
        part = traces[a:a + chunk]
        payload = [dict(b=t['b'], par0=t['par0'], ev=t['ev']) for t in part]
        bad = ctx.validate('trace/Trace_Blake2.tla', payload, lambda t: len(t['ev']), what='%s[%d:%d]' % (what, a, a + len(part)))
        for tid, recs in bad.items(): classify(ctx, part[tid - 1], recs)
    ctx.evaluations += sum(len(t['ev']) for t in traces)
