"""C03 - dec inverts enc; exposed component pairs are mutual inverses.  Spec side: the TLA+ ciphers define Dec as
the reversed composition and the ST_*Thm modules check every component pair on its whole domain at setup.  Here
the CODE's pairs are enumerated: S-boxes on all values, ShiftRows/MixColumns/IP/_L/_IP on a basis, Serpent boxes in
every column, rol/ror for all widths <= 10 (all values, all amounts) and sampled wide, Salsa/ChaCha index maps;
end to end dec(enc(B)) = B = enc(dec(B)) for every cipher/size and key class, each also compared with the spec."""
import core, cipherrec as R
from bitsrec import ev_un

def bits_of(x, n): return [(x >> j) & 1 for j in range(n)]

def run(ctx):
    rnd = ctx.rnd; big = ctx.big()
    ev = R.aes_components(rnd, 40 if big else 6) + R.des_components() + R.serpent_components(rnd, 20 if big else 3)
    ev = [e for e in ev if e['op'] in ('pair', 'aes_step', 'des_perm', 'serp_s', 'serp_l', 'serp_p') and (e['op'] == 'pair' or e.get('name') in ('ShiftRows', 'InvShiftRows', 'MixColumns', 'InvMixColumns', 'IP', 'IPinv', 'FP', None))]
    # Salsa / ChaCha index maps
    def maps(mod, a, b):
        import importlib
        m = importlib.import_module(mod)
        return dict(p=[int(x) for x in getattr(m, a)], q=[int(x) for x in getattr(m, b)])
    for mod, a, b in (('crysp.salsa20', 'rM', 'rMinv'), ('crysp.salsa20', 'cM', 'cMinv'), ('crysp.chacha', 'rM', 'rMinv'), ('crysp.chacha', 'cM', 'cMinv')):
        e = dict(op='inv_maps', name='%s.%s/%s' % (mod, a, b), raised='', p=[], q=[])
        try: e.update(maps(mod, a, b))
        except (AttributeError, ImportError):
            R.SKIPPED.append('%s: %s/%s not found, index maps skipped' % (mod, a, b)); continue
        except Exception as ex: e['raised'] = type(ex).__name__
        ev.append(e)
    for e in ev: ctx.mark((e['op'], e.get('name', ''), str(e.get('x', e.get('s', e.get('box', ''))))[:90], e.get('inv', '')))
    ctx.exhaustive_subspaces += ['AES Sbox/Sbox_inv on all 256 values; ShiftRows, MixColumns and inverses on the 128 unit-bit states', 'DES IP/IPinv on all 64 unit vectors',
                                 'Serpent _S/_Sinv 8 boxes x every (column, value); _L/_Linv and _IP/_FP on all 128 unit vectors', 'Salsa20/ChaCha index maps rM/rMinv, cM/cMinv']
    R.validate(ctx, ev, 'component pairs')
    # rotations on real Bits: every width <= 10, every value, every amount
    rot = []
    W = 10 if big else 8
    for n in range(W + 1):
        for x in range(1 << n):
            for k in range(n + 1):
                rot.append(ev_un('rol', bits_of(x, n), k=k)); rot.append(ev_un('ror', bits_of(x, n), k=k))
    for n in (31, 32, 33, 63, 64, 65, 128, 1024):
        for _ in range(20 if big else 3):
            a = bits_of(rnd.getrandbits(n), n)
            for k in {0, 1, n // 2, n - 1, n, rnd.randrange(n + 1)}:
                rot.append(ev_un('rol', a, k=k)); rot.append(ev_un('ror', a, k=k))
    ctx.exhaustive_subspaces.append('rol/ror on real Bits: every width 0..%d, every value, every amount 0..w' % W)
    traces = [dict(obj0=[], ev=rot[i:i + 50]) for i in range(0, len(rot), 50)]
    bad = ctx.validate('trace/Trace_BitVec.tla', traces, lambda t: len(t['ev']), what='rol/ror (Trace_BitVec)')
    ctx.evaluations += len(rot)
    for tid, recs in bad.items():
        for rec in recs:
            e = traces[tid - 1]['ev'][rec['step'] - 1]
            for cl in rec['bad']:
                ctx.violation('operators.' + e['op'], 'wrong:' + cl['c'] if e['raised'] == '' else 'raises:' + e['raised'], dict(op=e['op'], w=len(e['a']), k=e['k']), dict(event=e, expected=cl['e']))
    # end to end
    ev = []
    plan = [('aes', 16), ('aes', 24), ('aes', 32), ('des', 8), ('tdea', 24), ('tdea', 16), ('serpent', 16), ('serpent', 32), ('serpent', 5), ('threefish', 32), ('threefish', 64), ('threefish', 128)]
    for c, n in plan:
        bl = 8 if c in ('des', 'tdea') else (n if c == 'threefish' else 16)
        keys = R.key_classes('des' if c == 'tdea' else c, n if c != 'tdea' else 8, rnd, 16 if big else 2, 20 if big else 2)
        if c == 'tdea':
            keys = [bytes(rnd.randrange(256) for _ in range(n)) for _ in range(len(keys) // 2)] + [k * (n // 8) for k in keys[-4:]]
            A, Bk = keys[-1][:8], bytes(rnd.randrange(256) for _ in range(8))                 # every equality pattern of the DES keys
            keys += ([A + Bk + Bk, A + A + Bk, A + Bk + A] if n == 24 else [A + A, A + Bk])
        for ki, K in enumerate(keys):
            T = bytes(rnd.randrange(256) for _ in range(16)) if c == 'threefish' else b''
            obj = R.construct(c, [K], T); cirec = R.ci(c, [K], T)
            if ki % 2 == 0:                                                       # a fresh object whose FIRST operation is dec, then enc of that result
                fo = R.construct(c, [K], T); fb = bytes(rnd.randrange(256) for _ in range(bl))
                d0 = R.ev_crypt(fo, cirec, 'dec', fb); ev.append(d0)
                if not d0['raised'] and len(d0['obs']) == bl: ev.append(R.ev_crypt(fo, cirec, 'enc', bytes(d0['obs'])))
            blocks = [bytes(bl), b'\xff' * bl, bytes(rnd.randrange(256) for _ in range(bl))][(0 if big or ki < 2 else 2):]
            for blk in blocks:
                ev.append(R.ev_pair_blocks(obj, cirec, blk)); ctx.mark((c, n, ki, blk.hex()[:12]))
                e1 = R.ev_crypt(obj, cirec, 'enc', blk); ev.append(e1)            # "both wrong consistently" is caught by the spec comparison
                if ki % 2:                                                        # another, differently keyed object of the class is built and used between enc and dec
                    try:
                        K2 = bytes(b ^ 0x5a for b in K); o2 = R.construct(c, [K2], bytes(16) if c == 'threefish' else b''); o2.enc(blk)
                    except Exception: pass
                if not e1['raised'] and len(e1['obs']) == bl: ev.append(R.ev_crypt(obj, cirec, 'dec', bytes(e1['obs'])))
            # refused calls in both directions (block of a wrong size), then the round trip again: nothing of a refused call may stay behind
            for op in ('dec', 'enc'):
                try: getattr(obj, op)(blocks[-1] + b'x')
                except Exception: pass
                e2 = R.ev_crypt(obj, cirec, 'enc', blocks[-1]); ev.append(e2)
                if not e2['raised'] and len(e2['obs']) == bl: ev.append(R.ev_crypt(obj, cirec, 'dec', bytes(e2['obs'])))
        # the key (and tweak) handed over as a mutable Bits object that its owner edits afterwards: the cipher keeps the key it was built with
        from crysp.bits import Bits
        K = bytes(rnd.randrange(256) for _ in range(n)); T = bytes(rnd.randrange(256) for _ in range(16)) if c == 'threefish' else b''
        if c != 'tdea':
            try:
                KB = Bits(K, bitorder=1); TB = Bits(T, bitorder=1) if T else None
                from crysp import aes, des, serpent, threefish
                obj = {'aes': aes.AES, 'des': des.DES, 'serpent': serpent.Serpent}[c](KB) if c != 'threefish' else threefish.Threefish(KB, TB)
            except Exception: obj = None
            if obj is not None:
                cirec = R.ci(c, [K], T); blk = bytes(rnd.randrange(256) for _ in range(bl))
                e0 = R.ev_crypt(obj, cirec, 'enc', blk)
                if True:                                                          # Bits(K, bitorder=1) is the constructors' own conversion of a byte-string key: the same key
                    ev.append(e0)
                    if len(KB) != 8 * n: ev.append(dict(op='new', ci=cirec, raised='KeyObjectChangedByConstructor'))
                    try:
                        KB[0] = 1 - KB.bit(0); KB[len(KB) - 1] = 1 - KB.bit(len(KB) - 1)
                        if TB is not None: TB[0] = 1 - TB.bit(0); TB[64:128] = 0
                    except Exception: pass
                    e1 = R.ev_crypt(obj, cirec, 'enc', blk); ev.append(e1)
                    if not e1['raised'] and len(e1['obs']) == bl: ev.append(R.ev_crypt(obj, cirec, 'dec', bytes(e1['obs'])))
                    ctx.mark((c, n, 'mutable-key-object'))
    ctx.sample(ev[0]); ctx.sample(ev[-1])
    R.validate(ctx, ev, 'end-to-end round trips')
    obj = R.construct('des', [bytes(8)]); clean = dict(ev=[R.ev_pair_blocks(obj, R.ci('des', [bytes(8)]), bytes(range(8)))])
    def corrupt(t): t['ev'][0]['obs']['fg'][0] ^= 128; return t
    ctx.binding_selftest('trace/Trace_Cipher.tla', clean, lambda t: len(t['ev']), corrupt, 'Trace_Cipher: dec(enc(B)) differs from B in one bit')
    ctx.skipped += R.SKIPPED
    ctx.assumptions += ['component domains are enumerated completely (finite) or on a GF(2) basis for the linear maps; keys/blocks of the end-to-end part are sampled by class']
    return ctx.finish('code-side inverse pairs enumerated on whole finite domains / bases and judged by TLC; end-to-end round trips and spec equality per cipher, size and key class')
