"""C12 - Skein.  MC: the UBI tweak schedule for every bit length over 0..4 blocks and start positions at limb
boundaries (MC_Ubi).  Bind: Skein(Nb, No, ...)(M, L) for the three state sizes, output lengths below / equal /
above the state, the message grid with every L mod 8, keys (absent, empty, short, longer than a block), prs / PK /
kdf / nonce, tree parameters; bare UBI with start positions near 2^64; TLC recomputes every output."""
import core
from core import B, limbs

def skein_event(Nb, No, M, bitlen=None, key=None, prs=None, PK=None, kdf=None, nonce=None, Yl=0, Yf=0, Ym=0):
    from crysp.skein import Skein
    opt = lambda x: B(x) if x else []
    e = dict(op='skein', Nb=Nb, No=No, m=B(M), bitlen=-1 if bitlen is None else bitlen, key=opt(key), haskey=key is not None,
             prs=opt(prs), PK=opt(PK), kdf=opt(kdf), nonce=opt(nonce), Yl=Yl, Yf=Yf, Ym=Ym, raised='', obs=[])
    try:
        h = Skein(Nb, No, Yl=Yl, Yf=Yf, Ym=Ym, key=key, prs=prs, PK=PK, kdf=kdf, nonce=nonce)
        out = h(M, bitlen) if bitlen is not None else h(M)
        e['obs'] = B(out) if isinstance(out, bytes) else [-1]
    except Exception as ex: e['raised'] = type(ex).__name__
    return e

TYPES = {'key': 0, 'cfg': 4, 'prs': 8, 'PK': 12, 'kdf': 16, 'non': 20, 'msg': 48, 'out': 63}
def ubi_event(G, M, bitlen, typ, level, pos0):
    from crysp.skein import UBI, Tweak
    from crysp.threefish import Threefish
    e = dict(op='ubi', G=B(G), m=B(M), bitlen=-1 if bitlen is None else bitlen, type=TYPES[typ], level=level, pos0=limbs(pos0, 6), raised='', obs=[])
    try:
        out = UBI(Threefish, G, Tweak(Type=typ, TreeLevel=level, Position=pos0))(M, bitlen); e['obs'] = core.SB(out)
    except Exception as ex: e['raised'] = type(ex).__name__
    return e

def run(ctx):
    ctx.claim_exhaustive = False      # keys / messages / parameters are sampled over an enumerated grid; only the spec-level models are exhaustive
    rnd = ctx.rnd; big = ctx.big()
    ctx.model_check('mc/MC_Ubi.tla', what='MC_Ubi (tweak schedule, all L over 0..4 blocks, 5 start positions)')
    ctx.model_check('mc/MC_SkeinTree.tla', what='MC_SkeinTree (symbolic UBI: Yl,Yf in 1..3, Ym in 2..4, 1..70 bytes at NB=2: unique node ids, level <= Ym, single root, leaves cover the message)')
    rb = lambda n: bytes(rnd.randrange(256) for _ in range(n))
    ev = []; k = 0
    for Nb in (256, 512, 1024):
        nb = Nb // 8
        Nos = [8, 16, Nb - 8, Nb, Nb + 8, 2 * Nb, 4 * Nb]
        lens = [0, 1, nb - 1, nb, nb + 1, 2 * nb, 2 * nb + 3, 4 * nb] if (big or Nb == 256) else [0, 1, nb, nb + 1, 3 * nb - 2]
        for n in lens:
            for bo in ((0, 1, 2, 3, 4, 5, 6, 7) if (big and Nb == 256) else (0, [1, 7, 4, 3][k % 4])):
                k += 1
                if bo and n == 0: continue
                No = Nos[k % len(Nos)]
                if Nb == 1024 and not big and No > Nb + 8: No = Nb + 8
                M = rb(n + (k % 3 == 0 and bo > 0))
                ev.append(skein_event(Nb, No, M, (8 * n - bo) if bo else (8 * n if ((k >> 1) % 2 == 0 and n) else None))); ctx.mark((Nb, No, n, bo))
        # keys and the other optional inputs
        for key in (None, b'', b'k', rb(nb - 1), rb(nb + 1), rb(3 * nb)) if (big or Nb != 1024) else (b'', rb(nb + 1)):
            k += 1
            ev.append(skein_event(Nb, [Nb, 64, 2 * Nb][k % 3], rb(rnd.choice([0, 5, nb + 2])), key=key)); ctx.mark((Nb, 'key', -1 if key is None else len(key)))
        opts = [dict(prs=b'personal'), dict(PK=rb(nb + 3)), dict(kdf=b'kdf-id'), dict(nonce=rb(16)), dict(key=rb(20), prs=b'p', PK=rb(7), kdf=b'k', nonce=rb(nb))]
        for o in (opts if (big or Nb == 256) else opts[-1:]):
            ev.append(skein_event(Nb, Nb, rb(9), **o)); ctx.mark((Nb, 'opt', str(sorted(o))))
    # an explicit bit length of 0 on a non-empty buffer is the empty message; outputs far longer than the state (the output counter needs a second byte)
    for Nb in (256, 512, 1024):
        ev.append(skein_event(Nb, Nb, rb(1 + Nb // 64), 0)); ev.append(skein_event(Nb, 64, b'\xff', 0, key=b'k')); ctx.mark((Nb, 'bitlen 0'))
    ev.append(skein_event(256, 256 * 257 + 8, rb(3))); ctx.mark((256, 'long output'))
    if big: ev.append(skein_event(512, 512 * 256 + 64, rb(70), key=rb(5)))
    # output lengths that are not a multiple of 8 (ceil(No/8) bytes), just above a multiple of the state size and below 8
    for Nb, No in ((256, 257), (512, 513), (1024, 1027), (256, 3), (512, 250), (256, 263)):
        ev.append(skein_event(Nb, No, rb(5))); ctx.mark((Nb, No, 'odd No'))
    # the parameter sets of the submission (a table of precomputed initial values must agree with the computed ones)
    for Nb, No in ((256, 128), (256, 160), (256, 224), (256, 256), (512, 128), (512, 160), (512, 224), (512, 256), (512, 384), (512, 512), (1024, 384), (1024, 512), (1024, 1024)):
        ev.append(skein_event(Nb, No, rb(3))); ctx.mark((Nb, No, 'standard set'))
    # a tree that grows beyond level 7 (Yl = Yf = 1 on more than 2^7 leaves of one block... Skein-256: 64-byte leaves, 4200 bytes)
    ev.append(skein_event(256, 256, rb(4200), Yl=1, Yf=1, Ym=255)); ev.append(skein_event(256, 256, rb(4200), Yl=1, Yf=1, Ym=8)); ctx.mark(('deep tree',))
    from crysp.skein import Skein
    for Nb in (256, 512):
        for m in core.zero_edge_inputs(lambda x: Skein(Nb, Nb)(x), lambda i: b'zs-%d-%d' % (ctx.seed, i), want=1, tries=700):
            ev.append(skein_event(Nb, Nb, m)); ctx.mark((Nb, 'zero-edge'))
    # tree hashing (Skein-256 mostly, few dozen leaves at most)
    shapes = [(1, 1, 2), (1, 1, 3), (1, 2, 2), (2, 1, 4), (3, 3, 2), (1, 1, 4), (2, 2, 3)]
    for (Yl, Yf, Ym) in (shapes if big else shapes[:5]):
        for n in ((1, 63, 64, 65, 200, 700) if big else (65, 300)):
            ev.append(skein_event(256, 256, rb(n), Yl=Yl, Yf=Yf, Ym=Ym)); ctx.mark(('tree', Yl, Yf, Ym, n))
    ev.append(skein_event(512, 512, rb(300), key=rb(9), Yl=1, Yf=1, Ym=3))
    ev.append(skein_event(256, 256, rb(100), bitlen=795, Yl=1, Yf=1, Ym=2))         # tree + bit length
    ev.append(skein_event(256, 256, b'', Yl=1, Yf=1, Ym=2))                          # tree + empty message
    # bare UBI with start positions near 2^64 (position carry into the third word)
    for pos0 in (0, (1 << 64) - 32, (1 << 64) - 64, (1 << 64) - 1, (1 << 32) - 7, (1 << 80) - 5):
        for n in (5, 32, 70):
            ev.append(ubi_event(rb(32), rb(n), None, 'msg', 1 + n % 3, pos0)); ctx.mark(('ubi', pos0, n))
    ev.append(ubi_event(rb(64), rb(70), 8 * 70 - 3, 'out', 0, (1 << 64) - 64))
    ctx.exhaustive_subspaces.append('configuration grid: Nb in {256,512,1024} x No in {8,16,Nb-8,Nb,Nb+8,2Nb,4Nb} (+ one output of 258 blocks) x |M| mod Nb/8 boundaries over 0..4 blocks x L mod 8; key forms; optional inputs; tree shapes Yl,Yf in 1..3, Ym in 2..4')
    ctx.evaluations = len(ev); ctx.sample({k_: v for k_, v in ev[2].items()}); ctx.sample(ev[-1])
    traces = [dict(ev=[e]) for e in ev]
    bad = ctx.validate('trace/Trace_Skein.tla', traces, lambda t: len(t['ev']), what='Trace_Skein')
    for tid, recs in bad.items():
        for rec in recs:
            e = traces[tid - 1]['ev'][0]
            for cl in rec['bad']:
                if e['op'] == 'skein':
                    nb = e['Nb'] // 8
                    attrs = dict(op='skein', clause=cl['c'], raised=e['raised'], Nb=e['Nb'], out_blocks=-(-e['No'] // e['Nb']), has_bitlen=e['bitlen'] >= 0,
                                 bitlen_mod8=(e['bitlen'] % 8 if e['bitlen'] >= 0 else -1), empty_key=(e['haskey'] and not e['key']), tree=bool(e['Yl'] or e['Yf'] or e['Ym']), empty_msg=(len(e['m']) == 0))
                else:
                    attrs = dict(op='ubi', clause=cl['c'], raised=e['raised'], has_bitlen=e['bitlen'] >= 0, bitlen_mod8=(e['bitlen'] % 8 if e['bitlen'] >= 0 else -1))
                sym = ('raises:' + e['raised']) if cl['c'] == 'must-not-raise' else 'wrong:' + cl['c']
                ctx.violation('skein.' + e['op'], sym, attrs, dict(event={k_: v for k_, v in e.items() if k_ != 'm'}, mlen=len(e['m']), expected=cl['e']))
    clean = dict(ev=[skein_event(256, 256, b'abc')])
    def corrupt(t): t['ev'][0]['obs'][0] ^= 1; return t
    ctx.binding_selftest('trace/Trace_Skein.tla', clean, lambda t: len(t['ev']), corrupt, 'Trace_Skein: flipped output bit')
    ctx.assumptions += ['an absent optional input is None; an empty prs/PK/kdf/nonce is treated as absent; an empty key is "no key" per Skein 1.3', 'content seeded']
    return ctx.finish('Skein outputs over state sizes x output lengths x message grid x L mod 8 x key forms x optional inputs x tree shapes, bare UBI near 2^64, each recomputed by TLC from sys/Skein (validated on the official vectors incl. MAC and tree)')
