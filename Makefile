# setup: parse every specification module and validate the specification against non-crysp sources.
.PHONY: setup selftest sany
setup: sany selftest
sany:
	python3 tools/sany_all.py
selftest:
	python3 tools/selftest.py

extras:
	$(CURDIR)/bin/check X01 --tier quick
	$(CURDIR)/bin/check X02 --tier quick
