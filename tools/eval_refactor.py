#!/usr/bin/env python3
"""False-alarm test: apply a behaviour-preserving change (refactors/<id>/refactor.diff) in a scratch worktree and run ALL checks
against it; every check must exit 0.  Usage: eval_refactor.py [ids...]; result in refactors/<id>/result.json."""
import json, os, subprocess, sys, shutil, tempfile
V = os.path.dirname(os.path.dirname(os.path.abspath(__file__)))
def sh(cmd): return subprocess.run(cmd, shell=True, stdout=subprocess.PIPE, stderr=subprocess.STDOUT, text=True)
# checks that execute the modules a refactoring touches (third run of the experiment, on the final checks; the first two runs used all 20)
RELEVANT = {'R2': ['C09', 'C05', 'C01', 'C11', 'C14', 'C10', 'C13', 'C12', 'C17'], 'R3': ['C01', 'C13', 'C14', 'C10', 'C17', 'C11'], 'R4': ['C04', 'C11', 'C14', 'C10', 'C13', 'C09'],
            'R5': ['C02', 'C03', 'C05', 'C18', 'C10'], 'R6': ['C12', 'C02', 'C03', 'C06', 'C10', 'C05'], 'R7': ['C16', 'C15', 'C20', 'C06', 'C02', 'C03', 'C11', 'C17', 'C18', 'C08'],
            'R8': ['C19', 'C14', 'C10']}
def evaluate(rid, tier):
    d = os.path.join(V, 'refactors', rid)
    wt = tempfile.mkdtemp(prefix='refw_', dir='/tmp'); os.rmdir(wt)
    res = dict(id=rid)
    try:
        sh('git -C /repo worktree add -q --detach %s HEAD' % wt)
        a = sh('git -C %s apply %s' % (wt, os.path.join(d, 'refactor.diff')))
        res['applies'] = a.returncode == 0
        if a.returncode: res['apply_error'] = a.stdout[-400:]; return res
        res['tests'] = sh('cd %s && env -u BDCHT_CRYSP_VERIF /venv/bin/python -m pytest -q -p no:cacheprovider 2>&1 | tail -1' % wt).stdout.strip()
        res['checks'] = {}
        todo = ['C%02d' % i for i in range(1, 21)]
        if os.environ.get('REF_RELEVANT') == '1' and rid.split('-')[0] in RELEVANT: todo = RELEVANT[rid.split('-')[0]]
        res['checks_run'] = todo
        for c in todo:
            r = sh('VERIF_REPO=%s %s/bin/check %s --tier %s' % (wt, V, c, tier))
            lines = r.stdout.splitlines()
            res['checks'][c] = dict(rc=r.returncode, violations=[l[:260] for l in lines if l.startswith('VIOLATION')][:3], machinery=[l[:260] for l in lines if l.startswith('MACHINERY')][:1])
        res['alarms'] = sorted(c for c, v in res['checks'].items() if v['rc'] != 0)
    finally:
        sh('git -C /repo worktree remove --force %s' % wt); shutil.rmtree(wt, ignore_errors=True)
    json.dump(res, open(os.path.join(d, 'result.json'), 'w'), indent=1)
    return res
if __name__ == '__main__':
    ids = sys.argv[1:] or sorted(os.listdir(os.path.join(V, 'refactors')))
    for rid in ids:
        if not os.path.exists(os.path.join(V, 'refactors', rid, 'refactor.diff')): continue
        d = os.path.join(V, 'refactors', rid); lock = os.path.join('/tmp', 'refeval_%s.lock' % rid)
        if os.path.exists(os.path.join(d, 'result.json')) and os.path.getmtime(os.path.join(d, 'result.json')) > os.path.getmtime(os.path.join(d, 'refactor.diff')): continue
        try: os.close(os.open(lock, os.O_CREAT | os.O_EXCL))
        except FileExistsError: continue
        try: r = evaluate(rid, 'quick')
        finally: os.unlink(lock)
        print('%-8s applies=%s tests=[%s] alarms=%s' % (rid, r.get('applies'), r.get('tests', ''), r.get('alarms')), flush=True)
