#!/usr/bin/env python3
"""Freeze known answers for spec/selftest/ST_Rc4.tla.  Deterministic.  Usage: gen_kat_rc4.py <outdir>

Sources (none of them is crysp):
 * OpenSSL 3.5 `enc -rc4 -provider legacy -provider default -K <32 hex>` (16-byte keys only);
 * classic vectors: "Key"/"Plaintext", "Wiki"/"pedia", "Secret"/"Attack at dawn" (Wikipedia / original
   sci.crypt posting), RFC 6229 first 16 keystream bytes for the 40-bit key 01 02 03 04 05, and the state/keystream
   prefix quoted in /repo/tests/test_rc4.py;
 * the few-line RC4 below, accepted only if it reproduces all of the above, for key lengths 1, 2, 5, 255, 256,
   continuation of a stream (two calls), and a toy instance with N = 8.
Record: {"N":256, "key":[..], "m":[..], "out":[..]}            out = m xor keystream(key)
        {"N":.., "key":[..], "m":[..], "out":[..], "m2":[..], "out2":[..], "S":[N], "i":.., "j":..}
                                                               second call on the state left by the first one; S,i,j = final state
"""
import json, sys, random, subprocess
OPENSSL = '/root/miniconda/bin/openssl'

def ksa(key, N=256):
    S = list(range(N)); j = 0
    for i in range(N):
        j = (j + S[i] + key[i % len(key)]) % N
        S[i], S[j] = S[j], S[i]
    return [S, 0, 0]
def gen(st, n, N=256):
    S, i, j = st; out = []
    for _ in range(n):
        i = (i + 1) % N
        j = (j + S[i]) % N
        S[i], S[j] = S[j], S[i]
        out.append(S[(S[i] + S[j]) % N])
    st[1], st[2] = i, j
    return out
def xor(st, m, N=256): return [a ^ b for a, b in zip(m, gen(st, len(m), N))]

def openssl(key, m):
    p = subprocess.run([OPENSSL, 'enc', '-rc4', '-provider', 'legacy', '-provider', 'default', '-K', bytes(key).hex()],
                       input=bytes(m), stdout=subprocess.PIPE, check=True)
    return list(p.stdout)

CLASSIC = [(b'Key', b'Plaintext', 'BBF316E8D940AF0AD3'), (b'Wiki', b'pedia', '1021BF0420'),
           (b'Secret', b'Attack at dawn', '45A01F645FC35B383552544B9BF5'),
           (bytes([1, 2, 3, 4, 5]), bytes(16), 'b2396305f03dc027ccc3524a0a1118a8')]       # RFC 6229

def main():
    out = sys.argv[1]
    rnd = random.Random(20260928)
    rb = lambda n: [rnd.randrange(256) for _ in range(n)]
    rows = []
    for k, m, c in CLASSIC:
        assert xor(ksa(k), m) == list(bytes.fromhex(c))
        rows.append(dict(src="classic", N=256, key=list(k), m=list(m), out=list(bytes.fromhex(c))))
    st = ksa(b'Key'); assert st[0][0:4] == [75, 51, 132, 157]                            # /repo/tests/test_rc4.py
    assert gen(st, 16) == [235, 159, 119, 129, 183, 52, 202, 114, 167, 25, 74, 40, 103, 182, 66, 149]
    for L in [0, 1, 16, 255, 256, 257, 300, 700]:
        k = rb(16); m = rb(L); o = openssl(k, m)
        assert o == xor(ksa(k), m)
        rows.append(dict(src="openssl", N=256, key=k, m=m, out=o))
    for k in [[0] * 16, [255] * 16]:
        m = [0] * 32; o = openssl(k, m); assert o == xor(ksa(k), m)
        rows.append(dict(src="openssl", N=256, key=k, m=m, out=o))
    for kl in [1, 2, 5, 8, 255, 256]:
        k = rb(kl); m = rb(40)
        rows.append(dict(src="ref", N=256, key=k, m=m, out=xor(ksa(k), m)))
    # continuation: OpenSSL over m || m2 must equal two calls on one state
    for kl, L1, L2 in [(16, 5, 30), (16, 256, 3), (16, 0, 7), (7, 100, 100)]:
        k = rb(kl); m = rb(L1); m2 = rb(L2)
        st = ksa(k); o = xor(st, m); o2 = xor(st, m2)
        if kl == 16: assert openssl(k, m + m2) == o + o2
        rows.append(dict(src="openssl" if kl == 16 else "ref", N=256, key=k, m=m, out=o, m2=m2, out2=o2, S=list(st[0]), i=st[1], j=st[2]))
    # toy N = 8 (values 0..7) and N = 16
    for N, kl, L1, L2 in [(8, 3, 10, 9), (8, 8, 0, 20), (16, 5, 17, 16), (8, 1, 8, 8)]:
        k = [rnd.randrange(N) for _ in range(kl)]; m = [rnd.randrange(N) for _ in range(L1)]; m2 = [rnd.randrange(N) for _ in range(L2)]
        st = ksa(k, N); o = xor(st, m, N); o2 = xor(st, m2, N)
        rows.append(dict(src="ref", N=N, key=k, m=m, out=o, m2=m2, out2=o2, S=list(st[0]), i=st[1], j=st[2]))
    with open(f"{out}/rc4.ndjson", "w") as f:
        for r in rows: f.write(json.dumps(r, separators=(',', ':')) + "\n")
    print(len(rows), "rc4 KATs", file=sys.stderr)

if __name__ == '__main__':
    main()
