#!/usr/bin/env python3
"""BLAKE round constants = leading hexadecimal digits of the fractional part of pi
(BLAKE-224/256: c0..c15 = first 16 32-bit words; BLAKE-384/512: c0..c15 = first 16 64-bit
words).  Derived here with exact integer arithmetic from Stormer's formula
    pi/4 = 6 atan(1/8) + 2 atan(1/57) + atan(1/239)
(the pyref file uses Machin's, so the two derivations are independent) and checked against
the first words every Blowfish implementer knows by heart.  Prints the TLA+ definitions that
are pasted into spec/prim/Blake.tla.  Deterministic; no input."""
import sys, os

def atan_inv(x, prec):
    one = 1 << prec
    t = one // x
    s, k, x2, sign = t, 1, x * x, -1
    while t:
        t //= x2
        k += 2
        s += sign * (t // k)
        sign = -sign
    return s

def pi_frac_bits(nbits):
    prec = nbits + 96                      # guard bits
    pi = 4 * (6 * atan_inv(8, prec) + 2 * atan_inv(57, prec) + atan_inv(239, prec))
    frac = pi - (3 << prec)
    assert 0 < frac < (1 << prec)
    return frac >> (prec - nbits)

F = pi_frac_bits(1024)
C64 = [(F >> (1024 - 64 * (i + 1))) & (2**64 - 1) for i in range(16)]
C32 = [(F >> (1024 - 32 * (i + 1))) & (2**32 - 1) for i in range(16)]

# well-known (Blowfish P-array = same digits of pi)
assert C32[:8] == [0x243F6A88, 0x85A308D3, 0x13198A2E, 0x03707344, 0xA4093822, 0x299F31D0, 0x082EFA98, 0xEC4E6C89]
assert C64[0] == 0x243F6A8885A308D3 and C64[1] == 0x13198A2E03707344
# agreement with the independent Machin derivation of tools/pyref/ref_blake.py
sys.path.insert(0, os.path.join(os.path.dirname(os.path.abspath(__file__)), 'pyref'))
import ref_blake
assert ref_blake.C64 == C64 and ref_blake.C32 == C32

def h(x): return '\\h%04X' % x
print('BlakeC32 == <<')
print(',\n'.join('    W32(%s,%s)' % (h(w >> 16), h(w & 0xffff)) for w in C32) + '>>')
print('BlakeC64 == <<')
print(',\n'.join('    W64(%s,%s,%s,%s)' % (h(w >> 48), h((w >> 32) & 0xffff), h((w >> 16) & 0xffff), h(w & 0xffff)) for w in C64) + '>>')
