#!/usr/bin/env python3
"""Freeze MD4 known answers for spec/selftest/ST_Md4.tla.  Sources (none is crysp):
 - the seven test-suite digests printed in RFC 1320 appendix A.5 (typed here), and
 - OpenSSL 3.5 (/root/miniconda/bin/openssl dgst -md4 -provider legacy -provider default), which must
   reproduce the seven RFC digests and supplies digests of messages at the padding boundaries
   (55/56/57, 63/64/65, 119/120/121, 127/128/129 bytes), carry-heavy constant messages and random ones.
Deterministic (fixed seed).  The output is frozen in spec/kat/md4.ndjson; nothing depends on openssl later.
Usage: gen_kat_md4.py <outdir>"""
import json, random, subprocess, sys
OPENSSL = "/root/miniconda/bin/openssl"
RFC1320 = [
    (b"", "31d6cfe0d16ae931b73c59d7e0c089c0"),
    (b"a", "bde52cb31de33e46245e05fbdbd6fb24"),
    (b"abc", "a448017aaf21d8525fc10ae87aa6729d"),
    (b"message digest", "d9130a8164549fe818874806e1c7014b"),
    (b"abcdefghijklmnopqrstuvwxyz", "d79e1c308aa5bbcdeea8ed63df412da9"),
    (b"ABCDEFGHIJKLMNOPQRSTUVWXYZabcdefghijklmnopqrstuvwxyz0123456789", "043f8582f241db351ce627e153e7f0e4"),
    (b"1234567890" * 8, "e33b4ddc9c38f2199c3e7b164fcc0536"),
]
def openssl_md4(m):
    p = subprocess.run([OPENSSL, "dgst", "-md4", "-provider", "legacy", "-provider", "default", "-binary"],
                       input=m, stdout=subprocess.PIPE, check=True)
    assert len(p.stdout) == 16
    return p.stdout
def main(out):
    rnd = random.Random(13200426)
    rows = []
    for m, h in RFC1320:
        d = openssl_md4(m)
        assert d.hex() == h, (m, d.hex(), h)
        rows.append(dict(alg="md4", src="rfc1320", m=list(m), d=list(bytes.fromhex(h))))
    for n in [1, 54, 55, 56, 57, 63, 64, 65, 118, 119, 120, 121, 127, 128, 129, 183, 184, 192]:
        m = bytes(rnd.randrange(256) for _ in range(n))
        rows.append(dict(alg="md4", src="openssl", m=list(m), d=list(openssl_md4(m))))
    for m in [b"\xff" * 64, b"\x00" * 64, b"\xff" * 55, b"\x80" * 56, b"\xff" * 120]:
        rows.append(dict(alg="md4", src="openssl", m=list(m), d=list(openssl_md4(m))))
    for _ in range(12):
        m = bytes(rnd.randrange(256) for _ in range(rnd.randrange(0, 200)))
        rows.append(dict(alg="md4", src="openssl", m=list(m), d=list(openssl_md4(m))))
    with open(out + "/md4.ndjson", "w") as f:
        for r in rows: f.write(json.dumps(r, separators=(',', ':')) + "\n")
    print("md4: %d known answers" % len(rows))
if __name__ == "__main__":
    main(sys.argv[1])
