#!/usr/bin/env python3
"""Freeze known answers for spec/selftest/ST_Blake.tla (BLAKE-224/256/384/512, final-round
version).  Sources, none of which is crysp:
  * the official vectors of the submission (one zero byte; 72 / 144 zero bytes) as quoted in
    /repo/tests/test_blake.py and typed again below;
  * tools/pyref/ref_blake.py (from-memory transcription working on bit lists), which must
    and does reproduce the official vectors (asserted here).
Fields: size, L = message length in BITS, m = ceil(L/8) bytes (bits beyond L are garbage on
purpose), salt = 4 words big-endian (16 / 32 bytes), d = digest.
Deterministic.  Usage: gen_kat_blake.py <outdir>"""
import json, os, random, sys
sys.path.insert(0, os.path.join(os.path.dirname(os.path.abspath(__file__)), 'pyref'))
from ref_blake import blake, bits_of

out = sys.argv[1]
rnd = random.Random(20260927)

OFFICIAL = [
 (256, b'\0',     "0CE8D4EF4DD7CD8D62DFDED9D4EDB0A774AE6A41929A74DA23109E8F11139C87"),
 (256, b'\0'*72,  "D419BAD32D504FB7D44D460C42C5593FE544FA4C135DEC31E21BD9ABDCC22D41"),
 (224, b'\0',     "4504CB0314FB2A4F7A692E696E487912FE3F2468FE312C73A5278EC5"),
 (224, b'\0'*72,  "F5AA00DD1CB847E3140372AF7B5C46B4888D82C8C0A917913CFB5D04"),
 (512, b'\0',     "97961587F6D970FABA6D2478045DE6D1FABD09B61AE50932054D52BC29D31BE4"
                  "FF9102B9F69E2BBDB83BE13D4B9C06091E5FA0B48BD081B634058BE0EC49BEB3"),
 (512, b'\0'*144, "313717D608E9CF758DCB1EB0F0C3CF9FC150B2D500FB33F51C52AFC99D358A2F"
                  "1374B8A38BBA7974E7F6EF79CAB16F22CE1E649D6E01AD9589C213045D545DDE"),
 (384, b'\0',     "10281F67E135E90AE8E882251A355510A719367AD70227B137343E1BC122015C29391E8545B5272D13A7C2879DA3D807"),
 (384, b'\0'*144, "0B9845DD429566CDAB772BA195D271EFFE2D0211F16991D766BA749447C5CDE569780B2DAA66C4B224A2EC2E5D09174C"),
]

def ref(size, m, L, saltbytes):
    w = 8 if size > 256 else 4
    salt = [int.from_bytes(saltbytes[i*w:(i+1)*w], 'big') for i in range(4)]
    return blake(size, bits_of(m, L), salt)

rows = []
def add(src, size, m, L, salt):
    assert len(m) == (L + 7) // 8
    rows.append(dict(src=src, size=size, L=L, m=list(m), salt=list(salt), d=list(ref(size, m, L, salt))))

for size, m, hx in OFFICIAL:
    z = bytes(32 if size > 256 else 16)
    assert ref(size, m, 8*len(m), z) == bytes.fromhex(hx), (size, len(m))
    add("official", size, m, 8*len(m), z)

LENS = [0, 1, 54, 55, 56, 57, 63, 64, 65, 111, 112, 113, 119, 120, 128, 129, 200]
for size in (224, 256, 384, 512):
    sb = 32 if size > 256 else 16
    Bbits = 1024 if size > 256 else 512
    lf = Bbits // 8
    for i, n in enumerate(LENS):
        m = bytes(rnd.randrange(256) for _ in range(n))
        salt = bytes(sb) if i % 2 == 0 else bytes(rnd.randrange(256) for _ in range(sb))
        add("pyref", size, m, 8*n, salt)
    # bit lengths: 1 and marker bits adjacent / in different bytes / spilling into a new block
    for i, L in enumerate([1, 7, Bbits-lf-3, Bbits-lf-2, Bbits-lf-1, Bbits-lf+1, Bbits-1, Bbits+5]):
        m = bytes(rnd.randrange(256) for _ in range((L + 7)//8))
        salt = bytes(sb) if i % 2 == 1 else bytes(rnd.randrange(256) for _ in range(sb))
        add("pyref-bits", size, m, L, salt)
    # all-ones salt and message (carries, every xor bit flipped)
    add("pyref", size, b'\xff'*(lf+3), 8*(lf+3), b'\xff'*sb)

with open(os.path.join(out, "blake.ndjson"), "w") as f:
    for r in rows: f.write(json.dumps(r, separators=(',', ':')) + "\n")
print(len(rows), "cases")
