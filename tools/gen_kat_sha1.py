#!/usr/bin/env python3
"""Extra known answers for spec/selftest/ST_Sha1.tla, appended to spec/kat/sha1.ndjson (whose first rows,
without a "src" field, come from gen_kat_hashlib.py).  Run AFTER gen_kat_hashlib.py; idempotent
(rows carrying a "src" field are dropped and rebuilt).  Sources (none is crysp):
 - SHA-1 (v = 1): hashlib, on the FIPS 180-1/-2 example messages (digests also typed from the standard and
   compared), carry-heavy constant blocks and random messages;
 - SHA-0 (v = 0): no available library implements it (OpenSSL >= 1.1 dropped it), so only published
   digests: FIPS 180 (1993) appendix examples "abc" and the 448-bit message, and the digest of the
   empty message as quoted in the literature.
Usage: gen_kat_sha1.py <outdir>"""
import hashlib, json, random, sys
M448 = b"abcdbcdecdefdefgefghfghighijhijkijkljklmklmnlmnomnopnopq"
SHA1_STD = [(b"abc", "a9993e364706816aba3e25717850c26c9cd0d89d"),
            (M448, "84983e441c3bd26ebaae4aa1f95129e5e54670f1")]
SHA0_PUB = [(b"abc", "0164b8a914cd2a5e74c4f7ff082c4d97f1edf880", "fips180"),
            (M448, "d2516ee1acfa5baf33dfc1c471e438449ef134c8", "fips180"),
            (b"", "f96cea198ad1dd5617ac084a3d92c6107708c0ef", "literature")]
def main(out):
    path = out + "/sha1.ndjson"
    rows = [r for r in (json.loads(l) for l in open(path) if l.strip()) if "src" not in r]
    rnd = random.Random(18010417)
    for m, h in SHA1_STD:
        assert hashlib.sha1(m).hexdigest() == h
        rows.append(dict(alg="sha1", v=1, src="fips180-1", m=list(m), d=list(bytes.fromhex(h))))
    for m in [b"\xff" * 64, b"\x00" * 64, b"\xff" * 55, b"\x80" * 56, b"\xff" * 120]:
        rows.append(dict(alg="sha1", v=1, src="hashlib", m=list(m), d=list(hashlib.sha1(m).digest())))
    for _ in range(10):
        m = bytes(rnd.randrange(256) for _ in range(rnd.randrange(0, 200)))
        rows.append(dict(alg="sha1", v=1, src="hashlib", m=list(m), d=list(hashlib.sha1(m).digest())))
    for m, h, src in SHA0_PUB:
        rows.append(dict(alg="sha0", v=0, src=src, m=list(m), d=list(bytes.fromhex(h))))
    with open(path, "w") as f:
        for r in rows: f.write(json.dumps(r, separators=(',', ':')) + "\n")
    print("sha1: %d known answers" % len(rows))
if __name__ == "__main__":
    main(sys.argv[1])
