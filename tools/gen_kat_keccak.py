#!/usr/bin/env python3
"""Freeze known answers for spec/selftest/ST_Keccak.tla (modules prim/KeccakF.tla, sys/Sponge.tla).
Sources, none of them crysp:
 (a) hashlib sha3_224/256/384/512, shake_128/256; pre-standard Keccak-n from OpenSSL 3.5 (KECCAK-n digests) when
     /root/miniconda/bin/openssl exists, always cross-checked against (and otherwise produced by) the reference below.
 (b),(c) an independent BIT-level reference of KECCAK-p / sponge / duplex written here straight from FIPS 202
     (state array A[x][y][z] of bits, algorithms 1-8 literally; no lanes, no words).  Before it is used for the small
     widths it is validated against hashlib for w = 64, and the duplex against the sponge through the
     duplexing-sponge lemma (output of call i = sponge(pad(s0) || .. || pad(s_{i-1}) || s_i)).
Deterministic.  Usage: gen_kat_keccak.py <outdir>      (writes <outdir>/keccak.ndjson)"""
import hashlib, json, os, random, subprocess, sys

# ---------------------------------------------------------------------------------------------------------------
# FIPS 202 bit-level reference
def rc(t):                                   # algorithm 5
    if t % 255 == 0: return 1
    R = [1, 0, 0, 0, 0, 0, 0, 0]
    for _ in range(t % 255):
        R = [0] + R
        R[0] ^= R[8]; R[4] ^= R[8]; R[5] ^= R[8]; R[6] ^= R[8]
        R = R[:8]
    return R[0]
_rc = {}
def rcm(t):
    t %= 255
    if t not in _rc: _rc[t] = rc(t)
    return _rc[t]

def to_array(S, w):  return [[[S[w * (5 * y + x) + z] for z in range(w)] for y in range(5)] for x in range(5)]   # A[x][y][z]
def to_string(A, w): return [A[x][y][z] for y in range(5) for x in range(5) for z in range(w)]

def theta(A, w):
    C = [[A[x][0][z] ^ A[x][1][z] ^ A[x][2][z] ^ A[x][3][z] ^ A[x][4][z] for z in range(w)] for x in range(5)]
    D = [[C[(x - 1) % 5][z] ^ C[(x + 1) % 5][(z - 1) % w] for z in range(w)] for x in range(5)]
    return [[[A[x][y][z] ^ D[x][z] for z in range(w)] for y in range(5)] for x in range(5)]
def rho(A, w):
    B = [[None] * 5 for _ in range(5)]
    B[0][0] = A[0][0][:]
    x, y = 1, 0
    for t in range(24):
        B[x][y] = [A[x][y][(z - (t + 1) * (t + 2) // 2) % w] for z in range(w)]
        x, y = y, (2 * x + 3 * y) % 5
    return B
def pi(A, w):  return [[[A[(x + 3 * y) % 5][x][z] for z in range(w)] for y in range(5)] for x in range(5)]
def chi(A, w): return [[[A[x][y][z] ^ ((A[(x + 1) % 5][y][z] ^ 1) & A[(x + 2) % 5][y][z]) for z in range(w)]
                        for y in range(5)] for x in range(5)]
def iota(A, w, ir):
    l = w.bit_length() - 1
    RC = [0] * w
    for j in range(l + 1): RC[2 ** j - 1] = rcm(j + 7 * ir)
    A = [[lane[:] for lane in col] for col in A]
    A[0][0] = [A[0][0][z] ^ RC[z] for z in range(w)]
    return A
NPERM = [0]
def keccak_p(S, w, nr):                      # algorithm 7
    NPERM[0] += 1
    l = w.bit_length() - 1
    A = to_array(S, w)
    for ir in range(12 + 2 * l - nr, 12 + 2 * l):
        A = iota(chi(pi(rho(theta(A, w), w), w), w), w, ir)
    return to_string(A, w)
def keccak_f(S, w): return keccak_p(S, w, 12 + 2 * (w.bit_length() - 1))

def pad101(r, L):                            # algorithm 9
    return [1] + [0] * ((-L - 2) % r) + [1]
def sponge(w, r, M, d):                      # algorithm 8
    b = 25 * w
    P = M + pad101(r, len(M))
    assert len(P) % r == 0
    S = [0] * b
    for i in range(0, len(P), r):
        blk = P[i:i + r] + [0] * (b - r)
        S = keccak_f([s ^ p for s, p in zip(S, blk)], w)
    Z = []
    while True:
        Z = Z + S[:r]
        if d <= len(Z): return Z[:d]
        S = keccak_f(S, w)
class Duplex:                                # "Duplexing the sponge", algorithm 2
    def __init__(self, w, r): self.w, self.r, self.S = w, r, [0] * (25 * w)
    def duplexing(self, sigma, d):
        b = 25 * self.w
        assert d <= self.r and len(sigma) <= self.r - 2
        P = sigma + pad101(self.r, len(sigma))
        assert len(P) == self.r
        self.S = keccak_f([s ^ p for s, p in zip(self.S, P + [0] * (b - self.r))], self.w)
        return self.S[:d]

def bits_lsb(m): return [(m[i // 8] >> (i % 8)) & 1 for i in range(8 * len(m))]
def pack_lsb(bits):
    o = bytearray((len(bits) + 7) // 8)
    for i, x in enumerate(bits):
        if x: o[i // 8] |= 1 << (i % 8)
    return bytes(o)
def ref_sha3(n, m):      return pack_lsb(sponge(64, 1600 - 2 * n, bits_lsb(m) + [0, 1], n))
def ref_shake(n, m, dl): return pack_lsb(sponge(64, 1600 - 2 * n, bits_lsb(m) + [1, 1, 1, 1], 8 * dl))
def ref_keccak(n, m):    return pack_lsb(sponge(64, 1600 - 2 * n, bits_lsb(m), n))

OPENSSL = '/root/miniconda/bin/openssl'
def openssl_keccak(n, m):
    if not os.path.exists(OPENSSL): return None
    p = subprocess.run([OPENSSL, 'dgst', '-KECCAK-%d' % n, '-binary'], input=m, stdout=subprocess.PIPE, check=True)
    return p.stdout

# ---------------------------------------------------------------------------------------------------------------
def main(out):
    rnd = random.Random(20260926)
    rbytes = lambda n: bytes(rnd.randrange(256) for _ in range(n))
    rbits = lambda n: [rnd.randrange(2) for _ in range(n)]

    # -- validation of the reference (w = 64) against hashlib, incl. multi-block absorb and squeeze
    vr = random.Random(1)
    for n in (224, 256, 384, 512):
        R = (1600 - 2 * n) // 8
        for ln in (0, 3, R - 1, R, R + 5):
            m = bytes(vr.randrange(256) for _ in range(ln))
            assert ref_sha3(n, m) == hashlib.new('sha3_%d' % n, m).digest(), ('sha3', n, ln)
    for n in (128, 256):
        R = (1600 - 2 * n) // 8
        for ln, dl in ((0, 32), (R - 1, R + 1), (R + 1, 2 * R + 9), (5, 1)):
            m = bytes(vr.randrange(256) for _ in range(ln))
            assert ref_shake(n, m, dl) == hashlib.new('shake_%d' % n, m).digest(dl), ('shake', n, ln, dl)
    # well-known digests of the empty string, pre-standard Keccak
    assert ref_keccak(256, b'').hex() == 'c5d2460186f7233c927e7db2dcc703c0e500b653ca82273b7bfad8045d85a470'
    # first lane of KECCAK-f[1600](0) is 0xF1258F7940E1DDE7
    assert pack_lsb(keccak_f([0] * 1600, 64)[:64]).hex() == 'e7dde140798f25f1'

    rows = []
    # -- (a) standard instances
    for n in (224, 256, 384, 512):
        R = (1600 - 2 * n) // 8
        for ln in (0, 1, R - 2, R - 1, R, R + 1, 2 * R):
            m = rbytes(ln)
            rows.append(dict(kind='hash', alg='sha3', n=n, m=list(m), dlen=n // 8, d=list(hashlib.new('sha3_%d' % n, m).digest())))
    for n in (128, 256):
        R = (1600 - 2 * n) // 8
        dls = [32, 1, R, R + 1, 2 * R + 7, 64, R - 1]
        for i, ln in enumerate((0, 1, R - 2, R - 1, R, R + 1, 2 * R)):
            m = rbytes(ln)
            rows.append(dict(kind='hash', alg='shake', n=n, m=list(m), dlen=dls[i], d=list(hashlib.new('shake_%d' % n, m).digest(dls[i]))))
    for n in (224, 256, 384, 512):
        R = (1600 - 2 * n) // 8
        for ln in ((0, R - 1, R) if n == 256 else (0, R - 1)):
            m = rbytes(ln)
            d = ref_keccak(n, m)
            o = openssl_keccak(n, m)
            assert o is None or o == d, ('keccak', n, ln)
            rows.append(dict(kind='hash', alg='keccak', n=n, m=list(m), dlen=n // 8, d=list(d)))

    # -- (b) generic sponges, all widths; rates not multiples of 8, one or two rates < 8 per width
    RATES = {1: (1, 5, 13, 23), 2: (2, 7, 27, 49), 4: (3, 42, 99), 8: (4, 37, 163), 16: (5, 201, 398),
             32: (6, 333, 799), 64: (1, 7, 1001, 1599)}
    cnt = 0
    for w in (1, 2, 4, 8, 16, 32, 64):
        for r in RATES[w]:
            assert 0 < r < 25 * w and r % 8 != 0
            dlist = [d for d in (1, r - 1, r, r + 1, 2 * r + 3) if d >= 1]
            dlist = sorted(set(dlist))
            res = sorted(set(x % r for x in (0, 1, r - 2, r - 1)))
            for j, rs in enumerate(res):
                q = (cnt + j) % 3
                L = q * r + rs
                d = dlist[cnt % len(dlist)]
                cnt += 1
                m = rbits(L)
                rows.append(dict(kind='sponge', w=w, r=r, m=m, d=d, out=sponge(w, r, m, d)))

    # -- (c) duplex sequences
    for w, r, seq in ((64, 1027, ((0, 1027), (1025, 1), (500, 256), (1, 0))),
                      (32, 8, ((6, 8), (0, 3), (5, 7))),
                      (16, 255, ((253, 255), (0, 17), (100, 254), (252, 1))),
                      (8, 37, ((35, 37), (1, 36), (0, 0), (17, 5))),
                      (4, 99, ((97, 98), (0, 99), (50, 1))),
                      (2, 2, ((0, 2), (0, 1), (0, 2))),
                      (1, 3, ((1, 3), (0, 2), (1, 1), (0, 3)))):
        D = Duplex(w, r)
        calls, hist = [], []
        for sl, d in seq:
            s = rbits(sl)
            o = D.duplexing(s, d)
            assert o == sponge(w, r, hist + s, d)            # duplexing-sponge lemma
            hist = hist + s + pad101(r, sl)
            calls.append(dict(sigma=s, d=d, out=o))
        rows.append(dict(kind='duplex', w=w, r=r, calls=calls))

    with open(os.path.join(out, 'keccak.ndjson'), 'w') as f:
        for row in rows: f.write(json.dumps(row, separators=(',', ':')) + '\n')
    from collections import Counter
    print(len(rows), 'cases', dict(Counter(r['kind'] for r in rows)), 'reference permutations', NPERM[0])

if __name__ == '__main__':
    main(sys.argv[1])
