#!/usr/bin/env python3
"""Freeze DES / TDEA known answers for spec/selftest/ST_Des.tla from OpenSSL 3.5 (NOT crysp).
Deterministic.  Usage: gen_kat_des.py <outdir>      (writes <outdir>/des.ndjson)
Every line: {alg: "des"|"tdea", note, k1, k2, k3, p, c} with c = Enc(p); for alg "des" k1 = k2 = k3 = the key.
Sanity properties of the chosen keys are asserted on OpenSSL's answers (weak keys are involutions, semi-weak
pairs invert each other, parity bits are ignored, complementation property)."""
import json, sys, random, subprocess
OPENSSL = "/root/miniconda/bin/openssl"
out = sys.argv[1]
rnd = random.Random(20260926)
H = bytes.fromhex
def ossl(cipher, key, data, dec=False):
    cmd = [OPENSSL, "enc", "-" + cipher, "-nopad", "-provider", "legacy", "-provider", "default", "-K", key.hex()]
    if dec: cmd.append("-d")
    r = subprocess.run(cmd, input=data, capture_output=True)
    assert r.returncode == 0 and len(r.stdout) == len(data), (cmd, r.stderr)
    return r.stdout
def E(k, p): return ossl("des-ecb", k, p)
def D(k, c): return ossl("des-ecb", k, c, True)
def rb(n): return bytes(rnd.randrange(256) for _ in range(n))
def inv(b): return bytes(x ^ 255 for x in b)
rows = []
def des(note, k, p):
    c = E(k, p)
    assert D(k, c) == p
    rows.append(dict(alg="des", note=note, k1=list(k), k2=list(k), k3=list(k), p=list(p), c=list(c)))
    return c
def tdea(note, k1, k2, k3, p):
    if k1 == k3:   c = ossl("des-ede-ecb", k1 + k2, p);  assert ossl("des-ede-ecb", k1 + k2, c, True) == p
    else:          c = ossl("des-ede3-ecb", k1 + k2 + k3, p)
    assert ossl("des-ede3-ecb", k1 + k2 + k3, p) == c and ossl("des-ede3-ecb", k1 + k2 + k3, c, True) == p
    assert E(k3, D(k2, E(k1, p))) == c                       # EDE as composed single DES
    rows.append(dict(alg="tdea", note=note, k1=list(k1), k2=list(k2), k3=list(k3), p=list(p), c=list(c)))
    return c

# --- classic vectors
assert des("classic worked example", H("133457799BBCDFF1"), H("0123456789ABCDEF")) == H("85E813540F0AB405")
assert des("Rivest 'Now is t'", H("0123456789ABCDEF"), b"Now is t") == H("3FA40E8A984D4815")
assert des("zero block, zero-parity key", H("0101010101010101"), H("0000000000000000")) == H("8CA64DE9C1B123A7")
des("all-ones block and key", H("FFFFFFFFFFFFFFFF"), H("FFFFFFFFFFFFFFFF"))
des("all-zero key bytes (even parity)", H("0000000000000000"), H("0000000000000000"))
# --- weak keys: E_k is an involution
for k in ("0101010101010101", "FEFEFEFEFEFEFEFE", "E0E0E0E0F1F1F1F1", "1F1F1F1F0E0E0E0E"):
    p = rb(8); c = des("weak key", H(k), p); assert E(H(k), c) == p
# --- semi-weak pairs: E_k1(E_k2(p)) = p
for a, b in (("01FE01FE01FE01FE", "FE01FE01FE01FE01"), ("1FE01FE00EF10EF1", "E01FE01FF10EF10E"),
             ("01E001E001F101F1", "E001E001F101F101"), ("1FFE1FFE0EFE0EFE", "FE1FFE1FFE0EFE0E"),
             ("011F011F010E010E", "1F011F010E010E01"), ("E0FEE0FEF1FEF1FE", "FEE0FEE0FEF1FEF1")):
    p = rb(8); c = des("semi-weak key", H(a), p); assert E(H(b), c) == p
    des("semi-weak key (dual)", H(b), c)
# --- parity bits are ignored
for i in range(3):
    k = rb(8); p = rb(8)
    c = des("parity: base key", k, p)
    assert des("parity: all parity bits flipped", bytes(x ^ 1 for x in k), p) == c
    assert des("parity: one parity bit flipped", bytes(x ^ (1 if j == i else 0) for j, x in enumerate(k)), p) == c
# --- complementation: E_~k(~p) = ~E_k(p)
k = rb(8); p = rb(8)
assert des("complementation: k, p", k, p) == inv(des("complementation: ~k, ~p", inv(k), inv(p)))
# --- IP / E test: all 64 walking-one plaintexts under the zero-parity key
for i in range(64):
    des("walking-one plaintext bit %d" % (i + 1), H("0101010101010101"), (1 << (63 - i)).to_bytes(8, "big"))
# --- walking-one keys (the 56 effective bits; parity bits set for odd parity), zero plaintext
for i in range(64):
    if i % 8 == 7: continue
    k = ((1 << (63 - i)) | 0x0101010101010101).to_bytes(8, "big")
    des("walking-one key bit %d" % (i + 1), k, H("0000000000000000"))
# --- random
for i in range(20): des("random", rb(8), rb(8))

# --- TDEA
tdea("3 distinct keys (SP 800-67 style)", H("0123456789ABCDEF"), H("23456789ABCDEF01"), H("456789ABCDEF0123"), b"The quic")
tdea("2-key (k3 = k1)", H("0123456789ABCDEF"), H("23456789ABCDEF01"), H("0123456789ABCDEF"), b"k brown ")
c = tdea("1-key (k1 = k2 = k3) = DES", H("133457799BBCDFF1"), H("133457799BBCDFF1"), H("133457799BBCDFF1"), H("0123456789ABCDEF"))
assert c == H("85E813540F0AB405")
for i in range(10):
    tdea("random, keying option 1", rb(8), rb(8), rb(8), rb(8))
for i in range(10):
    k1 = rb(8); tdea("random, keying option 2", k1, rb(8), k1, rb(8))
for i in range(10):
    k1 = rb(8); tdea("random, keying option 3", k1, k1, k1, rb(8))

with open(out + "/des.ndjson", "w") as f:
    for r in rows: f.write(json.dumps(r, separators=(',', ':')) + "\n")
print(len(rows), "known answers")
