#!/usr/bin/env python3
"""Freeze known answers for spec/selftest/ST_Salsa.tla.  Deterministic.  Usage: gen_kat_salsa.py <outdir>

Sources (none of them is crysp):
 * the examples of D. J. Bernstein, "Salsa20 specification" (2005): quarterround / rowround /
   columnround / doubleround / Salsa20 hash (incl. the 1 000 000-fold iteration) / expansion;
 * ECRYPT (eSTREAM) verified.test-vectors of Salsa20/20, Set 1 vector 0, 128 and 256 bit keys;
 * hashlib.scrypt (OpenSSL): scrypt's BlockMix is built on the Salsa20/8 core, which validates
   the reduced-round core of the reference below;
 * the small reference implementation below, written from the specification and accepted only if it
   reproduces ALL of the above (assertions), for everything else (8/12/other round counts, counters
   around 2^32, lengths).
The 1 000 000-fold iteration takes ~90 s and is only run with --slow (it passed when the file was frozen).
Record kinds:
   {"kind":"core",  "rounds":r, "x":[64 bytes], "out":[64 bytes]}
   {"kind":"expand","key":[16|32], "n":[16], "out":[64]}                       (20 rounds, as in the spec)
   {"kind":"xor",   "rounds":r, "key":[..], "nonce":[8], "ctr":[4 limbs of 16 bits, least significant first],
                    "m":[..], "out":[..]}
"""
import json, sys, random, hashlib, struct

M = 0xffffffff
def rol(x, k): return ((x << k) | (x >> (32 - k))) & M

def quarterround(y0, y1, y2, y3):
    z1 = y1 ^ rol((y0 + y3) & M, 7)
    z2 = y2 ^ rol((z1 + y0) & M, 9)
    z3 = y3 ^ rol((z2 + z1) & M, 13)
    z0 = y0 ^ rol((z3 + z2) & M, 18)
    return z0, z1, z2, z3

def rowround(y):
    z = [0] * 16
    z[0], z[1], z[2], z[3] = quarterround(y[0], y[1], y[2], y[3])
    z[5], z[6], z[7], z[4] = quarterround(y[5], y[6], y[7], y[4])
    z[10], z[11], z[8], z[9] = quarterround(y[10], y[11], y[8], y[9])
    z[15], z[12], z[13], z[14] = quarterround(y[15], y[12], y[13], y[14])
    return z

def columnround(x):
    y = [0] * 16
    y[0], y[4], y[8], y[12] = quarterround(x[0], x[4], x[8], x[12])
    y[5], y[9], y[13], y[1] = quarterround(x[5], x[9], x[13], x[1])
    y[10], y[14], y[2], y[6] = quarterround(x[10], x[14], x[2], x[6])
    y[15], y[3], y[7], y[11] = quarterround(x[15], x[3], x[7], x[11])
    return y

def doubleround(x): return rowround(columnround(x))

def core(b, rounds=20):
    x = list(struct.unpack('<16L', bytes(b)))
    z = x
    for _ in range(rounds // 2): z = doubleround(z)
    return struct.pack('<16L', *[(a + c) & M for a, c in zip(x, z)])

SIGMA = b"expand 32-byte k"
TAU = b"expand 16-byte k"
def layout(key, n):
    key, n = bytes(key), bytes(n)
    assert len(n) == 16 and len(key) in (16, 32)
    if len(key) == 32: c, k0, k1 = SIGMA, key[:16], key[16:]
    else: c, k0, k1 = TAU, key, key
    return c[0:4] + k0 + c[4:8] + n + c[8:12] + k1 + c[12:16]

def expand(key, n, rounds=20): return core(layout(key, n), rounds)

def xor(key, nonce, ctr, rounds, m):
    out = bytearray()
    for off in range(0, len(m), 64):
        ks = expand(key, bytes(nonce) + struct.pack('<Q', ctr & (2**64 - 1)), rounds)
        out += bytes(a ^ b for a, b in zip(m[off:off + 64], ks))
        ctr += 1
    return bytes(out)

# ---------------------------------------------------------------- validation of the reference
def H(s): return bytes.fromhex(s.replace(' ', '').replace('\n', ''))
def validate():
    # section 3: quarterround
    assert quarterround(0, 0, 0, 0) == (0, 0, 0, 0)
    assert quarterround(1, 0, 0, 0) == (0x08008145, 0x00000080, 0x00010200, 0x20500000)
    assert quarterround(0, 1, 0, 0) == (0x88000100, 0x00000001, 0x00000200, 0x00402000)
    assert quarterround(0, 0, 1, 0) == (0x80040000, 0x00000000, 0x00000001, 0x00002000)
    assert quarterround(0, 0, 0, 1) == (0x00048044, 0x00000080, 0x00010000, 0x20100001)
    assert quarterround(0xe7e8c006, 0xc4f9417d, 0x6479b4b2, 0x68c67137) == (0xe876d72b, 0x9361dfd5, 0xf1460244, 0x948541a3)
    assert quarterround(0xd3917c5b, 0x55f1c407, 0x52a58a7a, 0x8f887a3b) == (0x3e2f308c, 0xd90a8f36, 0x6ab2a923, 0x2883524c)
    # section 4: rowround
    assert rowround([1, 0, 0, 0] * 4) == [0x08008145, 0x00000080, 0x00010200, 0x20500000, 0x20100001, 0x00048044, 0x00000080, 0x00010000,
                                          0x00000001, 0x00002000, 0x80040000, 0x00000000, 0x00000001, 0x00000200, 0x00402000, 0x88000100]
    # section 5: columnround
    assert columnround([1, 0, 0, 0] * 4) == [0x10090288, 0, 0, 0, 0x00000101, 0, 0, 0, 0x00020401, 0, 0, 0, 0x40a04001, 0, 0, 0]
    X2 = [0x08521bd6, 0x1fe88837, 0xbb2aa576, 0x3aa26365, 0xc54c6a5b, 0x2fc74c2f, 0x6dd39cc3, 0xda0a64f6,
          0x90a2f23d, 0x067f95a6, 0x06b35f61, 0x41e4732e, 0xe859c100, 0xea4d84b7, 0x0f619bff, 0xbc6e965a]
    assert rowround(X2) == [0xa890d39d, 0x65d71596, 0xe9487daa, 0xc8ca6a86, 0x949d2192, 0x764b7754, 0xe408d9b9, 0x7a41b4d1,
                            0x3402e183, 0x3c3af432, 0x50669f96, 0xd89ef0a8, 0x0040ede5, 0xb545fbce, 0xd257ed4f, 0x1818882d]
    assert columnround(X2) == [0x8c9d190a, 0xce8e4c90, 0x1ef8e9d3, 0x1326a71a, 0x90a20123, 0xead3c4f3, 0x63a091a0, 0xf0708d69,
                               0x789b010c, 0xd195a681, 0xeb7d5504, 0xa774135c, 0x481c2027, 0x53a8e4b5, 0x4c1f89c5, 0x3f78c9c8]
    # section 6: doubleround
    assert doubleround([1] + [0] * 15) == [0x8186a22d, 0x0040a284, 0x82479210, 0x06929051, 0x08000090, 0x02402200, 0x00004000, 0x00800000,
                                           0x00010200, 0x20400000, 0x08008104, 0x00000000, 0x20500000, 0xa0000040, 0x0008180a, 0x612a8020]
    for x, y in CORE_SPEC: assert core(x) == bytes(y)
    # section 8: Salsa20^1000000
    if '--slow' in sys.argv:
        x = bytes(CORE_1M[0])
        for _ in range(1000000): x = core(x)
        assert x == bytes(CORE_1M[1]); print("Salsa20^1000000 example ok", file=sys.stderr)
    for k, n, y in EXPAND_SPEC: assert expand(k, n) == bytes(y)
    for k, iv, ks in ECRYPT: assert xor(k, iv, 0, 20, bytes(64)) == ks
    # Salsa20/8 core through scrypt (RFC 7914) against OpenSSL's scrypt
    def blockmix(B, r):
        X = B[-64:]; Y = []
        for i in range(2 * r):
            X = core(bytes(a ^ b for a, b in zip(X, B[64 * i:64 * i + 64])), 8); Y.append(X)
        return b''.join(Y[0::2] + Y[1::2])
    def romix(B, r, N):
        V = []; X = B
        for _ in range(N): V.append(X); X = blockmix(X, r)
        for _ in range(N):
            j = int.from_bytes(X[-64:][:8], 'little') % N
            X = blockmix(bytes(a ^ b for a, b in zip(X, V[j])), r)
        return X
    def scrypt(P, S, N, r, p, dklen):
        B = hashlib.pbkdf2_hmac('sha256', P, S, 1, p * 128 * r)
        B = b''.join(romix(B[i * 128 * r:(i + 1) * 128 * r], r, N) for i in range(p))
        return hashlib.pbkdf2_hmac('sha256', P, B, 1, dklen)
    for P, S, N, r, p in [(b'', b'', 16, 1, 1), (b'password', b'NaCl', 8, 2, 2), (b'pleaseletmein', b'SodiumChloride', 32, 1, 3)]:
        assert scrypt(P, S, N, r, p, 64) == hashlib.scrypt(P, salt=S, n=N, r=r, p=p, dklen=64)
    assert scrypt(b'', b'', 16, 1, 1, 64)[:8] == H('77d6576238657b20')      # RFC 7914 vector 1

Z64 = [0] * 64
CORE_SPEC = [
    (Z64, Z64),
    ([211,159, 13,115, 76, 55, 82,183,  3,117,222, 37,191,187,234,136, 49,237,179, 48,  1,106,178,219,175,199,166, 48, 86, 16,179,207,
       31,240, 32, 63, 15, 83, 93,161,116,147, 48,113,238, 55,204, 36, 79,201,235, 79,  3, 81,156, 47,203, 26,244,243, 88,118,104, 54],
     [109, 42,178,168,156,240,248,238,168,196,190,203, 26,110,170,154, 29, 29,150, 26,150, 30,235,249,190,163,251, 48, 69,144, 51, 57,
      118, 40,152,157,180, 57, 27, 94,107, 42,236, 35, 27,111,114,114,219,236,232,135,111,155,110, 18, 24,232, 95,158,179, 19, 48,202]),
    ([ 88,118,104, 54, 79,201,235, 79,  3, 81,156, 47,203, 26,244,243,191,187,234,136,211,159, 13,115, 76, 55, 82,183,  3,117,222, 37,
       86, 16,179,207, 49,237,179, 48,  1,106,178,219,175,199,166, 48,238, 55,204, 36, 31,240, 32, 63, 15, 83, 93,161,116,147, 48,113],
     [179, 19, 48,202,219,236,232,135,111,155,110, 18, 24,232, 95,158, 26,110,170,154,109, 42,178,168,156,240,248,238,168,196,190,203,
       69,144, 51, 57, 29, 29,150, 26,150, 30,235,249,190,163,251, 48, 27,111,114,114,118, 40,152,157,180, 57, 27, 94,107, 42,236, 35]),
]
CORE_1M = ([  6,124, 83,146, 38,191,  9, 50,  4,161, 47,222,122,182,223,185, 75, 27,  0,216, 16,122,  7, 89,162,104,101,147,213, 21, 54, 95,
            225,253,139,176,105,132, 23,116, 76, 41,176,207,221, 34,157,108, 94, 94, 99, 52, 90,117, 91,220,146,190,239,143,196,176,130,186],
           [  8, 18, 38,199,119, 76,215, 67,173,127,144,162,103,212,176,217,192, 19,233, 33,159,197,154,160,128,243,219, 65,171,136,135,225,
            123, 11, 68, 86,237, 82, 20,155,133,189,  9, 83,167,116,194, 78,122,127,195,185,185,204,188, 90,245,  9,183,248,226, 85,245,104])
K0 = list(range(1, 17)); K1 = list(range(201, 217)); NN = list(range(101, 117))
EXPAND_SPEC = [
    (K0 + K1, NN, [ 69, 37, 68, 39, 41, 15,107,193,255,139,122,  6,170,233,217, 98, 89,144,182,106, 21, 51,200, 65,239, 49,222, 34,215,114, 40,126,
                   104,197,  7,225,197,153, 31,  2,102, 78, 76,176, 84,245,246,184,177,160,133,130,  6, 72,149,119,192,195,132,236,234,103,246, 74]),
    (K0, NN,      [ 39,173, 46,248, 30,200, 82, 17, 48, 67,254,239, 37, 18, 13,247,241,200, 61,144, 10, 55, 50,185,  6, 47,246,253,143, 86,187,225,
                   134, 85,110,246,161,163, 43,235,231, 94,171, 51,145,214,112, 29, 14,232,  5, 16,151,140,183,141,171,  9,122,181,104,182,177,193]),
]
# ECRYPT Salsa20/20 verified.test-vectors, Set 1, vector# 0 (key = 80 00 .. 00, IV = 0), stream[0..63]
ECRYPT = [
    (H('80' + '00' * 15), bytes(8), H('4DFA5E481DA23EA09A31022050859936 DA52FCEE218005164F267CB65F5CFD7F'
                                      '2B4F97E0FF16924A52DF269515110A07 F9E460BC65EF95DA58F740B7D1DBB0AA')),
    (H('80' + '00' * 31), bytes(8), H('E3BE8FDD8BECA2E3EA8EF9475B29A6E7 003951E1097A5C38D23B7A5FAD9F6844'
                                      'B22C97559E2723C7CBBD3FE4FC8D9A07 44652A83E72A9C461876AF4D7EF1A117')),
]

def limbs(c): return [(c >> (16 * i)) & 0xffff for i in range(4)]

def main():
    validate()
    out = sys.argv[1]
    rnd = random.Random(20260926)
    rb = lambda n: bytes(rnd.randrange(256) for _ in range(n))
    rows = []
    for x, y in CORE_SPEC: rows.append(dict(kind="core", src="spec", rounds=20, x=list(x), out=list(y)))
    for k, n, y in EXPAND_SPEC: rows.append(dict(kind="expand", src="spec", key=list(k), n=list(n), out=list(y)))
    for k, iv, ks in ECRYPT:
        rows.append(dict(kind="xor", src="ecrypt", rounds=20, key=list(k), nonce=list(iv), ctr=limbs(0), m=[0] * 64, out=list(ks)))
    # reference-generated: core at other round counts (0 rounds: out = 2x)
    for r in (0, 2, 8, 12, 20):
        x = rb(64); rows.append(dict(kind="core", src="ref", rounds=r, x=list(x), out=list(core(x, r))))
    x = b'\xff' * 64; rows.append(dict(kind="core", src="ref", rounds=20, x=list(x), out=list(core(x, 20))))
    for kl in (16, 32):
        k = rb(kl); n = rb(16); rows.append(dict(kind="expand", src="ref", key=list(k), n=list(n), out=list(expand(k, n))))
    # streams: both key sizes x rounds x counters (carry from the low to the high word, and wrap of the 64-bit counter)
    lens = [0, 1, 63, 64, 65, 130]
    ctrs = [0, 1, 2**32 - 1, 2**32, 2**32 - 2, 2**48 - 1, 2**64 - 1, 0x0123456789abcdef]
    i = 0
    for kl in (16, 32):
        for r in (8, 12, 20):
            for j in range(4):
                L = lens[i % len(lens)]; c = ctrs[i % len(ctrs)]; i += 1
                k = rb(kl); v = rb(8); m = rb(L)
                rows.append(dict(kind="xor", src="ref", rounds=r, key=list(k), nonce=list(v), ctr=limbs(c), m=list(m), out=list(xor(k, v, c, r, m))))
    # explicit carry cases: 130 bytes = 3 blocks starting at 2^32-1, 2^32-2, 2^64-1 (wraps to 0), 65535 (limb carry)
    for kl, r, c, L in [(32, 20, 2**32 - 1, 130), (16, 20, 2**32 - 1, 130), (32, 20, 2**32 - 2, 130), (32, 8, 2**32 - 1, 65),
                        (32, 12, 2**32, 64), (32, 20, 2**64 - 1, 130), (16, 12, 65535, 130), (32, 20, 2**48 - 1, 65),
                        (32, 4, 0, 65), (16, 6, 7, 63), (32, 10, 2**32 - 1, 65), (32, 2, 1, 1)]:
        k = rb(kl); v = rb(8); m = rb(L)
        rows.append(dict(kind="xor", src="ref", rounds=r, key=list(k), nonce=list(v), ctr=limbs(c), m=list(m), out=list(xor(k, v, c, r, m))))
    # all-ones nonce / key
    k = b'\xff' * 32; v = b'\xff' * 8; m = bytes(64)
    rows.append(dict(kind="xor", src="ref", rounds=20, key=list(k), nonce=list(v), ctr=limbs(2**64 - 1), m=list(m), out=list(xor(k, v, 2**64 - 1, 20, m))))
    with open(f"{out}/salsa.ndjson", "w") as f:
        for r in rows: f.write(json.dumps(r, separators=(',', ':')) + "\n")
    print(len(rows), "salsa KATs", file=sys.stderr)

if __name__ == '__main__':
    main()
