#!/usr/bin/env python3
"""Freeze AES single-block known answers for spec/selftest/ST_Aes.tla.
Source: OpenSSL 3.5 (/root/miniconda/bin/openssl enc -aes-{128,192,256}-ecb -nopad -K <hex>), NOT crysp.
The FIPS 197 appendix B / C ciphertexts are typed in below and asserted against OpenSSL.
Deterministic.  Usage: gen_kat_aes.py <outdir>      (writes <outdir>/aes.ndjson)"""
import json, random, subprocess, sys
OPENSSL = '/root/miniconda/bin/openssl'
out = sys.argv[1]
rnd = random.Random(20260926)

def ecb(key, blk, dec=False):
    cmd = [OPENSSL, 'enc', '-aes-%d-ecb' % (8*len(key)), '-nopad', '-K', key.hex()] + (['-d'] if dec else [])
    r = subprocess.run(cmd, input=blk, stdout=subprocess.PIPE, check=True).stdout
    assert len(r) == 16
    return r

def rb(n): return bytes(rnd.randrange(256) for _ in range(n))
def unit(n, bit):           # n bytes, only bit number `bit` set, bit 0 = most significant bit of byte 0
    b = bytearray(n); b[bit // 8] = 0x80 >> (bit % 8); return bytes(b)

cases = []                  # (key, pt, expected ct or None)
h = bytes.fromhex
# FIPS 197 appendix C.1 / C.2 / C.3
pt = h('00112233445566778899aabbccddeeff')
cases.append((bytes(range(16)), pt, h('69c4e0d86a7b0430d8cdb78070b4c55a')))
cases.append((bytes(range(24)), pt, h('dda97ca4864cdfe06eaf70a0ec0d7191')))
cases.append((bytes(range(32)), pt, h('8ea2b7ca516745bfeafc49904b496089')))
# FIPS 197 appendix B
cases.append((h('2b7e151628aed2a6abf7158809cf4f3c'), h('3243f6a8885a308d313198a2e0370734'),
              h('3925841d02dc09fbdc118597196a0b32')))
for n in (16, 24, 32):
    Z, F = bytes(n), b'\xff'*n
    z, f = bytes(16), b'\xff'*16
    cases += [(Z, z, None), (Z, f, None), (F, z, None), (F, f, None)]
    # walking one in the key (first, a middle, byte-boundary, last bit), zero block
    for bit in (0, 7, 8, 4*n + 3, 8*n - 9, 8*n - 1):
        cases.append((unit(n, bit), z, None))
    # walking one in the block, zero key
    for bit in (0, 1, 31, 32, 63, 64, 126, 127):
        cases.append((Z, unit(16, bit), None))
    for _ in range(10):
        cases.append((rb(n), rb(16), None))

rows = []
for key, pt, exp in cases:
    ct = ecb(key, pt)
    assert exp is None or ct == exp, (key.hex(), pt.hex(), ct.hex())
    assert ecb(key, ct, dec=True) == pt
    rows.append(dict(klen=len(key), key=list(key), pt=list(pt), ct=list(ct)))
with open(out + '/aes.ndjson', 'w') as fo:
    for r in rows: fo.write(json.dumps(r, separators=(',', ':')) + '\n')
print(len(rows), 'known answers')
