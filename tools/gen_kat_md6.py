#!/usr/bin/env python3
"""Known answers for spec/selftest/ST_Md6.tla, frozen in spec/kat/md6.ndjson.
Sources (none of them is crysp):
  * the official vectors quoted in /repo/tests/test_md.py (MD6 report examples) and the widely
    published full-round digests of "", "abc", "The quick brown fox ..." -- typed here as hex
    and CHECKED against tools/pyref/ref_md6.py before anything else is generated;
  * tools/pyref/ref_md6.py (from-memory transcription of the MD6 report) for all other cases.
ref_md6.py already has keys, L (sequential / hybrid), r and bit lengths; it is used unmodified.
Its compression function is wrapped to record (level, index, z, p) of every compression
(decoded from the U and V words), which is frozen as the field `nodes`.

Usage: gen_kat_md6.py <outdir>        writes <outdir>/md6.ndjson   (deterministic)
       gen_kat_md6.py consts          prints the TLA+ text of Md6Q (fractional part of sqrt(6),
                                      exact integer arithmetic, independent of ref_md6.py)
"""
import sys, os, json, random
from math import isqrt
sys.path.insert(0, os.path.join(os.path.dirname(os.path.abspath(__file__)), 'pyref'))
import ref_md6 as R

def consts():
    bits = 64 * 15
    frac = isqrt(6 << (2 * bits)) - (2 << bits)          # floor(sqrt(6) * 2^bits) - 2 * 2^bits
    assert 0 <= frac < (1 << bits) and (frac + (2 << bits)) ** 2 <= (6 << (2 * bits)) < (frac + 1 + (2 << bits)) ** 2
    print("Md6Q == <<")
    for i in range(15):
        q = (frac >> (bits - 64 * (i + 1))) & R.M64
        print("  W64(%d, %d, %d, %d)%s   \\* %016x" % ((q >> 48) & 0xffff, (q >> 32) & 0xffff, (q >> 16) & 0xffff,
                                                    q & 0xffff, "," if i < 14 else "", q))
    print(">>")

NODES = []
_f = R.f
def f_logged(N, r):
    U, V = N[23], N[24]
    NODES.append([U >> 56, U & ((1 << 56) - 1), (V >> 36) & 15, (V >> 20) & 0xffff])
    assert (V >> 48) == r
    return _f(N, r)
R.f = f_logged

def run(d, M, bitlen, K, L, r):
    del NODES[:]
    out = R.md6(d, M, bitlen, K, L, r)
    return out, [list(x) for x in NODES]

OFFICIAL = [  # (d, key, L, r, message, hex digest)
    (256, b'', 64, 5, b'abc', "8854c14dc284f840ed71ad7ba542855ce189633e48c797a55121a746be48cec8"),
    (224, b'abcde12345', 64, 5, (bytes.fromhex("11223344556677") * 86)[:600],
     "894cf0598ad3288ed4bb5ac5df23eba0ac388a11b7ed2e3dd5ec5131"),
    (256, b'', 0, 104, (bytes.fromhex("11223344556677") * 115)[:800],
     "4e78ab5ec8926a3db0dcfa09ed48de6c33a7399e70f01ebfc02abb52767594e2"),
    (256, b'', 64, 104, b'', "bca38b24a804aa37d821d31af00f5598230122c5bbfc4c4ad5ed40e4258f04ca"),
    (256, b'', 64, 104, b'abc', "230637d4e6845cf0d092b558e87625f03881dd53a7439da34cf3b94ed0d8b2c5"),
    (256, b'', 64, 104, b'The quick brown fox jumps over the lazy dog',
     "977592608c45c9923340338450fdcccc21a68888e1e6350e133c5186cd9736ee"),
    (512, b'', 64, 168, b'',
     "6b7f33821a2c060ecdd81aefddea2fd3c4720270e18654f4cb08ece49ccb469f"
     "8beeee7c831206bd577f9f2630d9177979203a9489e47e04df4e6deaa0f8e0c0"),
]

def main(outdir):
    rnd = random.Random(20260926)
    rb = lambda n: bytes(rnd.randrange(256) for _ in range(n))
    rows = []
    def add(note, d, K, L, r, M, bitlen=None, expect=None):
        if bitlen is None: bitlen = 8 * len(M)
        assert bitlen <= 8 * len(M) and 1 <= d <= 512 and len(K) <= 64
        out, nodes = run(d, M, bitlen, K, L, r)
        if expect is not None:
            assert out.hex() == expect, (note, out.hex())
        assert len(out) == (d + 7) // 8
        rows.append(dict(note=note, d=d, key=list(K), L=L, r=r, m=list(M), bitlen=bitlen, out=list(out), nodes=nodes))
    def dflt(d, K): return max(80, 40 + d // 4) if K else 40 + d // 4     # MD6 report s.2.4.3 / 2.4.4

    # 1. official / published vectors: the reference itself is validated on them first
    for i, (d, K, L, r, M, h) in enumerate(OFFICIAL):
        assert r == dflt(d, K) or r == 5
        add("official %d" % (i + 1), d, K, L, r, M, expect=h)
        # md6(..., r=None) must pick the same default
        if r != 5: assert R.md6(d, M, None, K, L, None).hex() == h

    # 2. default rounds, short messages, every d of the list; keyed default max(80, .)
    for d, K, M in [(1, b'', b'a'), (8, b'', b''), (160, b'', b'abc'), (224, b'', rb(7)), (384, b'', rb(64)),
                    (511, b'', rb(3)), (128, b'k', b'abc'), (160, rb(63), rb(5)), (8, rb(64), b''), (384, rb(1), rb(9))]:
        add("default rounds", d, K, 64, dflt(d, K), M)
    add("default rounds L=0 bits", 256, rb(64), 0, 104, rb(2), bitlen=11)

    # 3. every L x boundary sizes (bytes), rotating d and small r
    ds = [1, 8, 160, 224, 256, 384, 511, 512]
    n = 0
    for L in (0, 1, 2, 3, 64):
        for size in (0, 1, 511, 512, 513):
            add("L x size", ds[n % 8], b'', L, 1 + (n % 5), rb(size)); n += 1
    # sequential block boundary 384 bytes
    for size in (383, 384, 385, 768, 769):
        add("SEQ boundary", ds[n % 8], b'', 0, 1 + (n % 3), rb(size)); n += 1

    # 4. key lengths on a 2-level tree, sequential and hybrid
    for K in (rb(1), rb(63), rb(64)):
        for L in (64, 0, 1):
            add("keyed", ds[n % 8], K, L, 2 + (n % 3), rb(513 if L != 1 else 2049)); n += 1

    # 5. 2..5 leaf blocks, hybrid L=1 (SEQ over 2..5 chaining values: 1 or 2 SEQ blocks), L=2, tree
    for blocks in (2, 3, 4, 5):
        size = 512 * blocks - (0, 1, 0, 511)[blocks - 2]
        for L in (1, 64) if blocks != 5 else (1, 2, 64):
            add("%d leaf blocks" % blocks, ds[n % 8], b'' if n % 2 else rb(7), L, 1 + (n % 4), rb(size)); n += 1

    # 6. 17 leaf blocks: 17 -> 5 -> 2 -> 1
    for L in (0, 1, 2, 3, 64):
        add("17 leaf blocks", (256, 511, 224, 1, 512)[(L % 5)], b'' if L % 2 else rb(16), L, 1 + (L % 3), rb(8193))
    add("16 leaf blocks", 160, b'', 64, 1, rb(8192))

    # 7. bit lengths, bitlen mod 8 = 1..7 (bits beyond bitlen are set in m and must be ignored)
    for bitlen, size, L, K in [(1, 1, 64, b''), (2, 1, 0, b''), (4095, 512, 64, b''), (4097, 513, 64, rb(64)),
                               (3071, 384, 0, b''), (3073, 385, 0, rb(3)), (3075, 385, 1, b''),
                               (8197, 1025, 1, b''), (12294, 1537, 2, rb(5)), (4100, 600, 64, b''),
                               (7, 1, 3, b''), (65539, 8193, 64, b''), (16387, 2049, 1, b'')]:
        M = bytes(b | 1 for b in rb(size))
        add("bitlen mod 8 = %d" % (bitlen % 8), ds[n % 8], K, L, 1 + (n % 5), M, bitlen=bitlen); n += 1

    # 8. random
    for _ in range(10):
        size = rnd.choice([rnd.randrange(0, 600), rnd.randrange(600, 3000)])
        bl = 8 * size - (rnd.randrange(8) if size else 0)
        add("random", rnd.randrange(1, 513), rb(rnd.choice([0, 0, rnd.randrange(1, 65)])),
            rnd.choice([0, 1, 2, 3, 64, rnd.randrange(4, 64)]), rnd.randrange(1, 6), rb(size), bitlen=bl)

    with open(os.path.join(outdir, 'md6.ndjson'), 'w') as fo:
        for r_ in rows: fo.write(json.dumps(r_, separators=(',', ':')) + "\n")
    comp = sum(len(r_['nodes']) for r_ in rows); rounds = sum(len(r_['nodes']) * r_['r'] for r_ in rows)
    print("%d cases, %d compressions, %d rounds in total" % (len(rows), comp, rounds))

if __name__ == '__main__':
    if sys.argv[1] == 'consts': consts()
    else: main(sys.argv[1])
