#!/usr/bin/env python3
"""Evaluate seeded changes: for every seeded/<id>/ (patch.diff, demo.py, meta.json)
  1. scratch worktree of /repo (under /tmp, removed afterwards), apply the patch,
  2. the repository's 120 tests must still pass, the demonstration must fail with and pass without the change,
  3. run the check of the property it breaks (and optionally other checks) with VERIF_REPO=<worktree>,
  4. record in seeded/<id>/result.json which checks raised a VIOLATION.
Usage: eval_seeded.py [--all-checks] [--tier quick] [ids...]      (ids = directory names under seeded/)
Evidence files are rewritten by the check runs: re-run the checks on /repo afterwards (tools/run_all.sh)."""
import json, os, subprocess, sys, shutil, tempfile
V = os.path.dirname(os.path.dirname(os.path.abspath(__file__)))
PY = '/venv/bin/python'

def sh(cmd, **kw):
    return subprocess.run(cmd, shell=True, stdout=subprocess.PIPE, stderr=subprocess.STDOUT, text=True, **kw)

def evaluate(sid, all_checks, tier):
    d = os.path.join(V, 'seeded', sid)
    meta = json.load(open(os.path.join(d, 'meta.json')))
    wt = tempfile.mkdtemp(prefix='seed_', dir='/tmp')
    os.rmdir(wt)
    res = dict(id=sid, property=meta['property'])
    try:
        r = sh('git -C /repo worktree add -q --detach %s HEAD' % wt)
        if r.returncode: raise RuntimeError(r.stdout)
        demo = os.path.join(d, 'demo.py')
        r0 = sh('PYTHONPATH=%s %s %s' % (wt, PY, demo))
        res['demo_without'] = r0.returncode
        a = sh('git -C %s apply %s' % (wt, os.path.join(d, 'patch.diff')))
        res['applies'] = a.returncode == 0
        if a.returncode: res['apply_error'] = a.stdout[-500:]; return res
        t = sh('cd %s && env -u BDCHT_CRYSP_VERIF %s -m pytest -q -p no:cacheprovider -x 2>&1 | tail -1' % (wt, PY))
        res['tests'] = t.stdout.strip()
        r1 = sh('PYTHONPATH=%s %s %s' % (wt, PY, demo))
        res['demo_with'] = r1.returncode
        checks = [meta['property']] + ([c for c in ['C%02d' % i for i in range(1, 21)] if c != meta['property']] if all_checks else list(meta.get('also_run', [])))
        res['checks'] = {}
        for c in checks:
            r = sh('VERIF_REPO=%s %s/bin/check %s --tier %s' % (wt, V, c, tier))
            viol = [l for l in r.stdout.splitlines() if l.startswith('VIOLATION')]
            res['checks'][c] = dict(rc=r.returncode, violations=len(viol), first=(viol[0][:300] if viol else ''),
                                    machinery=[l[:300] for l in r.stdout.splitlines() if l.startswith('MACHINERY')][:1])
        res['caught_by'] = sorted(c for c, v in res['checks'].items() if v['rc'] == 1)
    finally:
        sh('git -C /repo worktree remove --force %s' % wt); shutil.rmtree(wt, ignore_errors=True)
    json.dump(res, open(os.path.join(d, 'result.json'), 'w'), indent=1)
    return res

def main():
    args = sys.argv[1:]
    all_checks = '--all-checks' in args; args = [a for a in args if a != '--all-checks']
    tier = 'quick'
    if '--tier' in args:
        i = args.index('--tier'); tier = args[i + 1]; del args[i:i + 2]
    ids = args or sorted(os.listdir(os.path.join(V, 'seeded')))
    for sid in ids:
        if not os.path.exists(os.path.join(V, 'seeded', sid, 'meta.json')): continue
        r = evaluate(sid, all_checks, tier)
        print('%-12s prop=%s applies=%s tests=[%s] demo %s->%s caught_by=%s' % (sid, r['property'], r.get('applies'), r.get('tests', ''), r.get('demo_without'), r.get('demo_with'), r.get('caught_by')))

if __name__ == '__main__':
    main()
