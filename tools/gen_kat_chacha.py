#!/usr/bin/env python3
"""Freeze known answers for spec/selftest/ST_Chacha.tla.  Deterministic.  Usage: gen_kat_chacha.py <outdir>

ChaCha as in D. J. Bernstein, "ChaCha, a variant of Salsa20" (2008): 64-bit block counter (words 12,13),
64-bit nonce (words 14,15).  Sources (none of them is crysp):
 * OpenSSL 3.5 `enc -chacha20 -K <key> -iv <16 bytes>`: OpenSSL's 16-byte IV is the content of words 12..15
   (little-endian), i.e. counter_lo, counter_hi, nonce in the original layout.  Measured on OpenSSL 3.5.6: when
   word 12 overflows inside a request, the EVP cipher carries into word 13 (cipher_chacha20_hw.c: "if (ctr32 == 0)
   ctx->counter[1]++"), and from 2^64-1 it wraps to 0 without touching the nonce, i.e. it behaves as the original
   64-bit counter (asserted below), so multi-block requests across 2^32 and 2^64 are taken from it too.
   Covers ChaCha20 with 256-bit keys.
 * the keystream vectors of /repo/tests/test_chacha.py (draft-strombergson-chacha-test-vectors TC1, TC2, TC8:
   ChaCha8/12/20 with 128-bit keys and ChaCha20 with a 256-bit key);
 * the RFC 7539 2.1.1 quarter-round example and 2.3.2 block function example;
 * the reference below, accepted only if it reproduces all of the above, for the remaining combinations.
Record: {"rounds":r, "key":[16|32], "nonce":[8], "ctr":[4 limbs of 16 bits, least significant first], "m":[..], "out":[..]}
"""
import json, sys, random, struct, subprocess

OPENSSL = '/root/miniconda/bin/openssl'
M = 0xffffffff
def rol(x, k): return ((x << k) | (x >> (32 - k))) & M

def quarter(a, b, c, d):
    a = (a + b) & M; d ^= a; d = rol(d, 16)
    c = (c + d) & M; b ^= c; b = rol(b, 12)
    a = (a + b) & M; d ^= a; d = rol(d, 8)
    c = (c + d) & M; b ^= c; b = rol(b, 7)
    return a, b, c, d

def doubleround(x):
    x = list(x)
    for (a, b, c, d) in [(0, 4, 8, 12), (1, 5, 9, 13), (2, 6, 10, 14), (3, 7, 11, 15),
                         (0, 5, 10, 15), (1, 6, 11, 12), (2, 7, 8, 13), (3, 4, 9, 14)]:
        x[a], x[b], x[c], x[d] = quarter(x[a], x[b], x[c], x[d])
    return x

def core_words(x, rounds):
    z = x
    for _ in range(rounds // 2): z = doubleround(z)
    return [(a + b) & M for a, b in zip(x, z)]

def block(key, nonce, ctr, rounds=20):
    key, nonce = bytes(key), bytes(nonce)
    assert len(key) in (16, 32) and len(nonce) == 8
    c = b"expand 32-byte k" if len(key) == 32 else b"expand 16-byte k"
    if len(key) == 16: key = key + key
    x = list(struct.unpack('<16L', c + key + struct.pack('<Q', ctr & (2**64 - 1)) + nonce))
    return struct.pack('<16L', *core_words(x, rounds))

def xor(key, nonce, ctr, rounds, m):
    out = bytearray()
    for off in range(0, len(m), 64):
        out += bytes(a ^ b for a, b in zip(m[off:off + 64], block(key, nonce, ctr, rounds)))
        ctr += 1
    return bytes(out)

def openssl(key, iv16, m):
    p = subprocess.run([OPENSSL, 'enc', '-chacha20', '-K', bytes(key).hex(), '-iv', bytes(iv16).hex()], input=bytes(m),
                       stdout=subprocess.PIPE, check=True)
    return p.stdout

def H(s): return bytes.fromhex(''.join(s.replace('0x', '').split()))
# /repo/tests/test_chacha.py: (rounds, key, iv, keystream from block 0)
K128_0 = bytes(16); K128_1 = bytes([1]) + bytes(15)
TESTS = [
 (8, K128_0, bytes(8), H("""e2 8a 5f a4 a6 7f 8c 5d ef ed 3e 6f b7 30 34 86 aa 84 27 d3 14 19 a7 29 57 2d 77 79 53 49 11 20
   b6 4a b8 e7 2b 8d eb 85 cd 6a ea 7c b6 08 9a 10 18 24 be eb 08 81 4a 42 8a ab 1f a2 c8 16 08 1b
   8a 26 af 44 8a 1b a9 06 36 8f d8 c8 38 31 c1 8c ec 8c ed 81 1a 02 8e 67 5b 8d 2b e8 fc e0 81 16
   5c ea e9 f1 d1 b7 a9 75 49 77 49 48 05 69 ce b8 3d e6 a0 a5 87 d4 98 4f 19 92 5f 5d 33 8e 43 0d""")),
 (12, K128_0, bytes(8), H("""e1 04 7b a9 47 6b f8 ff 31 2c 01 b4 34 5a 7d 8c a5 79 2b 0a d4 67 31 3f 1d c4 12 b5 fd ce 32 41
   0d ea 8b 68 bd 77 4c 36 a9 20 f0 92 a0 4d 3f 95 27 4f be ff 97 bc 84 91 fc ef 37 f8 59 70 b4 50
   1d 43 b6 1a 8f 7e 19 fc ed de f3 68 ae 6b fb 11 10 1b d9 fd 3e 4d 12 7d e3 0d b2 db 1b 47 2e 76
   42 68 03 a4 5e 15 b9 62 75 19 86 ef 1d 9d 50 f5 98 a5 dc dc 9f a5 29 a2 83 57 99 1e 78 4e a2 0f""")),
 (20, K128_1, bytes(8), H("""ae 56 06 0d 04 f5 b5 97 89 7f f2 af 13 88 db ce ff 5a 2a 49 20 33 5d c1 7a 3c b1 b1 b1 0f be 70
   ec e8 f4 86 4d 8c 7c df 00 76 45 3a 82 91 c7 db eb 3a a9 c9 d1 0e 8c a3 6b e4 44 93 76 ed 7c 42""")),
 (20, H("00 11 22 33 44 55 66 77 88 99 aa bb cc dd ee ff ff ee dd cc bb aa 99 88 77 66 55 44 33 22 11 00"),
  H("0f 1e 2d 3c 4b 5a 69 78"),
  H("""9f ad f4 09 c0 08 11 d0 04 31 d6 7e fb d8 8f ba 59 21 8d 5d 67 08 b1 d6 85 86 3f ab bb 0e 96 1e
   ea 48 0f d6 fb 53 2b fd 49 4b 21 51 01 50 57 42 3a b6 0a 63 fe 4f 55 f7 a2 12 e2 16 7c ca b9 31""")),
]

def limbs(c): return [(c >> (16 * i)) & 0xffff for i in range(4)]
def iv16(ctr, nonce): return struct.pack('<Q', ctr) + bytes(nonce)

def main():
    out = sys.argv[1]
    rnd = random.Random(20260927)
    rb = lambda n: bytes(rnd.randrange(256) for _ in range(n))
    # ---- validation of the reference
    assert quarter(0x11111111, 0x01020304, 0x9b8d6f43, 0x01234567) == (0xea2a92f4, 0xcb1cf8ce, 0x4581472e, 0x5881c4bb)   # RFC 7539 2.1.1
    # RFC 7539 2.3.2: key 00..1f, nonce (00 00 00 09 00 00 00 4a 00 00 00 00), counter 1: word 12 = 1, 13 = 0x09000000, 14 = 0x4a000000, 15 = 0
    b = block(bytes(range(32)), struct.pack('<LL', 0x4a000000, 0), 1 | (0x09000000 << 32))
    assert b[:16] == H("10 f1 e7 e4 d1 3b 59 15 50 0f dd 1f a3 20 71 c4") and b[-4:] == H("a2 50 3c 4e")
    for r, k, v, ks in TESTS: assert xor(k, v, 0, r, bytes(len(ks))) == ks
    rows = []
    for r, k, v, ks in TESTS:
        rows.append(dict(src="tests", rounds=r, key=list(k), nonce=list(v), ctr=limbs(0), m=[0] * len(ks), out=list(ks)))
    # ---- OpenSSL: ChaCha20, 256-bit keys.  (ctr, length)
    ossl = [(0, 0), (0, 1), (0, 63), (0, 64), (0, 65), (0, 130), (1, 64), (2**32 - 1, 64), (2**32 - 1, 17), (2**32, 64), (2**32, 130),
            (2**32 - 3, 130), (2**64 - 1, 64), (0x0123456789abcdef, 100), (2**48 - 1, 64), (65535, 130), (0xffffffff00000000, 65),
            (2**32 - 1, 130), (2**32 - 2, 192), (2**64 - 1, 130), (2**48 - 1, 65)]
    for c, L in ossl:
        k = rb(32); v = rb(8); m = rb(L)
        o = openssl(k, iv16(c, v), m)
        assert o == xor(k, v, c, 20, m), (c, L)
        rows.append(dict(src="openssl", rounds=20, key=list(k), nonce=list(v), ctr=limbs(c), m=list(m), out=list(o)))
    for k, v in [(bytes(32), bytes(8)), (b'\xff' * 32, b'\xff' * 8)]:
        o = openssl(k, iv16(0, v), bytes(64)); assert o == xor(k, v, 0, 20, bytes(64))
        rows.append(dict(src="openssl", rounds=20, key=list(k), nonce=list(v), ctr=limbs(0), m=[0] * 64, out=list(o)))
    # OpenSSL carries from word 12 into word 13 like the original ChaCha (a 32-bit counter would give block(k, v, 0))
    k = rb(32); v = rb(8); m = bytes(128)
    assert openssl(k, iv16(2**32 - 1, v), m)[64:] == block(k, v, 2**32) != block(k, v, 0)
    assert openssl(k, iv16(2**64 - 1, v), m)[64:] == block(k, v, 0)
    # ---- reference: other rounds, 128-bit keys, 64-bit counter carries across blocks
    lens = [0, 1, 63, 64, 65, 130]
    ctrs = [0, 2**32 - 1, 1, 2**32, 2**64 - 1, 2**32 - 2, 0xfedcba9876543210, 2**16 - 1]
    i = 0
    for kl in (16, 32):
        for r in (8, 12, 20):
            for j in range(3):
                if kl == 32 and r == 20 and j > 0: continue
                L = lens[i % len(lens)]; c = ctrs[i % len(ctrs)]; i += 1
                k = rb(kl); v = rb(8); m = rb(L)
                rows.append(dict(src="ref", rounds=r, key=list(k), nonce=list(v), ctr=limbs(c), m=list(m), out=list(xor(k, v, c, r, m))))
    for kl, r, c, L in [(32, 20, 2**32 - 1, 130), (16, 20, 2**32 - 1, 130), (32, 20, 2**32 - 2, 130), (32, 8, 2**32 - 1, 65),
                        (32, 20, 2**64 - 1, 130), (16, 12, 2**48 - 1, 65), (32, 4, 0, 65), (16, 6, 7, 63), (32, 2, 1, 1), (32, 0, 5, 64)]:
        k = rb(kl); v = rb(8); m = rb(L)
        rows.append(dict(src="ref", rounds=r, key=list(k), nonce=list(v), ctr=limbs(c), m=list(m), out=list(xor(k, v, c, r, m))))
    with open(f"{out}/chacha.ndjson", "w") as f:
        for r in rows: f.write(json.dumps(r, separators=(',', ':')) + "\n")
    print(len(rows), "chacha KATs", file=sys.stderr)

if __name__ == '__main__':
    main()
