#!/usr/bin/env python3
"""Freeze known answers for spec/selftest/ST_Nilsimsa.tla.
Sources (none is crysp code):
  * the vectors of /repo/tests/test_nilsimsa.py (copied below by hand),
  * a from-memory Python transcription of cmeclax's nilsimsa 0.2.4 (nilsimsa.c:
    filltran, tran3, accbuf/accfile, makecode, codetostr), which is first validated on those
    vectors and on the TRAN table that chad walters' / py-nilsimsa list as a literal.
Deterministic.  Usage: gen_kat_nilsimsa.py <outdir>"""
import json, sys, random, binascii

# ---- nilsimsa 0.2.4, from memory ------------------------------------------------------------
def filltran(mult=53):
    # void filltran() {int i,j,k;
    #  for (i=j=0;i<256;i++)
    #    {j=(j*53+1)&255; j+=j; if (j>255) j-=255;
    #     for (k=0;k<i;k++) if (j==tran[k]) {j=(j+1)&255; k=0;}
    #     tran[i]=j;}}
    # NB: after "k=0" the for's k++ runs, so the rescan restarts at k=1 (tran[0] is not rechecked).
    tran = [0]*256
    j = 0
    for i in range(256):
        j = (j*mult + 1) & 255
        j += j
        if j > 255: j -= 255
        k = 0
        while k < i:
            if j == tran[k]:
                j = (j+1) & 255
                k = 0
            k += 1
        tran[i] = j
    return tran

def tran3(T, a, b, c, n):
    # #define tran3(a,b,c,n) (((tran[((a)+(n))&255]^tran[(b)]*((n)+(n)+1))+tran[(c)^tran[n]])&255)
    return ((T[(a+n) & 255] ^ (T[b]*(n+n+1))) + T[c ^ T[n]]) & 255

def nilsimsa(m, mult=53):
    T = filltran(mult)
    acc = [0]*256
    last = [-1, -1, -1, -1]           # lastch[0] = previous byte, ..., lastch[3] = 4 bytes ago
    count = 0
    for ch in m:
        count += 1
        if last[1] >= 0:
            acc[tran3(T, ch, last[0], last[1], 0)] += 1
        if last[2] >= 0:
            acc[tran3(T, ch, last[0], last[2], 1)] += 1
            acc[tran3(T, ch, last[1], last[2], 2)] += 1
        if last[3] >= 0:
            acc[tran3(T, ch, last[0], last[3], 3)] += 1
            acc[tran3(T, ch, last[1], last[3], 4)] += 1
            acc[tran3(T, ch, last[2], last[3], 5)] += 1
            acc[tran3(T, last[3], last[0], ch, 6)] += 1
            acc[tran3(T, last[3], last[2], ch, 7)] += 1
        last = [ch] + last[:3]
    if count < 3: total = 0
    elif count == 3: total = 1
    elif count == 4: total = 4
    else: total = 8*count - 28
    threshold = total // 256
    code = [0]*32
    for i in range(256):
        if acc[i] > threshold:
            code[i >> 3] += 1 << (i & 7)
    return bytes(code[::-1]), acc, total        # codetostr prints code[31], code[30], ...

def popcount(b): return sum(bin(x).count('1') for x in b)
def distance(d1, d2): return popcount(bytes(x ^ y for x, y in zip(d1, d2)))

# ---- the TRAN literal as listed in py-nilsimsa (typed from memory, independent of filltran) ----
TRAN_LIT = binascii.unhexlify(
    "02D69E6FF91D04ABD022161FD873A1AC" "3B7062961E6E8F399D05144AA6BEAE0E"
    "CFB99C9AC76813E12DA4EB518D646B50" "23800341ECBB71CC7A867F98F2365EEE"
    "8ECE4FB832B65F59DC1B314C7BF06301" "6CBA07E81277493CDA46FE2F791C9B30"
    "E300067E2E0F383321ADA554CAA729FC" "5A47697DC595B5F40B90A3816D255535"
    "F575740A26BF195C1AC6FF995D84AA66" "3EAF78B32043C1ED24EAE63F18F3A042"
    "57085360C3C0834082D709BD442A67A8" "93E0C2569FD9DD8515B48A27289276DE"
    "EFF8B2B7C93D45944B110D65D5348B91" "0CFA87E97C5BB14DE5D4CB10A21789BC"
    "DBB0E2978852F748D3612C3A2BD18CFB" "F1CDE46AE7A9FDC437C8D2F6DF58724E")

# ---- vectors of /repo/tests/test_nilsimsa.py ---------------------------------------------------
OFFICIAL = [
    (53, b"abcdefgh", "14c8118000000000030800000004042004189020001308014088003280000078"),
    (53, b"This is a much more ridiculous test because of 21347597.",
         "5d9c6a6b22384bcd524a8d414d82237777433fc1a07a02c3e06985d96ecdf8fb"),
    (17, b"abcdefgh", "001210201001000200470001180808120104800100186080000a044020020500"),
    (17, b"This is a much more ridiculous test because of 21347597.",
         "55c40c9aac438bf1b698a3a9ca3632b4d52f4cedc4f596b66fb1e0704e08aa01"),
    (53, b"The rain in Spain falls mostly in the plains.",
         "039020eb1050188be400091130981860648e39f5b1246d8c3c3c7623801186ac"),
    (53, b"The rain in Spain falls mainly in the plains.",
         "23b000e908501883c408019410d83a60c48f1977a3246ccc3cbc7213c81104bc"),
]

def validate():
    assert list(TRAN_LIT) == filltran(53), "filltran(53) differs from the TRAN literal"
    assert sorted(filltran(53)) == list(range(256))
    for mult, m, h in OFFICIAL:
        got = nilsimsa(m, mult)[0].hex()
        assert got == h, (mult, m, got, h)
    h1 = bytes.fromhex(OFFICIAL[4][2]); h2 = bytes.fromhex(OFFICIAL[5][2])
    assert popcount(h1) == 94 and popcount(h2) == 96 and distance(h1, h2) == 36

def main(out):
    validate()
    rnd = random.Random(20260926)
    rows = []
    def row(src, mult, m, m2, d=None, d2=None):
        d = d if d is not None else nilsimsa(m, mult)[0]
        d2 = d2 if d2 is not None else nilsimsa(m2, mult)[0]
        dist = distance(d, d2)
        rows.append(dict(src=src, target=mult, m=list(m), m2=list(m2), d=list(d), d2=list(d2),
                         dist=dist, score=128 - dist, hw=popcount(d)))
    # official vectors (digest taken from the test file, not recomputed)
    for mult, m, h in OFFICIAL[:4]:
        row("test_nilsimsa.py", mult, m, m, bytes.fromhex(h), bytes.fromhex(h))
    row("test_nilsimsa.py", 53, OFFICIAL[4][1], OFFICIAL[5][1], bytes.fromhex(OFFICIAL[4][2]), bytes.fromhex(OFFICIAL[5][2]))
    row("test_nilsimsa.py", 53, OFFICIAL[5][1], OFFICIAL[4][1], bytes.fromhex(OFFICIAL[5][2]), bytes.fromhex(OFFICIAL[4][2]))
    # reference: lengths 0..6 (thresholds 0/1/4/8n-28), 20, 100, 300; random and repetitive content
    rb = lambda n: bytes(rnd.randrange(256) for _ in range(n))
    for n in range(7):
        row("ref", 53, rb(n), rb(n))
    for n in (2, 3, 4, 5, 6):
        row("ref", 53, b"\x00"*n, b"\xff"*n)
    for n in (20, 100, 300):
        a = rb(n)
        b = bytearray(a); b[n//2] ^= 0x55; b[n//3] = (b[n//3] + 1) & 255     # a near-duplicate
        row("ref", 53, a, bytes(b))
        row("ref", 53, a, rb(n))
    row("ref", 53, b"a"*100, b"ab"*50)                 # repetitive: counters far above the threshold
    row("ref", 53, b"abc"*100, b"abcd"*75)
    row("ref", 53, b"\x00"*300, b"\xff\x00"*150)
    row("ref", 53, bytes(range(256)) + bytes(range(44)), bytes(range(255, -1, -1)))
    # other multipliers (the library's `target` parameter), including ones where the collision rescan matters
    for mult in (17, 1, 0, 3, 5, 255, 128, 54):
        row("ref", mult, rb(40), rb(33))
    txt = (b"Nilsimsa is a locality-sensitive hashing algorithm used in anti-spam efforts. "
           b"The goal of Nilsimsa is to generate a hash digest of an email message such that "
           b"the digests of two similar messages are similar to each other.")
    row("ref", 53, txt, txt.replace(b"similar", b"SIMILAR"))
    with open(f"{out}/nilsimsa.ndjson", "w") as f:
        for r in rows: f.write(json.dumps(r, separators=(',', ':')) + "\n")
    print(len(rows), "rows")

if __name__ == '__main__':
    main(sys.argv[1])
