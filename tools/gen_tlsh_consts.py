#!/usr/bin/env python3
"""TLSH l_capturing() as an exact threshold table (no floating point involved).

Reference (tlsh_impl / tlsh_util, Oliver-Cheng-Chen):
    LOG_1_5 = 0.4054651   LOG_1_3 = 0.26236426   LOG_1_1 = 0.095310180
    len <=  656 : i = floor( ln(len)/LOG_1_5 )
    len <= 3199 : i = floor( ln(len)/LOG_1_3 -  8.72777 )
    else        : i = floor( ln(len)/LOG_1_1 - 62.5472  )
    L = i & 0xff
For every k >= 1 this script determines T_k = the least length whose i is >= k, over
1 <= len < 2^31, so that   L(len) = #{ k : T_k <= len }.
    floor(ln(n)/LOG - off) >= k   <=>   n >= exp((k+off)*LOG)
and exp() of a rational is enclosed between two rationals (Taylor partial sum, explicit
remainder) tightly enough to read off the integer ceiling; an assertion fails if an
enclosure ever straddles an integer (it cannot be one: e^c is transcendental for rational
c /= 0).

Two conventions are computed and compared:
  'ref'  : the decimal constants of the reference source, as above (exact rationals);
  'true' : LOG = ln 1.5, ln 1.3, ln 1.1 as real numbers (what "log base 1.5" means, and what
           Python's math.log(l, 1.5) approximates), enclosed by the atanh series.
They give the same table up to length 795080; from there on some thresholds of the 'true'
convention are lower by 1 or more (LOG_1_1 is ln 1.1 rounded UP in the 9th digit): the lengths
at which the two conventions give different L values are listed in the generated comment.  The
table that is emitted is 'ref'.  With --check-floats the double-precision formulas
(C reference style and Python log(l,b) style) are evaluated for every len < 2^24 and compared
with the table (2026-09: no mismatch: C-style doubles == 'ref' table, Python log(l,b) doubles ==
'true' table, for every len < 2^24; so a port using log(l,1.1) differs from the reference at
len = 795081, 962048, 6472178, 8614469, 11465858, 12612444, 15261057, ...).

Usage: gen_tlsh_consts.py [--check-floats]      prints the TLA+ definition of TlshLThresh
"""
import sys
from fractions import Fraction as F

MAXLEN = 2**31 - 1
SCALE = 10**70                      # enclosures are rounded outwards to multiples of 1/SCALE

def down(x): return F((x.numerator * SCALE) // x.denominator, SCALE)
def up(x):   return F(-((-x.numerator * SCALE) // x.denominator), SCALE)

def exp_bounds(lo, hi):
    """rationals (a, b) with a <= e^lo and e^hi <= b, for 0 <= lo <= hi < 40."""
    def series(c, upper):
        rnd = up if upper else down
        term, s, n = F(1), F(1), 0
        while True:
            n += 1
            term = rnd(term * c / n)
            s += term
            if n > 2 * c + 2 and term * SCALE <= 1:
                break
        if upper:      # remainder sum_{m>n} c^m/m! <= term * r/(1-r), r = c/(n+1) <= 1/2  => <= term
            s += up(term)
        return s
    return series(lo, False), series(hi, True)

def ln_bounds(a, b):
    """rationals enclosing ln(a/b), a > b > 0: 2*atanh(z), z = (a-b)/(a+b)."""
    z = F(a - b, a + b)
    z2 = z * z
    s, p, m = F(0), z, 0
    while True:
        t = p / (2 * m + 1)
        s += t
        if t * SCALE * 1000 < 1:
            break
        p *= z2
        m += 1
    lo = 2 * s
    hi = 2 * (s + (p * z2) / ((2 * m + 3) * (1 - z2)))
    return down(lo), up(hi)

def region_thresholds(loglo, loghi, off, nmax):
    """t(k) = least integer n >= 1 with ln(n)/LOG - off >= k, for k = 1.. while t(k) <= nmax."""
    out, k = {}, 1
    while True:
        clo, chi = (k + off) * loglo, (k + off) * loghi
        if chi <= 0:
            out[k] = 1; k += 1; continue
        assert clo > 0
        a, b = exp_bounds(clo, chi)
        fa, fb = a.numerator // a.denominator, b.numerator // b.denominator
        assert fa == fb and a > fa, ("enclosure straddles an integer", k, float(a), float(b))
        t = fa + 1
        if t > nmax: break
        out[k] = t; k += 1
    return out

def table(consts):
    (l15, l13, l11) = consts
    regs = [(1, 656, region_thresholds(l15[0], l15[1], F(0), MAXLEN)),
            (657, 3199, region_thresholds(l13[0], l13[1], F('8.72777'), MAXLEN)),
            (3200, MAXLEN, region_thresholds(l11[0], l11[1], F('62.5472'), MAXLEN))]
    def Lr(th, n): return sum(1 for t in th.values() if t <= n)
    # the composed function must be non-decreasing across the two seams
    assert Lr(regs[0][2], 656) <= Lr(regs[1][2], 657)
    assert Lr(regs[1][2], 3199) <= Lr(regs[2][2], 3200)
    T, k = [], 1
    while True:
        cands = []
        for lo, hi, th in regs:
            if k in th and th[k] <= hi:
                cands.append(max(th[k], lo))
        if not cands: break
        T.append(min(cands)); k += 1
    assert all(x < y for x, y in zip(T, T[1:]))
    return T

def main():
    ref = ((F('0.4054651'),) * 2, (F('0.26236426'),) * 2, (F('0.095310180'),) * 2)
    true = (ln_bounds(3, 2), ln_bounds(13, 10), ln_bounds(11, 10))
    T = table(ref)
    T2 = table(true)
    assert len(T) == len(T2) and all(b <= a for a, b in zip(T, T2))
    diff = [(k + 1, a, b) for k, (a, b) in enumerate(zip(T, T2)) if a != b]
    assert all(a >= 795082 for _, a, _ in diff)
    assert len(T) < 256                       # "& 0xff" of the reference never wraps
    # top values as tabulated by later releases of the reference (topval[]), from memory, first 24
    top = [1, 2, 3, 5, 7, 11, 17, 25, 38, 57, 86, 129, 194, 291, 437, 656, 854, 1110, 1443, 1876, 2439, 3171, 3475, 3823]
    assert [t - 1 for t in T[:24]] == top
    if '--check-floats' in sys.argv:
        from math import log, floor
        import bisect
        bad_c, bad_py = [], []
        for n in range(1, 2**24):
            want = bisect.bisect_right(T, n)
            wantp = bisect.bisect_right(T2, n)
            if n <= 656:
                c = floor(log(float(n)) / 0.4054651); p = floor(log(n, 1.5))
            elif n <= 3199:
                c = floor(log(float(n)) / 0.26236426 - 8.72777); p = floor(log(n, 1.3) - 8.72777)
            else:
                c = floor(log(float(n)) / 0.095310180 - 62.5472); p = floor(log(n, 1.1) - 62.5472)
            if c != want: bad_c.append((n, c, want))
            if p != wantp: bad_py.append((n, p, wantp))
        print("float check over 1 <= len < 2^24: C-style doubles vs 'ref' table: mismatches %r; "
              "Python log(l,b) doubles vs 'true' table: mismatches %r" % (bad_c[:10], bad_py[:10]), file=sys.stderr)
    print("\\* generated by tools/gen_tlsh_consts.py: TlshLThresh[k] = least length with L value >= k (lengths < 2^31)")
    print("\\* With real logarithms (log base 1.5/1.3/1.1 instead of the reference's decimal constants) the L value is")
    print("\\* larger by one exactly for the lengths T' <= len < T of: (k, T, T') = ")
    small = [d for d in diff if d[2] < 2**24]
    print("\\*   " + ", ".join("(%d, %d, %d)" % d for d in small) + "  and %d more thresholds at lengths >= 2^24" % (len(diff) - len(small)))
    print("TlshLThresh == <<")
    for i in range(0, len(T), 10):
        print("    " + ", ".join(str(x) for x in T[i:i + 10]) + ("," if i + 10 < len(T) else ""))
    print(">>")

if __name__ == '__main__':
    main()
