#!/usr/bin/env python3
"""SANY-parse every specification module (parallel)."""
import glob, os, subprocess, sys
from concurrent.futures import ThreadPoolExecutor
V = os.path.dirname(os.path.dirname(os.path.abspath(__file__)))
LIB = ':'.join(os.path.join(V, 'spec', d) for d in ('base', 'prim', 'sys', 'mc', 'trace', 'selftest'))
def one(f):
    e = dict(os.environ, JAVA_TOOL_OPTIONS='-DTLA-Library=' + LIB)
    p = subprocess.run(['tla-sany', f], cwd=os.path.dirname(f), env=e, stdout=subprocess.PIPE, stderr=subprocess.STDOUT, text=True)
    bad = p.returncode != 0 or '*** Errors' in p.stdout or 'Fatal errors' in p.stdout or 'Could not parse' in p.stdout
    return f, bad, p.stdout
files = sorted(glob.glob(os.path.join(V, 'spec', '*', '*.tla')))
with ThreadPoolExecutor(8) as ex: res = list(ex.map(one, files))
nbad = 0
for f, bad, out in res:
    if bad:
        nbad += 1; print('SANY FAIL', f); print(out[-1500:])
print('sany: %d modules, %d failed' % (len(files), nbad))
sys.exit(1 if nbad else 0)
