#!/usr/bin/env python3
"""Writes /verif/MANIFEST.json from the table below (one source of truth for what is claimed)."""
import json, os
V = os.path.dirname(os.path.dirname(os.path.abspath(__file__)))
TB = "Trusted: TLC/SANY, CommunityModules Json/Bitwise/IOUtils overrides, the Python recorder in harness/, and the TLA+ transcription of the standards (validated by `make setup` against hashlib/zlib/OpenSSL-frozen/official known answers; DESIGN.md section 5)."
CLAIMED = {
 'C09': dict(tech="TLC: exhaustive bit-level model of the padding machine (all bit strings <= 12 bits, all call sequences) + every call history from a TLC scenario model replayed on the real padding objects, each step trace-validated by TLC against the byte-level spec; messages of 64 KiB..1.5 MiB (K copies of one block + a tail) recorded and judged in compressed form by PadBytes!IterLong, which MC_PadLong proves equal to the plain evaluation on every small case",
             text="Specification model-checked exhaustively within small bounds (all 8 schemes; invariants FullBlocks, FinalIsMsgThenPad, Minimal, UnpadInverts, CounterIdle, AfterFinalRefuses; byte-level spec proved equal to the bit-level one on 71k cases); implementation bound by trace validation of every TLC-generated call history (depth 3/4) and a complete length grid (scheme x block size x 0..3 blocks x every residue (<=16-byte blocks) / boundary residues x L mod 8), every yielded block, per-block bit counter, pad counter, flag and remove() result judged by TLC.  Structure is exhaustive, message content is sampled.",
             ref="DESIGN.md section 7 C09"),

 'C07': dict(tech="TLC: spec theorems on the bit-sequence model (MC_BitVec) + TLC trace validation of every recorded conversion of the real Bits class, exhaustive over sizes <= 9/12",
             text="Every value of every size 0..9 (quick) / 0..12 + samples to 16 (thorough) goes through every constructor, conversion and round trip; every 1-byte string and class pairs of longer strings under every bit order; unpack/pack for every byte count 1..40 in both endiannesses; wide vectors to 2048 bits sampled at word boundaries.  Each recorded result is judged by TLC against base/BitVec (whose conversion laws are model-checked exhaustively for widths <= 4).",
             ref="DESIGN.md section 7 C07"),
 'C08': dict(tech="TLC: exhaustive spec theorems (sequence model = modular arithmetic, algebraic laws, frame conditions) + TLC trace validation of all operand pairs of widths <= 4/6 under every operator, every index expression, every single and two-step mutation, random mutation histories, wide samples",
             text="Finite space enumerated completely: all operand pairs of widths 0..4 (quick) / 0..6 (thorough) in Bits/Bits, Bits/int and int/Bits forms under & | ^ + - * // hd, all unary ops, shifts, rotations, splits, extensions; every int/slice/list index expression on widths <= 4/5 read and written with fitting values; every two-step mutation history on widths <= 2/3 (hidden mask state) and seeded longer histories with aliasing checks; widths to 2048 sampled.  TLC judges each event against base/BitVec.",
             ref="DESIGN.md section 7 C08"),

 'C16': dict(tech="TLC: spec laws of the coefficient-vector model (MC_PolyVec) + TLC trace validation of all vector pairs of dims 0..4 over Z/2^k (k=1,2,3) under every operator, all index expressions, re-chunking/packing, sampled rings k in {0,8,32,64}",
             text="All vector pairs of dims 0..4 (k=1), 0..3/4 (k=2), 0..2 (k=3) under + - ^ & | in both orders, neg, a+(-a), shifts, concat; every int/slice/list index read and written on dims <= 4/5; split for k in {8,16,32,64} and every divisor, both endiannesses; pack; rings Z, 2^8, 2^32, 2^64 with dims to 20 sampled.  Each recorded event is judged by TLC against base/PolyVec, whose laws (commutativity, a+(-a)=0, agreement with integer arithmetic, frame condition) are model-checked exhaustively on small instances.",
             ref="DESIGN.md section 7 C16"),

 'C20': dict(tech="TLC: spec theorems (algorithmic successor = least greater arrangement; combination order; minimal subset) + TLC trace validation of every call on every list of length 0..5 over {1,2,3}, distinct lists to 6/7, every multiset of <= 4/5 weights and every target, each call repeated and interleaved, the same weights again on differently labelled items",
             text="Finite space enumerated completely within the bounds; TLC judges each recorded call against base/Combinat: multiset of arrangements (count, validity, multiplicity), list restored, lexicographic successor with wrap-around, combinations in index order, subset-sum answers (sub-collection, exact sum, failure iff unsolvable, minimal size for dynprog), at every position of a call history.",
             ref="DESIGN.md section 7 C20"),

 'C01': dict(tech="TLC: padding machine + hash object with symbolic compression model-checked; TLC trace validation recomputing every digest with the TLA+ transcriptions of RFC 1320/1321 and FIPS 180-4 over the length-class grid of all ten algorithms",
             text="Structure (length classes L mod block, number of blocks, L mod 8, spill boundary, over-long bit lengths, counters preset across 2^32/2^64) is enumerated: quick = boundary sets, thorough = every L in 0..3B; message content is seeded.  Every recorded digest (value and length) or refusal is judged by TLC against sys/HashObj over prim/Md4, Md5, Sha1, Sha2, themselves validated against hashlib/OpenSSL/RFC vectors at setup.",
             ref="DESIGN.md section 7 C01"),
 'C14': dict(tech="TLC: hash object with symbolic injective compression (all cut sets up to 3.5 blocks: idle state = fold of fed blocks, piecewise = one-shot) + every TLC-generated call history replayed on real MD4/MD5/SHA-1/SHA-2/BLAKE objects and trace-validated step by step",
             text="All call histories of depth 3 (quick) / 4 (thorough) over the alphabet continue(0..2 blocks)/bad continuation/final(0..1 blocks x 5 residue classes)/over-long/re-init, on 14 hash objects round-robin plus BLAKE2b/2s objects, seeded data; TLC recomputes the chaining value, the bit counter after each piece and the final digest with the real compression functions, so the digest is compared with the standard's digest of the whole message.",
             ref="DESIGN.md section 7 C14"),

 'C13': dict(tech="TLC: key-register design over a symbolic hash (all key lengths 0..3B: one block, three branches, no trace of the old key) + TLC trace validation of HMAC objects over all 14 block hashes, evaluating RFC 2104 over the TLA+ hash specifications",
             text="Key-length classes {0,1,dg-1,dg,dg+1,B-1,B,B+1,2B,3B} (+ random in thorough) x 14 hashes x message lengths, and key replacement sequences K1,K2,K1 on one object; each MAC recomputed by TLC (sys/Hmac over HashObj).  Keys and messages are seeded.",
             ref="DESIGN.md section 7 C13"),

 'C02': dict(tech="TLC trace validation of the real ciphers against TLA+ transcriptions of FIPS 197, FIPS 46-3/SP 800-67, the Serpent submission and Skein 1.3 (validated at setup against OpenSSL-frozen and official vectors + spec-internal theorems); finite component domains compared exhaustively",
             text="Exhaustive: AES S-box/inverse, gmul on all 65536 pairs, Rcon, DES S-boxes and IP/IPinv/PC1/PC2/E/P on every unit vector, Serpent boxes in every column and linear/bit permutations on a basis; all size/keying configurations (AES 128/192/256, TDEA in every keying form, Serpent key lengths 1..32 bytes, Threefish 256/512/1024) and rejection of every other key/tweak/block size.  Sampled by class: keys (zero, ones, walking one, weak/semi-weak/parity, all-one words, random), tweaks, blocks; each enc/dec result judged by TLC.",
             ref="DESIGN.md section 7 C02"),
 'C03': dict(tech="TLC-judged enumeration of the code's inverse pairs on whole finite domains / GF(2) bases (S-boxes, permutations, linear layers, rol/ror for all widths <= 8/10, index maps) + end-to-end dec(enc(B)) = B = enc(dec(B)) with both directions also compared with the TLA+ ciphers",
             text="Component pairs are decided completely (finite domains enumerated, linear maps on a basis); cipher round trips are sampled by key/block class for every cipher and size, and each enc/dec is also compared with the specification so that a consistent pair of wrong functions is caught.",
             ref="DESIGN.md section 7 C03"),

 'C05': dict(tech="TLC: SP 800-38A modes over a toy cipher model-checked on every message of 0..7 bytes (round trip, domain, shape, counter blocks incl. wrap) + the same complete space replayed on the real ECB/CBC/CTR/CTS classes over the same toy cipher and a residue grid over the real ciphers, every result trace-validated by TLC; single calls on 1 KiB..64 KiB (more than 256 and more than 4096 blocks) recorded as segments of whole blocks and judged independently (ECB; CBC chained from the recorded previous block; CTR with the counter advanced in the specification)",
             text="Mode logic is decided exhaustively for small messages: the real mode classes run over a Python object implementing the specification's toy cipher and every ciphertext/plaintext is compared by TLC (2- and 4-byte blocks, all admissible paddings, IV classes, counter halves at 0/max-1/max).  With the real ciphers (AES-128/192/256, DES, TDEA, Serpent, Threefish-256/512/1024) keys/IVs are random and lengths cover every residue class boundary over 0..3 blocks; CTS is held to length, IV prefix and round trip.",
             ref="DESIGN.md section 7 C05"),

 'C11': dict(tech="TLC: counter-carrying hash object and BLAKE padding model-checked with symbolic compression; TLC trace validation recomputing every BLAKE-224..512 and BLAKE2b/2s digest from TLA+ transcriptions of the BLAKE submission and RFC 7693 (validated against official vectors and hashlib incl. all parameters); page-sized one-shot messages (4 KiB..8 KiB, thorough 16 KiB) for BLAKE and BLAKE2",
             text="BLAKE: length classes around 0, B-2w, B, 2B (quick) / every bit length 0..2B+8 (thorough), all L mod 8, salt classes, over-long bit lengths, counters preset across the word boundary.  BLAKE2: length grid 0..4 blocks, digest lengths (boundary / every), salt, personalization, fanout, depth, leaf length, node offset, node depth, inner length at range ends, out-of-range digest lengths rejected; singleton and fresh objects.  Content is seeded.",
             ref="DESIGN.md section 7 C11"),

 'C04': dict(tech="TLC: sponge/duplex design checked exhaustively over Keccak-f[25] (and f[50]) for every rate and every L <= 2r+2, pad10*1 for all rates <= 40; TLC trace validation of the real Keccak object, SHA3, SHAKE and duplex sequences against the bit-level FIPS 202 specification (round constants and rho offsets derived in TLA+)",
             text="Exhaustive: the whole configuration space of Keccak[25] (quick) and Keccak[50] (thorough): every rate 0<r<b, every bit length 0..2r+2, both bit-order conventions.  Boundary grid for b in {50..1600}: rates incl. non-multiples of 8 and r<8, L mod r in {0,1,r-2,r-1}, L mod 8, data longer than the bit length, output lengths 1, r-1, r, r+1, 2r+3; module singletons; SHA3-224..512 and SHAKE128/256 around the rate boundary; duplex call sequences on one object.  Message content is seeded.",
             ref="DESIGN.md section 7 C04"),

 'C06': dict(tech="TLC: RC4 stream object model-checked over N=8 (every split, permutation invariant, one continuous stream) + TLC trace validation of Salsa20/ChaCha/RC4 objects against TLA+ transcriptions of the Salsa20, ChaCha and RC4 specifications (validated against spec examples, OpenSSL-frozen vectors); single Salsa20/ChaCha calls on 4 KiB..64 KiB (thorough: 1 MiB) judged as independent 1 KiB segments (segment law in the spec self-tests), one RC4 call on 8 KiB judged in 512-byte segments along the continuous stream",
             text="Salsa20/ChaCha: both key sizes, nonce classes, every even round count 2..20 (thorough) / 8, 20 and a rotating third (quick), |M| in {0,1,63,64,65,127,128,129,191,200}, prefixes, dec, start blocks 2^32-2..2^32+1 through hook H1 for the counter carry, the Salsa20 core; RC4: key lengths {1,2,5,16,255,256}, every composition of 6 bytes into pieces of 0..3 bytes and seeded piece sequences on one object incl. empty pieces, rejected key lengths.  Keys/nonces/messages are seeded.",
             ref="DESIGN.md section 7 C06"),

 'C15': dict(tech="TLC: width-8 CRC laws for reflected polynomials (table = bitwise division, backward o forward = id) and the CRC-32 forging postcondition model-checked; TLC trace validation of crc32, generic CRCs of widths 8..64, backward computation and crc32_fix/crc32_fix_pos (judged by postcondition); inputs of 4 KiB..1.5 MiB recorded run-length encoded and judged by Crc!CrcRegRuns (byte step as an affine map over GF(2), powers by squaring; model-checked equal to the bytewise evaluation in MC_Crc)",
             text="crc32 on data classes and seeded data up to 300 bytes; crc(data, crc_table(P), init, final) for widths {8,12,16,24,31,32,33,40,64} with catalogue and random reflected polynomials and init/final classes, recomputed bitwise by TLC; crc_back_pos against the forward register at every tested position; crc32_fix and crc32_fix_pos at EVERY position of short data for target classes {0,1,2^31,2^32-1,random}: same length, only the 4-byte window differs, CRC-32 equals the target.",
             ref="DESIGN.md section 7 C15"),

 'C17': dict(tech="TLC: MD6 mode-of-operation plan checked for 0..70 leaf blocks and L in {0,1,2,3,4,64} (unique node ids, z only on the last node, padding counts, heights); TLC trace validation recomputing every MD6 digest from the TLA+ transcription of the MD6 report (validated on official and published vectors)",
             text="Digest sizes {1,8,160,224,256,384,511,512}, key lengths {0,1,63,64}, L in {0,1,2,3,64}, round counts {1..5, default}, message sizes 0, 1, the 384/512-byte boundaries, 2..4, 5..16, 17+ (33, 65 in thorough) leaf blocks, every bitlen mod 8, over-long bit length; rounds set on the object so that big trees stay affordable for TLC.  Content is seeded.",
             ref="DESIGN.md section 7 C17"),

 'C12': dict(tech="TLC: UBI tweak schedule model-checked for every bit length over 0..4 blocks and start positions at limb boundaries, the tree plan with a symbolic UBI for all Yl,Yf in 1..3 / Ym in 2..4 (unique node ids, height limit, single root); TLC trace validation recomputing every Skein / UBI output from the TLA+ transcription of Skein 1.3 (validated on the official vectors incl. MAC and tree)",
             text="Nb in {256,512,1024}, No in {8,16,Nb-8,Nb,Nb+8,2Nb,4Nb}, message lengths at the block boundaries over 0..4 blocks with every L mod 8 (explicit and omitted bit length, data longer than needed), keys absent/empty/short/longer than a block, prs/PK/kdf/nonce alone and combined, tree shapes Yl,Yf in 1..3 / Ym in 2..4, bare UBI with start positions near 2^64.  Content is seeded.",
             ref="DESIGN.md section 7 C12"),

 'C18': dict(tech="TLC trace validation of the refinement obligation WhiteDES(tables(K)).enc(B) = DES_K(B) against the TLA+ transcription of FIPS 46-3 (not against crysp.des); each generated table network is a program evaluated on a basis of blocks",
             text="Keys: zero, ones, weak and semi-weak keys, pairs differing only in parity bits, walking-one and random keys (8 quick / 150 thorough); per key the table network is generated by the library and evaluated on all 64 single-bit blocks, zero, ones and random blocks; every T-box is checked to be a total byte map (16 x 12 x 256) and M1/M2/M3 to be identical for all keys.  Keys and blocks are sampled: the 2^64 x 2^64 space is out of reach.",
             ref="DESIGN.md section 7 C18"),

 'C19': dict(tech="TLC: TLSH distance axioms model-checked over all single-field digest differences; TLC trace validation of TLSH digests / None, reloads and distances in every calling form, and of Nilsimsa digests, byte cuts and distances, against TLA+ transcriptions of the TLSH reference semantics and Nilsimsa 0.2.4",
             text="All 3 x 5 x 2 TLSH configurations; data lengths around the gates (0, 4, 49, 50, 51, 255, 256, 257, 700, ...), content classes incl. constant and two-valued data, force both ways, the module singleton; from_hash reload (bytes and header fields/code); distances object/object, bytes/bytes, mixed, both orders, distance_to.  Nilsimsa: targets, lengths 0..6 and longer, every byte cut, Hamming distance both orders.  Declared exception: the Pearson table is pinned from the repository.",
             ref="DESIGN.md section 7 C19"),

 'C10': dict(tech="TLC: every call sequence of length <= 3 (4) over a per-kind 7-call alphabet enumerated by a model of state-free objects; sequences replayed on long-lived real objects, siblings and module singletons; TLC trace validation that every judged outcome equals the fresh-object outcome of the same call",
             text="41 object kinds (all of the statement's list incl. module-level singletons keccak_*, blake*, blake2b/2s, tlsh, plus variants such as unpadded ECB/CBC, CTS modes, keyed long-output Skein, tree Skein): all sequences of length <= 2, <= 3 for the kinds with shared state (quick), <= 3 / 4 (thorough); alphabets contain the default call, a call with other per-call options, a call that raises (also midway), an unfinished incremental / auxiliary call, the call on a sibling, the singleton or another message, and a call on a differently configured instance of the same class.  TLC decides functionality of call -> result at every step; correctness of the values is C01-C19.",
             ref="DESIGN.md section 7 C10"),
}
PENDING = "check not built yet in this tree (specification modules are being written; see DESIGN.md section 12 build order) - not claimed until its quick command runs clean"
def main():
    props = [json.loads(l) for l in open(os.path.join(V, 'properties.jsonl'))]
    checks = []; na = []
    for p in props:
        i = p['id']
        if i in CLAIMED:
            c = CLAIMED[i]
            checks.append(dict(property_id=i, quick_cmd="bin/check %s --tier quick" % i, thorough_cmd="bin/check %s --tier thorough" % i,
                               evidence_file="/verif/evidence/%s.json" % i, replay_cmd_template="bin/check %s --replay {path}" % i,
                               engine="tlc", level_claimed=dict(category="model_checking", text=c['text'], design_ref=c['ref']),
                               level_note=TB, technique=c['tech']))
        else:
            na.append(dict(property_id=i, reason=PENDING))
    m = dict(version=1, setup_cmd="make -C /verif setup",
             hooks=dict(guard="BDCHT_CRYSP_VERIF", enable="export BDCHT_CRYSP_VERIF=1 (pure Python: bin/check sets it and imports /repo directly)",
                        baseline_off_cmd="cd /repo && env -u BDCHT_CRYSP_VERIF /venv/bin/python -m pytest -ra -q -p no:cacheprovider --timeout=900 --continue-on-collection-errors",
                        source_commits=['241042bf418dddf9cf626b7d1b6aa7466ea7291c'], add_only=True),
             engines=[dict(name="tlc", path="/verif/bin/check", serves_properties=sorted(CLAIMED),
                           kind_free_text="TLA+ specification (spec/), TLC model checking of bounded instances, TLC trace validation of recorded executions of the real library (harness/)")],
             checks=checks, not_applicable=na,
             notes="Exit codes of bin/check: 0 held (KNOWN-FINDING lines possible), 1 VIOLATION, 2 machinery failure. known_findings.json lists open findings and fixed defects.")
    json.dump(m, open(os.path.join(V, 'MANIFEST.json'), 'w'), indent=1)
if __name__ == '__main__': main()
