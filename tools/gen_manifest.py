#!/usr/bin/env python3
"""Writes /verif/MANIFEST.json from the table below (one source of truth for what is claimed)."""
import json, os
V = os.path.dirname(os.path.dirname(os.path.abspath(__file__)))
TB = "Trusted: TLC/SANY, CommunityModules Json/Bitwise/IOUtils overrides, the Python recorder in harness/, and the TLA+ transcription of the standards (validated by `make setup` against hashlib/zlib/OpenSSL-frozen/official known answers; DESIGN.md section 5)."
CLAIMED = {
 'C09': dict(tech="TLC: exhaustive bit-level model of the padding machine (all bit strings <= 12 bits, all call sequences) + every call history from a TLC scenario model replayed on the real padding objects, each step trace-validated by TLC against the byte-level spec",
             text="Specification model-checked exhaustively within small bounds (all 8 schemes; invariants FullBlocks, FinalIsMsgThenPad, Minimal, UnpadInverts, CounterIdle, AfterFinalRefuses; byte-level spec proved equal to the bit-level one on 71k cases); implementation bound by trace validation of every TLC-generated call history (depth 3/4) and a complete length grid (scheme x block size x 0..3 blocks x every residue (<=16-byte blocks) / boundary residues x L mod 8), every yielded block, per-block bit counter, pad counter, flag and remove() result judged by TLC.  Structure is exhaustive, message content is sampled.",
             ref="DESIGN.md section 7 C09"),
}
PENDING = "check not built yet in this tree (specification modules are being written; see DESIGN.md section 12 build order) - not claimed until its quick command runs clean"
def main():
    props = [json.loads(l) for l in open(os.path.join(V, 'properties.jsonl'))]
    checks = []; na = []
    for p in props:
        i = p['id']
        if i in CLAIMED:
            c = CLAIMED[i]
            checks.append(dict(property_id=i, quick_cmd="bin/check %s --tier quick" % i, thorough_cmd="bin/check %s --tier thorough" % i,
                               evidence_file="/verif/evidence/%s.json" % i, replay_cmd_template="bin/check %s --replay {path}" % i,
                               engine="tlc", level_claimed=dict(category="model_checking", text=c['text'], design_ref=c['ref']),
                               level_note=TB, technique=c['tech']))
        else:
            na.append(dict(property_id=i, reason=PENDING))
    m = dict(version=1, setup_cmd="make -C /verif setup",
             hooks=dict(guard="BDCHT_CRYSP_VERIF", enable="export BDCHT_CRYSP_VERIF=1 (pure Python: bin/check sets it and imports /repo directly)",
                        baseline_off_cmd="cd /repo && env -u BDCHT_CRYSP_VERIF /venv/bin/python -m pytest -ra -q -p no:cacheprovider --timeout=900 --continue-on-collection-errors",
                        source_commits=[], add_only=True),
             engines=[dict(name="tlc", path="/verif/bin/check", serves_properties=sorted(CLAIMED),
                           kind_free_text="TLA+ specification (spec/), TLC model checking of bounded instances, TLC trace validation of recorded executions of the real library (harness/)")],
             checks=checks, not_applicable=na,
             notes="Exit codes of bin/check: 0 held (KNOWN-FINDING lines possible), 1 VIOLATION, 2 machinery failure. known_findings.json lists open findings and fixed defects.")
    json.dump(m, open(os.path.join(V, 'MANIFEST.json'), 'w'), indent=1)
if __name__ == '__main__': main()
