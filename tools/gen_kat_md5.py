#!/usr/bin/env python3
"""Extra known answers for spec/selftest/ST_Md5.tla, appended to spec/kat/md5.ndjson (whose first rows,
without a "src" field, come from gen_kat_hashlib.py).  Run AFTER gen_kat_hashlib.py; idempotent
(rows carrying a "src" field are dropped and rebuilt).  Source: hashlib (not crysp); the seven
test-suite digests printed in RFC 1321 appendix A.5 are typed here and compared with hashlib.
Usage: gen_kat_md5.py <outdir>"""
import hashlib, json, random, sys
RFC1321 = [
    (b"", "d41d8cd98f00b204e9800998ecf8427e"),
    (b"a", "0cc175b9c0f1b6a831c399e269772661"),
    (b"abc", "900150983cd24fb0d6963f7d28e17f72"),
    (b"message digest", "f96b697d7cb7938d525a2f31aaf161d0"),
    (b"abcdefghijklmnopqrstuvwxyz", "c3fcd3d76192e4007dfb496cca67e13b"),
    (b"ABCDEFGHIJKLMNOPQRSTUVWXYZabcdefghijklmnopqrstuvwxyz0123456789", "d174ab98d277d9f5a5611c2c9f419d9f"),
    (b"1234567890" * 8, "57edf4a22be3c955ac49da2e2107b67a"),
]
def main(out):
    path = out + "/md5.ndjson"
    rows = [r for r in (json.loads(l) for l in open(path) if l.strip()) if "src" not in r]
    rnd = random.Random(13210492)
    for m, h in RFC1321:
        assert hashlib.md5(m).hexdigest() == h, (m, h)
        rows.append(dict(alg="md5", src="rfc1321", m=list(m), d=list(bytes.fromhex(h))))
    for m in [b"\xff" * 64, b"\x00" * 64, b"\xff" * 55, b"\x80" * 56, b"\xff" * 120]:
        rows.append(dict(alg="md5", src="hashlib", m=list(m), d=list(hashlib.md5(m).digest())))
    for _ in range(10):
        m = bytes(rnd.randrange(256) for _ in range(rnd.randrange(0, 200)))
        rows.append(dict(alg="md5", src="hashlib", m=list(m), d=list(hashlib.md5(m).digest())))
    with open(path, "w") as f:
        for r in rows: f.write(json.dumps(r, separators=(',', ':')) + "\n")
    print("md5: %d known answers" % len(rows))
if __name__ == "__main__":
    main(sys.argv[1])
