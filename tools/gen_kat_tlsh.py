#!/usr/bin/env python3
"""Known answers for spec/selftest/ST_Tlsh.tla.  NOT crysp code: a small TLSH written from the
reference semantics (Oliver, Cheng, Chen 2013; TrendMicro tlsh_impl.cpp / tlsh_util.cpp:
incremental update with a ring buffer, b_mapping, find_quartile, l_capturing, hash(), totalDiff),
validated below on the three official vectors and the two official distances of /repo/tests/test_tlsh.py.
Only Pearson's 256-entry table was copied (declared exception: no other copy on this machine); it is
checked to be a permutation and the salts of the reference's fast_b_mapping (v_table[2]=49, v_table[3]=12,
... recalled independently) are asserted.
Deterministic.  Usage: gen_kat_tlsh.py <outdir>     writes <outdir>/tlsh.ndjson
"""
import json, sys, random, os, bisect, re
sys.path.insert(0, os.path.dirname(os.path.abspath(__file__)))
import gen_tlsh_consts as C

V = [1, 87, 49, 12, 176, 178, 102, 166, 121, 193, 6, 84, 249, 230, 44, 163,
     14, 197, 213, 181, 161, 85, 218, 80, 64, 239, 24, 226, 236, 142, 38, 200,
     110, 177, 104, 103, 141, 253, 255, 50, 77, 101, 81, 18, 45, 96, 31, 222,
     25, 107, 190, 70, 86, 237, 240, 34, 72, 242, 20, 214, 244, 227, 149, 235,
     97, 234, 57, 22, 60, 250, 82, 175, 208, 5, 127, 199, 111, 62, 135, 248,
     174, 169, 211, 58, 66, 154, 106, 195, 245, 171, 17, 187, 182, 179, 0, 243,
     132, 56, 148, 75, 128, 133, 158, 100, 130, 126, 91, 13, 153, 246, 216, 219,
     119, 68, 223, 78, 83, 88, 201, 99, 122, 11, 92, 32, 136, 114, 52, 10,
     138, 30, 48, 183, 156, 35, 61, 26, 143, 74, 251, 94, 129, 162, 63, 152,
     170, 7, 115, 167, 241, 206, 3, 150, 55, 59, 151, 220, 90, 53, 23, 131,
     125, 173, 15, 238, 79, 95, 89, 16, 105, 137, 225, 224, 217, 160, 37, 123,
     118, 73, 2, 157, 46, 116, 9, 145, 134, 228, 207, 212, 202, 215, 69, 229,
     27, 188, 67, 124, 168, 252, 42, 4, 29, 108, 21, 247, 19, 205, 39, 203,
     233, 40, 186, 147, 198, 192, 155, 33, 164, 191, 98, 204, 165, 180, 117, 76,
     140, 36, 210, 172, 41, 54, 159, 8, 185, 232, 113, 196, 231, 47, 146, 120,
     51, 65, 28, 144, 254, 221, 93, 189, 194, 139, 112, 43, 71, 109, 184, 209]
assert sorted(V) == list(range(256))
# fast_b_mapping(ms, ...) of the reference is called with ms = v_table[salt], salts = successive primes
_fast = {0: 1, 2: 49, 3: 12, 5: 178, 7: 166, 11: 84, 13: 230, 17: 197, 19: 181, 23: 80, 29: 142, 31: 200, 37: 253,
         41: 101, 43: 18, 47: 222, 53: 237, 59: 214, 61: 227, 67: 22, 71: 175, 73: 5}
assert all(V[s] == m for s, m in _fast.items())

LTHRESH = C.table(((C.F('0.4054651'),) * 2, (C.F('0.26236426'),) * 2, (C.F('0.095310180'),) * 2))

def b_mapping(salt, i, j, k):
    h = V[salt]          # V[0 ^ salt]
    h = V[h ^ i]
    h = V[h ^ j]
    return V[h ^ k]

# (salt, a, b): bucket b_mapping(salt, w[j], w[j-a], w[j-b]) -- the reference's update(), SLIDING_WND_SIZE 4..8
TRIPLETS = {4: [(2, 1, 2), (3, 1, 3), (5, 2, 3)],
            5: [(7, 2, 4), (11, 1, 4), (13, 3, 4)],
            6: [(17, 1, 5), (19, 2, 5), (23, 3, 5), (29, 4, 5)],
            7: [(31, 1, 6), (37, 2, 6), (41, 3, 6), (43, 4, 6), (47, 5, 6)],
            8: [(53, 1, 7), (59, 2, 7), (61, 3, 7), (67, 4, 7), (71, 5, 7), (73, 6, 7)]}

def swap_byte(x): return ((x & 15) << 4) | (x >> 4)

class Tlsh:
    def __init__(s, buckets=128, wnd=5, chk=1):
        s.B, s.W, s.C = buckets, wnd, chk
        s.win = [0] * wnd
        s.len = 0
        s.checksum = [0] * chk
        s.bucket = [0] * 256
        s.trip = [t for w in range(4, wnd + 1) for t in TRIPLETS[w]]
    def update(s, data):
        W = s.W
        j = s.len % W
        fed = s.len
        for x in data:
            s.win[j] = x
            if fed >= W - 1:
                w = lambda a: s.win[(j - a) % W]
                for k in range(s.C):
                    s.checksum[k] = b_mapping(0 if k == 0 else s.checksum[k - 1], w(0), w(1), s.checksum[k])
                for (salt, a, b) in s.trip:
                    s.bucket[b_mapping(salt, w(0), w(a), w(b))] += 1
            fed += 1
            j = (j + 1) % W
        s.len = fed
        return s
    def final(s, force=False):
        if (not force and s.len < 256) or (force and s.len < 50):
            return None
        B = s.B
        srt = sorted(s.bucket[:B])
        q1, q2, q3 = srt[B // 4 - 1], srt[B // 2 - 1], srt[B - B // 4 - 1]
        if q3 == 0:
            return None
        nonzero = sum(1 for x in s.bucket[:B] if x > 0)
        if B == 48:
            if nonzero < 18: return None
        elif nonzero <= B // 2:
            return None
        code = []
        for i in range(B // 4):
            h = 0
            for j in range(4):
                k = s.bucket[4 * i + j]
                if q3 < k: h += 3 << (2 * j)
                elif q2 < k: h += 2 << (2 * j)
                elif q1 < k: h += 1 << (2 * j)
            code.append(h)
        L = bisect.bisect_right(LTHRESH, s.len) & 255
        Q1 = (q1 * 100 // q3) % 16          # (unsigned)((float)(q1*100)/(float)q3) % 16: exact for q3 < 2^18
        Q2 = (q2 * 100 // q3) % 16
        QB = (Q2 << 4) | Q1                 # bit fields: Q1ratio is the low nibble
        return bytes([swap_byte(c) for c in s.checksum] + [swap_byte(L), swap_byte(QB)] + code[::-1])

def mod_diff(x, y, R):
    dl, dr = (y - x, x + R - y) if y > x else (x - y, y + R - x)
    return min(dl, dr)

def total_diff(chk, d1, d2, len_diff=True):
    def parse(d):
        ck = [swap_byte(x) for x in d[:chk]]
        L = swap_byte(d[chk]); QB = swap_byte(d[chk + 1])
        return ck, L, QB & 15, QB >> 4, list(d[chk + 2:])[::-1]
    c1, L1, q11, q21, b1 = parse(d1)
    c2, L2, q12, q22, b2 = parse(d2)
    diff = 0
    if len_diff:
        ld = mod_diff(L1, L2, 256)
        diff += ld if ld <= 1 else ld * 12
    for a, b in ((q11, q12), (q21, q22)):
        qd = mod_diff(a, b, 16)
        diff += qd if qd <= 1 else (qd - 1) * 12
    if c1 != c2: diff += 1
    for x, y in zip(b1, b2):
        for t in range(4):
            d = abs(((x >> 2 * t) & 3) - ((y >> 2 * t) & 3))
            diff += 6 if d == 3 else d
    return diff

def official():
    src = open('/repo/tests/test_tlsh.py', 'rb').read().decode('latin-1')
    g = {}
    exec(src.split('vectors_2')[0].replace('from crysp.tlsh import *', '').replace('import pytest', ''), g)
    hexes = re.findall(r'b"([0-9A-F]{70})"', src)
    return [g['t0'], g['t1'], g['t2']], [bytes.fromhex(h) for h in hexes]

def main(out):
    rnd = random.Random(20260926)
    rows = []
    def hrow(note, B, W, Ck, force, chunks, expect=None):
        t = Tlsh(B, W, Ck)
        for c in chunks: t.update(c)
        d = t.final(force)
        if expect is not None: assert d == expect, (note, d and d.hex(), expect.hex())
        rows.append(dict(op="hash", note=note, buckets=B, wnd=W, chk=Ck, force=int(force),
                         chunks=[list(c) for c in chunks], ok=int(d is not None), d=list(d or b"")))
        return d
    def drow(note, B, Ck, d1, d2, lendiff, expect=None):
        v = total_diff(Ck, d1, d2, lendiff)
        if expect is not None: assert v == expect, (note, v, expect)
        rows.append(dict(op="dist", note=note, buckets=B, wnd=5, chk=Ck, d1=list(d1), d2=list(d2), lendiff=int(lendiff), dist=v))
    # --- official vectors
    msgs, digs = official()
    assert len(digs) == 3
    for i, (m, d) in enumerate(zip(msgs, digs)):
        hrow("official %d" % i, 128, 5, 1, False, [m], d)
    drow("official t1,t2", 128, 1, digs[1], digs[2], True, 121)
    drow("official t1,t2 no length", 128, 1, digs[1], digs[2], False, 97)
    # incremental feeding (the reference's update() keeps the window across calls)
    m = msgs[0]
    hrow("official 0 in chunks", 128, 5, 1, False, [m[:1], m[1:3], m[3:7], m[7:200], b"", m[200:]], digs[0])
    # --- text-like generator
    words = [bytes(rnd.choice(b"abcdefghijklmnopqrstuvwxyzETAOIN .,;\n01") for _ in range(rnd.randrange(1, 9))) for _ in range(120)]
    def text(n):
        s = b""
        while len(s) < n: s += rnd.choice(words) + b" "
        return s[:n]
    # --- every configuration
    for B in (48, 128, 256):
        for Ck in (1, 3):
            for W in (4, 5, 6, 7, 8):
                n = 300 if B < 256 else 420
                m = text(n) if (W + Ck) % 2 else bytes(rnd.randrange(256) for _ in range(n))
                hrow("cfg", B, W, Ck, False, [m])
    # --- boundary lengths, with and without force
    for n in (49, 50, 51, 255, 256, 257, 700):
        m = text(n)
        for force in (False, True):
            hrow("len %d" % n, 128, 5, 1, force, [m])
        hrow("len %d" % n, 48, 6, 3, True, [m[:n // 2], m[n // 2:]])
        hrow("len %d" % n, 256, 4, 1, True, [bytes(rnd.randrange(256) for _ in range(n))])
    for n in (3, 4, 5):
        hrow("tiny", 128, 5, 1, True, [text(n)])
    hrow("empty", 128, 5, 1, True, [b""])
    # --- L value seams (657, 855: first thresholds of the 1.3 regime)
    for n in (656, 657, 854, 855):
        hrow("L seam %d" % n, 128, 5, 1, False, [text(n)])
    # --- too uniform inputs
    hrow("uniform", 128, 5, 1, False, [b"a" * 300])
    hrow("uniform", 48, 5, 1, True, [b"ab" * 150])
    hrow("uniform", 256, 8, 3, False, [b"abc" * 100])
    # --- around the non-zero bucket limits: search low-entropy inputs hitting the limit exactly
    def nonzero(B, W, m):
        t = Tlsh(B, W, 1).update(m)
        return sum(1 for x in t.bucket[:B] if x > 0)
    for B, W, targets in ((128, 5, (64, 65)), (48, 5, (17, 18, 24, 25)), (256, 5, (128, 129)), (48, 4, (18, 24)), (128, 7, (64, 65))):
        found = {}
        tries = 0
        while len(found) < len(targets) and tries < 200000:
            tries += 1
            alpha = bytes(rnd.randrange(256) for _ in range(rnd.randrange(2, 7)))
            per = bytes(rnd.choice(alpha) for _ in range(rnd.randrange(3, 40)))
            m = (per * (300 // len(per) + 1))[:rnd.randrange(256, 300)]
            nz = nonzero(B, W, m)
            if nz in targets and nz not in found: found[nz] = m
        assert len(found) == len(targets), (B, W, found.keys())
        for nz in targets:
            hrow("nonzero=%d" % nz, B, W, 1, False, [found[nz]])
    # --- distances
    for B in (48, 128, 256):
        for Ck in (1, 3):
            n = Ck + 2 + B // 4
            for _ in range(3):
                d1 = bytes(rnd.randrange(256) for _ in range(n))
                d2 = bytearray(d1)
                for _ in range(rnd.randrange(0, 12)):
                    d2[rnd.randrange(n)] = rnd.randrange(256)
                drow("random", B, Ck, d1, bytes(d2), rnd.random() < 0.7)
    base = bytes(digs[0])
    def patched(d, pos, val): return d[:pos] + bytes([val]) + d[pos + 1:]
    for (l1, l2) in ((0x00, 0xff), (0x00, 0x10), (0x00, 0x20), (0x08, 0x07), (0x21, 0x12), (0xf7, 0x0f)):   # swapped L bytes
        drow("L", 128, 1, patched(base, 1, l1), patched(base, 1, l2), True)
    for (q1, q2) in ((0x00, 0xff), (0x00, 0x11), (0x00, 0x22), (0x08, 0x80), (0x1e, 0xe1), (0x70, 0x0f), (0x3c, 0xc3)):
        drow("Q", 128, 1, patched(base, 2, q1), patched(base, 2, q2), True)
    drow("checksum 1 of 3", 48, 3, bytes(range(17)), patched(bytes(range(17)), 1, 0xee), True)
    drow("checksum 3 of 3", 48, 3, bytes(range(17)), bytes([9, 9, 9]) + bytes(range(3, 17)), True)
    drow("body all pairs", 48, 1, bytes([0, 0, 0]) + bytes([0x1b] * 12), bytes([0, 0, 0]) + bytes([0x00, 0x55, 0xaa, 0xff, 0xe4, 0x1b, 0xb1, 0x4e, 0x27, 0x72, 0x8d, 0xd8]), True)
    drow("identical", 256, 1, bytes(range(67)), bytes(range(67)), True)
    with open(os.path.join(out, "tlsh.ndjson"), "w") as f:
        for r in rows: f.write(json.dumps(r, separators=(',', ':')) + "\n")
    nb = sum(sum(len(c) for c in r["chunks"]) * len([t for w in range(4, r["wnd"] + 1) for t in TRIPLETS[w]]) for r in rows if r["op"] == "hash")
    print("%d rows, %d hash rows, %d bytes hashed, %d bucket updates, %d not-ok" % (
        len(rows), sum(r["op"] == "hash" for r in rows), sum(sum(len(c) for c in r["chunks"]) for r in rows if r["op"] == "hash"), nb,
        sum(1 for r in rows if r["op"] == "hash" and not r["ok"])))

if __name__ == '__main__':
    main(sys.argv[1])
