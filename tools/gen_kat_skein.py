#!/usr/bin/env python3
"""Freeze known answers for the Threefish / UBI / Skein spec self-tests.
Sources (none is crysp code): the official vectors typed in /repo/tests/test_threefish.py and
/repo/tests/test_skein.py (Skein 1.3 paper annexes B, C / NIST KAT), and the from-memory
reference tools/pyref/ref_skein.py, which this script first validates on those official vectors.
Deterministic.  Usage: gen_kat_skein.py <outdir>   (writes threefish.ndjson and skein.ndjson)"""
import json, os, random, struct, sys
sys.path.insert(0, os.path.join(os.path.dirname(os.path.abspath(__file__)), 'pyref'))
import ref_skein as R
out = sys.argv[1]
rnd = random.Random(20260926)
rb = lambda n: bytes(rnd.randrange(256) for _ in range(n))
H = bytes.fromhex
def dump(name, rows):
    with open(os.path.join(out, name + '.ndjson'), 'w') as f:
        for r in rows: f.write(json.dumps(r, separators=(',', ':')) + '\n')

# ---------------------------------------------------------------- Threefish
def seq(a, n, step=1): return bytes((a + step * i) & 255 for i in range(n))
TF_OFFICIAL = [
 (bytes(32), bytes(16), bytes(32), "84da2a1f8beaee947066ae3e3103f1ad536db1f4a1192495116b9f3ce6133fd8"),
 (seq(0x10, 32), seq(0, 16), seq(0xff, 32, -1), "e0d091ff0eea8fdfc98192e62ed80ad59d865d08588df476657056b5955e97df"),
 (bytes(64), bytes(16), bytes(64),
  "b1a2bbc6ef6025bc40eb3822161f36e375d1bb0aee3186fbd19e47c5d479947b"
  "7bc2f8586e35f0cff7e7f03084b0b7b1f1ab3961a580a3e97eb41ea14a6d7bbe"),
 (seq(0x10, 64), seq(0, 16), seq(0xff, 64, -1),
  "e304439626d45a2cb401cad8d636249a6338330eb06d45dd8b36b90e97254779"
  "272a0a8d99463504784420ea18c9a725af11dffea10162348927673d5c1caf3d"),
 (bytes(128), bytes(16), bytes(128),
  "f05c3d0a3d05b304f785ddc7d1e036015c8aa76e2f217b06c6e1544c0bc1a90d"
  "f0accb9473c24e0fd54fea68057f43329cb454761d6df5cf7b2e9b3614fbd5a2"
  "0b2e4760b40603540d82eabc5482c171c832afbe68406bc39500367a592943fa"
  "9a5b4a43286ca3c4cf46104b443143d560a4b230488311df4feef7e1dfe8391e"),
 (seq(0x10, 128), seq(0, 16), seq(0xff, 128, -1),
  "a6654ddbd73cc3b05dd777105aa849bce49372eaaffc5568d254771bab85531c"
  "94f780e7ffaae430d5d8af8c70eebbe1760f3b42b737a89cb363490d670314bd"
  "8aa41ee63c2e1f45fbd477922f8360b388d6125ea6c7af0ad7056d01796e90c8"
  "3313f4150a5716b30ed5f569288ae974ce2b4347926fce57de44512177dd7cde"),
]
rows = []
for k, t, p, c in TF_OFFICIAL:
    c = H(c)
    assert R.threefish_enc(k, t, p) == c, 'ref_skein.threefish_enc fails an official vector'
    rows.append(dict(src='official', key=list(k), tweak=list(t), pt=list(p), ct=list(c)))
for n in (32, 64, 128):
    F, Z = b'\xff' * n, bytes(n)
    cases = [(F, b'\xff' * 16, F), (Z, b'\xff' * 16, F), (F, bytes(16), Z), (Z, bytes(16), F),
             # last key word all-ones: the subkey counter s carries through the whole word
             (rb(n - 8) + b'\xff' * 8, rb(16), rb(n)),
             (rb(n), rb(16), rb(n)), (rb(n), rb(16), rb(n))]
    for k, t, p in cases:
        rows.append(dict(src='pyref', key=list(k), tweak=list(t), pt=list(p), ct=list(R.threefish_enc(k, t, p))))
dump('threefish', rows)

# ---------------------------------------------------------------- Skein
def limbs(x, n=6): return [(x >> (16 * i)) & 0xffff for i in range(n)]
def rec(op, out_, note='', **kw):
    d = dict(op=op, note=note, Nb=256, No=256, M=b'', L=0, key=b'', haskey=False, prs=b'', PK=b'', kdf=b'', nonce=b'',
             Yl=0, Yf=0, Ym=0, G=b'', type=0, level=0, pos0=0)
    d.update(kw)
    for f in ('M', 'key', 'prs', 'PK', 'kdf', 'nonce', 'G'): d[f] = list(d[f])
    d['pos0'] = limbs(d['pos0'])
    d['out'] = list(out_)
    return d
def ref_hash(Nb, No, M, L, key=b'', haskey=False, prs=b'', PK=b'', kdf=b'', nonce=b'', Yl=0, Yf=0, Ym=0):
    return R.skein(Nb, No, M, bitlen=L, key=key if haskey else None, prs=prs or None, PK=PK or None, kdf=kdf or None,
                   nonce=nonce or None, Yl=Yl, Yf=Yf, Ym=Ym)
rows = []
def add_hash(note, official=None, **kw):
    tree = any(kw.get(y, 0) for y in ('Yl', 'Yf', 'Ym'))
    if 'L' not in kw: kw['L'] = 8 * len(kw['M'])
    got = ref_hash(**kw)
    if official is not None:
        assert got == H(official), 'ref_skein fails official vector ' + note
    rows.append(rec('tree' if tree else 'hash', got, note=note, **kw))

# official: configuration IVs of annex B (as typed in test_skein_001)
for No, iv in [(128, (0xE1111906964D7260, 0x883DAAA77C8D811C, 0x10080DF491960F7A, 0xCCF7DDE5B45BC1C2)),
               (160, (0x1420231472825E98, 0x2AC4E9A25A77E590, 0xD47A58568838D63E, 0x2DD2E4968586AB7D)),
               (256, (0xFC9DA860D048B449, 0x2FCA66479FA7D833, 0xB33BC3896656840F, 0x6A54E920FDE8DA69))]:
    ivb = struct.pack('<4Q', *iv)
    C = b'SHA3' + struct.pack('<HH', 1, 0) + struct.pack('<Q', No) + bytes(16)
    assert R.ubi(bytes(32), C, R.T_CFG) == ivb
    rows.append(rec('cfgiv', ivb, note='official annex B IV', Nb=256, No=No))
# official: annex C + bit-length vectors + MAC + tree (test_skein_002..006)
add_hash('official C', "0B98DCD198EA0E50A7A244C444E25C23DA30C10FC9A1F270A6637F1F34E67ED2", Nb=256, No=256, M=b'\xff')
add_hash('official empty', "C8877087DA56E072870DAA843F176E9453115929094C3A40C463A196C29BF7BA", Nb=256, No=256, M=b'')
add_hash('official C', "8D0FA4EF777FD759DFD4044E6F6A5AC3C774AEC943DCFC07927B723B5DBF408B", Nb=256, No=256, M=seq(0xff, 32, -1))
add_hash('official C', "71B7BCE6FE6452227B9CED6014249E5BF9A9754C3AD618CCC4E0AAE16B316CC8"
                       "CA698D864307ED3E80B6EF1570812AC5272DC409B5A012DF2A579102F340617A", Nb=512, No=512, M=b'\xff')
add_hash('official C', "45863BA3BE0C4DFC27E75D358496F4AC9A736A505D9313B42B2F5EADA79FC17F"
                       "63861E947AFB1D056AA199575AD3F8C9A3CC1780B5E5FA4CAE050E989876625B", Nb=512, No=512, M=seq(0xff, 64, -1))
add_hash('official C', "E62C05802EA0152407CDD8787FDA9E35703DE862A4FBC119CFF8590AFE79250B"
                       "CCC8B3FAF1BD2422AB5C0D263FB2F8AFB3F796F048000381531B6F00D85161BC"
                       "0FFF4BEF2486B1EBCD3773FABF50AD4AD5639AF9040E3F29C6C931301BF79832"
                       "E9DA09857E831E82EF8B4691C235656515D437D2BDA33BCEC001C67FFDE15BA8", Nb=1024, No=1024, M=b'\xff')
add_hash('official 1 bit', "52D2B5FFC2966C06BA7BB0CC2BABBC935E99146487FB361A239830D4D688C988", Nb=256, No=256, M=b'\0', L=1)
add_hash('official 257 bits', "3EAEA996FAD95B6032654D6CA93AC3450BED8C754CD8000460A2876E34E52FA7", Nb=256, No=256, M=bytes(33), L=257)
add_hash('official MAC', "886E4EFEFC15F06AA298963971D7A25398FFFE5681C84DB39BD00851F64AE29D", Nb=256, No=256, M=b'',
         key=H("CB41F1706CDE09651203C2D0EFBADDF8"), haskey=True)
add_hash('official MAC', "C353A316558EC34F8245DD2F9C2C4961FBC7DECC3B69053C103E4B8AAAF20394", Nb=256, No=256,
         M=H("D3090C72167517F7C7AD82A70C2FD3F6443F608301591E598EADB195E8357135BA26FEDE2EE187417F816048D00FC235"),
         key=H("CB41F1706CDE09651203C2D0EFBADDF847A0D315CB2E53FF8BAC41DA"
               "0002672E920244C66E02D5F0DAD3E94C42BB65F0D14157DECF4105EF5609D5B0984457C193"), haskey=True)
add_hash('official tree', "E3CF8FCDD20BFE85D175448007226C20FF22A65DC9DF7588BE305E5CCC3F4941", Nb=256, No=256, Yl=2, Yf=2, Ym=2,
         M=H("000102010401060108010A010C010E01100112011401160118011A011C011E01"
             "200122012401260128012A012C012E01300132013401360138013A013C013E01"
             "400142014401460148014A014C014E01500152015401560158015A015C015E01"
             "600162016401660168016A016C016E01700172017401760178017A017C01"))

# pyref: lengths x output sizes, all three state sizes
for Nb in (256, 512, 1024):
    nb = Nb // 8
    for ln, No in [(0, 8), (1, 64), (nb - 1, Nb), (nb, Nb + 8), (nb + 1, 2 * Nb), (3 * nb, Nb)]:
        add_hash('len/No', Nb=Nb, No=No, M=rb(ln))
add_hash('No not a multiple of 8', Nb=256, No=13, M=rb(5))
add_hash('No = 2Nb+64 (3 output blocks)', Nb=256, No=576, M=rb(40))
# pyref: bit lengths, L mod 8 = 1..7, around block boundaries
for L in (2, 11, 8 * 32 - 4, 8 * 32 + 5, 8 * 64 - 2, 8 * 64 + 7, 8 * 33 - 5):
    add_hash('bits L%%8=%d' % (L % 8), Nb=256, No=256, M=rb((L + 7) // 8), L=L)
for Nb in (512, 1024):
    nb = Nb // 8
    add_hash('bits', Nb=Nb, No=Nb, M=rb(nb), L=8 * nb - 1)
    add_hash('bits', Nb=Nb, No=Nb, M=rb(nb + 1), L=8 * nb + 3)
add_hash('bits, all-ones last byte', Nb=256, No=256, M=b'\xff' * 3, L=19)
add_hash('M longer than L/8 (ignored tail)', Nb=256, No=256, M=rb(40), L=8 * 33)
add_hash('M longer than ceil(L/8) (ignored tail)', Nb=256, No=256, M=rb(40), L=8 * 31 + 6)
# pyref: keys
for Nb in (256, 512, 1024):
    nb = Nb // 8
    add_hash('key short', Nb=Nb, No=Nb, M=rb(nb + 3), key=b'k', haskey=True)
    add_hash('key longer than a block', Nb=Nb, No=Nb, M=rb(5), key=rb(nb + 3), haskey=True)
add_hash('key = one block', Nb=256, No=256, M=rb(7), key=rb(32), haskey=True)
m = rb(9)
add_hash('empty key, haskey (= no key)', Nb=256, No=256, M=m, key=b'', haskey=True)
add_hash('no key (same digest as previous)', Nb=256, No=256, M=m)
assert rows[-1]['out'] == rows[-2]['out']
add_hash('haskey FALSE ignores key', Nb=256, No=256, M=m, key=b'ignored', haskey=False)
assert rows[-1]['out'] == rows[-2]['out']
# pyref: optional arguments alone and combined
add_hash('prs', Nb=256, No=256, M=rb(10), prs=b'20260926 verif@example.org spec/selftest')
add_hash('PK', Nb=512, No=512, M=rb(10), PK=rb(70))
add_hash('kdf', Nb=1024, No=256, M=rb(10), kdf=b'kdf-id')
add_hash('nonce', Nb=256, No=128, M=rb(10), nonce=rb(16))
add_hash('prs+nonce', Nb=512, No=256, M=rb(65), prs=b'pers', nonce=rb(20))
add_hash('PK+kdf', Nb=256, No=256, M=rb(33), PK=rb(40), kdf=b'kdf-id')
add_hash('prs+PK+kdf+nonce', Nb=512, No=512, M=rb(20), prs=b'p', PK=rb(3), kdf=rb(64), nonce=rb(65))
add_hash('key+prs+PK+kdf+nonce', Nb=256, No=264, M=rb(20), L=157, key=rb(17), haskey=True, prs=rb(33), PK=rb(5), kdf=rb(2), nonce=rb(8))
# pyref: tree shapes
T = dict(Nb=256, No=256)
add_hash('tree 1 leaf exactly', M=rb(64), Yl=1, Yf=1, Ym=2, **T)
add_hash('tree 2 leaves, height limit at level 2', M=rb(65), Yl=1, Yf=1, Ym=2, **T)
add_hash('tree 5 leaves, height limit', M=rb(300), Yl=1, Yf=1, Ym=2, **T)
add_hash('tree 5 leaves, no limit (4 levels)', M=rb(300), Yl=1, Yf=1, Ym=255, **T)
add_hash('tree limit at level 3', M=rb(300), Yl=1, Yf=1, Ym=3, **T)
add_hash('tree fan-out 4', M=rb(520), Yl=1, Yf=2, Ym=4, **T)
add_hash('tree leaf 4 blocks', M=rb(700), Yl=2, Yf=1, Ym=3, **T)
add_hash('tree empty message', M=b'', Yl=1, Yf=1, Ym=2, **T)
add_hash('tree bit length', M=rb(200), L=1597, Yl=1, Yf=1, Ym=3, **T)
add_hash('tree bit length, 1 bit in last leaf', M=rb(129), L=1025, Yl=1, Yf=1, Ym=4, **T)
add_hash('tree huge Yl (single leaf)', M=rb(100), Yl=40, Yf=1, Ym=2, **T)
add_hash('tree huge Yf', M=rb(200), Yl=1, Yf=200, Ym=5, **T)
add_hash('tree 512 keyed, 2 output blocks', Nb=512, No=520, M=rb(300), key=rb(10), haskey=True, Yl=1, Yf=1, Ym=2)
add_hash('tree 1024', Nb=1024, No=1024, M=rb(600), Yl=1, Yf=1, Ym=4)
# pyref: bare UBI with a start position (position carries) and other tweak fields
def add_ubi(note, nb, ln, typ, level, pos0, L=None):
    G, M = rb(nb), rb(ln)
    rows.append(rec('ubi', R.ubi(G, M, typ, level=level, pos0=pos0, bitlen=L), note=note, G=G, M=M,
                    L=8 * ln if L is None else L, type=typ, level=level, pos0=pos0, Nb=8 * nb, No=8 * nb))
add_ubi('pos0 2^16-1', 32, 40, 48, 1, 2**16 - 1)
add_ubi('pos0 2^32-32', 32, 70, 48, 2, 2**32 - 32)
add_ubi('pos0 2^64-1', 32, 33, 48, 3, 2**64 - 1)
add_ubi('pos0 2^64-64: block 2 lands on 2^64', 64, 130, 48, 127, 2**64 - 64)
add_ubi('pos0 2^64-10, bits', 32, 33, 63, 0, 2**64 - 10, L=8 * 33 - 3)
add_ubi('pos0 2^80-5', 128, 129, 20, 5, 2**80 - 5)
add_ubi('pos0 2^96-1-96: last position 2^96-1', 32, 96, 16, 0, 2**96 - 1 - 96)
add_ubi('pos0 ffff.. empty message', 32, 0, 12, 9, 2**95 + 2**64 - 1)
add_ubi('pos0 0 empty message', 64, 0, 8, 0, 0)
dump('skein', rows)
print('threefish', sum(1 for _ in open(os.path.join(out, 'threefish.ndjson'))), 'skein', len(rows))
