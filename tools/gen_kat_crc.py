#!/usr/bin/env python3
"""Freeze known answers for spec/selftest/ST_Crc.tla.
Sources (none is crysp code):
  * zlib.crc32 (lengths 0..40, random lengths up to 300, the strings of /repo/tests/test_crc.py),
  * for generic widths, the independent bit-by-bit reflected CRC below, which is first validated
    against zlib.crc32 (CRC-32) and against the published check values of the reflected catalogue
    entries CRC-8/MAXIM-DOW, CRC-16/ARC, CRC-16/KERMIT, CRC-16/X-25(IBM-SDLC), CRC-32C, CRC-64/XZ on
    "123456789" (binascii.crc_hqx is not reflected and is not used).
Words are written as lists of 16-bit limbs, least significant first.
Deterministic.  Usage: gen_kat_crc.py <outdir>"""
import json, sys, random, zlib

def crc_bits(poly, width, data, init, final):
    """reflected CRC, one message bit at a time; poly in reflected form (bit width-1 = x^0 term)."""
    reg = init
    for byte in data:
        for i in range(8):
            bit = (byte >> i) & 1                      # least significant bit first
            fb = (reg & 1) ^ bit
            reg >>= 1
            if fb: reg ^= poly
    return reg ^ final

def limbs(v, nl): return [(v >> (16*i)) & 0xffff for i in range(nl)]

def validate():
    rnd = random.Random(1)
    for n in list(range(0, 50)) + [100, 255, 300]:
        m = bytes(rnd.randrange(256) for _ in range(n))
        assert crc_bits(0xEDB88320, 32, m, 0xffffffff, 0xffffffff) == zlib.crc32(m)
    chk = b"123456789"
    assert crc_bits(0x8C, 8, chk, 0, 0) == 0xA1                       # CRC-8/MAXIM-DOW
    assert crc_bits(0xA001, 16, chk, 0, 0) == 0xBB3D                  # CRC-16/ARC
    assert crc_bits(0x8408, 16, chk, 0, 0) == 0x2189                  # CRC-16/KERMIT
    assert crc_bits(0x8408, 16, chk, 0xffff, 0xffff) == 0x906E        # CRC-16/IBM-SDLC (X-25)
    assert crc_bits(0x82F63B78, 32, chk, 0xffffffff, 0xffffffff) == 0xE3069283   # CRC-32C
    assert crc_bits(0xC96C5795D7870F42, 64, chk, 2**64-1, 2**64-1) == 0x995DC9BBDF1939FA   # CRC-64/XZ

def main(out):
    validate()
    rnd = random.Random(20260926)
    rb = lambda n: bytes(rnd.randrange(256) for _ in range(n))
    rows = []
    def row(kind, w, nl, poly, init, final, m, crc):
        assert poly >> (w-1) == 1 and init >> w == 0 and final >> w == 0 and crc >> w == 0 and 16*nl >= w
        rows.append(dict(kind=kind, w=w, nl=nl, poly=limbs(poly, nl), init=limbs(init, nl), final=limbs(final, nl),
                         m=list(m), crc=limbs(crc, nl)))
    P32, F32 = 0xEDB88320, 0xffffffff
    def z(m): row("crc32", 32, 2, P32, F32, F32, m, zlib.crc32(m))
    # /repo/tests/test_crc.py (values typed from the test file and cross-checked with zlib)
    for m, v in [(b"", 0), (b"a", 0xe8b7be43), (b"abc", 0x352441c2), (b"message digest", 0x20159d7f), (b"Toto", 0xB0FE0BCF)]:
        assert zlib.crc32(m) == v
        z(m)
    for n in range(0, 41): z(rb(n))
    for n in sorted(rnd.randrange(41, 301) for _ in range(12)) + [300]: z(rb(n))
    z(b"\x00"*32); z(b"\xff"*32)
    # zlib with a running value: crc32(m, start) -> init = start ^ 0xffffffff
    for _ in range(3):
        m = rb(rnd.randrange(1, 60)); start = rnd.getrandbits(32)
        row("gen", 32, 2, P32, start ^ F32, F32, m, zlib.crc32(m, start))
    # catalogue checks
    chk = b"123456789"
    row("gen", 8, 1, 0x8C, 0, 0, chk, 0xA1)
    row("gen", 16, 1, 0xA001, 0, 0, chk, 0xBB3D)
    row("gen", 16, 1, 0x8408, 0xffff, 0xffff, chk, 0x906E)
    row("gen", 32, 2, 0x82F63B78, F32, F32, chk, 0xE3069283)
    row("gen", 64, 4, 0xC96C5795D7870F42, 2**64-1, 2**64-1, chk, 0x995DC9BBDF1939FA)
    # generic widths, random reflected polynomials with the top bit set
    for w in (8, 12, 16, 24, 31, 32, 33, 40, 64):
        ones = (1 << w) - 1
        nlmin = (w + 15)//16
        combos = [(0, 0), (ones, ones), (rnd.getrandbits(w), rnd.getrandbits(w)), (ones, 0), (0, rnd.getrandbits(w))]
        for ci, (init, final) in enumerate(combos):
            poly = (1 << (w-1)) | rnd.getrandbits(w-1)
            n = [0, 1, 2, 9, 37][ci] if w != 32 else [1, 4, 5, 16, 61][ci]
            m = rb(n)
            nl = nlmin + (1 if ci == 2 and w in (8, 12, 16, 31, 32) else 0)      # also a register wider than needed
            row("gen", w, nl, poly, init, final, m, crc_bits(poly, w, m, init, final))
    with open(f"{out}/crc.ndjson", "w") as f:
        for r in rows: f.write(json.dumps(r, separators=(',', ':')) + "\n")
    print(len(rows), "rows")

if __name__ == '__main__':
    main(sys.argv[1])
