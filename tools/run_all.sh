#!/bin/sh
# run every check of MANIFEST.json (quick by default) and print one line per check
cd "$(dirname "$0")/.."
TIER=${1:-quick}
mkdir -p out
for id in C01 C02 C03 C04 C05 C06 C07 C08 C09 C10 C11 C12 C13 C14 C15 C16 C17 C18 C19 C20; do
  s=$(date +%s); bin/check $id --tier $TIER > out/run_$id.log 2>&1; rc=$?; e=$(date +%s)
  echo "$id rc=$rc $((e-s))s $(grep -c '^VIOLATION' out/run_$id.log) violations $(grep -c '^KNOWN-FINDING' out/run_$id.log) known"
done
