#!/usr/bin/env python3
"""Spec self-tests: every spec/selftest/ST_<X>.tla is run by TLC.
 - If spec/kat/<x>.ndjson exists it is handed over as KAT_FILE; the module prints one JSON line
   {k, verdict} per known answer and every verdict must be "ok", one per KAT line.
 - Otherwise the module consists of ASSUMEs and must finish without error.
This validates the SPECIFICATION against sources that are not crysp; no property is decided here."""
import sys, os, glob
sys.path.insert(0, os.path.join(os.path.dirname(os.path.abspath(__file__)), '..', 'harness'))
import tlc
def main(names):
    st = os.path.join(tlc.SPEC, 'selftest')
    mods = sorted(glob.glob(os.path.join(st, 'ST_*.tla')))
    if names: mods = [m for m in mods if os.path.basename(m)[3:-4].lower() in [n.lower() for n in names]]
    bad = 0
    for m in mods:
        name = os.path.basename(m)[3:-4]
        kat = os.path.join(tlc.SPEC, 'kat', name.lower() + '.ndjson')
        env = {}
        n = None
        if os.path.exists(kat):
            env['KAT_FILE'] = kat
            n = sum(1 for l in open(kat) if l.strip())
        r = tlc.run(m, env=env, timeout=1800)
        ok = not r['errors'] and not r['timed_out'] and r['rc'] == 0
        if n is not None:
            v = [p for p in r['printed'] if isinstance(p, dict) and 'verdict' in p]
            good = {p['k'] for p in v if p['verdict'] == 'ok'}
            ok = ok and len(good) == n and all(p['verdict'] == 'ok' for p in v)
            print('%-14s %s  kats=%d ok=%d  %.1fs' % (name, 'ok ' if ok else 'FAIL', n, len(good), r['wall']))
        else:
            print('%-14s %s  (assumptions)  %.1fs' % (name, 'ok ' if ok else 'FAIL', r['wall']))
        if not ok:
            bad += 1
            print(r['stdout'][-3000:])
    return 1 if bad else 0
if __name__ == '__main__':
    sys.exit(main(sys.argv[1:]))
