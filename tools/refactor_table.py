#!/usr/bin/env python3
"""Rewrites the result table of DESIGN.md section 13.9 (between the markers) from refactors/*/note.txt and result.json."""
import json, glob, os, re
V = os.path.dirname(os.path.dirname(os.path.abspath(__file__)))
rows = []; clean = total = 0
for d in sorted(glob.glob(os.path.join(V, 'refactors', '*'))):
    if not os.path.exists(d + '/refactor.diff'): continue
    note = open(d + '/note.txt').read() if os.path.exists(d + '/note.txt') else ''
    files = sorted(set(re.findall(r'^\+\+\+ b/(\S+)', open(d + '/refactor.diff').read(), re.M)))
    first = re.sub(r'[=\-~]{3,}', ' ', note)
    first = re.sub(r'\s+', ' ', first.strip()).replace('|', '/')[:300]
    r = json.load(open(d + '/result.json')) if os.path.exists(d + '/result.json') else None
    total += 1
    if r is None: res = 'not run'
    elif not r.get('applies'): res = 'does not apply'
    else:
        al = r.get('alarms') or []
        n = len(r.get('checks_run') or r.get('checks') or [])
        res = ('no alarm (%s; tests: %s)' % ('all 20 checks' if n >= 20 else 'the %d checks that execute the touched modules: %s' % (n, ', '.join(r.get('checks_run', []))), r.get('tests', '?'))) if not al else '**alarm: %s**' % ', '.join(al)
        clean += not al
    rows.append('| %s | %s | %s | %s |' % (os.path.basename(d), ', '.join(files), first, res))
text = ['%d of %d behaviour-preserving rewrites pass all 20 quick checks without an alarm.' % (clean, total), '',
        '| id | files | rewrite (author\'s note, first paragraph) | result |', '|---|---|---|---|'] + rows + ['']
p = os.path.join(V, 'DESIGN.md'); s = open(p).read()
a, b = '<!-- REFACTOR-TABLE-BEGIN -->', '<!-- REFACTOR-TABLE-END -->'
block = a + '\n' + '\n'.join(text) + '\n' + b
if a in s: s = s[:s.index(a)] + block + s[s.index(b) + len(b):]
else: s = s.replace('REFACTOR-RESULTS', block)
open(p, 'w').write(s)
print('%d/%d without alarm' % (clean, total))
