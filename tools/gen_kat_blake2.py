#!/usr/bin/env python3
"""Freeze known answers for spec/selftest/ST_Blake2.tla from hashlib.blake2b / blake2s
(the reference C code of the BLAKE2 authors as shipped with CPython; not crysp) plus the
two 'hello' vectors quoted in /repo/tests/test_blake.py.
Fields: b (1 = BLAKE2b, 0 = BLAKE2s), m, key, outlen, fanout, depth, leaf (32-bit leaf length
as 2 limbs of 16 bits, least significant first), off (node offset as 4 limbs, ls first),
nd (node depth), inner (inner length), salt, person (byte lists, possibly shorter than the
field: hashlib zero-pads like the spec), last (last_node 0/1), d = digest.
Deterministic.  Usage: gen_kat_blake2.py <outdir>"""
import hashlib, json, os, random, sys
out = sys.argv[1]
rnd = random.Random(20260928)
rb = lambda n: bytes(rnd.randrange(256) for _ in range(n))
limbs = lambda v, n: [(v >> (16*i)) & 0xffff for i in range(n)]

rows = []
def add(b, m, key=b'', outlen=None, fanout=1, depth=1, leaf=0, off=0, nd=0, inner=0, salt=b'', person=b'', last=False, expect=None):
    H = hashlib.blake2b if b else hashlib.blake2s
    if outlen is None: outlen = 64 if b else 32
    d = H(m, digest_size=outlen, key=key, salt=salt, person=person, fanout=fanout, depth=depth,
          leaf_size=leaf, node_offset=off, node_depth=nd, inner_size=inner, last_node=last).digest()
    if expect is not None: assert d == bytes.fromhex(expect)
    rows.append(dict(b=1 if b else 0, m=list(m), key=list(key), outlen=outlen, fanout=fanout, depth=depth,
                     leaf=limbs(leaf, 2), off=limbs(off, 4), nd=nd, inner=inner, salt=list(salt),
                     person=list(person), last=1 if last else 0, d=list(d)))

add(True, b'hello', expect='e4cfa39a3d37be31c59609e807970799caa68a19bfaa15135f165085e01d41a65ba1e1b146aeb6bd0092b49eac214c103ccfa3a365954bbbe52f74a2b3620c94')
add(False, b'hello', expect='19213bacc58dee6dbde3ceb9a47cbb330b3d86f8cca8997eb00be456f140ca25')
# RFC 7693 appendix A / B ("abc")
add(True, b'abc', expect='ba80a53f981c4d0d6a2797b69f12f6e94c212f14685ac4b74b12bb6fdbffa2d17d87c5392aab792dc252d5de4533cc9518d38aa8dbf1925ab92386edd4009923')
add(False, b'abc', expect='508c5e8c327c14e2e1a72ba34eeb452f37458b209ed63a294d999b4c86675982')

LENS = [0, 1, 63, 64, 65, 127, 128, 129, 256, 300]
for b in (True, False):
    B, mo, mk, sp = (128, 64, 64, 16) if b else (64, 32, 32, 8)
    offmax = 2**64 - 1 if b else 2**48 - 1
    # 1. plain, all boundary lengths
    for n in LENS: add(b, rb(n))
    # 2. digest sizes
    for o in ([1, 20, 32] if b else [1, 20]):
        for n in (0, 65, 129): add(b, rb(n), outlen=o)
    # 3. keys: the key block comes first; with an empty message it is also the last block
    for kl in (1, mk // 2, mk):
        for n in (0, 1, B - 1, B, B + 1): add(b, rb(n), key=rb(kl))
    add(b, rb(300), key=rb(mk), outlen=20)
    add(b, b'', key=b'\xff' * mk, outlen=1)
    # 4. salt / personalisation (full, short, with key)
    add(b, rb(10), salt=rb(sp))
    add(b, rb(10), person=rb(sp))
    add(b, rb(B), salt=rb(3), person=rb(sp - 1))
    add(b, rb(B + 1), salt=b'\xff' * sp, person=b'\xff' * sp, key=rb(mk), outlen=20)
    add(b, b'', salt=rb(sp), person=rb(sp))
    # 5. tree parameters, one at a time and all together
    add(b, rb(5), fanout=0)
    add(b, rb(5), fanout=2)
    add(b, rb(5), fanout=255, depth=255)
    add(b, rb(5), depth=2)
    add(b, rb(5), leaf=0x12345678)
    add(b, rb(5), leaf=0xffffffff)
    add(b, rb(5), off=1)
    add(b, rb(5), off=0x0123456789ab)
    add(b, rb(5), off=offmax)
    if b: add(b, rb(5), off=0xfedcba9876543210)
    add(b, rb(5), nd=1)
    add(b, rb(5), nd=255)
    add(b, rb(5), inner=mo)
    add(b, rb(5), inner=1)
    add(b, rb(5), last=True)
    add(b, b'', last=True)
    add(b, rb(2 * B), last=True)
    add(b, rb(2 * B + 1), last=True, key=rb(7))
    add(b, rb(B + 9), key=rb(5), outlen=mo - 1, fanout=2, depth=3, leaf=4096, off=offmax - 5, nd=2, inner=mo,
        salt=rb(sp), person=rb(sp), last=True)
    add(b, rb(B + 9), outlen=mo, fanout=2, depth=2, leaf=0, off=0, nd=1, inner=mo, last=True)   # a root node
    # 6. random
    for _ in range(6):
        add(b, rb(rnd.randrange(0, 3 * B)), key=rb(rnd.choice([0, rnd.randrange(1, mk + 1)])), outlen=rnd.randrange(1, mo + 1),
            fanout=rnd.randrange(256), depth=rnd.randrange(1, 256), leaf=rnd.getrandbits(32), off=rnd.getrandbits(64 if b else 48),
            nd=rnd.randrange(256), inner=rnd.randrange(mo + 1), salt=rb(rnd.randrange(sp + 1)), person=rb(rnd.randrange(sp + 1)),
            last=bool(rnd.getrandbits(1)))

with open(os.path.join(out, "blake2.ndjson"), "w") as f:
    for r in rows: f.write(json.dumps(r, separators=(',', ':')) + "\n")
print(len(rows), "cases")
