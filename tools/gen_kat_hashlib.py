#!/usr/bin/env python3
"""Freeze known answers for spec self-tests from implementations that are NOT crysp
(hashlib / zlib / hmac).  Deterministic.  Usage: gen_kat_hashlib.py <outdir>"""
import hashlib, json, sys, random, zlib, hmac
out = sys.argv[1]
rnd = random.Random(20260926)
def msgs(B):
    L = [0,1,3,B-18,B-17,B-16,B-10,B-9,B-8,B-1,B,B+1,2*B-9,2*B,2*B+5]
    L = sorted(set(x for x in L if x>=0))
    return [bytes(rnd.randrange(256) for _ in range(n)) for n in L]
def dump(name, rows):
    with open(f"{out}/{name}.ndjson","w") as f:
        for r in rows: f.write(json.dumps(r,separators=(',',':'))+"\n")
rows=[]
for alg,size,t,B in [("sha224",224,0,64),("sha256",256,0,64),("sha384",384,0,128),("sha512",512,0,128),
                     ("sha512_224",512,224,128),("sha512_256",512,256,128)]:
    for m in msgs(B)[:: (1 if size in (256,512) and t==0 else 3)]:
        rows.append(dict(alg=alg,size=size,t=t,m=list(m),d=list(hashlib.new(alg,m).digest())))
dump("sha2",rows)
rows=[]
for alg,v in [("sha1",1)]:
    for m in msgs(64): rows.append(dict(alg=alg,v=v,m=list(m),d=list(hashlib.new(alg,m).digest())))
dump("sha1",rows)
rows=[]
for m in msgs(64): rows.append(dict(alg="md5",m=list(m),d=list(hashlib.md5(m).digest())))
dump("md5",rows)
