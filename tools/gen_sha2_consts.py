#!/usr/bin/env python3
"""Derive the SHA-2 constants from their definition (FIPS 180-4 s.4.2.2/4.2.3, 5.3):
K = frac(cuberoot(prime_i)), IV = frac(sqrt(prime_i)), by exact integer arithmetic.
Prints TLA+ definitions (limb tuples, least significant limb first)."""
from math import isqrt
def primes(n):
    ps=[];c=2
    while len(ps)<n:
        if all(c%p for p in ps): ps.append(c)
        c+=1
    return ps
def icbrt(n):
    lo,hi=0,1<<((n.bit_length()+2)//3+1)
    while lo<hi:
        m=(lo+hi+1)//2
        if m*m*m<=n: lo=m
        else: hi=m-1
    return lo
def frac_sqrt(p,bits): return isqrt(p<<(2*bits)) & ((1<<bits)-1)
def frac_cbrt(p,bits): return icbrt(p<<(3*bits)) & ((1<<bits)-1)
def limbs(v,n): return "<<"+",".join(str((v>>(16*i))&0xffff) for i in range(n))+">>"
def seq(vals,n): return "<<"+",\n    ".join(limbs(v,n) for v in vals)+">>"
P=primes(80)
out=[]
out.append("K256 == "+seq([frac_cbrt(p,32) for p in P[:64]],2))
out.append("K512 == "+seq([frac_cbrt(p,64) for p in P[:80]],4))
out.append("IV256 == "+seq([frac_sqrt(p,32) for p in P[:8]],2))
out.append("IV224 == "+seq([frac_sqrt(p,64)&0xffffffff for p in P[8:16]],2))
out.append("IV512 == "+seq([frac_sqrt(p,64) for p in P[:8]],4))
out.append("IV384 == "+seq([frac_sqrt(p,64) for p in P[8:16]],4))
print("\n".join(out))
