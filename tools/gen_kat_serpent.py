#!/usr/bin/env python3
"""Freeze known answers for spec/selftest/ST_Serpent.tla.  Deterministic.
Sources (none is crysp code):
 - the three NESSIE vectors quoted in /repo/tests/test_serpent.py (literals below; checked against that
   file when it is readable),
 - tools/pyref/ref_serpent.py (from-memory reference, reproduces the NESSIE vectors); at generation time
   every answer is also cross-checked against libnettle's Serpent (encrypt and decrypt) when the library
   is installed.  Nothing depends on nettle afterwards: the output is frozen.
Usage: gen_kat_serpent.py <outdir>      (writes <outdir>/serpent.ndjson)"""
import json, os, random, re, sys, ctypes, ctypes.util
sys.path.insert(0, os.path.join(os.path.dirname(os.path.abspath(__file__)), 'pyref'))
from ref_serpent import enc
out = sys.argv[1]
rnd = random.Random(20260926)
rb = lambda n: bytes(rnd.randrange(256) for _ in range(n))

OFFICIAL = [  # NESSIE 256-bit-key vectors: set 1 #0, set 1 #1, key = block = 0x11.. (set 3 #17): key, pt, ct
    ("80" + "00"*31, "00"*16, "A223AA1288463C0E2BE38EBD825616C0"),
    ("40" + "00"*31, "00"*16, "EAE1D405570174DF7DF2F9966D509159"),
    ("11"*32,        "11"*16, "A482EAA5D5771F2FDB2EA1A5F141B9E2"),
]
tf = '/repo/tests/test_serpent.py'
if os.path.exists(tf):
    hexes = [h.upper() for h in re.findall(r'codecs\.decode\("([0-9A-Fa-f]+)"', open(tf).read())]
    assert hexes == [x.upper() for v in OFFICIAL for x in v], "literals differ from " + tf

nettle = None
try:
    nettle = ctypes.CDLL(ctypes.util.find_library('nettle') or 'libnettle.so.8')
    nettle.nettle_serpent_set_key
except (OSError, AttributeError):
    nettle = None
def nettle_check(K, P, C):
    if nettle is None: return
    ctx = ctypes.create_string_buffer(1024)
    nettle.nettle_serpent_set_key(ctx, ctypes.c_size_t(len(K)), K)
    o = ctypes.create_string_buffer(16)
    nettle.nettle_serpent_encrypt(ctx, ctypes.c_size_t(16), o, P)
    assert o.raw == C, ("nettle enc", K.hex(), P.hex())
    nettle.nettle_serpent_decrypt(ctx, ctypes.c_size_t(16), o, C)
    assert o.raw == P, ("nettle dec", K.hex(), P.hex())

rows = []
def add(src, K, P, C=None):
    c = enc(K, P)
    if C is not None: assert c == C, (src, K.hex())
    nettle_check(K, P, c)
    rows.append(dict(src=src, key=list(K), pt=list(P), ct=list(c)))

for k, p, c in OFFICIAL:
    add("nessie", bytes.fromhex(k), bytes.fromhex(p), bytes.fromhex(c))
for n in range(1, 33):                       # every key length, random key and block
    add("len%d" % n, rb(n), rb(16))
def one(n, bit):                             # n bytes, only bit `bit` set (bit 0 = msb of first byte, NESSIE style)
    b = bytearray(n); b[bit // 8] = 0x80 >> (bit % 8); return bytes(b)
for n in (16, 24, 32):
    z, f = bytes(n), b'\xff'*n
    add("zero%d" % (8*n), z, bytes(16))
    add("ones%d" % (8*n), f, b'\xff'*16)
    add("wkey%d" % (8*n), one(n, 8*n - 1), bytes(16))          # last key bit (lsb of last byte)
    add("wkey%d" % (8*n), one(n, 8*(n//2) + 3), bytes(16))     # a middle key bit
    add("wblk%d" % (8*n), z, one(16, 0))
    add("wblk%d" % (8*n), z, one(16, 127))
    add("rand%d" % (8*n), rb(n), rb(16))
    add("rand%d" % (8*n), rb(n), rb(16))
with open(os.path.join(out, "serpent.ndjson"), "w") as fh:
    for r in rows: fh.write(json.dumps(r, separators=(',', ':')) + "\n")
print("serpent.ndjson: %d cases, nettle cross-check %s" % (len(rows), "done" if nettle else "SKIPPED (no libnettle)"))
