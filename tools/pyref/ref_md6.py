# MD6 from memory of the MD6 report (Rivest et al. 2008)
import struct
from math import isqrt
M64=(1<<64)-1
# Q = fractional part of sqrt(6), 15 words
def qwords():
    bits=64*15
    f=isqrt(6<<(2*bits))-(2<<bits)
    return [(f>>(bits-64*(i+1)))&M64 for i in range(15)]
Q=qwords()
RS=[10,5,13,10,11,12,2,7,14,15,7,13,11,7,6,12]
LS=[11,24,9,16,15,9,27,15,6,2,29,8,15,5,31,9]
T0,T1,T2,T3,T4=17,18,21,31,67
def f(N,r):
    A=list(N); S=0x0123456789abcdef; Sm=0x7311c2812425cfa0
    n=89
    for j in range(r):
        for s in range(16):
            i=n+16*j+s
            x=S^A[i-n]^A[i-T0]
            x^=(A[i-T1]&A[i-T2])^(A[i-T3]&A[i-T4])
            x^=x>>RS[s]
            x=(x^(x<<LS[s]))&M64
            A.append(x)
        S=(((S<<1)|(S>>63))&M64)^(S&Sm)
    return A[-16:]
def md6(d,M,bitlen=None,K=b'',L=64,r=None):
    if r is None:
        r=40+d//4
        if K: r=max(80,r)
    keylen=len(K); Kw=list(struct.unpack('>8Q',K.ljust(64,b'\0')))
    if bitlen is None: bitlen=8*len(M)
    # message as bit count + bytes (zero the bits beyond bitlen)
    nbytes=(bitlen+7)//8; M=bytearray(M[:nbytes])
    if bitlen%8: M[-1]&=(0xff<<(8-bitlen%8))&0xff
    M=bytes(M)
    def V(z,p): return (r<<48)|(L<<40)|(z<<36)|(p<<20)|(keylen<<12)|d
    def U(l,i): return (l<<56)|i
    def words(b): return list(struct.unpack('>%dQ'%(len(b)//8),b))
    def PAR(l,data,nbits):
        # data: bytes, nbits: number of bits
        nblk=max(1,(nbits+4095)//4096)
        padded=data.ljust(nblk*512,b'\0')
        out=b''
        for i in range(nblk):
            p=0
            if i==nblk-1: p=nblk*4096-nbits
            z=1 if nblk==1 else 0
            N=Q+Kw+[U(l,i),V(z,p)]+words(padded[i*512:(i+1)*512])
            out+=struct.pack('>16Q',*f(N,r))
        return out,len(out)*8
    def SEQ(l,data,nbits):
        nblk=max(1,(nbits+3071)//3072)
        padded=data.ljust(nblk*384,b'\0')
        C=[0]*16
        for i in range(nblk):
            p=0; z=0
            if i==nblk-1: p=nblk*3072-nbits; z=1
            N=Q+Kw+[U(l,i),V(z,p)]+C+words(padded[i*384:(i+1)*384])
            C=f(N,r)
        return struct.pack('>16Q',*C)
    l=0; data=M; nbits=bitlen
    while True:
        l+=1
        if l==L+1:
            h=SEQ(l,data,nbits); break
        data,nbits=PAR(l,data,nbits)
        if nbits==1024:
            h=data; break
    x=int.from_bytes(h,'big')&((1<<d)-1)
    # last d bits, left-aligned into bytes
    nb=(d+7)//8
    return ((x<<(8*nb-d))).to_bytes(nb,'big')
if __name__=='__main__':
    import random, codecs
    from crysp.md import MD6
    # official vector check of the reference itself
    print('abc r5:', md6(256,b'abc',L=64,r=5).hex()=="8854c14dc284f840ed71ad7ba542855ce189633e48c797a55121a746be48cec8")
    random.seed(3); rb=lambda n:bytes(random.getrandbits(8) for _ in range(n))
    from collections import Counter
    c=Counter(); ex={}
    for d in (1,8,160,224,256,384,511,512):
      for L in (0,1,2,3,64):
        for K in (b'',b'k',rb(64)):
          for ln in (0,1,383,384,385,511,512,513,1024,2048,2049,6000):
            for r in (1,5):
              for bl in (None,'odd','full'):
                if ln==0 and bl: continue
                if d not in (256,511) and (K==b'k' or r==1): continue
                if ln==6000 and d!=256: continue
                M=rb(ln); bitlen=None if bl is None else (8*ln-3 if bl=='odd' else 8*ln)
                h=MD6(d,K,L); h.rounds=r
                try: got=h(M,bitlen)
                except Exception as e: got='EXC '+type(e).__name__
                exp=md6(d,M,bitlen,K,L,r)
                nl=1 if ln<=512 else 2
                tag='L=%d %s %s'%(L,'bitlen='+str(bl),'multi' if ln>512 else 'single')
                if got!=exp:
                    tag2=tag+(' d%%8=%d'%(d%8))
                    c[tag2+' DIFF']+=1; ex.setdefault(tag2,(d,L,len(K),ln,r,bl,got if isinstance(got,str) else got.hex()[:16],exp.hex()[:16]))
                else: c[tag+' OK']+=1
    for k,v in sorted(c.items()): print(k,v)
    for k,v in list(ex.items())[:14]: print('EX',k,v)
