# BLAKE (SHA-3 final round version) from memory of the submission; constants derived
import struct, hashlib
from math import isqrt
def pi_hex_words(n64):
    # hex digits of pi fractional part via Machin, integer arithmetic
    prec=64*n64+64
    def arctan_inv(x):
        one=1<<prec; t=one//x; s=t; k=1; x2=x*x; sign=-1
        while t:
            t//=x2; k+=2; s+=sign*(t//k); sign=-sign
        return s
    pi=4*(4*arctan_inv(5)-arctan_inv(239))
    frac=pi-(3<<prec)
    return [(frac>>(prec-64*(i+1)))&((1<<64)-1) for i in range(n64)]
C64=pi_hex_words(16)
C32=[]
for w in C64[:8]: C32+=[w>>32,w&0xffffffff]
SIG=[[0,1,2,3,4,5,6,7,8,9,10,11,12,13,14,15],[14,10,4,8,9,15,13,6,1,12,0,2,11,7,5,3],[11,8,12,0,5,2,15,13,10,14,3,6,7,1,9,4],
[7,9,3,1,13,12,11,14,2,6,5,10,4,0,15,8],[9,0,5,7,2,4,10,15,14,1,11,12,6,8,3,13],[2,12,6,10,0,11,8,3,4,13,7,5,15,14,1,9],
[12,5,1,15,14,13,4,10,0,7,6,3,9,2,8,11],[13,11,7,14,12,1,3,9,5,0,15,4,8,6,2,10],[6,15,14,9,11,3,0,8,12,2,13,7,1,4,10,5],[10,2,8,4,7,6,1,5,15,11,9,14,3,12,13,0]]
def primes(n):
    p=[];k=2
    while len(p)<n:
        if all(k%q for q in p): p.append(k)
        k+=1
    return p
def frac_sqrt(p,bits): return isqrt(p<<(2*bits))&((1<<bits)-1)
IV={256:[frac_sqrt(p,32) for p in primes(8)],512:[frac_sqrt(p,64) for p in primes(8)],
    224:[frac_sqrt(p,64)&0xffffffff for p in primes(16)[8:]],384:[frac_sqrt(p,64) for p in primes(16)[8:]]}
def blake(hs,bits,salt=(0,0,0,0)):
    # bits: list of message bits (MSB first)
    big=hs>256; w=64 if big else 32; M=(1<<w)-1; B=16*w; rounds=16 if big else 14
    C=C64 if big else C32; R=(32,25,16,11) if big else (16,12,8,7)
    ror=lambda x,n:((x>>n)|(x<<(w-n)))&M
    L=len(bits)
    pad=bits+[1]+[0]*((B-2-2*w-L)%B)+[1 if hs in (256,512) else 0]+[(L>>(2*w-1-i))&1 for i in range(2*w)]
    h=list(IV[hs]); nblk=len(pad)//B
    for i in range(nblk):
        blk=pad[i*B:(i+1)*B]
        m=[int(''.join(map(str,blk[j*w:(j+1)*w])),2) for j in range(16)]
        t=min(L,(i+1)*B) if i*B<L else 0
        if L==0 and i==0: t=0
        t0,t1=t&M,(t>>w)&M
        v=h+[salt[0]^C[0],salt[1]^C[1],salt[2]^C[2],salt[3]^C[3],t0^C[4],t0^C[5],t1^C[6],t1^C[7]]
        def G(a,b,c,d,r,i):
            s=SIG[r%10]
            v[a]=(v[a]+v[b]+(m[s[2*i]]^C[s[2*i+1]]))&M; v[d]=ror(v[d]^v[a],R[0])
            v[c]=(v[c]+v[d])&M; v[b]=ror(v[b]^v[c],R[1])
            v[a]=(v[a]+v[b]+(m[s[2*i+1]]^C[s[2*i]]))&M; v[d]=ror(v[d]^v[a],R[2])
            v[c]=(v[c]+v[d])&M; v[b]=ror(v[b]^v[c],R[3])
        for r in range(rounds):
            G(0,4,8,12,r,0);G(1,5,9,13,r,1);G(2,6,10,14,r,2);G(3,7,11,15,r,3)
            G(0,5,10,15,r,4);G(1,6,11,12,r,5);G(2,7,8,13,r,6);G(3,4,9,14,r,7)
        h=[h[j]^salt[j%4]^v[j]^v[j+8] for j in range(8)]
    out=b''.join(x.to_bytes(w//8,'big') for x in h)
    return out[:hs//8]
def bits_of(M,L): return [(M[i//8]>>(7-i%8))&1 for i in range(L)]
if __name__=='__main__':
    import random
    from crysp.blake import Blake
    assert hashlib.sha256(b'').digest() # noop
    print('C64[0]=%x'%C64[0], 'IV256[0]=%x'%IV[256][0], 'IV224[0]=%x'%IV[224][0])
    random.seed(1); bad=0; n=0
    for hs in (224,256,384,512):
        bl=128 if hs>256 else 64
        for ln in list(range(0,2*bl+3))+[3*bl,3*bl+1]:
            M=bytes(random.getrandbits(8) for _ in range(ln))
            for L in ([None]+([8*ln-3,8*ln-7] if ln else [])):
                for s in (0,random.getrandbits(4*(64 if hs>256 else 32))):
                    w=64 if hs>256 else 32
                    salt=[(s>>(w*(3-i)))&((1<<w)-1) for i in range(4)]
                    n+=1
                    try: got=Blake(hs)(M,s,L)
                    except Exception as e: got=repr(e)
                    exp=blake(hs,bits_of(M,8*ln if L is None else L),salt)
                    if got!=exp:
                        bad+=1
                        if bad<8: print('MISMATCH',hs,ln,L,hex(s)[:12],got if isinstance(got,str) else got.hex()[:16],exp.hex()[:16])
    print('cases',n,'bad',bad)
