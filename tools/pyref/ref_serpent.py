# Serpent (bitslice description) from memory of the AES submission
SB=[[3,8,15,1,10,6,5,11,14,13,4,2,7,0,9,12],[15,12,2,7,9,0,5,10,1,11,14,8,6,13,3,4],[8,6,7,9,3,12,10,15,13,1,14,4,0,11,5,2],
[0,15,11,8,12,9,6,3,13,1,2,4,10,7,5,14],[1,15,8,3,12,0,11,6,2,5,4,10,9,14,7,13],[15,5,2,11,4,10,9,12,0,3,14,8,13,6,7,1],
[7,2,12,5,8,4,6,11,14,9,1,15,13,3,10,0],[1,13,15,0,14,8,2,11,7,4,12,10,9,3,5,6]]
M=0xffffffff
rol=lambda x,n:((x<<n)|(x>>(32-n)))&M
def sbox(i,w):  # bitslice: bit j of the 4 words form a nibble (w0 = lsb)
    o=[0,0,0,0]
    for j in range(32):
        n=((w[0]>>j)&1)|(((w[1]>>j)&1)<<1)|(((w[2]>>j)&1)<<2)|(((w[3]>>j)&1)<<3)
        s=SB[i][n]
        for k in range(4): o[k]|=((s>>k)&1)<<j
    return o
def LT(x):
    x0,x1,x2,x3=x
    x0=rol(x0,13); x2=rol(x2,3); x1^=x0^x2; x3^=x2^((x0<<3)&M)
    x1=rol(x1,1); x3=rol(x3,7); x0^=x1^x3; x2^=x3^((x1<<7)&M)
    x0=rol(x0,5); x2=rol(x2,22)
    return [x0,x1,x2,x3]
def keys(K):
    # K bytes little-endian integer; pad with 1 then zeros to 256 bits if shorter
    k=int.from_bytes(K,'little'); n=8*len(K)
    if n<256: k|=1<<n
    w=[(k>>(32*i))&M for i in range(8)]
    for i in range(132):
        w.append(rol(w[i]^w[i+3]^w[i+5]^w[i+7]^0x9e3779b9^i,11))
    w=w[8:]
    rk=[]
    for i in range(33):
        rk.append(sbox((3-i)%8,w[4*i:4*i+4]))
    return rk
def enc(K,P):
    rk=keys(K); x=[int.from_bytes(P[4*i:4*i+4],'little') for i in range(4)]
    for r in range(32):
        x=[a^b for a,b in zip(x,rk[r])]
        x=sbox(r%8,x)
        if r<31: x=LT(x)
        else: x=[a^b for a,b in zip(x,rk[32])]
    return b''.join(a.to_bytes(4,'little') for a in x)
if __name__=='__main__':
    import random
    from crysp.serpent import Serpent
    random.seed(5); rb=lambda n:bytes(random.getrandbits(8) for _ in range(n))
    bad={}
    for kl in range(1,33):
        for _ in range(2):
            K,P=rb(kl),rb(16)
            try: g=Serpent(K).enc(P)
            except Exception as e: g='EXC'
            if g!=enc(K,P): bad[kl]=bad.get(kl,0)+1
    print('bad by keylen',bad)
    K,P=rb(32),rb(16); S=Serpent(K); print('rt',S.dec(S.enc(P))==P)
