import random, hashlib
from collections import Counter
from crysp.keccak import Keccak
random.seed(5)
bad=[]
def chk(name,cond,info=''):
    if not cond: bad.append((name,info))
# reference Keccak from the spec (lanes as ints), derived constants
def rc_bits():
    R=1; out=[]
    for t in range(255):
        out.append(R&1)
        R<<=1
        if R&0x100: R^=0x171
    return out
RCB=rc_bits()
def RCf(ir,w,l):
    v=0
    for j in range(l+1):
        if RCB[(j+7*ir)%255]: v|=1<<((1<<j)-1)
    return v
def rho_offsets():
    r={(0,0):0}; x,y=1,0
    for t in range(24):
        r[(x,y)]=((t+1)*(t+2)//2)
        x,y=y,(2*x+3*y)%5
    return r
RHO=rho_offsets()
def keccak_f(A,w):
    l={1:0,2:1,4:2,8:3,16:4,32:5,64:6}[w]; M=(1<<w)-1
    rot=lambda v,n:((v<<(n%w))|(v>>(w-(n%w))))&M if n%w else v
    for ir in range(12+2*l):
        C=[A[x][0]^A[x][1]^A[x][2]^A[x][3]^A[x][4] for x in range(5)]
        D=[C[(x-1)%5]^rot(C[(x+1)%5],1) for x in range(5)]
        A=[[A[x][y]^D[x] for y in range(5)] for x in range(5)]
        B=[[0]*5 for _ in range(5)]
        for x in range(5):
            for y in range(5):
                B[y][(2*x+3*y)%5]=rot(A[x][y],RHO[(x,y)])
        A=[[B[x][y]^((~B[(x+1)%5][y])&M&B[(x+2)%5][y]) for y in range(5)] for x in range(5)]
        A[0][0]^=RCf(ir,w,l)
    return A
def sponge(b,r,bits,d):
    w=b//25
    P=bits+[1]+[0]*((-len(bits)-2)%r)+[1]
    A=[[0]*5 for _ in range(5)]
    def xorin(blk):
        for i,bit in enumerate(blk):
            if bit:
                lane,z=divmod(i,w); x,y=lane%5,lane//5
                A[x][y]^=1<<z
    def out():
        o=[]
        for i in range(r):
            lane,z=divmod(i,w); x,y=lane%5,lane//5
            o.append((A[x][y]>>z)&1)
        return o
    for i in range(0,len(P),r):
        xorin(P[i:i+r]); A[:]=keccak_f(A,w)
    Z=out()
    while len(Z)<d:
        A[:]=keccak_f(A,w); Z+=out()
    return Z[:d]
def bits_lsb(M,L): return [(M[i//8]>>(i%8))&1 for i in range(L)]
def bits_nist(M,L):
    full=L//8; bits=bits_lsb(M,8*full); n=L%8
    if n:
        v=M[full]>>(8-n); bits+=[(v>>i)&1 for i in range(n)]
    return bits
def pack_bits(bits):
    b=bytearray((len(bits)+7)//8)
    for i,x in enumerate(bits):
        if x: b[i//8]|=1<<(i%8)
    return bytes(b)
# sanity of reference: sha3-256
M=b'abc'; assert pack_bits(sponge(1600,1088,bits_lsb(M,24)+[0,1],256))==hashlib.sha3_256(M).digest()
n=0
for b in (25,50,100,200,400,800,1600):
    rates=sorted(set([1,2,7,8,9,15,16,17,b//2,b-9,b-8,b-2,b-1]+[random.randrange(1,b) for _ in range(3)]))
    for r in rates:
        if not (0<r<b and r<=1536): continue
        for L in sorted(set([0,1,7,8,9,r-2,r-1,r,r+1,2*r-1,2*r,2*r+5])):
            if L<0: continue
            if b>=800 and L>r+1: continue
            nb=(L+7)//8
            Mb=bytes(random.getrandbits(8) for _ in range(nb))
            for d in sorted(set([1,8,r-1,r,r+1,2*r+3])):
                if d<1: continue
                if b>=800 and d>r+1: continue
                for mode in ('nist','native'):
                    if L==0 and nb==0 and mode=='native': continue
                    n+=1
                    try:
                        h=Keccak(b=b,r=r,len=d)
                        if mode=='native': h.duplexing=True
                        got=h(Mb,bitlen=L)
                        bits=bits_nist(Mb,L) if mode=='nist' else bits_lsb(Mb,L)
                        exp=pack_bits(sponge(b,r,bits,d))
                        if got!=exp:
                            cls='r<8' if r<8 else ('L%r==r-1' if L%r==r-1 else 'other')
                            bad.append(('wrong '+cls,(b,r,L,d,mode)))
                    except Exception as ex:
                        cls='r<8' if r<8 else ('L%r==r-1' if L%r==r-1 else 'other')
                        bad.append(('exc '+cls+' '+type(ex).__name__,(b,r,L,d,mode,str(ex)[:40])))
print('cases',n,'bad',len(bad))
c=Counter(k for k,_ in bad)
for k,v in sorted(c.items()): print(k,v,[i for kk,i in bad if kk==k][:5])
