# Threefish / UBI / Skein 1.3 from memory of the specification
import struct
M64=(1<<64)-1
ROT={4:((14,16),(52,57),(23,40),(5,37),(25,33),(46,12),(58,22),(32,32)),
 8:((46,36,19,37),(33,27,14,42),(17,49,36,39),(44,9,54,56),(39,30,34,24),(13,50,10,17),(25,29,39,43),(8,35,56,22)),
 16:((24,13,8,47,8,17,22,37),(38,19,10,55,49,18,23,52),(33,4,51,13,34,41,59,17),(5,20,48,41,47,28,16,25),
     (41,9,37,31,12,47,44,30),(16,34,56,51,4,53,42,41),(31,44,47,46,19,42,44,25),(9,48,35,52,23,31,37,20))}
PERM={4:(0,3,2,1),8:(2,1,4,7,6,5,0,3),16:(0,9,2,13,6,11,4,15,10,7,12,3,14,5,8,1)}
def threefish_enc(key,tweak,pt):
    nw=len(key)//8; k=list(struct.unpack('<%dQ'%nw,key)); t=list(struct.unpack('<2Q',tweak))
    kx=0x1BD11BDAA9FC1A22
    for x in k: kx^=x
    k.append(kx); t.append(t[0]^t[1])
    v=list(struct.unpack('<%dQ'%nw,pt)); nr=80 if nw==16 else 72
    def sub(s):
        ks=[k[(s+i)%(nw+1)] for i in range(nw)]
        ks[nw-3]=(ks[nw-3]+t[s%3])&M64; ks[nw-2]=(ks[nw-2]+t[(s+1)%3])&M64; ks[nw-1]=(ks[nw-1]+s)&M64
        return ks
    for d in range(nr):
        if d%4==0:
            ks=sub(d//4); v=[(a+b)&M64 for a,b in zip(v,ks)]
        f=[0]*nw
        for j in range(nw//2):
            x0,x1=v[2*j],v[2*j+1]; y0=(x0+x1)&M64; r=ROT[nw][d%8][j]
            y1=(((x1<<r)|(x1>>(64-r)))&M64)^y0
            f[2*j],f[2*j+1]=y0,y1
        v=[f[PERM[nw][i]] for i in range(nw)]
    ks=sub(nr//4); v=[(a+b)&M64 for a,b in zip(v,ks)]
    return struct.pack('<%dQ'%nw,*v)
T_KEY,T_CFG,T_PRS,T_PK,T_KDF,T_NON,T_MSG,T_OUT=0,4,8,12,16,20,48,63
def ubi(G,M,typ,level=0,pos0=0,bitlen=None):
    nb=len(G)
    if bitlen is None: bitlen=8*len(M); B=0
    else:
        B=1 if bitlen%8 else 0
        nbytes=(bitlen+7)//8; M=bytearray(M[:nbytes])
        if B:
            r=bitlen%8; M[-1]=(M[-1]&((0xff<<(8-r))&0xff))|(0x80>>r)
        M=bytes(M)
    nm=len(M)
    k=max(1,(nm+nb-1)//nb)
    Mp=M+bytes(k*nb-nm)
    H=G
    for i in range(k):
        blk=Mp[i*nb:(i+1)*nb]
        pos=pos0+min(nm,(i+1)*nb)
        first=1 if i==0 else 0; final=1 if i==k-1 else 0
        tw=pos | (level<<112) | ((B if final else 0)<<119) | (typ<<120) | (first<<126) | (final<<127)
        E=threefish_enc(H,tw.to_bytes(16,'little'),blk)
        H=bytes(a^b for a,b in zip(E,blk))
    return H
def skein(Nb,No,M,bitlen=None,key=None,prs=None,PK=None,kdf=None,nonce=None,Yl=0,Yf=0,Ym=0):
    nb=Nb//8
    G=bytes(nb)
    if key: G=ubi(G,key,T_KEY)
    C=b'SHA3'+struct.pack('<HH',1,0)+struct.pack('<Q',No)+bytes([Yl,Yf,Ym])+bytes(13)
    G=ubi(G,C,T_CFG)
    if prs: G=ubi(G,prs,T_PRS)
    if PK: G=ubi(G,PK,T_PK)
    if kdf: G=ubi(G,kdf,T_KDF)
    if nonce: G=ubi(G,nonce,T_NON)
    if Yl==Yf==Ym==0:
        G=ubi(G,M,T_MSG,bitlen=bitlen)
    else:
        nl=nb<<Yl; nn=nb<<Yf
        nbytes=len(M) if bitlen is None else (bitlen+7)//8
        M=M[:nbytes]
        leaves=[M[i:i+nl] for i in range(0,len(M),nl)] or [b'']
        lvl=[]
        for i,m in enumerate(leaves):
            bl=None
            if bitlen is not None and i==len(leaves)-1 and bitlen%8: bl=bitlen-8*i*nl
            lvl.append(ubi(G,m,T_MSG,level=1,pos0=i*nl,bitlen=bl))
        cur=b''.join(lvl); l=1
        while len(cur)>nb:
            l+=1
            if l==Ym:
                cur=ubi(G,cur,T_MSG,level=l); break
            nodes=[cur[i:i+nn] for i in range(0,len(cur),nn)]
            cur=b''.join(ubi(G,m,T_MSG,level=l,pos0=i*nn) for i,m in enumerate(nodes))
        G=cur
    out=b''; i=0; no=(No+7)//8
    while len(out)<no:
        out+=ubi(G,struct.pack('<Q',i),T_OUT); i+=1
    return out[:no]
if __name__=='__main__':
    import random
    from crysp.threefish import Threefish
    from crysp.skein import Skein
    random.seed(2)
    rb=lambda n:bytes(random.getrandbits(8) for _ in range(n))
    bad=0
    for nw in (4,8,16):
        for _ in range(5):
            k,t,p=rb(8*nw),rb(16),rb(8*nw)
            if Threefish(k,t).enc(p)!=threefish_enc(k,t,p): bad+=1
    print('threefish mismatches',bad)
    from collections import Counter
    c=Counter(); ex={}
    def cmp(tag,kw,M,bitlen=None):
        try: got=Skein(**kw)(M,bitlen)
        except Exception as e: got='EXC '+type(e).__name__
        kw2=dict(kw); kw2['nonce']=kw2.pop('nonce',None)
        exp=skein(kw['Nb'],kw['No'],M,bitlen,**{k:v for k,v in kw.items() if k not in('Nb','No')})
        c[tag+(' OK' if got==exp else ' DIFF')]+=1
        if got!=exp: ex.setdefault(tag,(kw,len(M),bitlen,got if isinstance(got,str) else got.hex()[:16],exp.hex()[:16]))
    for Nb in (256,512,1024):
        nb=Nb//8
        for ln in [0,1,nb-1,nb,nb+1,2*nb,2*nb+5,3*nb]:
            M=rb(ln)
            cmp('plain',dict(Nb=Nb,No=Nb),M)
            cmp('No small',dict(Nb=Nb,No=64),M)
            cmp('No>Nb',dict(Nb=Nb,No=2*Nb+64),M)
            if ln:
                cmp('bitlen%8!=0',dict(Nb=Nb,No=Nb),M,8*ln-3)
                cmp('bitlen%8==0',dict(Nb=Nb,No=Nb),M,8*ln)
            cmp('key short',dict(Nb=Nb,No=Nb,key=b'k'),M)
            cmp('key long',dict(Nb=Nb,No=Nb,key=rb(nb+3)),M)
            cmp('key empty',dict(Nb=Nb,No=Nb,key=b''),M)
            cmp('prs+nonce',dict(Nb=Nb,No=Nb,prs=b'pers',nonce=rb(20)),M)
            cmp('PK+kdf',dict(Nb=Nb,No=Nb,PK=rb(40),kdf=b'kdf-id'),M)
    for (Yl,Yf,Ym) in [(1,1,2),(1,1,3),(1,2,4),(2,1,3),(1,1,4),(3,3,2)]:
        nb=32
        for ln in [0,1,63,64,65,128,129,300,520,1100]:
            M=rb(ln)
            cmp('tree %d%d%d'%(Yl,Yf,Ym)+(' empty' if ln==0 else ''),dict(Nb=256,No=256,Yl=Yl,Yf=Yf,Ym=Ym),M)
        cmp('tree bitlen',dict(Nb=256,No=256,Yl=Yl,Yf=Yf,Ym=Ym),rb(200),1597)
    for k,v in sorted(c.items()): print(k,v)
    for k,v in ex.items(): print('EX',k,v)
