------------------------------ MODULE Combinat ------------------------------
(***************************************************************************)
(* Permutations, lexicographic successor, combinations and subset sums -    *)
(* what crysp/utils/perms.py and knapsack.py are specified to compute (C20).*)
(***************************************************************************)
EXTENDS Naturals, Sequences, FiniteSets, TLC

RECURSIVE Fact(_)
Fact(n) == IF n <= 1 THEN 1 ELSE n * Fact(n-1)
Count(s, x) == Cardinality({i \in 1..Len(s) : s[i] = x})
SameBag(s, t) == Len(s) = Len(t) /\ \A i \in 1..Len(s) : Count(s, s[i]) = Count(t, s[i])
\* lexicographic order on equally long integer sequences
RECURSIVE LexLess(_,_,_)
LexLess(a, b, i) == IF i > Len(a) THEN FALSE ELSE IF a[i] < b[i] THEN TRUE ELSE IF a[i] > b[i] THEN FALSE ELSE LexLess(a, b, i+1)
Less(a, b) == LexLess(a, b, 1)

\* ---- permutk(l, k): every arrangement of the tail l[k:], prefix fixed -----------------
\* x is an arrangement of l that keeps the first k elements
IsArrangement(l, k, x) == SameBag(x, l) /\ SubSeq(x, 1, k) = SubSeq(l, 1, k)
\* how often one arrangement must occur when POSITIONS are permuted: product of factorials of the multiplicities in the tail
Multiplicity(l, k) == LET tail == SubSeq(l, k+1, Len(l))
                          vals == {tail[i] : i \in 1..Len(tail)}
                          RECURSIVE Prod(_)
                          Prod(S) == IF S = {} THEN 1 ELSE LET v == CHOOSE v \in S : TRUE IN Fact(Count(tail, v)) * Prod(S \ {v})
                      IN Prod(vals)
\* obs: the sequence of lists yielded
PermutkOk(l, k, obs) ==
  LET S == {obs[i] : i \in 1..Len(obs)}  c == Multiplicity(l, k) IN
  /\ Len(obs) = Fact(Len(l) - k)
  /\ \A x \in S : IsArrangement(l, k, x)
  /\ Cardinality(S) * c = Len(obs)
  /\ (c > 1 => \A x \in S : Count(obs, x) = c)              \* c = 1: |S| = Len(obs) already says "exactly once"

\* ---- nextperm(l): lexicographic successor, the last arrangement wraps to the first ---------
Swap(s, i, j) == [s EXCEPT ![i] = s[j], ![j] = s[i]]
RECURSIVE RevFrom(_,_,_)
RevFrom(s, lo, hi) == IF lo >= hi THEN s ELSE RevFrom(Swap(s, lo, hi), lo+1, hi-1)
NextPerm(l) ==
  LET n == Len(l)
      K == {k \in 1..(n-1) : l[k] < l[k+1]}
  IN IF K = {} THEN RevFrom(l, 1, n)                                   \* last arrangement -> first (ascending)
     ELSE LET k == CHOOSE k \in K : \A k2 \in K : k2 <= k
              j == CHOOSE j \in (k+1)..n : l[j] > l[k] /\ \A j2 \in (k+1)..n : l[j2] > l[k] => j2 <= j
          IN RevFrom(Swap(l, k, j), k+1, n)
\* the definition it must agree with: least arrangement greater than l, else the least of all
RECURSIVE PermsOf(_)
PermsOf(s) == IF Len(s) = 0 THEN {<<>>}
              ELSE UNION { {<<s[i]>> \o p : p \in PermsOf(SubSeq(s, 1, i-1) \o SubSeq(s, i+1, Len(s)))} : i \in 1..Len(s) }
SuccessorByDefinition(l) ==
  LET S == PermsOf(l)  G == {x \in S : Less(l, x)} IN
  IF G = {} THEN CHOOSE x \in S : \A y \in S : x = y \/ Less(x, y)
  ELSE CHOOSE x \in G : \A y \in G : x = y \/ Less(x, y)

\* ---- combink(l, p, 0): p-subsets in index order -------------------------------------------
RECURSIVE CombIdx(_,_,_)
\* all strictly increasing index sequences of length p over lo..n, in lexicographic order
CombIdx(lo, n, p) == IF p = 0 THEN << <<>> >>
                     ELSE IF lo > n THEN <<>>
                     ELSE LET with == CombIdx(lo+1, n, p-1)  F(i) == <<lo>> \o with[i]
                          IN [i \in 1..Len(with) |-> F(i)] \o CombIdx(lo+1, n, p)
Combinations(l, p) == LET idx == CombIdx(1, Len(l), p) IN [i \in 1..Len(idx) |-> [j \in 1..p |-> l[idx[i][j]]]]

\* ---- subset sums: items are <<id, weight>> pairs ---------------------------------------------
RECURSIVE SumW(_,_)
SumW(items, S) == IF S = {} THEN 0 ELSE LET i == CHOOSE i \in S : TRUE IN items[i][2] + SumW(items, S \ {i})
Solutions(items, s) == {S \in SUBSET (1..Len(items)) : SumW(items, S) = s}
Solvable(items, s) == Solutions(items, s) # {}
\* the same by the reachable-sums recurrence (for lists too long to enumerate their sub-collections)
RECURSIVE ReachSums(_,_,_)
ReachSums(items, s, i) == IF i = 0 THEN {0}
                          ELSE LET R == ReachSums(items, s, i - 1)  w == items[i][2] IN R \cup {x + w : x \in {y \in R : y + w <= s}}
SolvableDP(items, s) == s \in ReachSums(items, s, Len(items))
MinCard(items, s) == LET Z == Solutions(items, s) IN CHOOSE c \in 0..Len(items) : (\E S \in Z : Cardinality(S) = c) /\ \A S \in Z : Cardinality(S) >= c
\* res is a sub-collection of items (as bags) with total weight s
RECURSIVE SumSeq(_,_)
SumSeq(res, i) == IF i > Len(res) THEN 0 ELSE res[i][2] + SumSeq(res, i+1)
IsSubCollection(items, res) == \A i \in 1..Len(res) : Count(res, res[i]) <= Count(items, res[i])
AnswerOk(items, s, res) == IsSubCollection(items, res) /\ SumSeq(res, 1) = s
=============================================================================
