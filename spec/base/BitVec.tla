------------------------------- MODULE BitVec -------------------------------
(***************************************************************************)
(* The value denoted by a crysp `Bits` object: a finite sequence of bits,   *)
(* bit 0 first (b[1] is bit 0).  Every constructor, conversion and operator *)
(* named by properties C07 / C08 is defined here on that sequence, from the *)
(* class documentation and the property statements - independent of how the *)
(* code stores it (an integer payload plus a size).  Sizes up to thousands  *)
(* of bits are fine (no integer ever exceeds the TLC range, except in the   *)
(* small-width helpers FromNat/ToNat that are only used below 2^30).        *)
(***************************************************************************)
EXTENDS Naturals, Integers, Sequences

NONE == -9999                            \* encodes Python's None in index expressions
RECURSIVE ZerosR(_,_)
ZerosR(n, acc) == IF n <= 0 THEN acc ELSE ZerosR(n-1, Append(acc, 0))
Zeros(n) == ZerosR(n, <<>>)
RECURSIVE OnesR(_,_)
OnesR(n, acc) == IF n <= 0 THEN acc ELSE OnesR(n-1, Append(acc, 1))
Ones(n) == OnesR(n, <<>>)
Mk(F(_), n) == SubSeq([i \in 1..n |-> F(i)], 1, n)       \* concrete tuple <<F(1),..,F(n)>> (SubSeq forces evaluation)
Max(a, b) == IF a > b THEN a ELSE b
Min(a, b) == IF a < b THEN a ELSE b

\* ---- small naturals <-> bit sequences (x < 2^30) ---------------------------
RECURSIVE BitLen(_)
BitLen(x) == IF x = 0 THEN 0 ELSE 1 + BitLen(x \div 2)
RECURSIVE FromNatR(_,_,_)
FromNatR(x, n, acc) == IF n = 0 THEN acc ELSE FromNatR(x \div 2, n-1, Append(acc, x % 2))
FromNat(x, n) == FromNatR(x, n, <<>>)                    \* low n bits of x
RECURSIVE ToNatR(_,_,_)
ToNatR(b, i, acc) == IF i = 0 THEN acc ELSE ToNatR(b, i-1, 2*acc + b[i])
ToNat(b) == ToNatR(b, Len(b), 0)                         \* Len(b) <= 30
IntOperand(x) == FromNat(x, BitLen(x))                   \* a Python int used as an operand: its significant bits

\* ---- size -----------------------------------------------------------------
Resize(b, n) == IF n <= Len(b) THEN SubSeq(b, 1, n) ELSE b \o Zeros(n - Len(b))   \* the size setter / size= argument
BitAt(b, i) == IF i >= 1 /\ i <= Len(b) THEN b[i] ELSE 0                           \* 1-based, 0 beyond

\* ---- construction from bytes (bitorder conventions of Bits.load) --------------
\* 8 bits of byte v, least significant first
ByteLSB(v) == <<v % 2, (v \div 2) % 2, (v \div 4) % 2, (v \div 8) % 2, (v \div 16) % 2, (v \div 32) % 2, (v \div 64) % 2, (v \div 128) % 2>>
ByteMSB(v) == <<(v \div 128) % 2, (v \div 64) % 2, (v \div 32) % 2, (v \div 16) % 2, (v \div 8) % 2, (v \div 4) % 2, (v \div 2) % 2, v % 2>>
\* one group of k bytes (big-endian inside the group): its bits, least significant first
RECURSIVE GroupR(_,_,_,_)
GroupR(s, rev, j, acc) == IF j = 0 THEN acc ELSE GroupR(s, rev, j-1, acc \o (IF rev THEN ByteMSB(s[j]) ELSE ByteLSB(s[j])))
RECURSIVE LoadR(_,_,_,_,_)
LoadR(s, k, rev, g, acc) == IF g * k >= Len(s) THEN acc
                            ELSE LoadR(s, k, rev, g+1, acc \o GroupR(SubSeq(s, g*k + 1, (g+1)*k), rev, k, <<>>))
\* bitorder = -1: bit stream (bit 0 = MSB of the first byte); +1: little-endian integer; 0: big-endian integer;
\* k > 1: groups of k bytes, big-endian inside a group, groups little-endian.  BadOrder: the length is not a multiple.
LoadOk(s, order) == LET k == IF order = 0 THEN Len(s) ELSE IF order < 0 THEN -order ELSE order IN k > 0 /\ (Len(s) % k) = 0
Load(s, order) == LET k == IF order = 0 THEN Len(s) ELSE IF order < 0 THEN -order ELSE order
                  IN LoadR(s, k, order < 0, 0, <<>>)
FromBytes(s, order, size) == IF size = NONE THEN Load(s, order) ELSE Resize(Load(s, order), size)

\* ---- conversions out -----------------------------------------------------------
\* the bit stream as bytes: bit 0 is the MSB of the first byte, last byte zero-filled
RECURSIVE ToBytesR(_,_,_)
ToBytesR(b, i, acc) == IF 8*i >= Len(b) THEN acc
   ELSE ToBytesR(b, i+1, Append(acc, BitAt(b,8*i+1)*128 + BitAt(b,8*i+2)*64 + BitAt(b,8*i+3)*32 + BitAt(b,8*i+4)*16
                                     + BitAt(b,8*i+5)*8 + BitAt(b,8*i+6)*4 + BitAt(b,8*i+7)*2 + BitAt(b,8*i+8)))
ToBytes(b) == ToBytesR(b, 0, <<>>)
\* little-endian packed bytes: byte j holds bits 8j..8j+7 with bit 8j as its LSB; over ceil(n/8) bytes
RECURSIVE PackR(_,_,_)
PackR(b, i, acc) == IF 8*i >= Len(b) THEN acc
   ELSE PackR(b, i+1, Append(acc, BitAt(b,8*i+1) + BitAt(b,8*i+2)*2 + BitAt(b,8*i+3)*4 + BitAt(b,8*i+4)*8
                                  + BitAt(b,8*i+5)*16 + BitAt(b,8*i+6)*32 + BitAt(b,8*i+7)*64 + BitAt(b,8*i+8)*128))
PackLE(b) == PackR(b, 0, <<>>)
RECURSIVE RevR(_,_,_)
RevR(s, i, acc) == IF i = 0 THEN acc ELSE RevR(s, i-1, Append(acc, s[i]))
Reverse(s) == RevR(s, Len(s), <<>>)
PackBE(b) == Reverse(PackLE(b))
\* generalized unpack: bytes -> vector of 8*Len bits
UnpackLE(s) == Load(s, 1)
UnpackBE(s) == Load(s, 0)
BitList(b, dir) == IF dir = -1 THEN Reverse(b) ELSE b
\* single bit access bit(i) with negative indices; -1 = IndexError
BitIdx(b, i) == IF i >= 0 /\ i < Len(b) THEN b[i+1] ELSE IF i < 0 /\ -i <= Len(b) THEN b[Len(b) + i + 1] ELSE -1
\* two's complement value as [neg |-> 0/1, mag |-> magnitude bits] (avoids big integers): x - 2^n*[msb]
\* magnitude of a negative value = 2^n - x = (~x) + 1

\* ---- bitwise / arithmetic at width w = max(sizes) ---------------------------------
And2(a, b) == LET w == Max(Len(a), Len(b)) F(i) == BitAt(a,i) * BitAt(b,i) IN Mk(F, w)
Or2(a, b)  == LET w == Max(Len(a), Len(b)) F(i) == IF BitAt(a,i) + BitAt(b,i) > 0 THEN 1 ELSE 0 IN Mk(F, w)
Xor2(a, b) == LET w == Max(Len(a), Len(b)) F(i) == (BitAt(a,i) + BitAt(b,i)) % 2 IN Mk(F, w)
Not1(a)    == LET F(i) == 1 - a[i] IN Mk(F, Len(a))
RECURSIVE AddR(_,_,_,_,_,_)
AddR(a, b, w, i, c, acc) == IF i > w THEN acc
                            ELSE LET s == BitAt(a,i) + BitAt(b,i) + c IN AddR(a, b, w, i+1, s \div 2, Append(acc, s % 2))
AddW(a, b, w) == AddR(a, b, w, 1, 0, <<>>)                    \* (a + b) mod 2^w
Add2(a, b) == AddW(a, b, Max(Len(a), Len(b)))
Neg1(a) == AddW(Not1(a), <<1>>, Len(a))                        \* additive inverse mod 2^n (n = 0: empty)
Sub2(a, b) == LET w == Max(Len(a), Len(b)) IN AddW(AddW(Resize(a, w), Not1(Resize(b, w)), w), <<1>>, w)
\* shift-and-add product truncated to the LEFT operand's size
RECURSIVE MulR(_,_,_,_,_)
MulR(a, b, n, i, acc) == IF i > Len(b) THEN acc
                         ELSE MulR(a, b, n, i+1, IF b[i] = 1 THEN AddW(acc, Zeros(i-1) \o a, n) ELSE acc)
Mul2(a, b) == MulR(a, b, Len(a), 1, Zeros(Len(a)))
Shl1(a, k) == Resize(Zeros(k) \o a, Len(a))
Shr1(a, k) == Resize(SubSeq(a, k+1, Len(a)), Len(a))
Rol1(a, k) == LET n == Len(a) IN IF n = 0 THEN a ELSE SubSeq(a, n - (k % n) + 1, n) \o SubSeq(a, 1, n - (k % n))   \* bit i -> i+k
Ror1(a, k) == LET n == Len(a) IN IF n = 0 THEN a ELSE SubSeq(a, (k % n) + 1, n) \o SubSeq(a, 1, k % n)
Concat2(a, b) == a \o b                                        \* a // b : a in the low positions
RECURSIVE SplitR(_,_,_,_)
SplitR(a, k, i, acc) == IF i >= Len(a) THEN acc ELSE SplitR(a, k, i+k, Append(acc, SubSeq(a, i+1, Min(i+k, Len(a)))))
Split1(a, k, bigend) == IF bigend THEN Reverse(SplitR(a, k, 0, <<>>)) ELSE SplitR(a, k, 0, <<>>)
ZeroExtend(a, n) == IF n > Len(a) THEN a \o Zeros(n - Len(a)) ELSE a
SignExtend(a, n) == IF n > Len(a) THEN a \o (IF a[Len(a)] = 1 THEN Ones(n - Len(a)) ELSE Zeros(n - Len(a))) ELSE a
RECURSIVE HwR(_,_,_)
HwR(a, i, acc) == IF i > Len(a) THEN acc ELSE HwR(a, i+1, acc + a[i])
Hw(a) == HwR(a, 1, 0)

\* ---- Python index expressions ---------------------------------------------------------
\* slice.indices(n): <<start, stop, step>>
SliceIdx(start, stop, step0, n) ==
  LET step == IF step0 = NONE THEN 1 ELSE step0 IN
  IF step > 0
  THEN <<IF start = NONE THEN 0 ELSE IF start < 0 THEN Max(start + n, 0) ELSE Min(start, n),
         IF stop = NONE THEN n ELSE IF stop < 0 THEN Max(stop + n, 0) ELSE Min(stop, n), step>>
  ELSE <<IF start = NONE THEN n - 1 ELSE IF start < 0 THEN Max(start + n, -1) ELSE Min(start, n - 1),
         IF stop = NONE THEN -1 ELSE IF stop < 0 THEN Max(stop + n, -1) ELSE Min(stop, n - 1), step>>
\* range(start, stop, step) as a sequence of 0-based indices
RECURSIVE RangeR(_,_,_,_)
RangeR(x, stop, step, acc) == IF (step > 0 /\ x >= stop) \/ (step < 0 /\ x <= stop) THEN acc ELSE RangeR(x + step, stop, step, Append(acc, x))
SliceRange(start, stop, step, n) == LET t == SliceIdx(start, stop, step, n) IN RangeR(t[1], t[2], t[3], <<>>)
\* normalise an int index: -1 = IndexError
NormIdx(i, n) == IF i >= 0 /\ i < n THEN i ELSE IF i < 0 /\ -i <= n THEN n + i ELSE -1
\* b[list]: the selected bits in list order (indices 0-based, already in range)
GetList(b, idx) == LET F(j) == b[idx[j] + 1] IN Mk(F, Len(idx))
\* b[list] = v : last write wins
RECURSIVE SetListR(_,_,_,_)
SetListR(b, idx, v, j) == IF j > Len(idx) THEN b ELSE SetListR([b EXCEPT ![idx[j] + 1] = v[j]], idx, v, j+1)
SetList(b, idx, v) == SetListR(b, idx, v, 1)
=============================================================================
