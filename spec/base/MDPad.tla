------------------------------- MODULE MDPad -------------------------------
(***************************************************************************)
(* Merkle-Damgard strengthening on BYTE strings with a BIT length:          *)
(* message bits, a 1 bit, zero bits, [BLAKE's marker bit], length field.    *)
(* Used by the trace validators (the bit-level machine is sys/Padding.tla;  *)
(* mc/MC_PadBytes checks that the two agree on every small case).           *)
(***************************************************************************)
EXTENDS Words

\* first L bits of m (L <= 8*Len(m)), then a single 1 bit, rest of that byte 0
WithOneBit(m, L) == LET nb == L \div 8  r == L % 8 IN
   IF r = 0 THEN Append(SubSeq(m, 1, nb), 128)
   ELSE Append(SubSeq(m, 1, nb), ((m[nb+1] \div P2[9-r]) * P2[9-r]) + P2[8-r])
\* first L bits of m as bytes, a partial last byte zero-filled
FirstBits(m, L) == LET nb == L \div 8  r == L % 8 IN
   IF r = 0 THEN SubSeq(m, 1, nb)
   ELSE Append(SubSeq(m, 1, nb), (m[nb+1] \div P2[9-r]) * P2[9-r])

\* B block bytes; lf length-field bytes; marker in {0,1}
PadMD(m, L, B, lf, marker) ==
  LET x == WithOneBit(m, L)
      z == (2*B - Len(lf) - (Len(x) % B)) % B
      body == x \o Rep(0, z)
  IN IF marker = 0 THEN body \o lf
     ELSE IF (L % 8 = 7) /\ z = 0 THEN x \o Rep(0, B-1) \o <<1>> \o lf
     ELSE SubSeq(body, 1, Len(body)-1) \o <<body[Len(body)] + 1>> \o lf

\* BLAKE: message, 1, zeros, the marker bit mk (1 for BLAKE-256/512, 0 for BLAKE-224/384 -- the bit POSITION
\* exists in both cases), length field.
PadBlake(m, L, B, lf, mk) ==
  LET x == WithOneBit(m, L)
      z == (2*B - Len(lf) - (Len(x) % B)) % B
      body == x \o Rep(0, z)
  IN IF (L % 8 = 7) /\ z = 0 THEN x \o Rep(0, B-1) \o <<mk>> \o lf
     ELSE SubSeq(body, 1, Len(body)-1) \o <<body[Len(body)] + mk>> \o lf

LenFieldNat(L, nbytes, be) == IF be THEN WToBE(WFromNat(L, nbytes \div 2)) ELSE WToLE(WFromNat(L, nbytes \div 2))

RECURSIVE FoldBlocks(_,_,_,_,_)
FoldBlocks(F(_,_), h, p, B, i) ==
  IF i*B >= Len(p) THEN h ELSE FoldBlocks(F, F(h, SubSeq(p, i*B+1, (i+1)*B)), p, B, i+1)
NumBlocks(p, B) == Len(p) \div B
BlockAt(p, B, i) == SubSeq(p, (i-1)*B+1, i*B)       \* i = 1..NumBlocks
=============================================================================
