------------------------------- MODULE PolyVec -------------------------------
(***************************************************************************)
(* The value denoted by a crysp `Poly`: a finite sequence of coefficients   *)
(* of the ring Z/2^k (k > 0: each coefficient is a k-bit sequence of module *)
(* BitVec, bit 0 first) or of Z (k = 0: TLC integers, kept below 2^30 in    *)
(* magnitude by the drivers).  Operators act coefficient by coefficient,    *)
(* missing coefficients of the shorter operand are zero, the result has the *)
(* longer dimension, the empty vector stays empty (property C16).           *)
(***************************************************************************)
EXTENDS BitVec, Bitwise

CZ(k) == IF k = 0 THEN 0 ELSE Zeros(k)
At(k, a, i) == IF i <= Len(a) THEN a[i] ELSE CZ(k)
Map2(k, a, b, Op(_,_)) == LET F(i) == Op(At(k, a, i), At(k, b, i)) IN Mk(F, Max(Len(a), Len(b)))
Map1(a, Op(_)) == LET F(i) == Op(a[i]) IN Mk(F, Len(a))

PAdd(k, a, b) == LET Op(x, y) == IF k = 0 THEN x + y ELSE AddW(x, y, k) IN Map2(k, a, b, Op)
PSub(k, a, b) == LET Op(x, y) == IF k = 0 THEN x - y ELSE Sub2(x, y) IN Map2(k, a, b, Op)
PXor(k, a, b) == LET Op(x, y) == IF k = 0 THEN x ^^ y ELSE Xor2(x, y) IN Map2(k, a, b, Op)
PAnd(k, a, b) == LET Op(x, y) == IF k = 0 THEN x & y ELSE And2(x, y) IN Map2(k, a, b, Op)
POr(k, a, b)  == LET Op(x, y) == IF k = 0 THEN x | y ELSE Or2(x, y) IN Map2(k, a, b, Op)
PNeg(k, a)    == LET Op(x) == IF k = 0 THEN 0 - x ELSE Neg1(x) IN Map1(a, Op)
PShl(k, a, n) == LET Op(x) == IF k = 0 THEN x * (2^n) ELSE Shl1(x, n) IN Map1(a, Op)
PShr(k, a, n) == LET Op(x) == IF k = 0 THEN x \div (2^n) ELSE Shr1(x, n) IN Map1(a, Op)
PConcat(a, b) == a \o b
RECURSIVE PSplitR(_,_,_,_,_)
PSplitR(a, k2, be, i, acc) == IF i > Len(a) THEN acc ELSE PSplitR(a, k2, be, i+1, acc \o Split1(a[i], k2, be))
PSplit(a, k2, be) == PSplitR(a, k2, be, 1, <<>>)            \* re-chunking to element size k2 (k2 divides k)
RECURSIVE PPackR(_,_,_)
PPackR(a, i, acc) == IF i > Len(a) THEN acc ELSE PPackR(a, i+1, acc \o PackLE(a[i]))
PPack(a) == PPackR(a, 1, <<>>)                                \* concatenated little-endian coefficient bytes (k multiple of 8)
\* indexing: a[i] (negative i from the end; -1 = IndexError), a[list], in-range slices with positive step
PIdx(i, n) == IF i >= 0 /\ i < n THEN i ELSE IF i < 0 /\ -i <= n THEN n + i ELSE -1
PGetList(a, idx) == LET F(j) == a[idx[j] + 1] IN Mk(F, Len(idx))
RECURSIVE PSetListR(_,_,_,_)
PSetListR(a, idx, v, j) == IF j > Len(idx) THEN a ELSE PSetListR([a EXCEPT ![idx[j] + 1] = v[j]], idx, v, j+1)
PSetList(a, idx, v) == PSetListR(a, idx, v, 1)

\* ---- beyond property C16 (supplementary check X01): polynomial view of the same value ----------------------
\* degree: index of the highest non-zero coefficient, -1 for the zero polynomial (and the empty vector)
RECURSIVE PDegR(_,_,_)
PDegR(k, a, i) == IF i = 0 THEN -1 ELSE IF a[i] # CZ(k) THEN i - 1 ELSE PDegR(k, a, i - 1)
PDegree(k, a) == PDegR(k, a, Len(a))
PIsZero(k, a) == PDegree(k, a) = -1
\* equality as polynomials: equal after zero-extension to the longer dimension
PEq(k, a, b) == \A i \in 1..Max(Len(a), Len(b)) : At(k, a, i) = At(k, b, i)
\* product: convolution of the coefficient sequences in the ring; dimension Len(a) + Len(b) as crysp allocates it
CMul(k, x, y) == IF k = 0 THEN x * y ELSE Mul2(x, y)
CAdd(k, x, y) == IF k = 0 THEN x + y ELSE AddW(x, y, k)
RECURSIVE PMulSum(_,_,_,_,_)
PMulSum(k, a, b, n, j) ==      \* sum over j' in 1..j of a[j'] * b[n + 1 - j'] (1-based; n = target index)
  IF j = 0 THEN CZ(k)
  ELSE LET rest == PMulSum(k, a, b, n, j - 1)  r == n + 1 - j IN
       IF j <= Len(a) /\ r >= 1 /\ r <= Len(b) THEN CAdd(k, rest, CMul(k, a[j], b[r])) ELSE rest
PMul(k, a, b) == LET F(n) == PMulSum(k, a, b, n, n) IN Mk(F, Len(a) + Len(b))
=============================================================================
