------------------------------- MODULE Words -------------------------------
(***************************************************************************)
(* Machine words as tuples of 16-bit limbs, least significant limb first.   *)
(* TLC integers are 32-bit signed Java ints, so a 32/64/128-bit word can    *)
(* never be one TLC integer.  Every intermediate value below stays < 2^31.  *)
(* And/Or/Xor on limbs hit the Java overrides of CommunityModules' Bitwise. *)
(* Words are always built as explicit tuples / by Append so that TLC holds  *)
(* concrete TupleValues, never lazily re-evaluated function constructors.   *)
(***************************************************************************)
EXTENDS Naturals, Sequences, Bitwise

B16 == 65536
M16 == 65535
P2  == <<1,2,4,8,16,32,64,128,256,512,1024,2048,4096,8192,16384,32768,65536>>
Pow2(k) == P2[k+1]                       \* k in 0..16

\* ---- construction ---------------------------------------------------------
RECURSIVE ZeroW(_)
ZeroW(n) == IF n = 0 THEN <<>> ELSE Append(ZeroW(n-1), 0)
\* v < 2^31 into an n-limb word (n >= 2)
RECURSIVE NatTail(_,_)
NatTail(v, n) == IF n = 0 THEN <<>> ELSE <<v % B16>> \o NatTail(v \div B16, n-1)
WFromNat(v, n) == NatTail(v, n)
W32(hi, lo) == <<lo, hi>>                \* W32(0x6745, 0x2301) = 0x67452301
W64(a, b, c, d) == <<d, c, b, a>>        \* W64(0x6a09,0xe667,0xf3bc,0xc908) = 0x6a09e667f3bcc908
WIsZero(a) == \A i \in 1..Len(a) : a[i] = 0

\* ---- generic builder: <<f(0), ..., f(n-1)>> as a concrete tuple ------------
RECURSIVE BuildW(_,_,_,_)
BuildW(F(_), i, n, acc) == IF i = n THEN acc ELSE BuildW(F, i+1, n, Append(acc, F(i)))

\* ---- bitwise ---------------------------------------------------------------
WXor(a, b) == IF Len(a) = 2 THEN <<a[1] ^^ b[1], a[2] ^^ b[2]>>
              ELSE IF Len(a) = 4 THEN <<a[1] ^^ b[1], a[2] ^^ b[2], a[3] ^^ b[3], a[4] ^^ b[4]>>
              ELSE LET F(i) == a[i+1] ^^ b[i+1] IN BuildW(F, 0, Len(a), <<>>)
WAnd(a, b) == IF Len(a) = 2 THEN <<a[1] & b[1], a[2] & b[2]>>
              ELSE IF Len(a) = 4 THEN <<a[1] & b[1], a[2] & b[2], a[3] & b[3], a[4] & b[4]>>
              ELSE LET F(i) == a[i+1] & b[i+1] IN BuildW(F, 0, Len(a), <<>>)
WOr(a, b)  == IF Len(a) = 2 THEN <<a[1] | b[1], a[2] | b[2]>>
              ELSE IF Len(a) = 4 THEN <<a[1] | b[1], a[2] | b[2], a[3] | b[3], a[4] | b[4]>>
              ELSE LET F(i) == a[i+1] | b[i+1] IN BuildW(F, 0, Len(a), <<>>)
WNot(a)    == IF Len(a) = 2 THEN <<M16 - a[1], M16 - a[2]>>
              ELSE IF Len(a) = 4 THEN <<M16 - a[1], M16 - a[2], M16 - a[3], M16 - a[4]>>
              ELSE LET F(i) == M16 - a[i+1] IN BuildW(F, 0, Len(a), <<>>)

\* ---- addition / subtraction modulo 2^(16 n) --------------------------------
RECURSIVE AddR(_,_,_,_,_)
AddR(a, b, i, c, acc) == IF i > Len(a) THEN acc
                         ELSE LET s == a[i] + b[i] + c IN AddR(a, b, i+1, s \div B16, Append(acc, s % B16))
WAdd(a, b) == IF Len(a) = 2
              THEN LET s1 == a[1] + b[1]  s2 == a[2] + b[2] + (s1 \div B16) IN <<s1 % B16, s2 % B16>>
              ELSE IF Len(a) = 4
              THEN LET s1 == a[1] + b[1]
                       s2 == a[2] + b[2] + (s1 \div B16)
                       s3 == a[3] + b[3] + (s2 \div B16)
                       s4 == a[4] + b[4] + (s3 \div B16)
                   IN <<s1 % B16, s2 % B16, s3 % B16, s4 % B16>>
              ELSE AddR(a, b, 1, 0, <<>>)
WAdd3(a, b, c) == WAdd(WAdd(a, b), c)
WAdd4(a, b, c, d) == WAdd(WAdd(a, b), WAdd(c, d))
WAdd5(a, b, c, d, e) == WAdd(WAdd(WAdd(a, b), WAdd(c, d)), e)
\* carry out of a + b (0 or 1)
RECURSIVE CarryR(_,_,_,_)
CarryR(a, b, i, c) == IF i > Len(a) THEN c ELSE CarryR(a, b, i+1, (a[i] + b[i] + c) \div B16)
WCarry(a, b) == CarryR(a, b, 1, 0)
WNeg(a) == WAdd(WNot(a), WFromNat(1, Len(a)))
WSub(a, b) == WAdd(a, WNeg(b))
WAddNat(a, v) == WAdd(a, WFromNat(v, Len(a)))          \* v < 2^31

\* ---- rotations and shifts, any amount --------------------------------------
\* limb i (0-based) of a rotated left by 16q + r
RolLimb(a, n, q, r, i) == LET x == a[((i + n - q) % n) + 1]
                              y == a[((i + 2*n - q - 1) % n) + 1]
                          IN IF r = 0 THEN x ELSE ((x * P2[r+1]) % B16) + (y \div P2[17-r])
Rol(a, k) == LET n == Len(a)  kk == k % (16*n)  q == kk \div 16  r == kk % 16
             IN IF n = 2 THEN <<RolLimb(a,2,q,r,0), RolLimb(a,2,q,r,1)>>
                ELSE IF n = 4 THEN <<RolLimb(a,4,q,r,0), RolLimb(a,4,q,r,1), RolLimb(a,4,q,r,2), RolLimb(a,4,q,r,3)>>
                ELSE LET F(i) == RolLimb(a, n, q, r, i) IN BuildW(F, 0, n, <<>>)
Ror(a, k) == LET w == 16*Len(a) IN Rol(a, w - (k % w))
LimbOr0(a, i) == IF i >= 1 /\ i <= Len(a) THEN a[i] ELSE 0
ShlLimb(a, q, r, i) == LET x == LimbOr0(a, i - q + 1)  y == LimbOr0(a, i - q)
                       IN IF r = 0 THEN x ELSE ((x * P2[r+1]) % B16) + (y \div P2[17-r])
ShrLimb(a, q, r, i) == LET x == LimbOr0(a, i + q + 1)  y == LimbOr0(a, i + q + 2)
                       IN IF r = 0 THEN x ELSE (x \div P2[r+1]) + ((y * P2[17-r]) % B16)
Shl(a, k) == LET n == Len(a) q == k \div 16 r == k % 16  F(i) == ShlLimb(a, q, r, i) IN BuildW(F, 0, n, <<>>)
Shr(a, k) == LET n == Len(a) q == k \div 16 r == k % 16  F(i) == ShrLimb(a, q, r, i) IN BuildW(F, 0, n, <<>>)
\* bit i (0 = least significant) of a
WBit(a, i) == (a[(i \div 16) + 1] \div P2[(i % 16) + 1]) % 2

\* ---- bytes <-> words -------------------------------------------------------
\* bs: sequence of 2n bytes (0..255)
RECURSIVE FromBER(_,_,_)
FromBER(bs, j, acc) == IF j = 0 THEN acc ELSE FromBER(bs, j-1, Append(acc, bs[2*j-1]*256 + bs[2*j]))
WFromBE(bs) == FromBER(bs, Len(bs) \div 2, <<>>)        \* first byte most significant
RECURSIVE FromLER(_,_,_,_)
FromLER(bs, j, n, acc) == IF j > n THEN acc ELSE FromLER(bs, j+1, n, Append(acc, bs[2*j-1] + 256*bs[2*j]))
WFromLE(bs) == FromLER(bs, 1, Len(bs) \div 2, <<>>)     \* first byte least significant
RECURSIVE ToBER(_,_,_)
ToBER(w, j, acc) == IF j = 0 THEN acc ELSE ToBER(w, j-1, acc \o <<w[j] \div 256, w[j] % 256>>)
WToBE(w) == ToBER(w, Len(w), <<>>)
RECURSIVE ToLER(_,_,_)
ToLER(w, j, acc) == IF j > Len(w) THEN acc ELSE ToLER(w, j+1, acc \o <<w[j] % 256, w[j] \div 256>>)
WToLE(w) == ToLER(w, 1, <<>>)
\* sequences of words <-> bytes
RECURSIVE WordsFromR(_,_,_,_,_)
WordsFromR(bs, nb, be, i, acc) == IF i*nb >= Len(bs) THEN acc
   ELSE LET s == SubSeq(bs, i*nb + 1, (i+1)*nb)
        IN WordsFromR(bs, nb, be, i+1, Append(acc, IF be THEN WFromBE(s) ELSE WFromLE(s)))
WordsFromBE(bs, nb) == WordsFromR(bs, nb, TRUE, 0, <<>>)     \* nb bytes per word
WordsFromLE(bs, nb) == WordsFromR(bs, nb, FALSE, 0, <<>>)
RECURSIVE WordsToR(_,_,_,_)
WordsToR(ws, be, i, acc) == IF i > Len(ws) THEN acc
   ELSE WordsToR(ws, be, i+1, acc \o (IF be THEN WToBE(ws[i]) ELSE WToLE(ws[i])))
WordsToBE(ws) == WordsToR(ws, TRUE, 1, <<>>)
WordsToLE(ws) == WordsToR(ws, FALSE, 1, <<>>)

\* ---- byte strings ----------------------------------------------------------
RECURSIVE RepB(_,_,_)
RepB(b, k, acc) == IF k = 0 THEN acc ELSE RepB(b, k-1, Append(acc, b))
Rep(b, k) == RepB(b, k, <<>>)                                  \* k copies of byte b
RECURSIVE XorBR(_,_,_,_)
XorBR(a, b, i, acc) == IF i > Len(a) \/ i > Len(b) THEN acc ELSE XorBR(a, b, i+1, Append(acc, a[i] ^^ b[i]))
XorBytes(a, b) == XorBR(a, b, 1, <<>>)                         \* over the shorter length
Take(s, n) == SubSeq(s, 1, IF n < Len(s) THEN n ELSE Len(s))
Drop(s, n) == SubSeq(s, n+1, Len(s))
=============================================================================
