------------------------------ MODULE Threefish ------------------------------
(***************************************************************************)
(* Threefish-256/512/1024 tweakable block cipher, transcribed from "The     *)
(* Skein Hash Function Family", version 1.3 (1 Oct 2010), section 3.3.      *)
(*                                                                         *)
(* Nw = 4 / 8 / 16 words of 64 bits, Nr = 72 / 72 / 80 rounds.  All words   *)
(* are 4-limb Words (least significant limb first); bytes <-> words is      *)
(* little-endian (ToInt / ToBytes of section 3.2, 8 bytes per word).        *)
(*                                                                         *)
(* Exported (bytes are 0..255):                                             *)
(*   ThreefishEnc(key, tweak, blk)  key, blk: 32/64/128 bytes (same size),  *)
(*                                  tweak: 16 bytes; result: Len(blk) bytes *)
(*   ThreefishDec(key, tweak, blk)  inverse permutation of the above        *)
(*   TfEncW(K, T, P) / TfDecW(K, T, C)  same on tuples of 64-bit words      *)
(*                                  (K, P, C: Nw words; T: 2 words)         *)
(*   TfNr(nw)          number of rounds                                     *)
(*   TfRot(nw)         rotation constants R[d mod 8][j]: tuple of 8 rows    *)
(*                     (1-based row (d % 8)+1) of nw/2 amounts (Table 4)    *)
(*   TfPerm(nw)        word permutation pi (Table 3) as the tuple           *)
(*                     <<pi(0),...,pi(nw-1)>> of 0-based values             *)
(*   TfPermInv(nw)     its inverse, derived (not typed)                     *)
(*   C240              the key schedule parity constant                     *)
(*   TfKeyExt(K)       <<k_0..k_{Nw-1}, k_Nw>>,  k_Nw = C240 xor all k_i    *)
(*   TfTweakExt(T)     <<t0, t1, t0 xor t1>>                                *)
(*   TfSubkey(kx, tx, nw, s)  subkey s (0..Nr/4) as a tuple of nw words     *)
(*                                                                         *)
(* Definition (s. 3.3): v_0 = plaintext words; for d = 0..Nr-1              *)
(*   e_{d,i} = (v_{d,i} + k_{d/4,i}) mod 2^64  if d mod 4 = 0, else v_{d,i}  *)
(*   (f_{d,2j}, f_{d,2j+1}) = MIX_{d,j}(e_{d,2j}, e_{d,2j+1})                *)
(*   v_{d+1,i} = f_{d,pi(i)}                                                *)
(* c_i = (v_{Nr,i} + k_{Nr/4,i}) mod 2^64.                                  *)
(* MIX_{d,j}(x0,x1): y0 = x0 + x1 mod 2^64; y1 = (x1 <<< R_{d mod 8,j}) xor y0 *)
(* Key schedule: k_{s,i} = k_{(s+i) mod (Nw+1)}               i = 0..Nw-4   *)
(*                         k_{(s+i) mod (Nw+1)} + t_{s mod 3}      i = Nw-3 *)
(*                         k_{(s+i) mod (Nw+1)} + t_{(s+1) mod 3}  i = Nw-2 *)
(*                         k_{(s+i) mod (Nw+1)} + s                i = Nw-1 *)
(***************************************************************************)
EXTENDS Words

TfNr(nw) == IF nw = 16 THEN 80 ELSE 72

\* Table 4 of the 1.3 paper (the constants changed between versions 1.1 and 1.2)
TfRot4  == << <<14,16>>, <<52,57>>, <<23,40>>, <<5,37>>, <<25,33>>, <<46,12>>, <<58,22>>, <<32,32>> >>
TfRot8  == << <<46,36,19,37>>, <<33,27,14,42>>, <<17,49,36,39>>, <<44,9,54,56>>,
              <<39,30,34,24>>, <<13,50,10,17>>, <<25,29,39,43>>, <<8,35,56,22>> >>
TfRot16 == << <<24,13,8,47,8,17,22,37>>,   <<38,19,10,55,49,18,23,52>>,
              <<33,4,51,13,34,41,59,17>>,  <<5,20,48,41,47,28,16,25>>,
              <<41,9,37,31,12,47,44,30>>,  <<16,34,56,51,4,53,42,41>>,
              <<31,44,47,46,19,42,44,25>>, <<9,48,35,52,23,31,37,20>> >>
TfRot(nw) == IF nw = 4 THEN TfRot4 ELSE IF nw = 8 THEN TfRot8 ELSE TfRot16

\* Table 3: pi(i) for i = 0..Nw-1
TfPerm4  == <<0,3,2,1>>
TfPerm8  == <<2,1,4,7,6,5,0,3>>
TfPerm16 == <<0,9,2,13,6,11,4,15,10,7,12,3,14,5,8,1>>
TfPerm(nw) == IF nw = 4 THEN TfPerm4 ELSE IF nw = 8 THEN TfPerm8 ELSE TfPerm16
\* inverse of a permutation given as a tuple of 0-based values
TfInvOf(p) == LET F(i) == (CHOOSE j \in 1..Len(p) : p[j] = i) - 1 IN BuildW(F, 0, Len(p), <<>>)
TfPermInv4  == TfInvOf(TfPerm4)
TfPermInv8  == TfInvOf(TfPerm8)
TfPermInv16 == TfInvOf(TfPerm16)
TfPermInv(nw) == IF nw = 4 THEN TfPermInv4 ELSE IF nw = 8 THEN TfPermInv8 ELSE TfPermInv16

\* ---- key schedule -----------------------------------------------------------
C240 == W64(7121, 7130, 43516, 6690)                 \* 0x1BD11BDAA9FC1A22
RECURSIVE TfXorAll(_,_,_)
TfXorAll(K, i, acc) == IF i > Len(K) THEN acc ELSE TfXorAll(K, i+1, WXor(acc, K[i]))
TfKeyExt(K)   == Append(K, TfXorAll(K, 1, C240))
TfTweakExt(T) == <<T[1], T[2], WXor(T[1], T[2])>>
TfSubkey(kx, tx, nw, s) ==
  LET F(i) == LET k == kx[((s + i) % (nw + 1)) + 1]
              IN IF i = nw - 3 THEN WAdd(k, tx[(s % 3) + 1])
                 ELSE IF i = nw - 2 THEN WAdd(k, tx[((s + 1) % 3) + 1])
                 ELSE IF i = nw - 1 THEN WAddNat(k, s)
                 ELSE k
  IN BuildW(F, 0, nw, <<>>)

\* ---- round pieces -----------------------------------------------------------
TfAddKey(v, ks) == LET F(i) == WAdd(v[i+1], ks[i+1]) IN BuildW(F, 0, Len(v), <<>>)
TfSubKey(v, ks) == LET F(i) == WSub(v[i+1], ks[i+1]) IN BuildW(F, 0, Len(v), <<>>)
\* f[i] = g[p(i)]
TfPermute(g, p) == LET F(i) == g[p[i+1] + 1] IN BuildW(F, 0, Len(g), <<>>)
\* all MIX functions of one round; r = row of rotation amounts; j = 0-based pair index
RECURSIVE TfMixAll(_,_,_,_)
TfMixAll(e, r, j, acc) ==
  IF 2*j >= Len(e) THEN acc
  ELSE LET y0 == WAdd(e[2*j+1], e[2*j+2])
           y1 == WXor(Rol(e[2*j+2], r[j+1]), y0)
       IN TfMixAll(e, r, j+1, Append(Append(acc, y0), y1))
\* inverse: x1 = (y1 xor y0) >>> R ; x0 = y0 - x1
RECURSIVE TfUnmixAll(_,_,_,_)
TfUnmixAll(f, r, j, acc) ==
  IF 2*j >= Len(f) THEN acc
  ELSE LET x1 == Ror(WXor(f[2*j+2], f[2*j+1]), r[j+1])
           x0 == WSub(f[2*j+1], x1)
       IN TfUnmixAll(f, r, j+1, Append(Append(acc, x0), x1))

\* v = v_d
RECURSIVE TfEncR(_,_,_,_,_,_)
TfEncR(v, kx, tx, nw, d, nr) ==
  IF d = nr THEN TfAddKey(v, TfSubkey(kx, tx, nw, nr \div 4))
  ELSE LET e == IF (d % 4) = 0 THEN TfAddKey(v, TfSubkey(kx, tx, nw, d \div 4)) ELSE v
           f == TfMixAll(e, TfRot(nw)[(d % 8) + 1], 0, <<>>)
       IN TfEncR(TfPermute(f, TfPerm(nw)), kx, tx, nw, d + 1, nr)
\* v = v_{d}; produces v_0.  f_{d-1,pi(i)} = v_{d,i}  <=>  f_{d-1,j} = v_{d,pi^-1(j)}
RECURSIVE TfDecR(_,_,_,_,_)
TfDecR(v, kx, tx, nw, d) ==
  IF d = 0 THEN v
  ELSE LET f == TfPermute(v, TfPermInv(nw))
           e == TfUnmixAll(f, TfRot(nw)[((d - 1) % 8) + 1], 0, <<>>)
           u == IF ((d - 1) % 4) = 0 THEN TfSubKey(e, TfSubkey(kx, tx, nw, (d - 1) \div 4)) ELSE e
       IN TfDecR(u, kx, tx, nw, d - 1)

TfEncW(K, T, P) == LET nw == Len(K) IN TfEncR(P, TfKeyExt(K), TfTweakExt(T), nw, 0, TfNr(nw))
TfDecW(K, T, C) == LET nw == Len(K)  nr == TfNr(nw)  kx == TfKeyExt(K)  tx == TfTweakExt(T)
                   IN TfDecR(TfSubKey(C, TfSubkey(kx, tx, nw, nr \div 4)), kx, tx, nw, nr)

ThreefishEnc(key, tweak, blk) == WordsToLE(TfEncW(WordsFromLE(key, 8), WordsFromLE(tweak, 8), WordsFromLE(blk, 8)))
ThreefishDec(key, tweak, blk) == WordsToLE(TfDecW(WordsFromLE(key, 8), WordsFromLE(tweak, 8), WordsFromLE(blk, 8)))
=============================================================================
