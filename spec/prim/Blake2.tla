-------------------------------- MODULE Blake2 -------------------------------
(***************************************************************************)
(* BLAKE2b and BLAKE2s, transcribed from RFC 7693 (compression function F,  *)
(* s.3; sequential hashing with key, s.3.3) and, for the full parameter     *)
(* block (salt, personalisation, tree parameters) which the RFC leaves out, *)
(* from the BLAKE2 paper (Aumasson, Neves, Wilcox-O'Hearn, Winnerlein,      *)
(* "BLAKE2: simpler, smaller, fast as MD5", s.2.5-2.8, Tables 2 and 3).      *)
(* IV (= SHA-512 / SHA-256 IV) and Sigma come from modules Sha2 and Blake.  *)
(*                                                                         *)
(* b = TRUE: BLAKE2b (64-bit words, 128-byte blocks, 12 rounds, out <= 64,  *)
(* key <= 64, salt/person 16 bytes);  b = FALSE: BLAKE2s (32-bit words,      *)
(* 64-byte blocks, 10 rounds, out <= 32, key <= 32, salt/person 8 bytes).   *)
(* Everything is little-endian.  Interface:                                 *)
(*   Blake2IV(b)                 8 words                                    *)
(*   Blake2BlockBytes(b)         128 / 64                                   *)
(*   Blake2ParamBlock(b, outlen, keylen, fanout, depth, leaflen,            *)
(*                    nodeoffset, nodedepth, innerlen, salt, person)        *)
(*        the 64 / 32 parameter bytes.  outlen, keylen, fanout, depth,      *)
(*        nodedepth, innerlen: bytes 0..255; leaflen: a 32-bit word         *)
(*        (2 limbs); nodeoffset: a 4-limb word (64 bits for 2b; 48 bits for *)
(*        2s: the top limb must be 0 and is dropped); salt, person: byte    *)
(*        strings of at most 16 / 8 bytes, zero-padded on the right         *)
(*        (<<>> = all zero).                                                *)
(*   Blake2Params(same arguments) the initial chaining value h = IV xor     *)
(*        parameter block read as 8 little-endian words                     *)
(*   Blake2F(b, h, blk, t, f0, f1)                                          *)
(*        h 8 words; blk 128 / 64 bytes; t = <<t0, t1>> low/high word of    *)
(*        the BYTE counter; f0 = TRUE on the last block; f1 = TRUE on the   *)
(*        last block of a last node (tree hashing); -> new h                *)
(*   Blake2Out(h, outlen)        first outlen bytes of h little-endian      *)
(*   Blake2Hash(b, m, key, outlen, fanout, depth, leaflen, nodeoffset,      *)
(*              nodedepth, innerlen, salt, person, lastnode)                *)
(*        whole-message digest of byte string m (Len < 2^31): if key # <<>> *)
(*        the key zero-padded to one block is hashed first; the last block  *)
(*        is zero-padded, counted with its true length and flagged; an      *)
(*        empty input (no key, no message) is one all-zero block, t = 0.    *)
(***************************************************************************)
EXTENDS Blake

Blake2IV(b)         == IF b THEN IV512 ELSE IV256
Blake2BlockBytes(b) == IF b THEN 128 ELSE 64
Blake2RoundsNum(b)  == IF b THEN 12 ELSE 10

\* ---- parameter block ---------------------------------------------------------
\* offset  2b                         2s
\*   0     digest length              digest length
\*   1     key length                 key length
\*   2     fanout                     fanout
\*   3     depth                      depth
\*   4     leaf length (4, LE)        leaf length (4, LE)
\*   8     node offset (8, LE)        node offset (6, LE)
\*  16/14  node depth                 node depth
\*  17/15  inner length               inner length
\*  18     reserved (14 zero bytes)   -
\*  32/16  salt (16)                  salt (8)
\*  48/24  personalisation (16)       personalisation (8)
Blake2PadTo(s, n) == s \o Rep(0, n - Len(s))
Blake2ParamBlock(b, outlen, keylen, fanout, depth, leaflen, nodeoffset, nodedepth, innerlen, salt, person) ==
  IF b THEN <<outlen, keylen, fanout, depth>> \o WToLE(leaflen) \o WToLE(nodeoffset)
            \o <<nodedepth, innerlen>> \o Rep(0, 14) \o Blake2PadTo(salt, 16) \o Blake2PadTo(person, 16)
       ELSE <<outlen, keylen, fanout, depth>> \o WToLE(leaflen) \o SubSeq(WToLE(nodeoffset), 1, 6)
            \o <<nodedepth, innerlen>> \o Blake2PadTo(salt, 8) \o Blake2PadTo(person, 8)
Blake2Params(b, outlen, keylen, fanout, depth, leaflen, nodeoffset, nodedepth, innerlen, salt, person) ==
  LET P  == WordsFromLE(Blake2ParamBlock(b, outlen, keylen, fanout, depth, leaflen, nodeoffset,
                                         nodedepth, innerlen, salt, person), IF b THEN 8 ELSE 4)
      IV == Blake2IV(b)
  IN <<WXor(IV[1], P[1]), WXor(IV[2], P[2]), WXor(IV[3], P[3]), WXor(IV[4], P[4]),
       WXor(IV[5], P[5]), WXor(IV[6], P[6]), WXor(IV[7], P[7]), WXor(IV[8], P[8])>>

\* ---- compression function F (RFC 7693 s.3.2) -----------------------------------
\* G(a,b,c,d,x,y): rotations 32,24,16,63 (2b) / 16,12,8,7 (2s); x = m[s(2i)], y = m[s(2i+1)]
Blake2G(b, va, vb, vc, vd, x, y) == IF b THEN BlakeMix(va, vb, vc, vd, x, y, 32, 24, 16, 63)
                                         ELSE BlakeMix(va, vb, vc, vd, x, y, 16, 12, 8, 7)
Blake2Round(b, v, m, s) ==
  LET X(i) == m[s[2*i+1] + 1]       \* i = 0..7
      Y(i) == m[s[2*i+2] + 1]
      g0 == Blake2G(b, v[1], v[5], v[9],  v[13], X(0), Y(0))
      g1 == Blake2G(b, v[2], v[6], v[10], v[14], X(1), Y(1))
      g2 == Blake2G(b, v[3], v[7], v[11], v[15], X(2), Y(2))
      g3 == Blake2G(b, v[4], v[8], v[12], v[16], X(3), Y(3))
      d0 == Blake2G(b, g0[1], g1[2], g2[3], g3[4], X(4), Y(4))   \* (v0,v5,v10,v15)
      d1 == Blake2G(b, g1[1], g2[2], g3[3], g0[4], X(5), Y(5))   \* (v1,v6,v11,v12)
      d2 == Blake2G(b, g2[1], g3[2], g0[3], g1[4], X(6), Y(6))   \* (v2,v7,v8, v13)
      d3 == Blake2G(b, g3[1], g0[2], g1[3], g2[4], X(7), Y(7))   \* (v3,v4,v9, v14)
  IN <<d0[1], d1[1], d2[1], d3[1],
       d3[2], d0[2], d1[2], d2[2],
       d2[3], d3[3], d0[3], d1[3],
       d1[4], d2[4], d3[4], d0[4]>>
RECURSIVE Blake2Rounds(_,_,_,_,_)
Blake2Rounds(b, v, m, r, nr) ==
  IF r = nr THEN v ELSE Blake2Rounds(b, Blake2Round(b, v, m, Sigma[(r % 10) + 1]), m, r+1, nr)

Blake2F(b, h, blk, t, f0, f1) ==
  LET IV == Blake2IV(b)
      m  == WordsFromLE(blk, IF b THEN 8 ELSE 4)
      v0 == <<h[1], h[2], h[3], h[4], h[5], h[6], h[7], h[8],
              IV[1], IV[2], IV[3], IV[4],
              WXor(IV[5], t[1]), WXor(IV[6], t[2]),
              IF f0 THEN WNot(IV[7]) ELSE IV[7],
              IF f1 THEN WNot(IV[8]) ELSE IV[8]>>
      v  == Blake2Rounds(b, v0, m, 0, Blake2RoundsNum(b))
  IN <<WXor(WXor(h[1], v[1]), v[9]),  WXor(WXor(h[2], v[2]), v[10]),
       WXor(WXor(h[3], v[3]), v[11]), WXor(WXor(h[4], v[4]), v[12]),
       WXor(WXor(h[5], v[5]), v[13]), WXor(WXor(h[6], v[6]), v[14]),
       WXor(WXor(h[7], v[7]), v[15]), WXor(WXor(h[8], v[8]), v[16])>>

Blake2Out(h, outlen) == SubSeq(WordsToLE(h), 1, outlen)

\* ---- whole message (sequential mode, or one node of a tree) ----------------------
Blake2Ctr(b, n) == LET w == IF b THEN 4 ELSE 2 IN <<WFromNat(n, w), WFromNat(0, w)>>   \* n < 2^31
\* data non-empty; i = number of blocks already compressed
RECURSIVE Blake2Fold(_,_,_,_,_)
Blake2Fold(b, h, data, i, lastnode) ==
  LET B == Blake2BlockBytes(b)  n == Len(data) IN
  IF (i+1)*B >= n
  THEN Blake2F(b, h, Blake2PadTo(SubSeq(data, i*B + 1, n), B), Blake2Ctr(b, n), TRUE, lastnode)
  ELSE Blake2Fold(b, Blake2F(b, h, SubSeq(data, i*B + 1, (i+1)*B), Blake2Ctr(b, (i+1)*B), FALSE, FALSE),
                  data, i+1, lastnode)
Blake2Hash(b, m, key, outlen, fanout, depth, leaflen, nodeoffset, nodedepth, innerlen, salt, person, lastnode) ==
  LET B    == Blake2BlockBytes(b)
      h0   == Blake2Params(b, outlen, Len(key), fanout, depth, leaflen, nodeoffset, nodedepth, innerlen, salt, person)
      data == (IF Len(key) > 0 THEN Blake2PadTo(key, B) ELSE <<>>) \o m
  IN Blake2Out(IF Len(data) = 0 THEN Blake2F(b, h0, Rep(0, B), Blake2Ctr(b, 0), TRUE, lastnode)
               ELSE Blake2Fold(b, h0, data, 0, lastnode), outlen)
=============================================================================
