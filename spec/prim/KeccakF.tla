------------------------------ MODULE KeccakF ------------------------------
(***************************************************************************)
(* The KECCAK-p[b, nr] / KECCAK-f[b] permutations for all seven widths      *)
(* b = 25 w, w in {1,2,4,8,16,32,64}, transcribed from FIPS 202 section 3   *)
(* (= the Keccak reference, section 1.2).                                   *)
(*                                                                          *)
(* State: a tuple A of 25 lanes; lane (x, y) is A[5*y + x + 1].             *)
(* Lane:  w >= 16: a Words limb tuple of w/16 limbs (least significant limb *)
(*                 first, bit z of the lane = bit (z % 16) of limb z \div 16)*)
(*        w <  16: the 1-tuple <<v>> with v < 2^w (bit z of the lane = bit  *)
(*                 z of v).                                                 *)
(* Derived constants (constant level, TLC evaluates them once at start-up): *)
(*   KeccakRCTab   RC[0..23] as 64-bit lanes: bit 2^j - 1 = rc(j + 7 ir),   *)
(*                 rc(t) from the LFSR x^8+x^6+x^5+x^4+1 (FIPS 202 alg. 5)  *)
(*   KeccakRho     the 25 rho offsets (t+1)(t+2)/2 along the walk           *)
(*                 (x,y) <- (y, 2x+3y) from (1,0), NOT reduced mod w        *)
(*   KeccakPiSrc   for each target index 5Y+X+1 of pi the source index of   *)
(*                 lane ((X+3Y) % 5, X)                                     *)
(* TLC caches such a definition only if (a) its start-up evaluation on the  *)
(* main thread (small stack, -Xss from JAVA_TOOL_OPTIONS does not apply)    *)
(* succeeds, hence the shallow recursions, and (b) no identifier reachable  *)
(* from its body (parameter, LET or bound name) is spelt like a VARIABLE of *)
(* the root module: TLC's level check goes by name and then silently        *)
(* re-derives the "constant" at every use (x 2.3 on the permutation,        *)
(* measured).  Hence the unusual kc* names in the derivations below, which  *)
(* also avoid Words!BuildW / ZeroW (parameters i, n, acc).                  *)
(* Interface:                                                               *)
(*   KeccakL(w)              log2(w)                                        *)
(*   KeccakRounds(w)         12 + 2 log2(w)                                 *)
(*   KeccakRc(t)             rc(t), any integer t                           *)
(*   KeccakRC64(ir)          RC[ir] for w = 64 (4 limbs), any integer ir    *)
(*   LaneZero(w)             the all-zero lane                              *)
(*   LaneRol(w, x, k)        lane x rotated towards higher z by k (k >= 0)  *)
(*   KeccakRC(w, ir)         RC[ir] truncated to w bits, as a lane; any     *)
(*                           integer ir (FIPS 202 allows ir < 0 in          *)
(*                           KECCAK-p with nr > 12 + 2l)                    *)
(*   KeccakRound(w, A, ir)   Rnd(A, ir) = iota(chi(pi(rho(theta(A)))), ir)  *)
(*   KeccakP(w, nr, A)       KECCAK-p[25w, nr]: rounds ir = 12+2l-nr ..     *)
(*                           12+2l-1, i.e. the LAST nr rounds of KECCAK-f   *)
(*   KeccakF(w, A)           KECCAK-f[25w] = KeccakP(w, KeccakRounds(w), A) *)
(* All results are concrete tuples.                                         *)
(***************************************************************************)
EXTENDS Words

KeccakL(w) == CASE w = 1 -> 0 [] w = 2 -> 1 [] w = 4 -> 2 [] w = 8 -> 3
                [] w = 16 -> 4 [] w = 32 -> 5 [] w = 64 -> 6
KeccakRounds(w) == 12 + 2*KeccakL(w)

\* ---- lanes (tuples of 1, 2 or 4 limbs) --------------------------------------
LaneZero(w) == IF w = 64 THEN <<0,0,0,0>> ELSE IF w = 32 THEN <<0,0>> ELSE <<0>>
LXor(a, b) == IF Len(a) = 4 THEN <<a[1] ^^ b[1], a[2] ^^ b[2], a[3] ^^ b[3], a[4] ^^ b[4]>>
              ELSE IF Len(a) = 2 THEN <<a[1] ^^ b[1], a[2] ^^ b[2]>>
              ELSE <<a[1] ^^ b[1]>>
LXor5(a, b, c, d, e) ==
   IF Len(a) = 4 THEN <<(((a[1] ^^ b[1]) ^^ c[1]) ^^ d[1]) ^^ e[1], (((a[2] ^^ b[2]) ^^ c[2]) ^^ d[2]) ^^ e[2],
                        (((a[3] ^^ b[3]) ^^ c[3]) ^^ d[3]) ^^ e[3], (((a[4] ^^ b[4]) ^^ c[4]) ^^ d[4]) ^^ e[4]>>
   ELSE IF Len(a) = 2 THEN <<(((a[1] ^^ b[1]) ^^ c[1]) ^^ d[1]) ^^ e[1], (((a[2] ^^ b[2]) ^^ c[2]) ^^ d[2]) ^^ e[2]>>
   ELSE <<(((a[1] ^^ b[1]) ^^ c[1]) ^^ d[1]) ^^ e[1]>>
\* a xor ((not b) and c); c < 2^w masks the complement, so M16 - b is right for every width
LChi(a, b, c) ==
   IF Len(a) = 4 THEN <<a[1] ^^ ((M16 - b[1]) & c[1]), a[2] ^^ ((M16 - b[2]) & c[2]),
                        a[3] ^^ ((M16 - b[3]) & c[3]), a[4] ^^ ((M16 - b[4]) & c[4])>>
   ELSE IF Len(a) = 2 THEN <<a[1] ^^ ((M16 - b[1]) & c[1]), a[2] ^^ ((M16 - b[2]) & c[2])>>
   ELSE <<a[1] ^^ ((M16 - b[1]) & c[1])>>
\* bit z of the result = bit (z - k) mod w of x
LaneRol(w, x, k) ==
   IF w >= 32 THEN Rol(x, k)
   ELSE LET kk == k % w  v == x[1]
        IN IF kk = 0 THEN x ELSE <<((v * Pow2(kk)) % Pow2(w)) + (v \div Pow2(w - kk))>>

\* ---- round constants (FIPS 202 algorithms 5 and 6) --------------------------
\* The 8-bit LFSR register R[0..7] is the number sum R[i] 2^i; "R = 0 || R" doubles it, R[8] is bit 8 and is
\* folded into R[0], R[4], R[5], R[6] (0x171 = 369 also clears bit 8, x^8 + x^6 + x^5 + x^4 + 1).
\* rc(t) = R[0] after t mod 255 steps from R = 1.
\* (The bound names kc* in this section are deliberately unusual, see the note in the header.)
LfsrStep(kcR) == IF 2*kcR >= 256 THEN (2*kcR) ^^ 369 ELSE 2*kcR
RECURSIVE LfsrRun(_,_)
LfsrRun(kcR, kcN) == IF kcN = 0 THEN kcR ELSE LfsrRun(LfsrStep(kcR), kcN - 1)
KeccakRc(kcT) == LfsrRun(1, (((kcT % 255)) + 255) % 255) % 2               \* rc(t), any integer t
\* RC[ir] for w = 64 from the register kcR reached after 7 ir steps: bit 2^j - 1 is rc(j + 7 ir), j = 0..6,
\* i.e. bits 0, 1, 3, 7, 15 (limb 0), 31 (limb 1), 63 (limb 3)
RC64FromLfsr(kcR) ==
   <<(kcR % 2) + 2*(LfsrRun(kcR, 1) % 2) + 8*(LfsrRun(kcR, 2) % 2) + 128*(LfsrRun(kcR, 3) % 2)
       + 32768*(LfsrRun(kcR, 4) % 2),
     32768*(LfsrRun(kcR, 5) % 2), 0, 32768*(LfsrRun(kcR, 6) % 2)>>
KeccakRC64(kcIr) == RC64FromLfsr(LfsrRun(1, (((7*kcIr) % 255) + 255) % 255))   \* any integer ir
RECURSIVE RcTabGen(_,_,_)
RcTabGen(kcR, kcN, kcAcc) == IF kcN = 24 THEN kcAcc
                             ELSE RcTabGen(LfsrRun(kcR, 7), kcN + 1, Append(kcAcc, RC64FromLfsr(kcR)))
KeccakRCTab == RcTabGen(1, 0, <<>>)                                       \* RC[0..23], w = 64
\* truncation to w bits keeps exactly the bits 2^j - 1 with j <= log2(w)
KeccakRC(w, ir) == LET c == IF ir >= 0 /\ ir < 24 THEN KeccakRCTab[ir + 1] ELSE KeccakRC64(ir)
                   IN IF w = 64 THEN c ELSE IF w = 32 THEN <<c[1], c[2]>> ELSE <<c[1] % Pow2(w)>>

\* ---- rho offsets and the pi index map (FIPS 202 algorithms 2 and 3) ---------
RECURSIVE RhoWalk(_,_,_,_)
RhoWalk(kcT, kcX, kcY, kcAcc) ==
   IF kcT = 24 THEN kcAcc
   ELSE RhoWalk(kcT + 1, kcY, (2*kcX + 3*kcY) % 5, [kcAcc EXCEPT ![5*kcY + kcX + 1] = ((kcT + 1)*(kcT + 2)) \div 2])
KeccakRho == RhoWalk(0, 1, 0, <<0,0,0,0,0, 0,0,0,0,0, 0,0,0,0,0, 0,0,0,0,0, 0,0,0,0,0>>)
\* pi: A'[X, Y] = A[(X + 3Y) mod 5, X]; 0-based target index kcN = 5Y + X
RECURSIVE PiSrcGen(_,_)
PiSrcGen(kcN, kcAcc) == IF kcN = 25 THEN kcAcc
                        ELSE PiSrcGen(kcN + 1, Append(kcAcc, 5*(kcN % 5) + (((kcN % 5) + 3*(kcN \div 5)) % 5) + 1))
KeccakPiSrc == PiSrcGen(0, <<>>)

\* ---- one round ------------------------------------------------------------------
KeccakRound(w, A, ir) ==
  LET \* theta: C[x] = xor of column x, D[x] = C[x-1] xor rol(C[x+1], 1)
      C0 == LXor5(A[1], A[6],  A[11], A[16], A[21])
      C1 == LXor5(A[2], A[7],  A[12], A[17], A[22])
      C2 == LXor5(A[3], A[8],  A[13], A[18], A[23])
      C3 == LXor5(A[4], A[9],  A[14], A[19], A[24])
      C4 == LXor5(A[5], A[10], A[15], A[20], A[25])
      D  == << LXor(C4, LaneRol(w, C1, 1)), LXor(C0, LaneRol(w, C2, 1)), LXor(C1, LaneRol(w, C3, 1)),
               LXor(C2, LaneRol(w, C4, 1)), LXor(C3, LaneRol(w, C0, 1)) >>
      \* theta, rho, pi: lane i (0-based, = 5Y+X) of B is rol(A[s] xor D[x of s], rho[s]), s = KeccakPiSrc[i+1]
      T(i) == LET s == KeccakPiSrc[i+1] IN LaneRol(w, LXor(A[s], D[((s - 1) % 5) + 1]), KeccakRho[s])
      B  == << T(0),  T(1),  T(2),  T(3),  T(4),  T(5),  T(6),  T(7),  T(8),  T(9),  T(10), T(11), T(12),
               T(13), T(14), T(15), T(16), T(17), T(18), T(19), T(20), T(21), T(22), T(23), T(24) >>
      \* chi: A'[x, y] = B[x, y] xor ((not B[x+1, y]) and B[x+2, y])
      G(x, y5) == LChi(B[y5 + x + 1], B[y5 + ((x + 1) % 5) + 1], B[y5 + ((x + 2) % 5) + 1])
      \* iota: A'[0, 0] = A[0, 0] xor RC[ir]
  IN << LXor(G(0, 0), KeccakRC(w, ir)), G(1, 0), G(2, 0), G(3, 0), G(4, 0),
        G(0, 5),  G(1, 5),  G(2, 5),  G(3, 5),  G(4, 5),
        G(0, 10), G(1, 10), G(2, 10), G(3, 10), G(4, 10),
        G(0, 15), G(1, 15), G(2, 15), G(3, 15), G(4, 15),
        G(0, 20), G(1, 20), G(2, 20), G(3, 20), G(4, 20) >>

\* ---- KECCAK-p and KECCAK-f ------------------------------------------------------
RECURSIVE KeccakRnds(_,_,_,_)
KeccakRnds(w, A, ir, last) == IF ir > last THEN A ELSE KeccakRnds(w, KeccakRound(w, A, ir), ir + 1, last)
KeccakP(w, nr, A) == KeccakRnds(w, A, KeccakRounds(w) - nr, KeccakRounds(w) - 1)
KeccakF(w, A) == KeccakP(w, KeccakRounds(w), A)
=============================================================================
