-------------------------------- MODULE Des ---------------------------------
(***************************************************************************)
(* DES (FIPS 46-3) and the Triple Data Encryption Algorithm (FIPS 46-3      *)
(* s.TDEA / NIST SP 800-67 s.3).  Transcribed from the standard: the tables *)
(* are copied as printed there (1-based tuples), bits are numbered as there *)
(* (bit 1 = leftmost = most significant bit of the first byte).             *)
(*                                                                         *)
(* Data representation: a 64-bit block or key is a sequence of 8 bytes      *)
(* (0..255); inside the module every quantity is a tuple of bits (0/1).     *)
(*                                                                         *)
(* Tables (tuples of naturals, exactly the printing order of the standard): *)
(*   IPtab (64), FPtab (64, = IP^-1), Etab (48), Ptab (32), PC1tab (56),    *)
(*   PC2tab (48), Shifts (16), SBoxes (8 tuples of 64 = 4 rows x 16 columns *)
(*   row-major).                                                            *)
(* Operators:                                                               *)
(*   Permute(bits, tab)    tuple of Len(tab) bits, i-th = bits[tab[i]]      *)
(*   BytesToBits(bytes)    8*Len bits, each byte most significant bit first *)
(*   BitsToBytes(bits)     inverse (Len(bits) a multiple of 8)              *)
(*   XorBits(a, b)         bit-by-bit addition modulo 2 (equal lengths)     *)
(*   DesS(n, x)            S-box n \in 1..8 on x \in 0..63 whose binary     *)
(*                         digits are b1..b6 (b1 = 32's digit): row b1b6,   *)
(*                         column b2b3b4b5; result 0..15                    *)
(*   DesF(R, K)            cipher function f: R 32 bits, K 48 bits -> 32    *)
(*   DesSubkeys(key8)      <<K1,...,K16>>, each 48 bits (KS of the standard)*)
(*   DesCrypt(ks, blk8)    IP, 16 rounds using ks[1],...,ks[16], swap, FP   *)
(*   DesEnc(key8, blk8)    8 bytes; DesDec(key8, blk8) 8 bytes.  Key bits   *)
(*                         8,16,...,64 (parity) are not used and not checked*)
(*                         A key or block that is not 8 bytes long is a TLC *)
(*                         error (Assert), not a value.                     *)
(*   TdeaEnc(k1,k2,k3,blk) = E_k3(D_k2(E_k1(blk)))                          *)
(*   TdeaDec(k1,k2,k3,blk) = D_k1(E_k2(D_k3(blk)))                          *)
(*                         keying option 1: three independent keys,         *)
(*                         option 2: k3 = k1, option 3: k1 = k2 = k3 (= DES)*)
(* All results are concrete tuples (Append, \o, SubSeq), see Words.tla.     *)
(* Other definitions (Des...R, DesByte8, DesNib4, DesRotL, DesReverse16)    *)
(* are internal helpers.                                                    *)
(***************************************************************************)
EXTENDS Naturals, Sequences, TLC

\* ---- tables of FIPS 46-3 ----------------------------------------------------
\* initial permutation IP
IPtab == <<58, 50, 42, 34, 26, 18, 10,  2,
           60, 52, 44, 36, 28, 20, 12,  4,
           62, 54, 46, 38, 30, 22, 14,  6,
           64, 56, 48, 40, 32, 24, 16,  8,
           57, 49, 41, 33, 25, 17,  9,  1,
           59, 51, 43, 35, 27, 19, 11,  3,
           61, 53, 45, 37, 29, 21, 13,  5,
           63, 55, 47, 39, 31, 23, 15,  7>>
\* inverse initial permutation IP^-1
FPtab == <<40,  8, 48, 16, 56, 24, 64, 32,
           39,  7, 47, 15, 55, 23, 63, 31,
           38,  6, 46, 14, 54, 22, 62, 30,
           37,  5, 45, 13, 53, 21, 61, 29,
           36,  4, 44, 12, 52, 20, 60, 28,
           35,  3, 43, 11, 51, 19, 59, 27,
           34,  2, 42, 10, 50, 18, 58, 26,
           33,  1, 41,  9, 49, 17, 57, 25>>
\* E bit-selection table
Etab == <<32,  1,  2,  3,  4,  5,
           4,  5,  6,  7,  8,  9,
           8,  9, 10, 11, 12, 13,
          12, 13, 14, 15, 16, 17,
          16, 17, 18, 19, 20, 21,
          20, 21, 22, 23, 24, 25,
          24, 25, 26, 27, 28, 29,
          28, 29, 30, 31, 32,  1>>
\* permutation function P
Ptab == <<16,  7, 20, 21,
          29, 12, 28, 17,
           1, 15, 23, 26,
           5, 18, 31, 10,
           2,  8, 24, 14,
          32, 27,  3,  9,
          19, 13, 30,  6,
          22, 11,  4, 25>>
\* permuted choice 1 (first 4 lines: C0, last 4 lines: D0)
PC1tab == <<57, 49, 41, 33, 25, 17,  9,
             1, 58, 50, 42, 34, 26, 18,
            10,  2, 59, 51, 43, 35, 27,
            19, 11,  3, 60, 52, 44, 36,
            63, 55, 47, 39, 31, 23, 15,
             7, 62, 54, 46, 38, 30, 22,
            14,  6, 61, 53, 45, 37, 29,
            21, 13,  5, 28, 20, 12,  4>>
\* permuted choice 2
PC2tab == <<14, 17, 11, 24,  1,  5,
             3, 28, 15,  6, 21, 10,
            23, 19, 12,  4, 26,  8,
            16,  7, 27, 20, 13,  2,
            41, 52, 31, 37, 47, 55,
            30, 40, 51, 45, 33, 48,
            44, 49, 39, 56, 34, 53,
            46, 42, 50, 36, 29, 32>>
\* number of left shifts at iteration 1..16
Shifts == <<1, 1, 2, 2, 2, 2, 2, 2, 1, 2, 2, 2, 2, 2, 2, 1>>
\* primitive functions S1..S8: rows 0..3, columns 0..15
SBoxes == <<
  <<14,  4, 13,  1,  2, 15, 11,  8,  3, 10,  6, 12,  5,  9,  0,  7,
     0, 15,  7,  4, 14,  2, 13,  1, 10,  6, 12, 11,  9,  5,  3,  8,
     4,  1, 14,  8, 13,  6,  2, 11, 15, 12,  9,  7,  3, 10,  5,  0,
    15, 12,  8,  2,  4,  9,  1,  7,  5, 11,  3, 14, 10,  0,  6, 13>>,
  <<15,  1,  8, 14,  6, 11,  3,  4,  9,  7,  2, 13, 12,  0,  5, 10,
     3, 13,  4,  7, 15,  2,  8, 14, 12,  0,  1, 10,  6,  9, 11,  5,
     0, 14,  7, 11, 10,  4, 13,  1,  5,  8, 12,  6,  9,  3,  2, 15,
    13,  8, 10,  1,  3, 15,  4,  2, 11,  6,  7, 12,  0,  5, 14,  9>>,
  <<10,  0,  9, 14,  6,  3, 15,  5,  1, 13, 12,  7, 11,  4,  2,  8,
    13,  7,  0,  9,  3,  4,  6, 10,  2,  8,  5, 14, 12, 11, 15,  1,
    13,  6,  4,  9,  8, 15,  3,  0, 11,  1,  2, 12,  5, 10, 14,  7,
     1, 10, 13,  0,  6,  9,  8,  7,  4, 15, 14,  3, 11,  5,  2, 12>>,
  << 7, 13, 14,  3,  0,  6,  9, 10,  1,  2,  8,  5, 11, 12,  4, 15,
    13,  8, 11,  5,  6, 15,  0,  3,  4,  7,  2, 12,  1, 10, 14,  9,
    10,  6,  9,  0, 12, 11,  7, 13, 15,  1,  3, 14,  5,  2,  8,  4,
     3, 15,  0,  6, 10,  1, 13,  8,  9,  4,  5, 11, 12,  7,  2, 14>>,
  << 2, 12,  4,  1,  7, 10, 11,  6,  8,  5,  3, 15, 13,  0, 14,  9,
    14, 11,  2, 12,  4,  7, 13,  1,  5,  0, 15, 10,  3,  9,  8,  6,
     4,  2,  1, 11, 10, 13,  7,  8, 15,  9, 12,  5,  6,  3,  0, 14,
    11,  8, 12,  7,  1, 14,  2, 13,  6, 15,  0,  9, 10,  4,  5,  3>>,
  <<12,  1, 10, 15,  9,  2,  6,  8,  0, 13,  3,  4, 14,  7,  5, 11,
    10, 15,  4,  2,  7, 12,  9,  5,  6,  1, 13, 14,  0, 11,  3,  8,
     9, 14, 15,  5,  2,  8, 12,  3,  7,  0,  4, 10,  1, 13, 11,  6,
     4,  3,  2, 12,  9,  5, 15, 10, 11, 14,  1,  7,  6,  0,  8, 13>>,
  << 4, 11,  2, 14, 15,  0,  8, 13,  3, 12,  9,  7,  5, 10,  6,  1,
    13,  0, 11,  7,  4,  9,  1, 10, 14,  3,  5, 12,  2, 15,  8,  6,
     1,  4, 11, 13, 12,  3,  7, 14, 10, 15,  6,  8,  0,  5,  9,  2,
     6, 11, 13,  8,  1,  4, 10,  7,  9,  5,  0, 15, 14,  2,  3, 12>>,
  <<13,  2,  8,  4,  6, 15, 11,  1, 10,  9,  3, 14,  5,  0, 12,  7,
     1, 15, 13,  8, 10,  3,  7,  4, 12,  5,  6, 11,  0, 14,  9,  2,
     7, 11,  4,  1,  9, 12, 14,  2,  0,  6, 10, 13, 15,  3,  5,  8,
     2,  1, 14,  7,  4, 10,  8, 13, 15, 12,  9,  0,  3,  5,  6, 11>> >>

\* ---- bits -------------------------------------------------------------------
\* SubSeq(s, 1, Len(s)) = s for every sequence s.  It is written around the two function constructors
\* below only because TLC's SubSeq materialises its argument as a concrete tuple (a bare constructor stays
\* lazy and is re-evaluated at every access, which is exponential over 16 rounds); measured 4.5 times
\* faster than building the same tuple by a recursive operator with Append.
\* <<bits[tab[1]], ..., bits[tab[Len(tab)]]>>
Permute(bits, tab) == SubSeq([i \in 1..Len(tab) |-> bits[tab[i]]], 1, Len(tab))
\* bit-by-bit addition modulo 2
XorBits(a, b) == SubSeq([i \in 1..Len(a) |-> (a[i] + b[i]) % 2], 1, Len(a))

DesByte8(v) == <<v \div 128, (v \div 64) % 2, (v \div 32) % 2, (v \div 16) % 2,
                 (v \div 8) % 2, (v \div 4) % 2, (v \div 2) % 2, v % 2>>
DesNib4(v)  == <<v \div 8, (v \div 4) % 2, (v \div 2) % 2, v % 2>>
RECURSIVE DesToBitsR(_,_,_)
DesToBitsR(bs, i, acc) == IF i > Len(bs) THEN acc ELSE DesToBitsR(bs, i+1, acc \o DesByte8(bs[i]))
BytesToBits(bs) == DesToBitsR(bs, 1, <<>>)
RECURSIVE DesToBytesR(_,_,_)
DesToBytesR(b, j, acc) == IF 8*j >= Len(b) THEN acc
   ELSE DesToBytesR(b, j+1, Append(acc, 128*b[8*j+1] + 64*b[8*j+2] + 32*b[8*j+3] + 16*b[8*j+4]
                                      + 8*b[8*j+5] + 4*b[8*j+6] + 2*b[8*j+7] + b[8*j+8]))
BitsToBytes(b) == DesToBytesR(b, 0, <<>>)

\* ---- the cipher function f ----------------------------------------------------
\* x = 32 b1 + 16 b2 + 8 b3 + 4 b4 + 2 b5 + b6: row = b1 b6, column = b2 b3 b4 b5
DesS(n, x) == LET row == 2*(x \div 32) + (x % 2)
                  col == (x \div 2) % 16
              IN SBoxes[n][16*row + col + 1]
\* S1(B1) S2(B2) ... S8(B8) for the 48 bits x = B1 B2 ... B8
RECURSIVE DesSubstR(_,_,_)
DesSubstR(x, n, acc) == IF n > 8 THEN acc
   ELSE LET j == 6*(n-1)
            v == 32*x[j+1] + 16*x[j+2] + 8*x[j+3] + 4*x[j+4] + 2*x[j+5] + x[j+6]
        IN DesSubstR(x, n+1, acc \o DesNib4(DesS(n, v)))
\* f(R, K) = P(S1(B1) ... S8(B8)),  B1 ... B8 = K (+) E(R)
DesF(R, K) == Permute(DesSubstR(XorBits(K, Permute(R, Etab)), 1, <<>>), Ptab)

\* ---- key schedule KS ----------------------------------------------------------
DesRotL(c, s) == SubSeq(c, s+1, Len(c)) \o SubSeq(c, 1, s)
\* C_n, D_n from C_(n-1), D_(n-1) by Shifts[n] left shifts; K_n = PC2(C_n D_n)
RECURSIVE DesKsR(_,_,_,_)
DesKsR(c, d, n, acc) == IF n > 16 THEN acc
   ELSE LET cn == DesRotL(c, Shifts[n])
            dn == DesRotL(d, Shifts[n])
        IN DesKsR(cn, dn, n+1, Append(acc, Permute(cn \o dn, PC2tab)))
DesSubkeys(key) ==
  IF Len(key) # 8 THEN Assert(FALSE, "DesSubkeys: the key must be 8 bytes")
  ELSE LET cd == Permute(BytesToBits(key), PC1tab)
       IN DesKsR(SubSeq(cd, 1, 28), SubSeq(cd, 29, 56), 1, <<>>)

\* ---- enciphering / deciphering --------------------------------------------------
\* lr = <<L_(n-1), R_(n-1)>>;  L_n = R_(n-1),  R_n = L_(n-1) (+) f(R_(n-1), K_n);  preoutput = R16 L16
\* (the state is a pair rather than two arguments so that TLC evaluates round n-1 before entering f)
RECURSIVE DesRoundsR(_,_,_)
DesRoundsR(lr, ks, n) == IF n > 16 THEN lr[2] \o lr[1]
                         ELSE DesRoundsR(<<lr[2], XorBits(lr[1], DesF(lr[2], ks[n]))>>, ks, n+1)
\* The test of the preconditions also makes TLC evaluate blk and ks before the rounds, so that composed
\* calls (TDEA, chaining modes) need the evaluation stack of one DES, not of the sum of all of them.
DesCrypt(ks, blk) ==
  IF Len(blk) # 8 \/ Len(ks) # 16 THEN Assert(FALSE, "DesCrypt: the block must be 8 bytes, the key schedule 16 subkeys")
  ELSE LET ip == Permute(BytesToBits(blk), IPtab)
       IN BitsToBytes(Permute(DesRoundsR(<<SubSeq(ip, 1, 32), SubSeq(ip, 33, 64)>>, ks, 1), FPtab))
DesReverse16(ks) == <<ks[16], ks[15], ks[14], ks[13], ks[12], ks[11], ks[10], ks[9],
                      ks[8], ks[7], ks[6], ks[5], ks[4], ks[3], ks[2], ks[1]>>
DesEnc(key, blk) == DesCrypt(DesSubkeys(key), blk)
\* deciphering: the same algorithm with K16 used at the first iteration, ..., K1 at the last
DesDec(key, blk) == DesCrypt(DesReverse16(DesSubkeys(key)), blk)

\* ---- TDEA (FIPS 46-3, SP 800-67) ------------------------------------------------
TdeaEnc(k1, k2, k3, blk) == DesEnc(k3, DesDec(k2, DesEnc(k1, blk)))
TdeaDec(k1, k2, k3, blk) == DesDec(k1, DesEnc(k2, DesDec(k3, blk)))
=============================================================================
