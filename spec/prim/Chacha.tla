------------------------------- MODULE Chacha -------------------------------
(***************************************************************************)
(* ChaCha family, transcribed from D. J. Bernstein, "ChaCha, a variant of   *)
(* Salsa20" (2008): 64-bit block counter, 64-bit nonce (NOT the RFC 7539    *)
(* variant with a 32-bit counter and a 96-bit nonce).  `rounds` rounds =    *)
(* rounds/2 double rounds (ChaCha8, ChaCha12, ChaCha20).                    *)
(* Words are W32 limb tuples <<lo16, hi16>> of module Words; bytes 0..255.  *)
(* The 4x4 matrix x_0..x_15 is the 1-based tuple x with x[i+1] = x_i:       *)
(*      constants  constants  constants  constants                         *)
(*      key        key        key        key                               *)
(*      key        key        key        key                               *)
(*      counter_lo counter_hi nonce      nonce            (s.3.4)           *)
(*                                                                         *)
(*   ChachaQuarter(v)        v = <<a,b,c,d>> -> <<a,b,c,d>>        (s.3.1)  *)
(*   ChachaColumnRound(x), ChachaDiagonalRound(x)  16 words -> 16 words     *)
(*   ChachaDoubleRound(x)    = DiagonalRound(ColumnRound(x))       (s.3.3)  *)
(*   ChachaCoreW(rounds, x)  16 words -> 16 words: x + doubleround^(r/2)(x) *)
(*   ChachaInit(key, nonce, ctr)  the 16 input words: constants sigma       *)
(*                           "expand 32-byte k" and key words 4..11 for a   *)
(*                           32-byte key; for a 16-byte key the constants   *)
(*                           tau "expand 16-byte k" and the key repeated    *)
(*                           (words 4..7 = words 8..11), as in Salsa20;     *)
(*                           ctr = 4-limb word (64 bits) -> words 12 (low), *)
(*                           13 (high); nonce = 8 bytes -> words 14, 15;    *)
(*                           all words little-endian                       *)
(*   ChachaBlock(key, nonce, ctr, rounds)   64 keystream bytes (the output  *)
(*                           words in little-endian order)                  *)
(*   ChachaXor(key, nonce, ctr0, rounds, m) m xor the keystream starting at *)
(*                           block ctr0; the counter is incremented as a    *)
(*                           64-bit integer (carry from word 12 into word   *)
(*                           13; wraps modulo 2^64, never into the nonce).  *)
(*                           The last block may be partial.                 *)
(* TLC!TLCEval(v) = v; it only makes TLC evaluate a value eagerly, once.    *)
(***************************************************************************)
EXTENDS Words, TLC

\* s.3.1  a += b; d ^= a; d <<<= 16;  c += d; b ^= c; b <<<= 12;
\*        a += b; d ^= a; d <<<= 8;   c += d; b ^= c; b <<<= 7
ChachaQuarter(v) ==
  LET a1 == WAdd(v[1], v[2])   d1 == Rol(WXor(v[4], a1), 16)
      c1 == WAdd(v[3], d1)     b1 == Rol(WXor(v[2], c1), 12)
      a2 == WAdd(a1, b1)       d2 == Rol(WXor(d1, a2), 8)
      c2 == WAdd(c1, d2)       b2 == Rol(WXor(b1, c2), 7)
  IN <<a2, b2, c2, d2>>

\* s.3.3  QR(x0,x4,x8,x12) QR(x1,x5,x9,x13) QR(x2,x6,x10,x14) QR(x3,x7,x11,x15)
ChachaColumnRound(x) ==
  LET p == ChachaQuarter(<<x[1], x[5], x[9],  x[13]>>)
      q == ChachaQuarter(<<x[2], x[6], x[10], x[14]>>)
      r == ChachaQuarter(<<x[3], x[7], x[11], x[15]>>)
      s == ChachaQuarter(<<x[4], x[8], x[12], x[16]>>)
  IN <<p[1], q[1], r[1], s[1],   p[2], q[2], r[2], s[2],
       p[3], q[3], r[3], s[3],   p[4], q[4], r[4], s[4]>>

\*        QR(x0,x5,x10,x15) QR(x1,x6,x11,x12) QR(x2,x7,x8,x13) QR(x3,x4,x9,x14)
ChachaDiagonalRound(x) ==
  LET p == ChachaQuarter(<<x[1], x[6], x[11], x[16]>>)     \* 0 5 10 15
      q == ChachaQuarter(<<x[2], x[7], x[12], x[13]>>)     \* 1 6 11 12
      r == ChachaQuarter(<<x[3], x[8], x[9],  x[14]>>)     \* 2 7 8  13
      s == ChachaQuarter(<<x[4], x[5], x[10], x[15]>>)     \* 3 4 9  14
  IN <<p[1], q[1], r[1], s[1],   s[2], p[2], q[2], r[2],
       r[3], s[3], p[3], q[3],   q[4], r[4], s[4], p[4]>>

ChachaDoubleRound(x) == ChachaDiagonalRound(ChachaColumnRound(x))

RECURSIVE ChachaIter(_,_)
ChachaIter(n, x) == IF n = 0 THEN x ELSE ChachaIter(n-1, ChachaDoubleRound(x))

ChachaCoreW(rounds, x) ==
  LET z == ChachaIter(rounds \div 2, x)
  IN <<WAdd(x[1], z[1]),   WAdd(x[2], z[2]),   WAdd(x[3], z[3]),   WAdd(x[4], z[4]),
       WAdd(x[5], z[5]),   WAdd(x[6], z[6]),   WAdd(x[7], z[7]),   WAdd(x[8], z[8]),
       WAdd(x[9], z[9]),   WAdd(x[10], z[10]), WAdd(x[11], z[11]), WAdd(x[12], z[12]),
       WAdd(x[13], z[13]), WAdd(x[14], z[14]), WAdd(x[15], z[15]), WAdd(x[16], z[16])>>

\* "expand 32-byte k" / "expand 16-byte k"
ChachaSigma == <<101,120,112,97, 110,100,32,51, 50,45,98,121, 116,101,32,107>>
ChachaTau   == <<101,120,112,97, 110,100,32,49, 54,45,98,121, 116,101,32,107>>
ChachaInit(key, nonce, ctr) ==
  WordsFromLE((IF Len(key) = 32 THEN ChachaSigma \o key ELSE ChachaTau \o key \o key) \o WToLE(ctr) \o nonce, 4)

ChachaBlock(key, nonce, ctr, rounds) == WordsToLE(ChachaCoreW(rounds, ChachaInit(key, nonce, ctr)))

\* Block b (b = 0, 1, ...) of the output is block b of m xor the keystream block number ctr0 + b mod 2^64
\* (the last block of m may be short; XorBytes truncates the keystream).  The blocks are computed as the
\* values of a function over the block indices and then concatenated: a recursion over the blocks would
\* make TLC evaluate block b in a context of depth O(b) (identifier lookups walk it: quadratic time).
\* Len(m) < 2^31 bytes, hence b < 2^25 fits WAddNat.
RECURSIVE ChachaCat(_,_,_,_)
ChachaCat(f, b, nb, acc) == IF b = nb THEN acc ELSE ChachaCat(f, b+1, nb, acc \o f[b])
ChachaXor(key, nonce, ctr0, rounds, m) ==
  LET L  == Len(m)
      nb == (L + 63) \div 64
      f  == TLCEval([b \in 0..(nb-1) |->
                      XorBytes(SubSeq(m, 64*b + 1, IF 64*b + 64 < L THEN 64*b + 64 ELSE L),
                               ChachaBlock(key, nonce, WAddNat(ctr0, b), rounds))])
  IN ChachaCat(f, 0, nb, <<>>)
=============================================================================
