------------------------------ MODULE Nilsimsa ------------------------------
(***************************************************************************)
(* The Nilsimsa locality-sensitive hash, transcribed from cmeclax's          *)
(* nilsimsa 0.2.4 (nilsimsa.c: filltran, tran3, accbuf/accfile, makecode,    *)
(* codetostr, nilsimsa()).                                                   *)
(*                                                                         *)
(* Every byte is combined with pairs of the (up to) 4 bytes before it into   *)
(* up to 8 "trigrams"; each trigram is hashed by tran3 to one of 256          *)
(* counters; digest bit i is set when counter i exceeds the mean              *)
(* (number of trigrams / 256, integer division).                             *)
(*                                                                         *)
(* The byte permutation `tran` is DERIVED here by the generator of the        *)
(* original code                                                             *)
(*     for (i=j=0;i<256;i++)                                                 *)
(*       {j=(j*53+1)&255; j+=j; if (j>255) j-=255;                           *)
(*        for (k=0;k<i;k++) if (j==tran[k]) {j=(j+1)&255; k=0;}              *)
(*        tran[i]=j;}                                                        *)
(* with the multiplier 53 turned into the parameter `target` (the library     *)
(* under test has it: Nilsimsa(target=53); /repo/tests/test_nilsimsa.py uses  *)
(* 17, and its vectors for 17 are reproduced by this reading).  Remarks:      *)
(*  - j is ONE variable: the value bumped by the collision loop is what the   *)
(*    next iteration multiplies;                                             *)
(*  - after "k=0" the for statement still executes k++, so the rescan         *)
(*    resumes at k=1 and tran[0] (always 2) is not compared again.  This is   *)
(*    transcribed literally (NilScan); a python check over all 256            *)
(*    multipliers showed that a full rescan gives the same 256 tables, and    *)
(*    that every table is a permutation.                                     *)
(*  - NilTran(53) equals the literal TRAN table of the later ports            *)
(*    (02 D6 9E 6F F9 1D 04 AB ...): ST_NilsimsaThm.                          *)
(*                                                                         *)
(* Interface (bytes 0..255, byte strings are sequences)                      *)
(*   NilTran(target)          tuple of 256 bytes, T[i+1] = tran[i]           *)
(*   NilTran53                NilTran(53)                                    *)
(*   NilTran3(T, a, b, c, n)  the macro tran3 with table T; n in 0..7        *)
(*   tran3(a, b, c, n)        NilTran3(NilTran53, a, b, c, n)                *)
(*   NilsimsaState            [acc: 256 counters (acc[i+1] = acc[i] of the   *)
(*                            C code), window: the last <= 4 bytes, MOST     *)
(*                            RECENT FIRST (window[1] = lastch[0]), count:   *)
(*                            number of bytes absorbed]                      *)
(*   NilInit                  the initial state                              *)
(*   NilStepT(T, st, ch)      absorb one byte                                *)
(*   NilUpdateT(T, st, bytes) absorb a byte string (table T)                 *)
(*   NilUpdate(st, bytes)     NilUpdateT(NilTran53, st, bytes)               *)
(*   NilTotal(count)          number of trigrams counted after count bytes   *)
(*   NilDigest(st)            32 bytes, as printed by the original           *)
(*                            (codetostr): digest byte 31 - (i >> 3)         *)
(*                            (0-based) holds bit (i & 7) for counter i      *)
(*   NilsimsaT(target, m), Nilsimsa(m)   one-shot digest                     *)
(*   NilDistance(d1, d2)      number of differing bits, 0..256               *)
(*   NilScore(d1, d2)         128 - NilDistance: the customary nilsimsa      *)
(*                            comparison value, -128..128                    *)
(*   NilPopCount(d)           number of set bits of a byte string            *)
(*                                                                         *)
(* Measured in TLC (one worker): NilTran 68 ms, NilUpdate 0.7 ms per byte.   *)
(***************************************************************************)
EXTENDS Integers, Words

\* ---- tran -----------------------------------------------------------------
\* for (k=k0;k<i;k++) if (j==tran[k]) {j=(j+1)&255; k=0;}   -- tran = the i entries made so far, k 0-based.
\* The loop runs to the first k >= k0 with tran[k] = j, bumps j and goes on at k = 1 (k=0, then the for's k++);
\* without such a k it ends.
RECURSIVE NilScan(_,_,_)
NilScan(tran, j, k0) ==
  IF \E k \in k0..(Len(tran) - 1) : tran[k+1] = j THEN NilScan(tran, (j + 1) % 256, 1) ELSE j
\* one iteration of the outer loop; the running j is the entry stored last (0 before the first)
NilTran1(mult, tran) ==
  LET j  == IF Len(tran) = 0 THEN 0 ELSE tran[Len(tran)]
      j1 == ((j * mult) + 1) % 256
      j2 == j1 + j1
      j3 == IF j2 > 255 THEN j2 - 255 ELSE j2
  IN Append(tran, NilScan(tran, j3, 0))
\* 256 iterations, nested 4 x 4 x 4 x 4 instead of a recursion of depth 256 (TLC evaluates constant
\* definitions such as NilTran53 on its main thread, whose stack -Xss does not enlarge)
NilTran4(mult, t)   == NilTran1(mult, NilTran1(mult, NilTran1(mult, NilTran1(mult, t))))
NilTran16(mult, t)  == NilTran4(mult, NilTran4(mult, NilTran4(mult, NilTran4(mult, t))))
NilTran64(mult, t)  == NilTran16(mult, NilTran16(mult, NilTran16(mult, NilTran16(mult, t))))
NilTranR(mult, t)   == NilTran64(mult, NilTran64(mult, NilTran64(mult, NilTran64(mult, t))))
\* (j*target+1)&255 only depends on target modulo 256 (also for python's negative / big integers)
NilTran(target) == NilTranR(target % 256, <<>>)
NilTran53 == NilTran(53)

\* #define tran3(a,b,c,n) (((tran[((a)+(n))&255]^tran[(b)]*((n)+(n)+1))+tran[(c)^tran[n]])&255)
\* i.e. ((tran[(a+n)&255] xor (tran[b]*(2n+1))) + tran[c xor tran[n]]) & 255   (* binds tighter than ^)
NilTran3(T, a, b, c, n) ==
  ((T[((a + n) % 256) + 1] ^^ (T[b+1] * (n + n + 1))) + T[(c ^^ T[n+1]) + 1]) % 256
tran3(a, b, c, n) == NilTran3(NilTran53, a, b, c, n)

\* ---- accumulation -----------------------------------------------------------
Zero16 == <<0,0,0,0,0,0,0,0,0,0,0,0,0,0,0,0>>
Zero256 == Zero16 \o Zero16 \o Zero16 \o Zero16 \o Zero16 \o Zero16 \o Zero16 \o Zero16 \o
           Zero16 \o Zero16 \o Zero16 \o Zero16 \o Zero16 \o Zero16 \o Zero16 \o Zero16
NilsimsaState == [acc : [1..256 -> Nat], window : {w \in Seq(0..255) : Len(w) <= 4}, count : Nat]
NilInit == [acc |-> Zero256, window |-> <<>>, count |-> 0]

\* the counters hit by byte ch when w = <<lastch[0], lastch[1], lastch[2], lastch[3]>> (as many as exist):
\*   if (lastch[1]>=0)  acc[tran3(ch,lastch[0],lastch[1],0)]++;
\*   if (lastch[2]>=0) {acc[tran3(ch,lastch[0],lastch[2],1)]++; acc[tran3(ch,lastch[1],lastch[2],2)]++;}
\*   if (lastch[3]>=0) {acc[tran3(ch,lastch[0],lastch[3],3)]++; acc[tran3(ch,lastch[1],lastch[3],4)]++;
\*                      acc[tran3(ch,lastch[2],lastch[3],5)]++;
\*                      acc[tran3(lastch[3],lastch[0],ch,6)]++; acc[tran3(lastch[3],lastch[2],ch,7)]++;}
NilHits(T, w, ch) ==
  (IF Len(w) >= 2 THEN <<NilTran3(T, ch, w[1], w[2], 0)>> ELSE <<>>) \o
  (IF Len(w) >= 3 THEN <<NilTran3(T, ch, w[1], w[3], 1), NilTran3(T, ch, w[2], w[3], 2)>> ELSE <<>>) \o
  (IF Len(w) >= 4 THEN <<NilTran3(T, ch, w[1], w[4], 3), NilTran3(T, ch, w[2], w[4], 4),
                         NilTran3(T, ch, w[3], w[4], 5),
                         NilTran3(T, w[4], w[1], ch, 6), NilTran3(T, w[4], w[3], ch, 7)>> ELSE <<>>)
RECURSIVE NilBump(_,_,_)
NilBump(acc, hits, i) == IF i > Len(hits) THEN acc ELSE NilBump([acc EXCEPT ![hits[i] + 1] = @ + 1], hits, i + 1)

NilStepT(T, st, ch) ==
  [acc    |-> NilBump(st.acc, NilHits(T, st.window, ch), 1),
   window |-> Take(<<ch>> \o st.window, 4),
   count  |-> st.count + 1]
RECURSIVE NilUpdateR(_,_,_,_)
NilUpdateR(T, st, bytes, i) == IF i > Len(bytes) THEN st ELSE NilUpdateR(T, NilStepT(T, st, bytes[i]), bytes, i + 1)
NilUpdateT(T, st, bytes) == NilUpdateR(T, st, bytes, 1)
NilUpdate(st, bytes) == NilUpdateT(NilTran53, st, bytes)

\* ---- digest -------------------------------------------------------------------
\* switch (chcount) {case 0: case 1: case 2: break; case 3: total++; break; case 4: total+=4; break;
\*                   default: total+=(8*chcount)-28;}       = the number of NilHits entries so far
NilTotal(count) == IF count < 3 THEN 0 ELSE IF count = 3 THEN 1 ELSE IF count = 4 THEN 4 ELSE (8 * count) - 28
\* makecode: code[i>>3] += ((acc[i] > threshold) << (i&7));   threshold = total/256
NilBit(acc, thr, i) == IF acc[i+1] > thr THEN 1 ELSE 0
NilCodeByte(acc, thr, c) ==                      \* code[c], c in 0..31
  LET b == 8 * c IN
  NilBit(acc, thr, b) + (2 * NilBit(acc, thr, b+1)) + (4 * NilBit(acc, thr, b+2)) + (8 * NilBit(acc, thr, b+3)) +
  (16 * NilBit(acc, thr, b+4)) + (32 * NilBit(acc, thr, b+5)) + (64 * NilBit(acc, thr, b+6)) + (128 * NilBit(acc, thr, b+7))
\* codetostr prints code[31], code[30], ..., code[0]
RECURSIVE NilDigestR(_,_,_,_)
NilDigestR(acc, thr, c, out) == IF c < 0 THEN out ELSE NilDigestR(acc, thr, c - 1, Append(out, NilCodeByte(acc, thr, c)))
NilDigest(st) == NilDigestR(st.acc, NilTotal(st.count) \div 256, 31, <<>>)

NilsimsaT(target, m) == LET T == NilTran(target) IN NilDigest(NilUpdateT(T, NilInit, m))
Nilsimsa(m) == NilDigest(NilUpdate(NilInit, m))

\* ---- comparison ---------------------------------------------------------------
NilPop8(x) == (x % 2) + ((x \div 2) % 2) + ((x \div 4) % 2) + ((x \div 8) % 2) +
              ((x \div 16) % 2) + ((x \div 32) % 2) + ((x \div 64) % 2) + (x \div 128)
RECURSIVE NilPopR(_,_,_)
NilPopR(d, i, n) == IF i > Len(d) THEN n ELSE NilPopR(d, i + 1, n + NilPop8(d[i]))
NilPopCount(d) == NilPopR(d, 1, 0)
NilDistance(d1, d2) == NilPopCount(XorBytes(d1, d2))          \* d1, d2 of the same length (32)
NilScore(d1, d2) == 128 - NilDistance(d1, d2)                 \* nilsimsa(): 128 - bits that differ
=============================================================================
