-------------------------------- MODULE Rc4 ---------------------------------
(***************************************************************************)
(* RC4 ("alleged RC4", as posted to sci.crypt in 1994 and described in      *)
(* Schneier, Applied Cryptography 2nd ed. s.17.1; RFC 6229 for vectors),    *)
(* generalised to a permutation of 0..N-1 so that a toy instance (N = 8)    *)
(* can be model checked; the real cipher is N = 256.  N is an argument,     *)
(* not a CONSTANT.                                                          *)
(* State: [S |-> tuple of N values, S[i+1] = S_i;  i |-> 0..N-1;            *)
(*         j |-> 0..N-1].                                                   *)
(*                                                                         *)
(*   Rc4Ksa(N, key)     key-scheduling: S = identity; j = 0;                *)
(*                      for i = 0..N-1: j = (j + S_i + key[i mod L]) mod N; *)
(*                      swap(S_i, S_j).  key = non-empty sequence of L      *)
(*                      naturals (bytes when N = 256; L <= N is the usual   *)
(*                      restriction but nothing here depends on it).        *)
(*                      Result [S |-> .., i |-> 0, j |-> 0].                *)
(*   Rc4Step(N, st)     one PRGA step: i = (i+1) mod N; j = (j + S_i) mod N;*)
(*                      swap(S_i, S_j); out = S_((S_i + S_j) mod N).        *)
(*                      Result [st |-> new state, out |-> value].           *)
(*   Rc4Gen(N, st, n)   n steps: [st |-> state after, ks |-> <<n values>>]  *)
(*                      (= Rc4GenR(N, st, n, <<>>), the plain tail          *)
(*                      recursion; evaluated in chunks of 64 steps)         *)
(*   Rc4Xor(N, st, m)   [st |-> state after Len(m) steps,                   *)
(*                       out |-> m[t] xor ks[t]]  (encryption = decryption; *)
(*                      the xor of two values < 2^k is < 2^k, so N = 8 is   *)
(*                      closed under it)                                    *)
(* TLC!TLCEval(v) = v; it only makes TLC evaluate a value eagerly, once,    *)
(* instead of piling up one lazy thunk per iteration (stack depth).         *)
(* ST_StreamThm checks Rc4Gen = Rc4GenR and Rc4Xor = XorBytes(m, Rc4Gen).   *)
(***************************************************************************)
EXTENDS Words, TLC

RECURSIVE Rc4Ident(_,_,_)
Rc4Ident(N, i, acc) == IF i = N THEN acc ELSE Rc4Ident(N, i+1, Append(acc, i))

\* S with S_a and S_b exchanged (a, b 0-based; a = b allowed)
Rc4Swap(S, a, b) == [S EXCEPT ![a+1] = S[b+1], ![b+1] = S[a+1]]

RECURSIVE Rc4KsaR(_,_,_,_,_)
Rc4KsaR(N, key, S, i, j) ==
  IF i = N THEN S
  ELSE LET j2 == (j + S[i+1] + key[(i % Len(key)) + 1]) % N
       IN Rc4KsaR(N, key, TLCEval(Rc4Swap(S, i, j2)), i+1, j2)
Rc4Ksa(N, key) == [S |-> Rc4KsaR(N, key, Rc4Ident(N, 0, <<>>), 0, 0), i |-> 0, j |-> 0]

Rc4Step(N, st) ==
  LET i2 == (st.i + 1) % N
      j2 == (st.j + st.S[i2+1]) % N
      S2 == Rc4Swap(st.S, i2, j2)
  IN [st |-> [S |-> S2, i |-> i2, j |-> j2], out |-> S2[((S2[i2+1] + S2[j2+1]) % N) + 1]]

\* n steps from st, keystream appended to acc
RECURSIVE Rc4GenR(_,_,_,_)
Rc4GenR(N, st, n, acc) ==
  IF n = 0 THEN [st |-> st, ks |-> acc]
  ELSE LET r == TLCEval(Rc4Step(N, st)) IN Rc4GenR(N, r.st, n-1, Append(acc, r.out))
\* The same in chunks of 64 steps: TLC evaluates step t of a plain recursion in a context of depth O(t)
\* (identifier lookups walk it), which is quadratic in n; with chunks the depth is n/64 + 64.
RECURSIVE Rc4GenC(_,_,_,_)
Rc4GenC(N, st, n, acc) ==
  IF n <= 64 THEN Rc4GenR(N, st, n, acc)
  ELSE LET g == TLCEval(Rc4GenR(N, st, 64, <<>>)) IN Rc4GenC(N, g.st, n - 64, acc \o g.ks)
Rc4Gen(N, st, n) == Rc4GenC(N, st, n, <<>>)

\* m xor keystream, also in chunks of 64 (Words!XorBytes is itself a recursion over the bytes)
RECURSIVE Rc4XorC(_,_,_,_,_)
Rc4XorC(N, st, m, off, acc) ==
  IF Len(m) - off <= 64
  THEN LET g == Rc4GenR(N, st, Len(m) - off, <<>>) IN [st |-> g.st, out |-> acc \o XorBytes(SubSeq(m, off + 1, Len(m)), g.ks)]
  ELSE LET g == TLCEval(Rc4GenR(N, st, 64, <<>>))
       IN Rc4XorC(N, g.st, m, off + 64, TLCEval(acc \o XorBytes(SubSeq(m, off + 1, off + 64), g.ks)))
Rc4Xor(N, st, m) == Rc4XorC(N, st, m, 0, <<>>)
=============================================================================
