-------------------------------- MODULE Md6 ---------------------------------
(***************************************************************************)
(* The MD6 compression function, transcribed from "The MD6 hash function -  *)
(* A proposal to NIST for SHA-3" (Rivest et al., 2008), sections 2.2 - 2.5.  *)
(* Word size w = 64, n = 89 input words, c = 16 output words, q = 15,        *)
(* k = 8 key words, u = v = 1, b = 64 data words.                            *)
(*                                                                           *)
(* 64-bit words are 4-limb tuples of module Words (least significant limb    *)
(* first).  Interface:                                                       *)
(*   Md6Q                  tuple of 15 words, the fractional part of sqrt(6) *)
(*                         (output of tools/gen_kat_md6.py consts: exact      *)
(*                         integer square root, nothing typed by hand)        *)
(*   Md6Taps               <<17, 18, 21, 31, 67>>   (t0 .. t4)                *)
(*   Md6ShiftR, Md6ShiftL  the 16 right / left shift amounts r_i, l_i         *)
(*   Md6S0, Md6Smask       S'_0 and Smask (the report's S star);              *)
(*   Md6SNext(S)           (S <<< 1) xor (S and Smask)                         *)
(*   Md6S(j)               round constant of round j >= 0                     *)
(*   Md6STable(r)          <<S_0, ..., S_{r-1}>>                              *)
(*   Md6F(r, N)            N = tuple of 89 words -> tuple of the LAST 16      *)
(*                         words of A after t = 16 r steps  (r >= 1)          *)
(*   Md6ControlWord(r, L, z, p, keylen, d)   the word V (r, L, z, p, keylen,  *)
(*                         d naturals in their field ranges)                  *)
(*   Md6NodeId(level, index)                 the word U (index < 2^31)        *)
(*   Md6KeyWords(K)        K = 0..64 key bytes -> 8 words (zero padded)       *)
(*   Md6Input(Kw, level, index, r, L, z, p, keylen, d, B)                     *)
(*                         Q || K || U || V || B  (B = 64 data words)         *)
(*   Md6DefaultRounds(d, keylen)   40 + floor(d/4), at least 80 when keyed    *)
(*                                                                           *)
(* Step i (i = n .. n + t - 1, s = (i - n) mod 16, j = (i - n) div 16):       *)
(*   x    = S_j xor A[i-n] xor A[i-t0]                                        *)
(*   x    = x xor (A[i-t1] and A[i-t2]) xor (A[i-t3] and A[i-t4])             *)
(*   x    = x xor (x >> r_s)                                                  *)
(*   A[i] = x xor (x << l_s)                                                  *)
(***************************************************************************)
EXTENDS Words

Md6N == 89       \* words of compression input
Md6C == 16       \* words of compression output (chaining value)
Md6B == 64       \* data words per compression

\* fractional part of sqrt(6): word i holds bits 64 i + 1 .. 64 i + 64 after the binary point
Md6Q == <<
  W64(29457, 49793, 9253, 53152),    \* 7311c2812425cfa0
  W64(25650, 10340, 13482, 51431),   \* 6432286434aac8e7
  W64(46596, 20713, 61288, 47041),   \* b60450e9ef68b7c1
  W64(59643, 9104, 36255, 1777),     \* e8fb23908d9f06f1
  W64(56622, 30411, 42641, 58815),   \* dd2e76cba691e5bf
  W64(3280, 54843, 11312, 48193),    \* 0cd0d63b2c30bc41
  W64(8076, 53096, 8965, 36746),     \* 1f8ccf6823058f8a
  W64(21733, 60763, 35043, 30557),   \* 54e5ed5b88e3775d
  W64(19153, 10926, 2669, 24625),    \* 4ad12aae0a6d6031
  W64(15999, 5819, 34850, 11789),    \* 3e7f16bb88222e0d
  W64(35576, 26397, 16309, 3116),    \* 8af8671d3fb50c2c
  W64(39258, 53527, 35794, 23601),   \* 995ad1178bd25c31
  W64(51320, 49629, 1220, 46643),    \* c878c1dd04c4b633
  W64(15218, 1644, 31253, 21164),    \* 3b72066c7a1552ac
  W64(3439, 13602, 25374, 65483)     \* 0d6f3522631effcb
>>

Md6Taps   == <<17, 18, 21, 31, 67>>
Md6ShiftR == <<10,  5, 13, 10, 11, 12,  2,  7, 14, 15,  7, 13, 11,  7,  6, 12>>
Md6ShiftL == <<11, 24,  9, 16, 15,  9, 27, 15,  6,  2, 29,  8, 15,  5, 31,  9>>

Md6S0    == W64(291, 17767, 35243, 52719)       \* 0x0123456789abcdef
Md6Smask == W64(29457, 49793, 9253, 53152)      \* 0x7311c2812425cfa0  (= Q[0])
Md6SNext(S) == WXor(Rol(S, 1), WAnd(S, Md6Smask))
RECURSIVE Md6S(_)
Md6S(j) == IF j = 0 THEN Md6S0 ELSE Md6SNext(Md6S(j-1))

\* ---- 64-bit logical shifts on 4 limbs (same values as Words!Shr / Words!Shl, unrolled) ----
\* x >> k for 1 <= k <= 15
Md6Shr(x, k) == LET lo == P2[k+1]  hi == P2[17-k] IN
  << (x[1] \div lo) + ((x[2] * hi) % B16),
     (x[2] \div lo) + ((x[3] * hi) % B16),
     (x[3] \div lo) + ((x[4] * hi) % B16),
      x[4] \div lo >>
\* x << k for 1 <= k <= 31
Md6Shl(x, k) ==
  LET y == IF k >= 16 THEN <<0, x[1], x[2], x[3]>> ELSE x
      m == k % 16
  IN IF m = 0 THEN y
     ELSE LET lo == P2[m+1]  hi == P2[17-m] IN
          << (y[1] * lo) % B16,
             ((y[2] * lo) % B16) + (y[1] \div hi),
             ((y[3] * lo) % B16) + (y[2] \div hi),
             ((y[4] * lo) % B16) + (y[3] \div hi) >>

\* ---- the step and the loop --------------------------------------------------
\* A: 1-based tuple holding A[0 .. i-1] of the report, so the new word A[i] has
\* 1-based position t = Len(A) + 1 and A[i - k] of the report is A[t - k] here.
Md6StepWord(A, S, s) ==
  LET t  == Len(A) + 1
      x0 == WXor(WXor(S, A[t - Md6N]), A[t - Md6Taps[1]])
      x1 == WXor(WXor(x0, WAnd(A[t - Md6Taps[2]], A[t - Md6Taps[3]])),
                 WAnd(A[t - Md6Taps[4]], A[t - Md6Taps[5]]))
      x2 == WXor(x1, Md6Shr(x1, Md6ShiftR[s+1]))
  IN WXor(x2, Md6Shl(x2, Md6ShiftL[s+1]))

\* one round = 16 steps with the same S, appended to A
RECURSIVE Md6Round(_,_,_)
Md6Round(A, S, s) == IF s = 16 THEN A ELSE Md6Round(Append(A, Md6StepWord(A, S, s)), S, s + 1)

\* <<S_0, ..., S_{r-1}>>
RECURSIVE Md6STableR(_,_,_)
Md6STableR(S, r, acc) == IF r = 0 THEN acc ELSE Md6STableR(Md6SNext(S), r - 1, Append(acc, S))
Md6STable(r) == Md6STableR(Md6S0, r, <<>>)

\* A grows from the n input words to n + 16 r words; ST = Md6STable(r); j = rounds done.
\* The loop over the rounds is written as a recursion over spans of 8 rounds, each span a
\* recursion over its rounds, each round a recursion over its 16 steps, instead of ONE recursion
\* of depth 16 r: TLC extends the caller's context at every operator application, so inside a
\* recursion of depth D every identifier lookup walks a list of ~D x (#parameters) entries
\* (measured: 16 r = 2560 deep -> 44 s per compression; nested as below -> 0.2 s).
RECURSIVE Md6Span(_,_,_,_)
Md6Span(A, ST, j, k) ==
  IF k = 0 \/ j = Len(ST) THEN A ELSE Md6Span(Md6Round(A, ST[j+1], 0), ST, j + 1, k - 1)
RECURSIVE Md6Rounds(_,_)
Md6Rounds(A, ST) ==
  LET j == (Len(A) - Md6N) \div 16 IN IF j = Len(ST) THEN A ELSE Md6Rounds(Md6Span(A, ST, j, 8), ST)

Md6F(r, N) == LET A == Md6Rounds(N, Md6STable(r))
              IN SubSeq(A, Len(A) - Md6C + 1, Len(A))

\* ---- auxiliary inputs --------------------------------------------------------
\* V = 0000 | r (12 bits) | L (8) | z (4) | p (16) | keylen (8) | d (12)
Md6ControlWord(r, L, z, p, keylen, d) ==
  W64(r,
      (L * 256) + (z * 16) + (p \div 4096),
      ((p % 4096) * 16) + (keylen \div 16),
      ((keylen % 16) * 4096) + d)
\* U = level (8 bits) | index (56 bits);  index < 2^31 here
Md6NodeId(level, index) == W64(level * 256, 0, index \div B16, index % B16)

Md6ZeroWord == <<0, 0, 0, 0>>
Md6KeyWords(K) == WordsFromBE(K \o Rep(0, 64 - Len(K)), 8)
Md6Input(Kw, level, index, r, L, z, p, keylen, d, B) ==
  Md6Q \o Kw \o <<Md6NodeId(level, index), Md6ControlWord(r, L, z, p, keylen, d)>> \o B

Md6DefaultRounds(d, keylen) ==
  LET r == 40 + (d \div 4) IN IF keylen > 0 /\ r < 80 THEN 80 ELSE r
=============================================================================
