------------------------------- MODULE Salsa --------------------------------
(***************************************************************************)
(* Salsa20 family, transcribed from D. J. Bernstein, "Salsa20              *)
(* specification" (2005), sections 2-10; the number of rounds is a         *)
(* parameter (Salsa20/8, Salsa20/12, Salsa20/20 of "The Salsa20 family of   *)
(* stream ciphers": `rounds` rounds = rounds/2 double rounds).              *)
(* Words are W32 limb tuples <<lo16, hi16>> of module Words; bytes 0..255.  *)
(* A 16-word state y_0..y_15 is the 1-based tuple y with y[i+1] = y_i.      *)
(*                                                                         *)
(*   SalsaQuarter(y)        y = <<y0,y1,y2,y3>> -> <<z0,z1,z2,z3>>  (s.3)  *)
(*   SalsaRowRound(y)       16 words -> 16 words                    (s.4)  *)
(*   SalsaColumnRound(x)    16 words -> 16 words                    (s.5)  *)
(*   SalsaDoubleRound(x)    = RowRound(ColumnRound(x))              (s.6)  *)
(*   SalsaCore(rounds, x)   64 bytes -> 64 bytes: words little-endian(s.7), *)
(*                          x + doubleround^(rounds/2)(x)  (s.8, "Salsa20   *)
(*                          hash function" when rounds = 20); rounds even   *)
(*   SalsaLayout(key, n16)  the 64-byte input of the core (s.9): key of 32  *)
(*                          bytes: sigma0,k0,sigma1,n,sigma2,k1,sigma3;     *)
(*                          key of 16 bytes: tau0,k,tau1,n,tau2,k,tau3      *)
(*   SalsaExpandR(rounds, key, n16) = SalsaCore(rounds, SalsaLayout(..))    *)
(*   SalsaExpand(key, n16)  = SalsaExpandR(20, ..): "Salsa20 expansion      *)
(*                          function" Salsa20_k(n) of s.9; n16 = 16 bytes   *)
(*                          (for the cipher: 8-byte nonce, then the block   *)
(*                          number as 8 bytes little-endian)                *)
(*   SalsaBlock(key, nonce, ctr, rounds)   64 keystream bytes of block ctr; *)
(*                          nonce = 8 bytes, ctr = 4-limb word (64 bits)    *)
(*   SalsaXor(key, nonce, ctr0, rounds, m) m xor the keystream that starts  *)
(*                          at block ctr0 (s.10 with ctr0 = 0); the block   *)
(*                          number is a 64-bit integer: +1 carries from the *)
(*                          low into the high 32-bit word.  s.10 limits a   *)
(*                          stream to 2^70 bytes, i.e. the block number     *)
(*                          never wraps; here it would wrap modulo 2^64.    *)
(*                          The last block may be partial (keystream        *)
(*                          truncated); Len(result) = Len(m).               *)
(* TLC!TLCEval(v) = v; it only makes TLC evaluate a value eagerly, once.    *)
(***************************************************************************)
EXTENDS Words, TLC

\* s.3  z1 = y1 xor ((y0+y3) <<< 7),  z2 = y2 xor ((z1+y0) <<< 9),
\*      z3 = y3 xor ((z2+z1) <<< 13), z0 = y0 xor ((z3+z2) <<< 18)
SalsaQuarter(y) ==
  LET z1 == WXor(y[2], Rol(WAdd(y[1], y[4]), 7))
      z2 == WXor(y[3], Rol(WAdd(z1, y[1]), 9))
      z3 == WXor(y[4], Rol(WAdd(z2, z1), 13))
      z0 == WXor(y[1], Rol(WAdd(z3, z2), 18))
  IN <<z0, z1, z2, z3>>

\* s.4  (z0,z1,z2,z3) = qr(y0,y1,y2,y3)      (z5,z6,z7,z4) = qr(y5,y6,y7,y4)
\*      (z10,z11,z8,z9) = qr(y10,y11,y8,y9)  (z15,z12,z13,z14) = qr(y15,y12,y13,y14)
SalsaRowRound(y) ==
  LET a == SalsaQuarter(<<y[1],  y[2],  y[3],  y[4]>>)      \* z0  z1  z2  z3
      b == SalsaQuarter(<<y[6],  y[7],  y[8],  y[5]>>)      \* z5  z6  z7  z4
      c == SalsaQuarter(<<y[11], y[12], y[9],  y[10]>>)     \* z10 z11 z8  z9
      d == SalsaQuarter(<<y[16], y[13], y[14], y[15]>>)     \* z15 z12 z13 z14
  IN <<a[1], a[2], a[3], a[4],   b[4], b[1], b[2], b[3],
       c[3], c[4], c[1], c[2],   d[2], d[3], d[4], d[1]>>

\* s.5  (y0,y4,y8,y12) = qr(x0,x4,x8,x12)    (y5,y9,y13,y1) = qr(x5,x9,x13,x1)
\*      (y10,y14,y2,y6) = qr(x10,x14,x2,x6)  (y15,y3,y7,y11) = qr(x15,x3,x7,x11)
SalsaColumnRound(x) ==
  LET a == SalsaQuarter(<<x[1],  x[5],  x[9],  x[13]>>)     \* y0  y4  y8  y12
      b == SalsaQuarter(<<x[6],  x[10], x[14], x[2]>>)      \* y5  y9  y13 y1
      c == SalsaQuarter(<<x[11], x[15], x[3],  x[7]>>)      \* y10 y14 y2  y6
      d == SalsaQuarter(<<x[16], x[4],  x[8],  x[12]>>)     \* y15 y3  y7  y11
  IN <<a[1], b[4], c[3], d[2],   a[2], b[1], c[4], d[3],
       a[3], b[2], c[1], d[4],   a[4], b[3], c[2], d[1]>>

\* s.6
SalsaDoubleRound(x) == SalsaRowRound(SalsaColumnRound(x))

RECURSIVE SalsaIter(_,_)
SalsaIter(n, x) == IF n = 0 THEN x ELSE SalsaIter(n-1, SalsaDoubleRound(x))

\* word-wise sum of two 16-word states
Add16(x, z) == <<WAdd(x[1], z[1]),   WAdd(x[2], z[2]),   WAdd(x[3], z[3]),   WAdd(x[4], z[4]),
                 WAdd(x[5], z[5]),   WAdd(x[6], z[6]),   WAdd(x[7], z[7]),   WAdd(x[8], z[8]),
                 WAdd(x[9], z[9]),   WAdd(x[10], z[10]), WAdd(x[11], z[11]), WAdd(x[12], z[12]),
                 WAdd(x[13], z[13]), WAdd(x[14], z[14]), WAdd(x[15], z[15]), WAdd(x[16], z[16])>>

\* s.8 on words: x + doubleround^(rounds/2)(x)
SalsaCoreW(rounds, xw) == Add16(xw, SalsaIter(rounds \div 2, xw))
\* s.7 + s.8 on bytes
SalsaCore(rounds, x) == WordsToLE(SalsaCoreW(rounds, WordsFromLE(x, 4)))

\* s.9  "expand 32-byte k" / "expand 16-byte k"
SalsaSigma == <<<<101,120,112,97>>, <<110,100,32,51>>, <<50,45,98,121>>, <<116,101,32,107>>>>
SalsaTau   == <<<<101,120,112,97>>, <<110,100,32,49>>, <<54,45,98,121>>, <<116,101,32,107>>>>
SalsaLayout(key, n16) ==
  IF Len(key) = 32
  THEN SalsaSigma[1] \o SubSeq(key, 1, 16) \o SalsaSigma[2] \o n16 \o SalsaSigma[3] \o SubSeq(key, 17, 32) \o SalsaSigma[4]
  ELSE SalsaTau[1] \o key \o SalsaTau[2] \o n16 \o SalsaTau[3] \o key \o SalsaTau[4]
SalsaExpandR(rounds, key, n16) == SalsaCore(rounds, SalsaLayout(key, n16))
SalsaExpand(key, n16) == SalsaExpandR(20, key, n16)

\* s.10  block number i of the stream of nonce v is Salsa20_k(v, i as 8 bytes little-endian)
SalsaBlock(key, nonce, ctr, rounds) == SalsaExpandR(rounds, key, nonce \o WToLE(ctr))

\* Block b (b = 0, 1, ...) of the output is block b of m xor the keystream block number ctr0 + b mod 2^64
\* (the last block of m may be short; XorBytes truncates the keystream).  The blocks are computed as the
\* values of a function over the block indices and then concatenated: a recursion over the blocks would
\* make TLC evaluate block b in a context of depth O(b) (identifier lookups walk it: quadratic time).
\* Len(m) < 2^31 bytes, hence b < 2^25 fits WAddNat.
RECURSIVE SalsaCat(_,_,_,_)
SalsaCat(f, b, nb, acc) == IF b = nb THEN acc ELSE SalsaCat(f, b+1, nb, acc \o f[b])
SalsaXor(key, nonce, ctr0, rounds, m) ==
  LET L  == Len(m)
      nb == (L + 63) \div 64
      f  == TLCEval([b \in 0..(nb-1) |->
                      XorBytes(SubSeq(m, 64*b + 1, IF 64*b + 64 < L THEN 64*b + 64 ELSE L),
                               SalsaBlock(key, nonce, WAddNat(ctr0, b), rounds))])
  IN SalsaCat(f, 0, nb, <<>>)
=============================================================================
