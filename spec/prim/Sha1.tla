-------------------------------- MODULE Sha1 --------------------------------
(***************************************************************************)
(* SHA-1 (FIPS 180-1 ... 180-4, s.4.1.1, 4.2.1, 5.3.1, 6.1.2) and SHA-0     *)
(* (the original FIPS 180 of 1993).  FIPS 180-1 changed exactly one thing:  *)
(* the message schedule word W_t, t >= 16, became the XOR of four earlier   *)
(* words ROTATED LEFT BY ONE BIT; in FIPS 180 it is the plain XOR.          *)
(* Interface (bytes are 0..255, 32-bit words are <<lo16, hi16>> of Words):   *)
(*   Sha1IV                  <<H0, H1, H2, H3, H4>>  (same for both)         *)
(*   Sha1Compress(v, H, blk) v = 1: SHA-1, v = 0: SHA-0; H = 5 words,        *)
(*                           blk = 64 bytes; the new <<H0..H4>>              *)
(*   Sha1Out(H)              20 digest bytes, H0..H4 big-endian              *)
(* Padding (s.5.1.1): MDPad!PadMD with an 8-byte big-endian bit length.      *)
(***************************************************************************)
EXTENDS Words

\* s.5.3.1
Sha1IV == <<W32(\h6745, \h2301), W32(\hefcd, \hab89), W32(\h98ba, \hdcfe), W32(\h1032, \h5476), W32(\hc3d2, \he1f0)>>

\* s.4.2.1: K_t for 0<=t<=19, 20<=t<=39, 40<=t<=59, 60<=t<=79
\* (floor(2^30 * sqrt(2, 3, 5, 10)); checked by tools/gen_md5_consts.py)
Sha1K == <<W32(\h5a82, \h7999), W32(\h6ed9, \heba1), W32(\h8f1b, \hbcdc), W32(\hca62, \hc1d6)>>

\* s.4.1.1
Sha1Ch(x, y, z)     == WXor(WAnd(x, y), WAnd(WNot(x), z))
Sha1Parity(x, y, z) == WXor(WXor(x, y), z)
Sha1Maj(x, y, z)    == WXor(WXor(WAnd(x, y), WAnd(x, z)), WAnd(y, z))

\* s.6.1.2 step 1: W (1-based tuple; W_t of the standard is W[t+1]) grown from 16 to 80 words
RECURSIVE Sha1Sched(_,_)
Sha1Sched(v, W) ==
  IF Len(W) = 80 THEN W
  ELSE LET n == Len(W) + 1                          \* 1-based index of the new word W_t, t = n - 1
           x == WXor(WXor(W[n-3], W[n-8]), WXor(W[n-14], W[n-16]))
       IN Sha1Sched(v, Append(W, IF v = 1 THEN Rol(x, 1) ELSE x))

Sha1Sum5(a, b, c, d, e) == LET l == a[1] + b[1] + c[1] + d[1] + e[1]
                           IN <<l % B16, (a[2] + b[2] + c[2] + d[2] + e[2] + (l \div B16)) % B16>>

\* s.6.1.2 step 3; s = <<a,b,c,d,e>>, t = 0..79
RECURSIVE Sha1Rounds(_,_,_)
Sha1Rounds(s, W, t) ==
  IF t = 80 THEN s
  ELSE LET q == t \div 20
           f == IF q = 0 THEN Sha1Ch(s[2], s[3], s[4]) ELSE IF q = 2 THEN Sha1Maj(s[2], s[3], s[4])
                ELSE Sha1Parity(s[2], s[3], s[4])
           T == Sha1Sum5(Rol(s[1], 5), f, s[5], Sha1K[q+1], W[t+1])
       IN Sha1Rounds(<<T, s[1], Rol(s[2], 30), s[3], s[4]>>, W, t + 1)

Sha1Compress(v, H, blk) ==
  LET W == Sha1Sched(v, WordsFromBE(blk, 4))
      s == Sha1Rounds(H, W, 0)
  IN <<WAdd(H[1], s[1]), WAdd(H[2], s[2]), WAdd(H[3], s[3]), WAdd(H[4], s[4]), WAdd(H[5], s[5])>>

Sha1Out(H) == WordsToBE(H)
=============================================================================
