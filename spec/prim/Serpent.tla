------------------------------ MODULE Serpent ------------------------------
(***************************************************************************)
(* The Serpent block cipher (128-bit block, 32 rounds, keys up to 256      *)
(* bits), transcribed from R. Anderson, E. Biham, L. Knudsen, "Serpent: A   *)
(* Proposal for the Advanced Encryption Standard" (AES submission, 1998).   *)
(*                                                                          *)
(* The cipher is written in the submission's BITSLICE form (section "An     *)
(* efficient implementation"): the 128-bit state is four 32-bit words       *)
(* X0..X3; S-box copy j (j in 0..31) of a round reads the nibble made of    *)
(* bit j of X0 (least significant bit of the nibble), X1, X2 and X3 (most   *)
(* significant), and writes its output nibble back to the same positions.   *)
(* The submission's standard (non-bitslice) description is related to it    *)
(* by the initial/final permutations IP and FP, which are given here too    *)
(* (SerpIP, SerpFP) together with the statement of that relation; they are  *)
(* not used by SerpentEnc / SerpentDec.                                     *)
(*                                                                          *)
(*   round i (0..30):  B(i+1) = LT(S_(i mod 8)(B(i) xor K(i)))              *)
(*   round 31:         B(32)  = S_7(B(31) xor K(31)) xor K(32)              *)
(*                                                                          *)
(* Byte conventions (those of the NESSIE test vectors, used by the library  *)
(* under test and by tools/pyref/ref_serpent.py): the 16-byte block is four *)
(* little-endian words, X0 = bytes 1..4 (first byte = least significant     *)
(* byte of X0), ..., X3 = bytes 13..16; the output is written the same      *)
(* way.  The key is the little-endian byte string of the integer whose 32-  *)
(* bit pieces are w(-8) (least significant, key bytes 1..4) ... w(-1).  A   *)
(* key of n < 32 bytes is padded "with one 1 bit followed by 0 bits" at     *)
(* the most significant end to 256 bits, i.e. the byte 1 is appended and    *)
(* then zero bytes up to 32 bytes.                                          *)
(*                                                                          *)
(* Interface (bytes 0..255; a W32 is a 2-limb word of module Words):        *)
(*   SerpS(i, x), SerpSinv(i, x)  S-box i in 0..7 (as printed in the        *)
(*                              submission) and its inverse (derived), on   *)
(*                              a nibble x in 0..15; result in 0..15        *)
(*   SerpSW(i, X), SerpSinvW(i, X) bitslice S-box layer (32 copies of S_i)  *)
(*                              on X = <<X0,X1,X2,X3>> of W32; same shape   *)
(*   SerpLT(X), SerpLTinv(X)    linear transformation on <<X0,X1,X2,X3>>    *)
(*   SerpPadKey(key)            key (1..32 bytes) -> 32 bytes               *)
(*   SerpPreKeys(key)           <<w(-8),...,w(-1),w(0),...,w(131)>>, 140 W32 *)
(*                              (w(i) is element i+9)                       *)
(*   SerpRoundKeys(key)         <<K(0),...,K(32)>>, each <<k0,k1,k2,k3>> W32 *)
(*                              (K(i) is element i+1)                       *)
(*   SerpEncRK(rk, blk), SerpDecRK(rk, blk)  16 bytes -> 16 bytes with the   *)
(*                              round keys rk = SerpRoundKeys(key)          *)
(*   SerpentEnc(key, blk), SerpentDec(key, blk)  key 1..32 bytes, blk 16    *)
(*                              bytes; result 16 bytes                      *)
(*   SerpIP(b), SerpFP(b)       the permutations of the standard            *)
(*                              description on a sequence b of 128 items    *)
(*                              (item p+1 = bit p, bit 0 = lsb of X0)       *)
(*   SerpBits(X)                the 128 bits of <<X0,X1,X2,X3>> in that order*)
(***************************************************************************)
EXTENDS Words

\* ---- S-boxes, as printed in the submission (S_i maps x to row i, entry x) --
SerpSTab == << <<3,8,15,1,10,6,5,11,14,13,4,2,7,0,9,12>>,
               <<15,12,2,7,9,0,5,10,1,11,14,8,6,13,3,4>>,
               <<8,6,7,9,3,12,10,15,13,1,14,4,0,11,5,2>>,
               <<0,15,11,8,12,9,6,3,13,1,2,4,10,7,5,14>>,
               <<1,15,8,3,12,0,11,6,2,5,4,10,9,14,7,13>>,
               <<15,5,2,11,4,10,9,12,0,3,14,8,13,6,7,1>>,
               <<7,2,12,5,8,4,6,11,14,9,1,15,13,3,10,0>>,
               <<1,13,15,0,14,8,2,11,7,4,12,10,9,3,5,6>> >>
\* inverse tables, derived: entry y of row i is the x with S_i(x) = y
SerpInvRow(row) == LET F(y) == CHOOSE x \in 0..15 : row[x+1] = y IN BuildW(F, 0, 16, <<>>)
SerpSinvTab == LET F(i) == SerpInvRow(SerpSTab[i+1]) IN BuildW(F, 0, 8, <<>>)

SerpS(i, x)    == SerpSTab[i+1][x+1]
SerpSinv(i, x) == SerpSinvTab[i+1][x+1]

\* ---- bitslice S-box layer ---------------------------------------------------
\* 16 bit positions of one limb: a0..a3 are the (shifted down) limbs of X0..X3,
\* o0..o3 collect the output limbs, j is the bit position.
RECURSIVE SerpSbLimb(_,_,_,_,_,_,_,_,_,_)
SerpSbLimb(T, a0, a1, a2, a3, j, o0, o1, o2, o3) ==
  IF j = 16 THEN <<o0, o1, o2, o3>>
  ELSE LET s == T[(a0 % 2) + 2*(a1 % 2) + 4*(a2 % 2) + 8*(a3 % 2) + 1]
           p == P2[j+1]
       IN SerpSbLimb(T, a0 \div 2, a1 \div 2, a2 \div 2, a3 \div 2, j+1,
                     o0 + (s % 2)*p, o1 + ((s \div 2) % 2)*p, o2 + ((s \div 4) % 2)*p, o3 + (s \div 8)*p)
SerpSbWords(T, X) ==
  LET lo == SerpSbLimb(T, X[1][1], X[2][1], X[3][1], X[4][1], 0, 0, 0, 0, 0)
      hi == SerpSbLimb(T, X[1][2], X[2][2], X[3][2], X[4][2], 0, 0, 0, 0, 0)
  IN << <<lo[1], hi[1]>>, <<lo[2], hi[2]>>, <<lo[3], hi[3]>>, <<lo[4], hi[4]>> >>
SerpSW(i, X)    == SerpSbWords(SerpSTab[i+1], X)
SerpSinvW(i, X) == SerpSbWords(SerpSinvTab[i+1], X)

\* ---- linear transformation (bitslice form) ------------------------------------
SerpLT(X) ==
  LET a0 == Rol(X[1], 13)
      a2 == Rol(X[3], 3)
      a1 == WXor(WXor(X[2], a0), a2)
      a3 == WXor(WXor(X[4], a2), Shl(a0, 3))
      b1 == Rol(a1, 1)
      b3 == Rol(a3, 7)
      b0 == WXor(WXor(a0, b1), b3)
      b2 == WXor(WXor(a2, b3), Shl(b1, 7))
  IN <<Rol(b0, 5), b1, Rol(b2, 22), b3>>
SerpLTinv(X) ==
  LET b2 == Ror(X[3], 22)
      b0 == Ror(X[1], 5)
      b1 == X[2]
      b3 == X[4]
      a2 == WXor(WXor(b2, b3), Shl(b1, 7))
      a0 == WXor(WXor(b0, b1), b3)
      a3 == Ror(b3, 7)
      a1 == Ror(b1, 1)
      x3 == WXor(WXor(a3, a2), Shl(a0, 3))
      x1 == WXor(WXor(a1, a0), a2)
  IN <<Ror(a0, 13), x1, Ror(a2, 3), x3>>

SerpXor4(X, K) == <<WXor(X[1], K[1]), WXor(X[2], K[2]), WXor(X[3], K[3]), WXor(X[4], K[4])>>

\* ---- key schedule --------------------------------------------------------------
SerpPHI == W32(40503, 31161)                         \* 0x9e3779b9
SerpPadKey(key) == IF Len(key) >= 32 THEN key ELSE (key \o <<1>>) \o Rep(0, 31 - Len(key))
\* w holds w(-8) .. w(i-1); w(m) is w[m+9]
RECURSIVE SerpPreR(_,_)
SerpPreR(w, i) ==
  IF i = 132 THEN w
  ELSE LET x == WXor(WXor(WXor(w[i+1], w[i+4]), WXor(w[i+6], w[i+8])), WXor(SerpPHI, <<i, 0>>))
       IN SerpPreR(Append(w, Rol(x, 11)), i+1)
SerpPreKeys(key) == SerpPreR(WordsFromLE(SerpPadKey(key), 4), 0)
\* K(i) = S_((3 - i) mod 8)(w(4i), w(4i+1), w(4i+2), w(4i+3)):  S3, S2, S1, S0, S7, S6, S5, S4, S3, ...
RECURSIVE SerpRKR(_,_,_)
SerpRKR(w, i, acc) ==
  IF i = 33 THEN acc
  ELSE SerpRKR(w, i+1, Append(acc, SerpSW((35 - i) % 8, <<w[4*i+9], w[4*i+10], w[4*i+11], w[4*i+12]>>)))
SerpRoundKeys(key) == SerpRKR(SerpPreKeys(key), 0, <<>>)

\* ---- encryption / decryption -----------------------------------------------------
RECURSIVE SerpEncR(_,_,_)
SerpEncR(rk, X, r) ==
  LET Y == SerpSW(r % 8, SerpXor4(X, rk[r+1]))
  IN IF r = 31 THEN SerpXor4(Y, rk[33]) ELSE SerpEncR(rk, SerpLT(Y), r+1)
RECURSIVE SerpDecR(_,_,_)
\* X = output of the S-box layer of round r
SerpDecR(rk, X, r) ==
  LET Y == SerpXor4(SerpSinvW(r % 8, X), rk[r+1])
  IN IF r = 0 THEN Y ELSE SerpDecR(rk, SerpLTinv(Y), r-1)
SerpEncRK(rk, blk) == WordsToLE(SerpEncR(rk, WordsFromLE(blk, 4), 0))
SerpDecRK(rk, blk) == WordsToLE(SerpDecR(rk, SerpXor4(WordsFromLE(blk, 4), rk[33]), 31))
SerpentEnc(key, blk) == SerpEncRK(SerpRoundKeys(key), blk)
SerpentDec(key, blk) == SerpDecRK(SerpRoundKeys(key), blk)

\* ---- standard (non-bitslice) representation: IP and FP -------------------------
\* The submission prints IP and FP as tables read like those of DES: "value v at
\* position p means that output bit p comes from input bit v".  The IP table is
\* 0 32 64 96 1 33 65 97 ... (v = 32*(p mod 4) + p div 4, i.e. 32 p mod 127) and the
\* FP table is 0 4 8 12 ... 124 1 5 ... (v = 4*(p mod 32) + p div 32, i.e. 4 p mod 127).
\* b: sequence of 128 items, item p+1 is bit p.
\* (built in four pieces only to keep TLC's evaluation stack shallow)
SerpB128(F(_)) == (BuildW(F, 0, 32, <<>>) \o BuildW(F, 32, 64, <<>>)) \o (BuildW(F, 64, 96, <<>>) \o BuildW(F, 96, 128, <<>>))
SerpIP(b) == LET F(p) == b[32*(p % 4) + (p \div 4) + 1] IN SerpB128(F)
SerpFP(b) == LET F(p) == b[4*(p % 32) + (p \div 32) + 1] IN SerpB128(F)
\* bits of the four words, bit 0 of X0 first.  The bitslice and the standard form
\* are related by: nibble j of SerpIP(SerpBits(X)) (bits 4j..4j+3, lsb first) is
\* (bit j of X0, X1, X2, X3), which is the input of S-box copy j (see ST_SerpentThm).
SerpBits(X) == LET F(p) == WBit(X[(p \div 32) + 1], (p % 32)) IN SerpB128(F)
=============================================================================
