-------------------------------- MODULE Crc --------------------------------
(***************************************************************************)
(* Reflected ("LSB first") cyclic redundancy checks, in the convention of   *)
(* zlib's CRC-32 / Ross Williams' "Painless guide" with refin = refout =    *)
(* TRUE: the register is shifted RIGHT, message bytes enter by their least  *)
(* significant bit, and the generator polynomial is given in REFLECTED form  *)
(* (bit W-1 is the x^0 term, bit 0 the x^(W-1) term, x^W implicit), e.g.     *)
(* 0xEDB88320 for CRC-32, 0xA001 for CRC-16/ARC, 0x8C for CRC-8/MAXIM.       *)
(*                                                                         *)
(* All registers / polynomials / init / final values are limb words of      *)
(* module Words (16-bit limbs, least significant first) of the same number   *)
(* nl >= 1 of limbs; the width W <= 16*nl is implicit: it is the bit length  *)
(* of P (CrcWidth), every real CRC polynomial having its x^0 term, i.e. the  *)
(* top bit of its reflected form, set.  Values are expected < 2^W.           *)
(*                                                                         *)
(* Interface                                                               *)
(*   CrcStepBit(P, reg, bit)       one message bit (0/1): register after     *)
(*   CrcByteBitwise(P, reg, byte)  8 x CrcStepBit, bit 0 of byte first       *)
(*   CrcTable(P)                   tuple of 256 words; entry i+1 = register  *)
(*                                 0 after byte i, computed bitwise          *)
(*   CrcByteTable(T, reg, byte)    (reg >> 8) xor T[(reg xor byte) & 255]    *)
(*   CrcRegBitwise(P, data, reg) / CrcRegTabled(T, data, reg)                *)
(*                                 register after all bytes of data          *)
(*   CrcBitwise(P, data, init, final), CrcTabled(P, data, init, final)       *)
(*                                 final xor register(data, from init)       *)
(*   CrcWidth(P)                   W = bit length of P                       *)
(*   CrcBackBit(P, reg, bit), CrcBackByteBitwise(P, reg, byte)               *)
(*                                 register BEFORE the bit / byte step that  *)
(*                                 gave reg (needs bit W-1 of P set)         *)
(*   CrcBackByte(P, T, reg, byte)  the same for a byte by table lookup       *)
(*                                 (needs W >= 8 and bit W-1 of P set: then  *)
(*                                 the top bytes of T are all distinct)      *)
(*   CrcRegBack(P, data, reg)      register before processing all of data    *)
(*                                 (bitwise); CrcRegBackTabled(P, T, data,   *)
(*                                 reg) the same through CrcBackByte         *)
(*   Crc32Poly, Crc32Table, Crc32(data)  zlib CRC-32, a W32 word <<lo, hi>>  *)
(*   Crc32Patch(data, pos, target) data with bytes pos+1..pos+4 (1-based)    *)
(*                                 replaced so that Crc32 = target           *)
(*   FixOk(data, out, pos, target) post-condition of such a forgery          *)
(*   CrcRegRuns(P, runs, reg), CrcRuns(P, runs, init, final), Crc32Runs(runs) *)
(*                                 the same CRCs over run-length encoded     *)
(*                                 data <<byte, count>>.. (affine powers)    *)
(*                                                                         *)
(* Measured in TLC (one worker, 300-byte messages), ms per byte:             *)
(*   32 bits: tabled 0.04, bitwise 0.6, back bitwise 1.1, back tabled 10;    *)
(*   64 bits: tabled 0.23, bitwise 1.8, back bitwise 2.5;                    *)
(*   CrcTable: 28 ms (32 bits), 58 ms (64 bits); Crc32Patch of 300 bytes     *)
(*   0.16 s.  CrcTabled rebuilds the table at each call: bind CrcTable(P)    *)
(*   once and use CrcRegTabled when a polynomial is used repeatedly.         *)
(***************************************************************************)
EXTENDS Words

\* ---- shifts by 1 and by 8 on any number of limbs ---------------------------
RECURSIVE CrcShr1R(_,_,_)
CrcShr1R(a, i, acc) ==
  IF i > Len(a) THEN acc
  ELSE CrcShr1R(a, i+1, Append(acc, (a[i] \div 2) + (IF i < Len(a) THEN (a[i+1] % 2) * 32768 ELSE 0)))
CrcShr1(a) == IF Len(a) = 1 THEN <<a[1] \div 2>>
              ELSE IF Len(a) = 2 THEN <<(a[1] \div 2) + ((a[2] % 2) * 32768), a[2] \div 2>>
              ELSE CrcShr1R(a, 1, <<>>)
RECURSIVE CrcShr8R(_,_,_)
CrcShr8R(a, i, acc) ==
  IF i > Len(a) THEN acc
  ELSE CrcShr8R(a, i+1, Append(acc, (a[i] \div 256) + (IF i < Len(a) THEN (a[i+1] % 256) * 256 ELSE 0)))
CrcShr8(a) == IF Len(a) = 1 THEN <<a[1] \div 256>>
              ELSE IF Len(a) = 2 THEN <<(a[1] \div 256) + ((a[2] % 256) * 256), a[2] \div 256>>
              ELSE CrcShr8R(a, 1, <<>>)
RECURSIVE CrcShl8R(_,_,_)
CrcShl8R(a, i, acc) ==
  IF i > Len(a) THEN acc
  ELSE CrcShl8R(a, i+1, Append(acc, ((a[i] % 256) * 256) + (IF i > 1 THEN a[i-1] \div 256 ELSE 0)))
CrcShl8(a) == CrcShl8R(a, 1, <<>>)                      \* modulo 2^(16 Len(a))
CrcXor(a, b) == IF Len(a) = 1 THEN <<a[1] ^^ b[1]>> ELSE WXor(a, b)

\* ---- the definition: one bit at a time -------------------------------------
\* feedback = (lowest register bit) xor (message bit); shift right; xor P if feedback
CrcStepBit(P, reg, bit) ==
  LET s == CrcShr1(reg) IN IF ((reg[1] % 2) ^^ bit) = 1 THEN CrcXor(s, P) ELSE s

RECURSIVE CrcByteR(_,_,_,_)
CrcByteR(P, reg, byte, i) ==
  IF i = 8 THEN reg ELSE CrcByteR(P, CrcStepBit(P, reg, (byte \div P2[i+1]) % 2), byte, i+1)
CrcByteBitwise(P, reg, byte) == CrcByteR(P, reg, byte, 0)

RECURSIVE CrcRegBitwiseR(_,_,_,_)
CrcRegBitwiseR(P, data, i, reg) ==
  IF i > Len(data) THEN reg ELSE CrcRegBitwiseR(P, data, i+1, CrcByteBitwise(P, reg, data[i]))
CrcRegBitwise(P, data, reg) == CrcRegBitwiseR(P, data, 1, reg)
CrcBitwise(P, data, init, final) == CrcXor(CrcRegBitwise(P, data, init), final)

\* ---- table driven (Sarwate) ------------------------------------------------
\* (written as 16 explicit rows of 16 rather than as a recursion of depth 256: TLC evaluates
\*  constant definitions and ASSUMEs on its main thread, whose stack -Xss does not enlarge)
CrcTabRow(P, z, b) ==
  <<CrcByteBitwise(P, z, b),    CrcByteBitwise(P, z, b+1),  CrcByteBitwise(P, z, b+2),  CrcByteBitwise(P, z, b+3),
    CrcByteBitwise(P, z, b+4),  CrcByteBitwise(P, z, b+5),  CrcByteBitwise(P, z, b+6),  CrcByteBitwise(P, z, b+7),
    CrcByteBitwise(P, z, b+8),  CrcByteBitwise(P, z, b+9),  CrcByteBitwise(P, z, b+10), CrcByteBitwise(P, z, b+11),
    CrcByteBitwise(P, z, b+12), CrcByteBitwise(P, z, b+13), CrcByteBitwise(P, z, b+14), CrcByteBitwise(P, z, b+15)>>
CrcTable(P) ==                                          \* T[i+1], i in 0..255
  LET z == ZeroW(Len(P))
  IN CrcTabRow(P, z, 0)   \o CrcTabRow(P, z, 16)  \o CrcTabRow(P, z, 32)  \o CrcTabRow(P, z, 48)  \o
     CrcTabRow(P, z, 64)  \o CrcTabRow(P, z, 80)  \o CrcTabRow(P, z, 96)  \o CrcTabRow(P, z, 112) \o
     CrcTabRow(P, z, 128) \o CrcTabRow(P, z, 144) \o CrcTabRow(P, z, 160) \o CrcTabRow(P, z, 176) \o
     CrcTabRow(P, z, 192) \o CrcTabRow(P, z, 208) \o CrcTabRow(P, z, 224) \o CrcTabRow(P, z, 240)

CrcByteTable(T, reg, byte) == CrcXor(CrcShr8(reg), T[(((reg[1] % 256) ^^ byte)) + 1])

RECURSIVE CrcRegTabledR(_,_,_,_)
CrcRegTabledR(T, data, i, reg) ==
  IF i > Len(data) THEN reg ELSE CrcRegTabledR(T, data, i+1, CrcByteTable(T, reg, data[i]))
CrcRegTabled(T, data, reg) == CrcRegTabledR(T, data, 1, reg)
CrcTabled(P, data, init, final) ==
  LET T == CrcTable(P) IN CrcXor(CrcRegTabled(T, data, init), final)

\* ---- width ------------------------------------------------------------------
RECURSIVE CrcBitLen(_,_)
CrcBitLen(x, n) == IF x = 0 THEN n ELSE CrcBitLen(x \div 2, n+1)          \* of a limb
RECURSIVE CrcWidthR(_,_)
CrcWidthR(P, i) == IF i = 0 THEN 0 ELSE IF P[i] # 0 THEN (16 * (i-1)) + CrcBitLen(P[i], 0) ELSE CrcWidthR(P, i-1)
CrcWidth(P) == CrcWidthR(P, Len(P))

\* ---- one step backwards ---------------------------------------------------------
\* Needs bit W-1 of P set (W = CrcWidth(P)) and registers < 2^W.
\* One bit: the shifted register has bit W-1 clear, so bit W-1 of the register AFTER the step tells
\* whether P was xored in, i.e. the feedback fb = (lowest bit before) xor (message bit).
\* before = ((after xor (fb ? P : 0)) << 1) | (fb xor bit).
RECURSIVE CrcShl1R(_,_,_)
CrcShl1R(a, i, acc) ==
  IF i > Len(a) THEN acc
  ELSE CrcShl1R(a, i+1, Append(acc, ((a[i] % 32768) * 2) + (IF i > 1 THEN a[i-1] \div 32768 ELSE 0)))
CrcShl1(a) == IF Len(a) = 1 THEN <<(a[1] % 32768) * 2>>
              ELSE IF Len(a) = 2 THEN <<(a[1] % 32768) * 2, ((a[2] % 32768) * 2) + (a[1] \div 32768)>>
              ELSE CrcShl1R(a, 1, <<>>)                  \* modulo 2^(16 Len(a))
CrcBackBitW(P, W, reg, bit) ==
  LET fb == WBit(reg, W - 1)
      s  == CrcShl1(IF fb = 1 THEN CrcXor(reg, P) ELSE reg)
  IN [s EXCEPT ![1] = @ + (fb ^^ bit)]
CrcBackBit(P, reg, bit) == CrcBackBitW(P, CrcWidth(P), reg, bit)
RECURSIVE CrcBackByteR(_,_,_,_,_)
CrcBackByteR(P, W, reg, byte, i) ==                      \* the bit fed last (bit 7) is undone first
  IF i < 0 THEN reg ELSE CrcBackByteR(P, W, CrcBackBitW(P, W, reg, (byte \div P2[i+1]) % 2), byte, i-1)
CrcBackByteBitwise(P, reg, byte) == CrcBackByteR(P, CrcWidth(P), reg, byte, 7)

\* One byte with the table (W >= 8).  reg = (before >> 8) xor T[idx], idx = (before xor byte) & 255.
\* before >> 8 has its top byte (bits W-8..W-1) zero, so the top byte of reg is the top byte of T[idx];
\* when bit W-1 of P is set these 256 top bytes are pairwise different and idx is determined; then
\* before = ((reg xor T[idx]) << 8) | (idx xor byte).   (ST_CrcThm: equals CrcBackByteBitwise.)
CrcTopByteQR(x, q, r) ==                                 \* bits 16q+r .. 16q+r+7 of x
  IF r = 0 THEN x[q+1] % 256
  ELSE ((x[q+1] \div P2[r+1]) + ((LimbOr0(x, q+2) % P2[r+1]) * P2[17-r])) % 256
CrcTopByte(x, W) == CrcTopByteQR(x, (W - 8) \div 16, (W - 8) % 16)
CrcBackByte(P, T, reg, byte) ==
  LET W   == CrcWidth(P)
      q   == (W - 8) \div 16
      r   == (W - 8) % 16
      top == CrcTopByteQR(reg, q, r)
      idx == CHOOSE i \in 0..255 : CrcTopByteQR(T[i+1], q, r) = top
      s   == CrcShl8(CrcXor(reg, T[idx+1]))
  IN [s EXCEPT ![1] = @ + (idx ^^ byte)]

\* register before processing all of data, given the register after (last byte undone first; bitwise,
\* which in TLC is ~10 times cheaper than the table search of CrcBackByte)
RECURSIVE CrcRegBackR(_,_,_,_,_)
CrcRegBackR(P, W, data, i, reg) ==
  IF i = 0 THEN reg ELSE CrcRegBackR(P, W, data, i-1, CrcBackByteR(P, W, reg, data[i], 7))
CrcRegBack(P, data, reg) == CrcRegBackR(P, CrcWidth(P), data, Len(data), reg)
RECURSIVE CrcRegBackTabledR(_,_,_,_,_)
CrcRegBackTabledR(P, T, data, i, reg) ==
  IF i = 0 THEN reg ELSE CrcRegBackTabledR(P, T, data, i-1, CrcBackByte(P, T, reg, data[i]))
CrcRegBackTabled(P, T, data, reg) == CrcRegBackTabledR(P, T, data, Len(data), reg)

\* ---- CRC-32 (ISO-HDLC, zlib, PNG): poly 0xEDB88320, init = final = 0xFFFFFFFF ----
Crc32Poly  == W32(60856, 33568)            \* 0xEDB8, 0x8320
Crc32Ones  == W32(65535, 65535)
Crc32Table == CrcTable(Crc32Poly)
Crc32(data) == WXor(CrcRegTabled(Crc32Table, data, Crc32Ones), Crc32Ones)

\* ---- long runs of one byte: the byte step as an affine map, powers by squaring ------------------
\* The bit step with message bit 0 is GF(2)-linear on the register (shift and conditional xor), so feeding
\* n equal bytes b is the n-th power of the affine map  reg |-> M8 (reg xor b),  M8 = (zero-bit step)^8.
\* A linear map on D = 16 Len(P) bits is the tuple of the images of the unit vectors e_0 .. e_(D-1);
\* an affine map is [m |-> matrix, v |-> word]: x |-> m x xor v.  This is zlib's crc32_combine idea and it
\* lets TLC evaluate a CRC over megabytes given run-length encoded (2 log2 n matrix products per run).
\* Runs are pairs <<byte, count>>; ST_CrcThm / MC_Crc check CrcRegRuns = CrcRegBitwise on the expanded data.
CrcUnit(nl, i) == LET F(j) == IF j = i \div 16 THEN P2[(i % 16) + 1] ELSE 0 IN BuildW(F, 0, nl, <<>>)
RECURSIVE CrcLinApplyR(_,_,_,_,_)
CrcLinApplyR(m, x, i, d, acc) ==
  IF i = d THEN acc ELSE CrcLinApplyR(m, x, i+1, d, IF WBit(x, i) = 1 THEN CrcXor(acc, m[i+1]) ELSE acc)
CrcLinApply(m, x) == CrcLinApplyR(m, x, 0, Len(m), ZeroW(Len(x)))
CrcLinMul(a, b) == LET F(i) == CrcLinApply(a, b[i+1]) IN BuildW(F, 0, Len(b), <<>>)        \* first b, then a
CrcAffApply(f, x) == CrcXor(CrcLinApply(f.m, x), f.v)
CrcAffMul(f, g) == [m |-> CrcLinMul(f.m, g.m), v |-> CrcXor(CrcLinApply(f.m, g.v), f.v)]   \* first g, then f
CrcLinId(nl) == LET F(i) == CrcUnit(nl, i) IN BuildW(F, 0, 16 * nl, <<>>)
CrcAffId(nl) == [m |-> CrcLinId(nl), v |-> ZeroW(nl)]
RECURSIVE CrcAffPow(_,_,_)
CrcAffPow(f, n, nl) ==                                   \* f applied n times (n >= 0), recursion depth log2 n
  IF n = 0 THEN CrcAffId(nl)
  ELSE IF n = 1 THEN f
  ELSE LET h == CrcAffPow(f, n \div 2, nl)  hh == CrcAffMul(h, h)
       IN IF n % 2 = 1 THEN CrcAffMul(f, hh) ELSE hh
CrcBitStepLin(P) == LET nl == Len(P)  F(i) == CrcStepBit(P, CrcUnit(nl, i), 0) IN BuildW(F, 0, 16 * nl, <<>>)
CrcByteStepLin(P) == LET m1 == CrcBitStepLin(P)  m2 == CrcLinMul(m1, m1)  m4 == CrcLinMul(m2, m2) IN CrcLinMul(m4, m4)
CrcByteAff(M8, nl, b) ==                                 \* reg |-> M8 (reg xor b)
  [m |-> M8, v |-> CrcLinApply(M8, [ZeroW(nl) EXCEPT ![1] = b])]
RECURSIVE CrcRepeatR(_,_,_,_)
CrcRepeatR(P, reg, b, n) == IF n = 0 THEN reg ELSE CrcRepeatR(P, CrcByteBitwise(P, reg, b), b, n-1)
CrcRunStep(P, M8, reg, b, n) ==                          \* register after n bytes b
  IF n <= 12 THEN CrcRepeatR(P, reg, b, n) ELSE CrcAffApply(CrcAffPow(CrcByteAff(M8, Len(P), b), n, Len(P)), reg)
RECURSIVE CrcRegRunsR(_,_,_,_,_)
CrcRegRunsR(P, M8, runs, i, reg) ==
  IF i > Len(runs) THEN reg ELSE CrcRegRunsR(P, M8, runs, i+1, CrcRunStep(P, M8, reg, runs[i][1], runs[i][2]))
CrcRegRuns(P, runs, reg) == CrcRegRunsR(P, CrcByteStepLin(P), runs, 1, reg)
CrcRuns(P, runs, init, final) == CrcXor(CrcRegRuns(P, runs, init), final)
Crc32M8 == CrcByteStepLin(Crc32Poly)
Crc32Runs(runs) == WXor(CrcRegRunsR(Crc32Poly, Crc32M8, runs, 1, Crc32Ones), Crc32Ones)
\* helpers on run-length encoded strings (counts stay below 2^31)
RECURSIVE RunsLenR(_,_,_)
RunsLenR(runs, i, acc) == IF i > Len(runs) THEN acc ELSE RunsLenR(runs, i+1, acc + runs[i][2])
RunsLen(runs) == RunsLenR(runs, 1, 0)
RECURSIVE RunsExpandR(_,_,_)
RunsExpandR(runs, i, acc) ==
  IF i > Len(runs) THEN acc ELSE RunsExpandR(runs, i+1, acc \o [k \in 1..runs[i][2] |-> runs[i][1]])
RunsExpand(runs) == RunsExpandR(runs, 1, <<>>)
RunsCanonical(runs) ==                                   \* maximal runs, none empty: the encoding is unique
  /\ \A i \in 1..Len(runs) : runs[i][2] >= 1 /\ runs[i][1] \in 0..255
  /\ \A i \in 1..(Len(runs) - 1) : runs[i][1] # runs[i+1][1]

\* ---- forging: force a CRC-32 by rewriting 4 consecutive bytes ----------------
\* pos = number of bytes kept in front of the patch (0-based offset of the patch);
\* requires pos + 4 <= Len(data).
\* a = register in front of the patch; b = register wanted behind it (target undone through the tail);
\* c = b undone through four zero bytes.  Feeding bytes x0..x3 to register a is the same as feeding
\* four zero bytes to a xor (x0 + 2^8 x1 + 2^16 x2 + 2^24 x3), hence the patch is a xor c, little-endian.
Crc32Patch(data, pos, target) ==
  LET head == SubSeq(data, 1, pos)
      tail == SubSeq(data, pos+5, Len(data))
      a == CrcRegTabled(Crc32Table, head, Crc32Ones)
      b == CrcRegBack(Crc32Poly, tail, WXor(target, Crc32Ones))
      c == CrcRegBack(Crc32Poly, <<0,0,0,0>>, b)
  IN head \o WToLE(WXor(a, c)) \o tail

FixOk(data, out, pos, target) ==
  /\ Len(out) = Len(data)
  /\ \A i \in 1..Len(data) : (i <= pos \/ i > pos + 4) => out[i] = data[i]
  /\ Crc32(out) = target
=============================================================================
