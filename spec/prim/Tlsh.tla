-------------------------------- MODULE Tlsh --------------------------------
(***************************************************************************)
(* TLSH, Trend Micro Locality Sensitive Hash.  Transcribed from the         *)
(* definition: J. Oliver, C. Cheng, Y. Chen, "TLSH - a locality sensitive   *)
(* hash" (2013) and the conventions of the reference implementation         *)
(* (tlsh_impl.cpp / tlsh_util.cpp, the 2014-2019 releases: incremental      *)
(* update(), b_mapping, find_quartile, l_capturing, hash(), totalDiff).     *)
(* Only the 256-entry Pearson table was copied from /repo/crysp/tlsh.py     *)
(* (declared exception, no other copy available); it is validated by the    *)
(* three official vectors, by being a permutation and by reproducing the    *)
(* 22 pre-hashed salts of the reference's fast_b_mapping (ST_TlshThm).      *)
(*                                                                         *)
(* Bytes are 0..255, byte strings are tuples.                               *)
(*                                                                         *)
(*   PearsonT                 256-tuple, PearsonT[x+1] = v_table[x]          *)
(*   BMap(salt, i, j, k)      b_mapping: T[T[T[T[salt] ^ i] ^ j] ^ k]        *)
(*   TlshCfg(buckets, wnd, chk)  configuration record                       *)
(*        buckets in {48, 128, 256}: number of bucket counts that are used   *)
(*          (EFF_BUCKETS; always 256 counts are kept, the FIRST `buckets`    *)
(*          of them make the digest; 48 = "min hash")                        *)
(*        wnd in 4..8: SLIDING_WND_SIZE;  chk in {1, 3}: TLSH_CHECKSUM_LEN    *)
(*   TlshCfgOK(cfg)           the configuration is one of the above         *)
(*   TlshInit(cfg)            state [len, win, chk, bkt]:                    *)
(*        len  number of bytes fed so far                                   *)
(*        win  the last min(len, wnd) bytes, oldest first                    *)
(*        chk  checksum bytes (tuple of cfg.chk bytes), not nibble-swapped   *)
(*        bkt  256-tuple of bucket counts, bkt[r+1] = a_bucket[r]            *)
(*   TlshUpdate(cfg, st, bytes)  feed bytes; incremental:                    *)
(*        TlshUpdate(cfg, TlshUpdate(cfg, st, a), b) = TlshUpdate(cfg, st, a \o b) *)
(*   TlshFinal(cfg, st, force)   [ok |-> BOOLEAN, digest |-> bytes];         *)
(*        ok = FALSE (digest = <<>>) means "no hash": len < 50, or len < 256 *)
(*        without force, or too few non-zero buckets (see TlshTooFew).       *)
(*        digest = swap(chk[1..]) \o <<swap(L), Q1*16+Q2>> \o reversed body, *)
(*        chk + 2 + buckets/4 bytes (the hex string of the reference).       *)
(*   TlshHash(cfg, bytes, force) = TlshFinal(cfg, TlshUpdate(cfg, TlshInit(cfg), bytes), force) *)
(*   TlshLvalue(len)          l_capturing(len), 1 <= len < 2^31              *)
(*   TlshQuartiles(cfg, bkt)  <<q1, q2, q3>>                                 *)
(*   TlshDiff(cfg, d1, d2, lenDiff)  totalDiff on two digests of TlshDigestLen(cfg) bytes *)
(*   TlshDistance(cfg, d1, d2) = TlshDiff(cfg, d1, d2, TRUE)                 *)
(*                                                                         *)
(* Points where a choice had to be made (see also tools/gen_kat_tlsh.py):   *)
(*  - l_capturing is defined with the reference's DECIMAL constants          *)
(*    LOG_1_5 = 0.4054651, LOG_1_3 = 0.26236426, LOG_1_1 = 0.095310180 and   *)
(*    real-number arithmetic; the thresholds are computed exactly by        *)
(*    tools/gen_tlsh_consts.py (rational enclosures of exp).  The double     *)
(*    evaluation of the C reference agrees with this table for all          *)
(*    len < 2^24 (checked exhaustively).  Using true logarithms to base     *)
(*    1.5/1.3/1.1 gives a different (larger by 1) L for len = 795081,        *)
(*    962048, 6472178, 8614469, 11465858, 12612444, 15261057 and further    *)
(*    lengths >= 2^24.                                                      *)
(*  - Q ratios: the reference computes (unsigned)((float)(q*100)/(float)q3); *)
(*    here it is the exact integer quotient (q*100) \div q3; the two agree   *)
(*    whenever q3 < 2^18 and q*100 < 2^24 (rounding error of the float       *)
(*    quotient, which is <= 100, is < 2^-18 < 1/q3).                         *)
(*  - 48 buckets: the first 48 of the 256 counts (releases up to 3.x).       *)
(*    Releases 4.x fold the last Pearson step with a table v_table48;       *)
(*    that variant is NOT what is specified here.                           *)
(*  - minimum lengths: 256 (50 with force), the rule of the releases that    *)
(*    have a `force` option (4.x: 50, or 256 if "conservative").             *)
(*                                                                         *)
(* Self-tests: selftest/ST_Tlsh.tla (kat/tlsh.ndjson) and ST_TlshThm.tla.    *)
(* Cost in TLC (one worker, warm): about 0.1 ms per input byte with window   *)
(* 5 (6 triplets), 0.3 ms with window 8 (21 triplets); TlshFinal and         *)
(* TlshDiff are a few ms.                                                   *)
(***************************************************************************)
EXTENDS Words, FiniteSets

PearsonT == <<
    1, 87, 49, 12, 176, 178, 102, 166, 121, 193, 6, 84, 249, 230, 44, 163,
    14, 197, 213, 181, 161, 85, 218, 80, 64, 239, 24, 226, 236, 142, 38, 200,
    110, 177, 104, 103, 141, 253, 255, 50, 77, 101, 81, 18, 45, 96, 31, 222,
    25, 107, 190, 70, 86, 237, 240, 34, 72, 242, 20, 214, 244, 227, 149, 235,
    97, 234, 57, 22, 60, 250, 82, 175, 208, 5, 127, 199, 111, 62, 135, 248,
    174, 169, 211, 58, 66, 154, 106, 195, 245, 171, 17, 187, 182, 179, 0, 243,
    132, 56, 148, 75, 128, 133, 158, 100, 130, 126, 91, 13, 153, 246, 216, 219,
    119, 68, 223, 78, 83, 88, 201, 99, 122, 11, 92, 32, 136, 114, 52, 10,
    138, 30, 48, 183, 156, 35, 61, 26, 143, 74, 251, 94, 129, 162, 63, 152,
    170, 7, 115, 167, 241, 206, 3, 150, 55, 59, 151, 220, 90, 53, 23, 131,
    125, 173, 15, 238, 79, 95, 89, 16, 105, 137, 225, 224, 217, 160, 37, 123,
    118, 73, 2, 157, 46, 116, 9, 145, 134, 228, 207, 212, 202, 215, 69, 229,
    27, 188, 67, 124, 168, 252, 42, 4, 29, 108, 21, 247, 19, 205, 39, 203,
    233, 40, 186, 147, 198, 192, 155, 33, 164, 191, 98, 204, 165, 180, 117, 76,
    140, 36, 210, 172, 41, 54, 159, 8, 185, 232, 113, 196, 231, 47, 146, 120,
    51, 65, 28, 144, 254, 221, 93, 189, 194, 139, 112, 43, 71, 109, 184, 209
>>

\* Pearson hash of the four bytes salt, i, j, k, starting from h = 0
BMap(salt, i, j, k) == PearsonT[(PearsonT[(PearsonT[(PearsonT[salt + 1] ^^ i) + 1] ^^ j) + 1] ^^ k) + 1]

\* ---- configuration ----------------------------------------------------------
TlshCfg(buckets, wnd, chk) == [buckets |-> buckets, wnd |-> wnd, chk |-> chk]
TlshCfgOK(cfg) == cfg.buckets \in {48, 128, 256} /\ cfg.wnd \in 4..8 /\ cfg.chk \in {1, 3}
TlshCodeSize(cfg) == cfg.buckets \div 4
TlshDigestLen(cfg) == cfg.chk + 2 + TlshCodeSize(cfg)

\* ---- triplets -----------------------------------------------------------------
\* <<salt, a, b>> stands for the bucket BMap(salt, w[0], w[-a], w[-b]) where w[0] is the newest
\* byte of the window and w[-a] the byte fed a positions earlier.  A window of size n uses the
\* triplets of all sizes 4..n.  Salts are the successive primes.
TlshTrip4 == << <<2, 1, 2>>, <<3, 1, 3>>, <<5, 2, 3>> >>
TlshTrip5 == << <<7, 2, 4>>, <<11, 1, 4>>, <<13, 3, 4>> >>
TlshTrip6 == << <<17, 1, 5>>, <<19, 2, 5>>, <<23, 3, 5>>, <<29, 4, 5>> >>
TlshTrip7 == << <<31, 1, 6>>, <<37, 2, 6>>, <<41, 3, 6>>, <<43, 4, 6>>, <<47, 5, 6>> >>
TlshTrip8 == << <<53, 1, 7>>, <<59, 2, 7>>, <<61, 3, 7>>, <<67, 4, 7>>, <<71, 5, 7>>, <<73, 6, 7>> >>
TlshTrips4 == TlshTrip4
TlshTrips5 == TlshTrips4 \o TlshTrip5
TlshTrips6 == TlshTrips5 \o TlshTrip6
TlshTrips7 == TlshTrips6 \o TlshTrip7
TlshTrips8 == TlshTrips7 \o TlshTrip8
TlshTriplets(w) == CASE w = 4 -> TlshTrips4 [] w = 5 -> TlshTrips5 [] w = 6 -> TlshTrips6
                     [] w = 7 -> TlshTrips7 [] w = 8 -> TlshTrips8

\* ---- state and update ---------------------------------------------------------
TlshZero256 == Rep(0, 256)
TlshInit(cfg) == [len |-> 0, win |-> <<>>, chk |-> Rep(0, cfg.chk), bkt |-> TlshZero256]

\* checksum[0] = BMap(0, w[0], w[-1], checksum[0]); checksum[k] = BMap(checksum[k-1] (new), w[0], w[-1], checksum[k])
RECURSIVE TlshChkR(_,_,_,_,_)
TlshChkR(old, x0, x1, k, acc) ==
  IF k > Len(old) THEN acc
  ELSE TlshChkR(old, x0, x1, k + 1, Append(acc, BMap(IF k = 1 THEN 0 ELSE acc[k-1], x0, x1, old[k])))

RECURSIVE TlshBump(_,_,_,_,_)
TlshBump(bkt, tr, win, w, i) ==
  IF i > Len(tr) THEN bkt
  ELSE LET t == tr[i]
           r == BMap(t[1], win[w], win[w - t[2]], win[w - t[3]])
       IN TlshBump([bkt EXCEPT ![r + 1] = @ + 1], tr, win, w, i + 1)

\* one byte: shift it into the window; once the window is full (len >= wnd) the checksum and the buckets move
TlshStep(cfg, st, b) ==
  LET w == cfg.wnd
      win == IF Len(st.win) < w THEN Append(st.win, b) ELSE Append(Tail(st.win), b)
  IN IF Len(win) < w
     THEN [len |-> st.len + 1, win |-> win, chk |-> st.chk, bkt |-> st.bkt]
     ELSE [len |-> st.len + 1, win |-> win,
           chk |-> TlshChkR(st.chk, win[w], win[w-1], 1, <<>>),
           bkt |-> TlshBump(st.bkt, TlshTriplets(w), win, w, 1)]

\* bytes bs[lo..hi] in order, by halving: the recursion depth stays logarithmic (TLC does not eliminate tail
\* calls, and a Java stack that is thousands of frames deep makes every garbage collection slow)
RECURSIVE TlshUpdR(_,_,_,_,_)
TlshUpdR(cfg, st, bs, lo, hi) ==
  IF lo > hi THEN st
  ELSE IF lo = hi THEN TlshStep(cfg, st, bs[lo])
  ELSE LET mid == (lo + hi) \div 2
           s2 == TlshUpdR(cfg, st, bs, lo, mid)
       IN IF s2.len > 0 THEN TlshUpdR(cfg, s2, bs, mid + 1, hi) ELSE s2     \* (the test only forces evaluation)
TlshUpdate(cfg, st, bytes) == TlshUpdR(cfg, st, bytes, 1, Len(bytes))

\* ---- L value -----------------------------------------------------------------
\* generated by tools/gen_tlsh_consts.py: TlshLThresh[k] = least length with L value >= k (lengths < 2^31)
\* With real logarithms (log base 1.5/1.3/1.1 instead of the reference's decimal constants) the L value is
\* larger by one exactly for the lengths T' <= len < T of: (k, T, T') =
\*   (80, 795082, 795081), (82, 962049, 962048), (102, 6472179, 6472178), (105, 8614470, 8614469), (108, 11465859, 11465858), (109, 12612445, 12612444), (111, 15261058, 15261057)  and 51 more thresholds at lengths >= 2^24
TlshLThresh == <<
    2, 3, 4, 6, 8, 12, 18, 26, 39, 58,
    87, 130, 195, 292, 438, 657, 855, 1111, 1444, 1877,
    2440, 3172, 3476, 3824, 4206, 4627, 5089, 5598, 6158, 6773,
    7451, 8196, 9015, 9917, 10908, 11999, 13199, 14519, 15971, 17568,
    19324, 21257, 23383, 25721, 28293, 31122, 34234, 37657, 41423, 45565,
    50122, 55134, 60647, 66712, 73383, 80722, 88794, 97673, 107440, 118184,
    130003, 143003, 157303, 173033, 190337, 209370, 230307, 253338, 278672, 306539,
    337192, 370912, 408003, 448803, 493683, 543052, 597357, 657092, 722801, 795082,
    874590, 962049, 1058253, 1164079, 1280486, 1408535, 1549388, 1704327, 1874760, 2062236,
    2268459, 2495305, 2744836, 3019319, 3321251, 3653376, 4018714, 4420585, 4862644, 5348908,
    5883799, 6472179, 7119396, 7831336, 8614470, 9475916, 10423508, 11465859, 12612445, 13873689,
    15261058, 16787164, 18465880, 20312468, 22343715, 24578086, 27035895, 29739484, 32713432, 35984776,
    39583253, 43541578, 47895736, 52685310, 57953841, 63749225, 70124147, 77136562, 84850218, 93335240,
    102668763, 112935640, 124229204, 136652124, 150317336, 165349070, 181883977, 200072375, 220079612, 242087573,
    266296331, 292925964, 322218560, 354440416, 389884458, 428872904, 471760194, 518936214, 570829835, 627912819,
    690704101, 759774511, 835751962, 919327159, 1011259875, 1112385862, 1223624449, 1345986894, 1480585583, 1628644142,
    1791508556, 1970659412
>>
RECURSIVE TlshLCount(_,_)
TlshLCount(len, k) == IF k > Len(TlshLThresh) THEN k - 1
                      ELSE IF TlshLThresh[k] > len THEN k - 1 ELSE TlshLCount(len, k + 1)
TlshLvalue(len) == TlshLCount(len, 1) % 256           \* i & 0xff (never wraps: at most 162)

\* ---- quartiles ---------------------------------------------------------------
\* the element of rank r (1 = smallest) among c[1..n]: what sorting c and reading position r gives
TlshKth(c, n, r) ==
  CHOOSE v \in {c[i] : i \in 1..n} :
      /\ Cardinality({i \in 1..n : c[i] < v}) < r
      /\ Cardinality({i \in 1..n : c[i] <= v}) >= r
\* find_quartile: 0-based positions B/4-1, B/2-1, B-B/4-1 of the sorted first B counts
TlshQuartiles(cfg, bkt) ==
  LET B == cfg.buckets
  IN <<TlshKth(bkt, B, B \div 4), TlshKth(bkt, B, B \div 2), TlshKth(bkt, B, B - (B \div 4))>>

TlshNonZero(cfg, bkt) == Cardinality({i \in 1..cfg.buckets : bkt[i] > 0})
\* "buckets must be more than 50% non-zero"; the 48-bucket build replaces this by "at least 18"
TlshTooFew(cfg, bkt) == IF cfg.buckets = 48 THEN TlshNonZero(cfg, bkt) < 18
                        ELSE 2 * TlshNonZero(cfg, bkt) <= cfg.buckets

\* ---- digest ------------------------------------------------------------------
TlshSwap(x) == ((x % 16) * 16) + (x \div 16)
TlshPair(q, v) == IF q[3] < v THEN 3 ELSE IF q[2] < v THEN 2 ELSE IF q[1] < v THEN 1 ELSE 0
\* tmp_code[i], i = 0..B/4-1: bucket 4i+j in bits 2j, 2j+1
TlshCodeByte(bkt, q, i) == TlshPair(q, bkt[(4*i) + 1]) + (4 * TlshPair(q, bkt[(4*i) + 2]))
                           + (16 * TlshPair(q, bkt[(4*i) + 3])) + (64 * TlshPair(q, bkt[(4*i) + 4]))
\* the digest lists tmp_code[CODE_SIZE-1], ..., tmp_code[0]
RECURSIVE TlshBodyR(_,_,_,_)
TlshBodyR(bkt, q, i, acc) == IF i < 0 THEN acc ELSE TlshBodyR(bkt, q, i - 1, Append(acc, TlshCodeByte(bkt, q, i)))
RECURSIVE TlshSwapAll(_,_,_)
TlshSwapAll(s, i, acc) == IF i > Len(s) THEN acc ELSE TlshSwapAll(s, i + 1, Append(acc, TlshSwap(s[i])))

TlshNone == [ok |-> FALSE, digest |-> <<>>]
TlshFinal(cfg, st, force) ==
  IF st.len < 50 \/ (~force /\ st.len < 256) THEN TlshNone
  ELSE LET q == TlshQuartiles(cfg, st.bkt)
       IN IF q[3] = 0 \/ TlshTooFew(cfg, st.bkt) THEN TlshNone
          ELSE LET q1r == ((q[1] * 100) \div q[3]) % 16
                   q2r == ((q[2] * 100) \div q[3]) % 16
               IN [ok |-> TRUE,
                   digest |-> TlshSwapAll(st.chk, 1, <<>>)
                              \o <<TlshSwap(TlshLvalue(st.len)), (q1r * 16) + q2r>>
                              \o TlshBodyR(st.bkt, q, TlshCodeSize(cfg) - 1, <<>>)]
TlshHash(cfg, bytes, force) == TlshFinal(cfg, TlshUpdate(cfg, TlshInit(cfg), bytes), force)

\* ---- distance (totalDiff) ----------------------------------------------------
TlshModDiff(x, y, R) == LET d == IF x > y THEN x - y ELSE y - x IN IF d > R - d THEN R - d ELSE d
TlshPairDiff(a, b) == LET d == IF a > b THEN a - b ELSE b - a IN IF d = 3 THEN 6 ELSE d
TlshByteDiff(x, y) == TlshPairDiff(x % 4, y % 4) + TlshPairDiff((x \div 4) % 4, (y \div 4) % 4)
                      + TlshPairDiff((x \div 16) % 4, (y \div 16) % 4) + TlshPairDiff(x \div 64, y \div 64)
RECURSIVE TlshBodyDiff(_,_,_,_,_)
TlshBodyDiff(d1, d2, i, n, acc) == IF i > n THEN acc ELSE TlshBodyDiff(d1, d2, i + 1, n, acc + TlshByteDiff(d1[i], d2[i]))
TlshQDiff(a, b) == LET d == TlshModDiff(a, b, 16) IN IF d <= 1 THEN d ELSE (d - 1) * 12
\* d1, d2: digests of TlshDigestLen(cfg) bytes (nibble swaps and the reversal of the body need not be undone:
\* they are the same bijection on both sides, except for L and Q which are unswapped below)
TlshDiff(cfg, d1, d2, lenDiff) ==
  LET c == cfg.chk
      l1 == TlshSwap(d1[c + 1])  l2 == TlshSwap(d2[c + 1])
      ld == TlshModDiff(l1, l2, 256)
  IN (IF lenDiff THEN (IF ld <= 1 THEN ld ELSE ld * 12) ELSE 0)
     + TlshQDiff(d1[c + 2] \div 16, d2[c + 2] \div 16)          \* Q1 ratios
     + TlshQDiff(d1[c + 2] % 16, d2[c + 2] % 16)                \* Q2 ratios
     + (IF SubSeq(d1, 1, c) = SubSeq(d2, 1, c) THEN 0 ELSE 1)  \* one point whatever the number of differing checksum bytes
     + TlshBodyDiff(d1, d2, c + 3, TlshDigestLen(cfg), 0)
TlshDistance(cfg, d1, d2) == TlshDiff(cfg, d1, d2, TRUE)
=============================================================================
