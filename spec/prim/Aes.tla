-------------------------------- MODULE Aes ---------------------------------
(***************************************************************************)
(* AES-128/192/256 transcribed from FIPS 197 (Nb = 4).                      *)
(*                                                                         *)
(* Data layout.  Blocks, states and round keys are 1-based tuples of 16     *)
(* bytes (0..255) in the input order of FIPS 197 s.3.4: byte number k       *)
(* (k = 0..15, tuple index k+1) is the state element s[r,c] with            *)
(* r = k mod 4 (row) and c = k div 4 (column).  Keys are tuples of 16, 24   *)
(* or 32 bytes (Nk = 4, 6, 8 -> Nr = 10, 12, 14).  Words of the key         *)
(* schedule are 4-tuples of bytes <<a0,a1,a2,a3>> (s.3.5).                  *)
(*                                                                         *)
(* Nothing is typed in as a table: SBox / InvSBox are computed from the     *)
(* field inverse (module GF256) and the affine transformation (5.1.1,       *)
(* eq. 5.1, c = {63}) resp. its inverse followed by the field inverse        *)
(* (5.3.2; the inverse affine map b'_i = b_(i+2) + b_(i+5) + b_(i+7) + d_i, *)
(* d = {05}, is spelled out in FIPS 197-upd1; the 2001 text only says "the  *)
(* inverse of the affine transformation" -- ST_AesThm checks that InvSBox   *)
(* is the inverse permutation of SBox).  Rcon is derived by XTime.          *)
(* They are zero-arity constant definitions: TLC evaluates them once at     *)
(* start-up (about 0.5 s) PROVIDED the root specification declares no       *)
(* variable named x, y, n, m, exp, or gf.. / ae.. (see NAMING in GF256.tla); *)
(* otherwise each S-box lookup silently costs ~0.1 s instead of ~1 us.      *)
(* Check: add  P == IF PrintT("p") THEN SBox ELSE <<>>  to the root module    *)
(* and use P; "p" must be printed exactly once, before the initial states.  *)
(*                                                                         *)
(* Interface:                                                               *)
(*   SBox, InvSBox          256-tuples, index = byte value + 1              *)
(*   SubBytes(s), InvSubBytes(s), ShiftRows(s), InvShiftRows(s),            *)
(*   MixColumns(s), InvMixColumns(s)      16 bytes -> 16 bytes (s.5.1, 5.3) *)
(*   AddRoundKey(s, rk)     16 bytes x 16 bytes -> 16 bytes (xor)           *)
(*   Rcon(i)                i >= 1: the byte x^(i-1) (first byte of Rcon[i])*)
(*   AesNk(key), AesNr(key) Len(key) div 4, and Nk + 6                      *)
(*   AesKeyExpansion(key)   tuple of Nr+1 round keys (16 bytes each);       *)
(*                          element j+1 is w[4j .. 4j+3] of s.5.2           *)
(*   AesEncRK(rks, blk), AesDecRK(rks, blk)  Cipher / InvCipher with an     *)
(*                          already expanded key (to expand once per key)   *)
(*   AesEnc(key, blk)       Cipher (fig. 5), 16 bytes                       *)
(*   AesDec(key, blk)       InvCipher (s.5.3, fig. 12: the straightforward  *)
(*                          inverse, not the equivalent inverse cipher)     *)
(***************************************************************************)
EXTENDS GF256, Words

\* ---- S-boxes (5.1.1, 5.3.2) ------------------------------------------------
\* Identifiers in this section are prefixed ae and no operator of Words is used: see NAMING in GF256.tla
\* (SBox / InvSBox must stay constants whatever the variables of the root specification are called).
AeBit(aeb, aei) == (aeb \div (2^(aei % 8))) % 2                 \* bit (aei mod 8) of byte aeb
\* b'_i = b_i + b_(i+4) + b_(i+5) + b_(i+6) + b_(i+7) + c_i   (indices mod 8), c = {63} = 99
AffBit(aeb, aei) == (AeBit(aeb, aei) + AeBit(aeb, aei+4) + AeBit(aeb, aei+5) + AeBit(aeb, aei+6)
                     + AeBit(aeb, aei+7) + AeBit(99, aei)) % 2
\* b'_i = b_(i+2) + b_(i+5) + b_(i+7) + d_i                   (indices mod 8), d = {05}
InvAffBit(aeb, aei) == (AeBit(aeb, aei+2) + AeBit(aeb, aei+5) + AeBit(aeb, aei+7) + AeBit(5, aei)) % 2
Affine(aeb)    == AffBit(aeb,0) + 2*AffBit(aeb,1) + 4*AffBit(aeb,2) + 8*AffBit(aeb,3) + 16*AffBit(aeb,4)
                  + 32*AffBit(aeb,5) + 64*AffBit(aeb,6) + 128*AffBit(aeb,7)
InvAffine(aeb) == InvAffBit(aeb,0) + 2*InvAffBit(aeb,1) + 4*InvAffBit(aeb,2) + 8*InvAffBit(aeb,3)
                  + 16*InvAffBit(aeb,4) + 32*InvAffBit(aeb,5) + 64*InvAffBit(aeb,6) + 128*InvAffBit(aeb,7)

\* <<AeF(aelo), ..., AeF(aelo+aen-1)>> by halving.  Recursion depth 8 for 256 entries: TLC evaluates
\* zero-arity constants once at start-up on the JVM main thread, whose stack JAVA_TOOL_OPTIONS=-Xss does
\* not enlarge; a 256-deep Append recursion overflows there, the error is swallowed and the table is
\* then silently re-evaluated at every use.
RECURSIVE AeTab(_,_,_)
AeTab(AeF(_), aelo, aen) == IF aen = 1 THEN <<AeF(aelo)>>
                            ELSE LET aeh == aen \div 2 IN AeTab(AeF, aelo, aeh) \o AeTab(AeF, aelo + aeh, aen - aeh)
SBoxEntry(aeb)    == Affine(GInv(aeb))          \* 5.1.1: inverse (0 -> 0), then affine map
InvSBoxEntry(aeb) == GInv(InvAffine(aeb))       \* 5.3.2: inverse affine map, then inverse
SBox    == AeTab(SBoxEntry, 0, 256)
InvSBox == AeTab(InvSBoxEntry, 0, 256)

\* ---- round transformations -------------------------------------------------
SubBytes(s)    == LET F(k) == SBox[s[k+1] + 1]    IN BuildW(F, 0, 16, <<>>)
InvSubBytes(s) == LET F(k) == InvSBox[s[k+1] + 1] IN BuildW(F, 0, 16, <<>>)

\* tuple index of s[r,c]
At(r, c) == r + 4*c + 1
\* 5.1.2 (eq. 5.3):  s'[r,c] = s[r, (c + r) mod 4]
ShiftRows(s)    == LET F(k) == s[At(k % 4, ((k \div 4) + (k % 4)) % 4)]     IN BuildW(F, 0, 16, <<>>)
\* 5.3.1 (eq. 5.8):  s'[r, (c + r) mod 4] = s[r,c],  i.e. s'[r,c] = s[r, (c - r) mod 4]
InvShiftRows(s) == LET F(k) == s[At(k % 4, ((k \div 4) + 4 - (k % 4)) % 4)] IN BuildW(F, 0, 16, <<>>)

X4(a, b, c, d) == (a ^^ b) ^^ (c ^^ d)
\* 5.1.3 (eq. 5.6): column times {03}x^3 + {01}x^2 + {01}x + {02} mod x^4 + 1
MixCol(s0, s1, s2, s3) ==
  << X4(GMul(2, s0), GMul(3, s1), s2,          s3),
     X4(s0,          GMul(2, s1), GMul(3, s2), s3),
     X4(s0,          s1,          GMul(2, s2), GMul(3, s3)),
     X4(GMul(3, s0), s1,          s2,          GMul(2, s3)) >>
\* 5.3.3 (eq. 5.10): column times {0b}x^3 + {0d}x^2 + {09}x + {0e}
InvMixCol(s0, s1, s2, s3) ==
  << X4(GMul(14, s0), GMul(11, s1), GMul(13, s2), GMul(9,  s3)),
     X4(GMul(9,  s0), GMul(14, s1), GMul(11, s2), GMul(13, s3)),
     X4(GMul(13, s0), GMul(9,  s1), GMul(14, s2), GMul(11, s3)),
     X4(GMul(11, s0), GMul(13, s1), GMul(9,  s2), GMul(14, s3)) >>
MixColumns(s)    == MixCol(s[1], s[2], s[3], s[4]) \o MixCol(s[5], s[6], s[7], s[8])
                    \o MixCol(s[9], s[10], s[11], s[12]) \o MixCol(s[13], s[14], s[15], s[16])
InvMixColumns(s) == InvMixCol(s[1], s[2], s[3], s[4]) \o InvMixCol(s[5], s[6], s[7], s[8])
                    \o InvMixCol(s[9], s[10], s[11], s[12]) \o InvMixCol(s[13], s[14], s[15], s[16])

\* 5.1.4: column c is xored with word w[4*round + c]; with round keys stored as the 16 bytes of
\* w[4*round .. 4*round+3] this is a bytewise xor
AddRoundKey(s, rk) == LET F(k) == s[k+1] ^^ rk[k+1] IN BuildW(F, 0, 16, <<>>)

\* ---- key expansion (5.2, fig. 11) ------------------------------------------
SubWord(w) == <<SBox[w[1]+1], SBox[w[2]+1], SBox[w[3]+1], SBox[w[4]+1]>>
RotWord(w) == <<w[2], w[3], w[4], w[1]>>
XorWord(a, b) == <<a[1] ^^ b[1], a[2] ^^ b[2], a[3] ^^ b[3], a[4] ^^ b[4]>>
\* Rcon[i] = <<x^(i-1), 0, 0, 0>>, i starting at 1
RECURSIVE Rcon(_)
Rcon(i) == IF i = 1 THEN 1 ELSE XTime(Rcon(i-1))

AesNk(key) == Len(key) \div 4
AesNr(key) == AesNk(key) + 6

\* w: tuple of the words computed so far (w[i+1] here is w[i] of the standard); n: words wanted
RECURSIVE KeyExpR(_,_,_)
KeyExpR(w, Nk, n) ==
  IF Len(w) >= n THEN w
  ELSE LET i     == Len(w)                     \* index, in the standard's numbering, of the new word
           prev  == w[i]                       \* temp = w[i-1]
           temp  == IF (i % Nk) = 0 THEN XorWord(SubWord(RotWord(prev)), <<Rcon(i \div Nk), 0, 0, 0>>)
                    ELSE IF Nk > 6 /\ (i % Nk) = 4 THEN SubWord(prev)
                    ELSE prev
       IN KeyExpR(Append(w, XorWord(w[i - Nk + 1], temp)), Nk, n)

RECURSIVE KeyWords(_,_,_)
KeyWords(key, i, acc) == IF 4*i >= Len(key) THEN acc
                         ELSE KeyWords(key, i+1, Append(acc, <<key[4*i+1], key[4*i+2], key[4*i+3], key[4*i+4]>>))

AesKeyExpansion(key) ==
  LET Nk == AesNk(key)
      Nr == AesNr(key)
      w  == KeyExpR(KeyWords(key, 0, <<>>), Nk, 4*(Nr+1))
      RK(j) == w[4*j+1] \o w[4*j+2] \o w[4*j+3] \o w[4*j+4]
  IN BuildW(RK, 0, Nr+1, <<>>)

\* ---- Cipher (5.1, fig. 5) ----------------------------------------------------
RECURSIVE EncRounds(_,_,_,_)
EncRounds(s, rks, round, Nr) ==
  IF round = Nr THEN AddRoundKey(ShiftRows(SubBytes(s)), rks[Nr+1])
  ELSE EncRounds(AddRoundKey(MixColumns(ShiftRows(SubBytes(s))), rks[round+1]), rks, round+1, Nr)
AesEncRK(rks, blk) == EncRounds(AddRoundKey(blk, rks[1]), rks, 1, Len(rks) - 1)

\* ---- InvCipher (5.3, fig. 12) ------------------------------------------------
RECURSIVE DecRounds(_,_,_)
DecRounds(s, rks, round) ==
  IF round = 0 THEN AddRoundKey(InvSubBytes(InvShiftRows(s)), rks[1])
  ELSE DecRounds(InvMixColumns(AddRoundKey(InvSubBytes(InvShiftRows(s)), rks[round+1])), rks, round-1)
AesDecRK(rks, blk) == LET Nr == Len(rks) - 1 IN DecRounds(AddRoundKey(blk, rks[Nr+1]), rks, Nr-1)

AesEnc(key, blk) == AesEncRK(AesKeyExpansion(key), blk)
AesDec(key, blk) == AesDecRK(AesKeyExpansion(key), blk)
=============================================================================
