------------------------------- MODULE GF256 -------------------------------
(***************************************************************************)
(* Arithmetic in GF(2^8) as defined by FIPS 197 s.4: bytes 0..255 stand for *)
(* polynomials b7 x^7 + ... + b0 over GF(2); addition is xor (s.4.1);       *)
(* multiplication is polynomial multiplication modulo                       *)
(*       m(x) = x^8 + x^4 + x^3 + x + 1   ({01}{1b}, s.4.2).                 *)
(* No log/antilog tables: XTime is s.4.2.1, GMul is the shift-and-add of    *)
(* s.4.2.1 (sum of the xtime-multiples selected by the bits of a).          *)
(* Interface (all arguments and results are bytes 0..255, n is a Nat):      *)
(*   XTime(a)    a * {02}                                                   *)
(*   GMul(a, b)  a * b           (loop over the bits of a: cheap for small a)*)
(*   GPow(a, n)  a^n, GPow(a, 0) = 1  (square and multiply)                 *)
(*   GInv(a)     a^(-1) for a # 0, GInv(0) = 0.  Computed as a^254 (the     *)
(*               multiplicative group has order 255); ST_AesThm checks       *)
(*               GMul(a, GInv(a)) = 1 for every a in 1..255.                 *)
(***************************************************************************)
EXTENDS Naturals, Bitwise

\* s.4.2.1: left shift, then conditional xor with {1b} when b7 was set
XTime(a) == IF a >= 128 THEN (2*a - 256) ^^ 27 ELSE 2*a

\* acc + a*b with the remaining bits of a; b runs through b, xtime(b), xtime(xtime(b)), ...
RECURSIVE GMulR(_,_,_)
GMulR(a, b, acc) == IF a = 0 THEN acc
                    ELSE GMulR(a \div 2, XTime(b), IF (a % 2) = 1 THEN acc ^^ b ELSE acc)
GMul(a, b) == GMulR(a, b, 0)

RECURSIVE GPow(_,_)
GPow(a, n) == IF n = 0 THEN 1
              ELSE LET h  == GPow(a, n \div 2)
                       sq == GMul(h, h)
                   IN IF (n % 2) = 1 THEN GMul(sq, a) ELSE sq

GInv(a) == GPow(a, 254)
=============================================================================
