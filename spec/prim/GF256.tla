------------------------------- MODULE GF256 -------------------------------
(***************************************************************************)
(* Arithmetic in GF(2^8) as defined by FIPS 197 s.4: bytes 0..255 stand for *)
(* polynomials b7 x^7 + ... + b0 over GF(2); addition is xor (s.4.1);       *)
(* multiplication is polynomial multiplication modulo                       *)
(*       m(x) = x^8 + x^4 + x^3 + x + 1   ({01}{1b}, s.4.2).                 *)
(* No log/antilog tables: XTime is s.4.2.1, GMul is the shift-and-add of    *)
(* s.4.2.1 (sum of the xtime-multiples selected by the bits of a).          *)
(* Interface (all arguments and results are bytes 0..255, n is a Nat):      *)
(*   XTime(a)    a * {02}                                                   *)
(*   GMul(a, b)  a * b           (loop over the bits of a: cheap for small a)*)
(*   GPow(a, n)  a^n, GPow(a, 0) = 1  (square and multiply)                 *)
(*   GInv(a)     a^(-1) for a # 0, GInv(0) = 0.  Computed as a^254 (the     *)
(*               multiplicative group has order 255); ST_AesThm checks       *)
(*               GMul(a, GInv(a)) = 1 for every a in 1..255.                 *)
(*                                                                         *)
(* NAMING.  Every identifier below is prefixed gf on purpose.  TLC decides  *)
(* whether a zero-arity definition is a constant (evaluated once and        *)
(* cached) BY NAME: if any parameter / LET name reachable from it is spelled *)
(* like a VARIABLE of the root specification, the definition is silently    *)
(* re-evaluated at every use.  Aes!SBox is built from these operators.      *)
(* For the same reason a root specification using Aes must not declare      *)
(* variables named x, y, n, m or exp (names inside CommunityModules'        *)
(* Bitwise.tla, reached through ^^).                                        *)
(***************************************************************************)
EXTENDS Naturals, Bitwise

\* s.4.2.1: left shift, then conditional xor with {1b} when b7 was set
XTime(gfa) == IF gfa >= 128 THEN (2*gfa - 256) ^^ 27 ELSE 2*gfa

\* gfacc + gfa*gfb with the remaining bits of gfa; gfb runs through b, xtime(b), xtime(xtime(b)), ...
RECURSIVE GMulR(_,_,_)
GMulR(gfa, gfb, gfacc) == IF gfa = 0 THEN gfacc
                          ELSE GMulR(gfa \div 2, XTime(gfb), IF (gfa % 2) = 1 THEN gfacc ^^ gfb ELSE gfacc)
GMul(gfa, gfb) == GMulR(gfa, gfb, 0)

RECURSIVE GPow(_,_)
GPow(gfa, gfn) == IF gfn = 0 THEN 1
                  ELSE LET gfh  == GPow(gfa, gfn \div 2)
                           gfsq == GMul(gfh, gfh)
                       IN IF (gfn % 2) = 1 THEN GMul(gfsq, gfa) ELSE gfsq

GInv(gfa) == GPow(gfa, 254)
=============================================================================
