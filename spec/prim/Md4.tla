-------------------------------- MODULE Md4 --------------------------------
(***************************************************************************)
(* MD4 compression function, transcribed from RFC 1320 (s.3.3 - 3.5).       *)
(* Interface (bytes are 0..255, 32-bit words are <<lo16, hi16>> of Words):   *)
(*   Md4IV                 <<A, B, C, D>>, the four words of s.3.3           *)
(*   Md4Compress(H, blk)   H = <<A,B,C,D>>, blk = 64 bytes; the new          *)
(*                         <<A,B,C,D>> after "Process each 16-word block"    *)
(*   Md4Out(H)             16 digest bytes: A, B, C, D low-order byte first  *)
(* Padding (s.3.1, 3.2: a 1 bit, zeros to 448 mod 512, then the 64-bit bit   *)
(* length low-order word first, each word low-order byte first = 8 bytes     *)
(* little-endian) is MDPad!PadMD with a little-endian length field.         *)
(* \hXXXX are TLA+ hexadecimal numerals.                                     *)
(***************************************************************************)
EXTENDS Words

\* s.3.3: word A: 01 23 45 67, B: 89 ab cd ef, C: fe dc ba 98, D: 76 54 32 10 (low-order bytes first)
Md4IV == <<W32(\h6745, \h2301), W32(\hefcd, \hab89), W32(\h98ba, \hdcfe), W32(\h1032, \h5476)>>

\* s.3.4 auxiliary functions
Md4F(x, y, z) == WOr(WAnd(x, y), WAnd(WNot(x), z))                 \* XY v not(X) Z
Md4G(x, y, z) == WOr(WOr(WAnd(x, y), WAnd(x, z)), WAnd(y, z))      \* XY v XZ v YZ
Md4H(x, y, z) == WXor(WXor(x, y), z)                               \* X xor Y xor Z

\* additive constants of rounds 1, 2, 3 (round 1 has none; 5A827999 = sqrt(2), 6ED9EBA1 = sqrt(3), times 2^30;
\* checked by tools/gen_md5_consts.py)
Md4C == <<W32(0, 0), W32(\h5A82, \h7999), W32(\h6ED9, \hEBA1)>>

\* The 48 operations [abcd k s] of s.3.5 in order.  The register pattern is ABCD, DABC, CDAB, BCDA
\* repeated; entry i is <<k, s>>.
Md4Ops == <<
  \* Round 1: a = (a + F(b,c,d) + X[k]) <<< s
  <<0,3>>,  <<1,7>>,  <<2,11>>,  <<3,19>>,   <<4,3>>,  <<5,7>>,  <<6,11>>,  <<7,19>>,
  <<8,3>>,  <<9,7>>,  <<10,11>>, <<11,19>>,  <<12,3>>, <<13,7>>, <<14,11>>, <<15,19>>,
  \* Round 2: a = (a + G(b,c,d) + X[k] + 5A827999) <<< s
  <<0,3>>,  <<4,5>>,  <<8,9>>,   <<12,13>>,  <<1,3>>,  <<5,5>>,  <<9,9>>,   <<13,13>>,
  <<2,3>>,  <<6,5>>,  <<10,9>>,  <<14,13>>,  <<3,3>>,  <<7,5>>,  <<11,9>>,  <<15,13>>,
  \* Round 3: a = (a + H(b,c,d) + X[k] + 6ED9EBA1) <<< s
  <<0,3>>,  <<8,9>>,  <<4,11>>,  <<12,15>>,  <<2,3>>,  <<10,9>>, <<6,11>>,  <<14,15>>,
  <<1,3>>,  <<9,9>>,  <<5,11>>,  <<13,15>>,  <<3,3>>,  <<11,9>>, <<7,11>>,  <<15,15>> >>

\* sum of four 32-bit words mod 2^32 (limb sums stay < 2^19)
Md4Sum4(a, b, c, d) == LET l == a[1] + b[1] + c[1] + d[1]
                       IN <<l % B16, (a[2] + b[2] + c[2] + d[2] + (l \div B16)) % B16>>

\* v = <<a,b,c,d>> in the ROLES of the current operation: operation [abcd k s] replaces a, and the
\* next operation [dabc ..] has the roles <<d, a', b, c>>.  After 4, 8, ..., 48 operations the roles
\* are again the registers <<A,B,C,D>>.
RECURSIVE Md4Steps(_,_,_)
Md4Steps(v, X, i) ==
  IF i > 48 THEN v
  ELSE LET r == (i - 1) \div 16                     \* round - 1
           f == IF r = 0 THEN Md4F(v[2], v[3], v[4]) ELSE IF r = 1 THEN Md4G(v[2], v[3], v[4]) ELSE Md4H(v[2], v[3], v[4])
           a == Rol(Md4Sum4(v[1], f, X[Md4Ops[i][1] + 1], Md4C[r + 1]), Md4Ops[i][2])
       IN Md4Steps(<<v[4], a, v[2], v[3]>>, X, i + 1)

Md4Compress(H, blk) ==
  LET X == WordsFromLE(blk, 4)                      \* X[j] of the RFC is X[j+1] here
      v == Md4Steps(H, X, 1)
  IN <<WAdd(H[1], v[1]), WAdd(H[2], v[2]), WAdd(H[3], v[3]), WAdd(H[4], v[4])>>

Md4Out(H) == WordsToLE(H)
=============================================================================
