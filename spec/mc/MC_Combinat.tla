------------------------------ MODULE MC_Combinat ------------------------------
(* Spec theorems of base/Combinat on every list of length 0..N over 1..V. *)
EXTENDS Combinat
CONSTANTS N, V
VARIABLES l, p
Lists == UNION { [1..n -> 1..V] : n \in 0..N }
Init == l \in Lists /\ p \in 0..N
Next == UNCHANGED <<l, p>>
RECURSIVE Binom(_,_)
Binom(n, k) == IF k = 0 THEN 1 ELSE IF k > n THEN 0 ELSE Binom(n-1, k-1) + Binom(n-1, k)
Thm ==
  /\ NextPerm(l) = SuccessorByDefinition(l)                          \* algorithmic successor = definition
  /\ Cardinality(PermsOf(l)) * Multiplicity(l, 0) = Fact(Len(l))
  /\ (p <= Len(l) => /\ Len(Combinations(l, p)) = Binom(Len(l), p)
                     /\ LET idx == CombIdx(1, Len(l), p) IN
                          /\ \A a \in 1..Len(idx) : \A j \in 1..(p-1) : idx[a][j] < idx[a][j+1]
                          /\ \A a \in 1..(Len(idx)-1) : Less(idx[a], idx[a+1]))
  /\ LET items == [j \in 1..Len(l) |-> <<j, l[j]>>] IN
       \A s \in 0..(SumSeq(items, 1) + 1) :
          /\ (Solvable(items, s) => \E S \in Solutions(items, s) : Cardinality(S) = MinCard(items, s))
          /\ (Solvable(items, s) <=> SolvableDP(items, s))                  \* enumeration of sub-collections = reachable-sums recurrence
=============================================================================
