SPECIFICATION SpecObj
CONSTANTS
 Scheme = "md"
 B = 16
 W = 4
 Marker = 0
 Exhaustive = FALSE
 MaxBits <- MB
INVARIANT IdleIsPrefix
INVARIANT PiecewiseIsOneShot
INVARIANT CounterIdle
CHECK_DEADLOCK FALSE
