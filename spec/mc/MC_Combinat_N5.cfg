INIT Init
NEXT Next
CONSTANTS N = 5
 V = 3
INVARIANT Thm
CHECK_DEADLOCK FALSE
