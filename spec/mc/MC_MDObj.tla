------------------------------ MODULE MC_MDObj ------------------------------
(* Bounded instances of sys/MDObj.tla: the hash object over the padding machine with a SYMBOLIC injective *)
(* compression function; all ways of cutting a message of up to 3.5 blocks into aligned pieces + final piece. *)
EXTENDS MDObj
MB == 56
=============================================================================
