INIT InitL
NEXT NextL
INVARIANT LongAgree
CHECK_DEADLOCK FALSE
