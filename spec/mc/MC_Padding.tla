----------------------------- MODULE MC_Padding -----------------------------
(* Bounded exhaustive instances of sys/Padding.tla (one cfg per scheme).   *)
EXTENDS Padding, IOUtils
MBbyte == atoi(IOEnv.MAXBITS)            \* 12 (quick) / 14 (thorough): all bit strings, B = 8
MBmd   == 40                             \* B = 16, W = 4: 2.5 blocks, four content classes per length
=============================================================================
