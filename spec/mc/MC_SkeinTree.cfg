INIT Init
NEXT Next
CONSTANTS NB = 2
 MaxBytes = 70
INVARIANT TreeOk
CHECK_DEADLOCK FALSE
