----------------------------- MODULE MC_PadBytes -----------------------------
(***************************************************************************)
(* Spec-internal theorem: the byte-level padding functions used by the      *)
(* trace validators (sys/PadBytes) agree with the bit-level definition      *)
(* (sys/PadFns) that the exhaustive models check.  One state per case so    *)
(* that all workers share the work; a disagreement violates `Agree`.        *)
(***************************************************************************)
EXTENDS PadBytes, Sequences, FiniteSets, Integers
F(s, b, w, mk) == INSTANCE PadFns WITH Scheme <- s, B <- b, W <- w, Marker <- mk

RECURSIVE BytesToBitsR(_,_,_)
BytesToBitsR(bs, i, acc) == IF i > Len(bs) THEN acc
   ELSE BytesToBitsR(bs, i+1, acc \o <<(bs[i] \div 128) % 2, (bs[i] \div 64) % 2, (bs[i] \div 32) % 2, (bs[i] \div 16) % 2,
                                         (bs[i] \div 8) % 2, (bs[i] \div 4) % 2, (bs[i] \div 2) % 2, bs[i] % 2>>)
BytesToBits(bs) == BytesToBitsR(bs, 1, <<>>)
\* bits -> bytes, the unused low bits of a last partial byte filled with `junk` (0/1) to see that the spec masks them
RECURSIVE BitsToBytesR(_,_,_,_)
BitsToBytesR(bits, junk, i, acc) ==
  IF 8*i >= Len(bits) THEN acc
  ELSE LET b(j) == IF 8*i + j <= Len(bits) THEN bits[8*i + j] ELSE junk
       IN BitsToBytesR(bits, junk, i+1, Append(acc, b(1)*128 + b(2)*64 + b(3)*32 + b(4)*16 + b(5)*8 + b(6)*4 + b(7)*2 + b(8)))
BitsToBytes(bits, junk) == BitsToBytesR(bits, junk, 0, <<>>)

\* scheme instances: byte-level record, and the bit-level parameters (block bits, word bits)
Insts == { [s |-> "none",  B |-> 1, w |-> 0, mk |-> 0], [s |-> "zero",  B |-> 1, w |-> 0, mk |-> 0],
           [s |-> "iso",   B |-> 1, w |-> 0, mk |-> 0], [s |-> "pkcs7", B |-> 1, w |-> 0, mk |-> 0],
           [s |-> "x923",  B |-> 1, w |-> 0, mk |-> 0], [s |-> "zero",  B |-> 2, w |-> 0, mk |-> 0],
           [s |-> "iso",   B |-> 2, w |-> 0, mk |-> 0], [s |-> "pkcs7", B |-> 2, w |-> 0, mk |-> 0],
           [s |-> "x923",  B |-> 3, w |-> 0, mk |-> 0], [s |-> "none",  B |-> 2, w |-> 0, mk |-> 0],
           [s |-> "md",    B |-> 4, w |-> 1, mk |-> 0], [s |-> "sha",   B |-> 4, w |-> 1, mk |-> 0],
           [s |-> "blake", B |-> 4, w |-> 1, mk |-> 1], [s |-> "blake", B |-> 4, w |-> 1, mk |-> 0] }
MaxL(sch) == IF sch.B = 1 THEN 11 ELSE 8 * sch.B * 2 + 9
Classes(n) == IF n <= 11 THEN [1..n -> {0,1}]
              ELSE { [i \in 1..n |-> IF i = n THEN b ELSE IF i = n-1 THEN c ELSE a] : a \in {0,1}, b \in {0,1}, c \in {0,1} }

VARIABLES sch, L, msg, junk
Init == /\ sch \in Insts /\ L \in 0..41 /\ L <= MaxL(sch) /\ (sch.B = 1 => L <= 11)
        /\ (ByteGranular(sch) => (L % 8) = 0)
        /\ msg \in Classes(L) /\ junk \in {0,1}
Next == UNCHANGED <<sch, L, msg, junk>>

Agree ==
  \* bit-level parameters: block bits 8B; the length field has 2W bits = 2w bytes, hence W = 8w
  LET m == BitsToBytes(msg, junk)
      tail == PadTail(sch, m, L, CNat(L), FALSE)
      bitpad == F(sch.s, 8*sch.B, 8*sch.w, sch.mk)!Pad(msg)
      it == Iter(sch, PadInit, m, L, TRUE)
      nblk == F(sch.s, 8*sch.B, 8*sch.w, sch.mk)!NBlocks(Len(bitpad))
  IN /\ BytesToBits(tail) = (IF sch.s = "none" THEN BytesToBits(FirstBits(m, L)) ELSE bitpad)
     /\ (sch.s # "none" => /\ Len(it.blocks) = nblk
                           /\ \A k \in 1..nblk : BytesToBits(it.blocks[k]) = F(sch.s, 8*sch.B, 8*sch.w, sch.mk)!Block(bitpad, k)
                           /\ \A k \in 1..nblk : it.cnts[k] = CNat(F(sch.s, 8*sch.B, 8*sch.w, sch.mk)!Cnt(0, L, k)))
     /\ ~it.raises /\ it.st.padflag
     /\ (DefinesPadcnt(sch) => it.st.padcnt = Len(F(sch.s, 8*sch.B, 8*sch.w, sch.mk)!PadBits(L)))
     \* removal returns the message (a partial last byte zero-filled)
     /\ (sch.s # "none" => Unpad(sch, tail, it.st.padcnt) = Ok(BitsToBytes(msg, 0)))
     /\ LET u == F(sch.s, 8*sch.B, 8*sch.w, sch.mk)!Unpad(bitpad, it.st.padcnt)
        IN sch.s # "none" => (u.ok /\ u.val = msg)

=============================================================================
