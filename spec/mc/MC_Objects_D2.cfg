INIT Init
NEXT Next
CONSTANTS A = 6
 D = 2
INVARIANT Functional
CONSTRAINT Emit
CHECK_DEADLOCK FALSE
