INIT Init
NEXT Next
CONSTANTS A = 7
 D = 2
INVARIANT Functional
CONSTRAINT Emit
CHECK_DEADLOCK FALSE
