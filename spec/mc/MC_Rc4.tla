------------------------------- MODULE MC_Rc4 -------------------------------
(***************************************************************************)
(* The RC4 stream OBJECT as a state machine over a toy alphabet size N:     *)
(* Enc(piece) consumes Len(piece) keystream values from the persistent      *)
(* state.  For every key of the set and every way of cutting MaxLen bytes   *)
(* into pieces (empty pieces included): S stays a permutation, and the      *)
(* concatenated output equals the one-shot output of a fresh object.        *)
(***************************************************************************)
EXTENDS Rc4, FiniteSets, Integers
CONSTANTS N, MaxLen, Keys
VARIABLES key, st, out
KeySet == {<<1>>, <<3, 5>>, <<7, 0, 2, 6, 1>>, <<1, 2, 3, 4, 5, 6, 7, 0>>}
Init == key \in Keys /\ st = Rc4Ksa(N, key) /\ out = <<>>
Enc(n) == LET x == Rc4Gen(N, st, n) IN st' = x.st /\ out' = out \o x.ks /\ UNCHANGED key
Next == \E n \in 0..3 : Len(out) + n <= MaxLen /\ Enc(n)
PermInv == Len(st.S) = N /\ {st.S[q] : q \in 1..N} = 0..(N-1) /\ st.i \in 0..(N-1) /\ st.j \in 0..(N-1)
OneStream == out = Rc4Gen(N, Rc4Ksa(N, key), Len(out)).ks /\ st = Rc4Gen(N, Rc4Ksa(N, key), Len(out)).st
=============================================================================
