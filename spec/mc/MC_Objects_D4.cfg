INIT Init
NEXT Next
CONSTANTS A = 7
 D = 4
INVARIANT Functional
CONSTRAINT Emit
CHECK_DEADLOCK FALSE
