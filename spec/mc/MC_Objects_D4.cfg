INIT Init
NEXT Next
CONSTANTS A = 6
 D = 4
INVARIANT Functional
CONSTRAINT Emit
CHECK_DEADLOCK FALSE
