SPECIFICATION Spec
CONSTANTS
 Scheme = "sha"
 B = 16
 W = 4
 Marker = 0
 Exhaustive = FALSE
 MaxBits <- MBmd
INVARIANT FullBlocks
INVARIANT FinalIsMsgThenPad
INVARIANT Minimal
INVARIANT UnpadInverts
INVARIANT CounterIdle
PROPERTY AfterFinalRefuses
CHECK_DEADLOCK FALSE
