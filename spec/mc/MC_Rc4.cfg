INIT Init
NEXT Next
CONSTANTS N = 8
 MaxLen = 6
 Keys <- KeySet
INVARIANT PermInv
INVARIANT OneStream
CHECK_DEADLOCK FALSE
