------------------------------ MODULE MC_Objects ------------------------------
(***************************************************************************)
(* C10 as a design: the specified objects have NO result-relevant state.    *)
(* A call is an index into a per-kind alphabet of A calls; Result(c) is a   *)
(* function of the call alone.  The model enumerates every call sequence of *)
(* length 1..D (the last call is the judged one) and prints it; the trivial *)
(* invariant "every judged result equals Result(call)" is the requirement   *)
(* the implementation is held to by Trace_Objects.                          *)
(***************************************************************************)
EXTENDS Naturals, Sequences, TLC, Json
CONSTANTS A, D
VARIABLES h, res            \* h: calls so far; res: specified results so far
Result(c) == <<"result-of", c>>                 \* depends on the call only
Init == h = <<>> /\ res = <<>>
Next == Len(h) < D /\ \E c \in 1..A : h' = Append(h, c) /\ res' = Append(res, Result(c))
Functional == \A p \in 1..Len(h), q \in 1..Len(h) : h[p] = h[q] => res[p] = res[q]
Emit == (Len(h) >= 1 => PrintT(ToJson(h)))
=============================================================================
