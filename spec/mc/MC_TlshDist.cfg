INIT Init
NEXT Next
INVARIANT Metric
CHECK_DEADLOCK FALSE
