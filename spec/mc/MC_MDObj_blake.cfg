SPECIFICATION SpecObj
CONSTANTS
 Scheme = "blake"
 B = 16
 W = 4
 Marker = 1
 Exhaustive = FALSE
 MaxBits <- MB
INVARIANT IdleIsPrefix
INVARIANT PiecewiseIsOneShot
INVARIANT CounterIdle
CHECK_DEADLOCK FALSE
