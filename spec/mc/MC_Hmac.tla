------------------------------- MODULE MC_Hmac -------------------------------
(***************************************************************************)
(* The HMAC key register as a design, over a SYMBOLIC hash (it records its  *)
(* argument; digest length DG, block length BL): for every key length       *)
(* 0..3*BL the register has exactly one block, the three branches of RFC    *)
(* 2104 are reached, and a new key leaves no trace of the old one.          *)
(***************************************************************************)
EXTENDS Naturals, Sequences, TLC
CONSTANTS BL, DG
VARIABLES reg, hist                 \* reg: the key register; hist: keys set so far
Keys == { [i \in 1..n |-> v] : n \in 0..(3*BL), v \in {1, 2} }       \* key of n bytes, all equal to v
HSym(x) == [i \in 1..DG |-> <<"h", x, i>>]                          \* symbolic digest: DG distinguishable bytes
Zero(n) == [i \in 1..n |-> 0]
KeyReg(K) == IF Len(K) > BL THEN HSym(K) \o Zero(BL - DG) ELSE K \o Zero(BL - Len(K))
Init == reg = Zero(BL) /\ hist = <<>>
SetKey(K) == reg' = KeyReg(K) /\ hist' = <<K>>                      \* only the last key is remembered (bounded history)
Next == \E K \in Keys : SetKey(K)
OneBlock == Len(reg) = BL
NoTrace == hist # <<>> => reg = KeyReg(hist[1])                     \* the register is a function of the LAST key only
Branches == hist # <<>> => LET K == hist[1] IN
              /\ (Len(K) < BL => SubSeq(reg, 1, Len(K)) = K /\ \A j \in (Len(K)+1)..BL : reg[j] = 0)
              /\ (Len(K) = BL => reg = K)
              /\ (Len(K) > BL => SubSeq(reg, 1, DG) = HSym(K) /\ \A j \in (DG+1)..BL : reg[j] = 0)
=============================================================================
