------------------------------ MODULE MC_BitVec ------------------------------
(***************************************************************************)
(* Spec-level theorems of base/BitVec, checked exhaustively for all widths  *)
(* 0..W and all values: the sequence model agrees with natural-number       *)
(* arithmetic, and the algebraic laws named in C07/C08 hold in it.          *)
(***************************************************************************)
EXTENDS BitVec, Bitwise, FiniteSets, TLC
CONSTANT W
VARIABLES a, b, k
BitStrings(n) == UNION { [1..m -> {0,1}] : m \in 0..n }
Init == a \in BitStrings(W) /\ b \in BitStrings(W) /\ k \in 0..(W+1)
Next == UNCHANGED <<a, b, k>>
m == Len(a)
n == Len(b)
w == Max(m, n)
P(x) == 2^x
\* signed value of a non-empty vector
SVal(x) == ToNat(x) - (IF x[Len(x)] = 1 THEN P(Len(x)) ELSE 0)
ArithAgrees ==
  /\ ToNat(Add2(a, b)) = (ToNat(a) + ToNat(b)) % P(w) /\ Len(Add2(a, b)) = w
  /\ ToNat(Sub2(a, b)) = (ToNat(a) - ToNat(b) + P(w)) % P(w) /\ Len(Sub2(a, b)) = w
  /\ ToNat(And2(a, b)) = (ToNat(a) & ToNat(b)) /\ ToNat(Or2(a, b)) = (ToNat(a) | ToNat(b)) /\ ToNat(Xor2(a, b)) = (ToNat(a) ^^ ToNat(b))
  /\ Len(And2(a, b)) = w /\ Len(Or2(a, b)) = w /\ Len(Xor2(a, b)) = w
  /\ ToNat(Not1(a)) = P(m) - 1 - ToNat(a)
  /\ ToNat(Neg1(a)) = (P(m) - ToNat(a)) % P(m) /\ Len(Neg1(a)) = m
  /\ ToNat(Mul2(a, b)) = (ToNat(a) * ToNat(b)) % P(m) /\ Len(Mul2(a, b)) = m
  /\ ToNat(Shl1(a, k)) = (ToNat(a) * P(k)) % P(m) /\ ToNat(Shr1(a, k)) = ToNat(a) \div P(k)
  /\ Hw(a) = Cardinality({j \in 1..m : a[j] = 1})
Laws ==
  /\ Add2(a, Neg1(a)) = Zeros(m)
  /\ And2(a, b) = And2(b, a) /\ Or2(a, b) = Or2(b, a) /\ Xor2(a, b) = Xor2(b, a) /\ Add2(a, b) = Add2(b, a)
  /\ Sub2(Add2(a, b), b) = Resize(a, w)
  /\ (k <= m => Rol1(Ror1(a, k), k) = a /\ Ror1(Rol1(a, k), k) = a)
  /\ (k <= m => Rol1(a, k) = Or2(Shl1(a, k), Shr1(a, m - k)))         \* the helper's formula  x<<n | x>>(size-n)
  /\ (k <= m => Ror1(a, k) = Or2(Shr1(a, k), Shl1(a, m - k)))
  /\ SubSeq(Concat2(a, b), 1, m) = a /\ SubSeq(Concat2(a, b), m+1, m+n) = b
  /\ (m = n /\ m > 0 => Split1(Concat2(a, b), m, FALSE) = <<a, b>> /\ Split1(Concat2(a, b), m, TRUE) = <<b, a>>)
  /\ (k >= 1 => LET s == Split1(a, k, FALSE) IN
                  /\ \A j \in 1..Len(s) : Len(s[j]) = (IF j < Len(s) \/ (m % k) = 0 THEN k ELSE (m % k))
                  /\ a = (LET RECURSIVE Cat(_) Cat(j) == IF j = 0 THEN <<>> ELSE Cat(j-1) \o s[j] IN Cat(Len(s))))
  /\ ToNat(ZeroExtend(a, m + k)) = ToNat(a) /\ Len(ZeroExtend(a, m + k)) = m + k
  /\ (m > 0 => SVal(SignExtend(a, m + k)) = SVal(a) /\ Len(SignExtend(a, m + k)) = m + k)
Conversions ==
  /\ FromBytes(ToBytes(a), -1, m) = a
  /\ Load(PackLE(a), 1) = Resize(a, 8 * ((m + 7) \div 8)) /\ Load(PackBE(a), 0) = Resize(a, 8 * ((m + 7) \div 8))
  /\ Len(PackLE(a)) = (m + 7) \div 8
  /\ FromNat(ToNat(a), m) = a /\ BitList(BitList(a, -1), -1) = a
  /\ \A j \in 0..(m-1) : BitIdx(a, j) = a[j+1] /\ BitIdx(a, j - m) = a[j+1]
  /\ BitIdx(a, m) = -1 /\ BitIdx(a, -m-1) = -1
  \* byte-order conventions on 2..3 byte strings (s built from a and b: low bytes)
  /\ LET s == <<(ToNat(a) * 7) % 256, (ToNat(b) * 5) % 256, (ToNat(a) + 13 * ToNat(b) + k) % 256>> IN
       /\ ToNat(Load(s, 1)) = s[1] + 256*s[2] + 65536*s[3]
       /\ ToNat(Load(s, 0)) = s[3] + 256*s[2] + 65536*s[1]
       /\ ToNat(Load(s, 3)) = ToNat(Load(s, 0))
       /\ ToBytes(Load(s, -1)) = s
       /\ Load(SubSeq(s,1,2), 2) = Load(SubSeq(s,1,2), 0)
       /\ Load(s \o <<s[2]>>, 2) = Load(SubSeq(s,1,2), 0) \o Load(<<s[3], s[2]>>, 0)
Indexing ==
  \* distinct index lists: what is written is read back; everything else is untouched
  /\ \A i1 \in 1..m, i2 \in 1..m :
        LET idx == <<i1 - 1, i2 - 1>>  v == <<(k % 2), ((k \div 2) % 2)>>  r == SetList(a, idx, v) IN
        /\ (i1 # i2 => GetList(r, idx) = v)
        /\ (i1 = i2 => r[i1] = v[2])                                   \* repeats: last write wins
        /\ \A j \in 1..m : (j # i1 /\ j # i2) => r[j] = a[j]
        /\ Len(r) = m
  /\ SliceRange(NONE, NONE, NONE, m) = [j \in 1..m |-> j - 1]
  /\ GetList(a, SliceRange(NONE, NONE, -1, m)) = Reverse(a)
  /\ GetList(a, SliceRange(0, k, 1, m)) = SubSeq(a, 1, Min(k, m))
  /\ (k >= 1 => GetList(a, SliceRange(-k, NONE, NONE, m)) = SubSeq(a, Max(m - k, 0) + 1, m))
=============================================================================
