SPECIFICATION Spec
CONSTANTS D = 2
 NRes = 5
INVARIANT AfterPadRefuses
CONSTRAINT Emit
CHECK_DEADLOCK FALSE
