INIT Init
NEXT Next
INVARIANT Agree
CHECK_DEADLOCK FALSE
