----------------------------- MODULE MC_PadHist -----------------------------
(***************************************************************************)
(* Scenario generator for C09/C14: every call history, up to depth D, on    *)
(* one blockiterator-like object, over an abstract alphabet.  The abstract  *)
(* machine below is the history-level skeleton of sys/Padding.tla (number   *)
(* of whole blocks fed, pad flag); each maximal history is printed as one   *)
(* JSON line together with whether each call must be refused.  The harness  *)
(* instantiates every history with concrete block sizes / residues / data   *)
(* and replays it on the real objects; Trace_Padding judges every step.     *)
(***************************************************************************)
EXTENDS Naturals, Sequences, TLC, Json
CONSTANTS D,        \* history depth
          NRes      \* number of residue classes the harness resolves (1 = no residue)
VARIABLES fed, flag, h
vars == <<fed, flag, h>>

Call(op, k, rc, refused) == [op |-> op, k |-> k, rc |-> rc, refused |-> refused]
Init == fed = 0 /\ flag = FALSE /\ h = <<>>
Cont(k)   == /\ h' = Append(h, Call("cont", k, 1, flag))
             /\ fed' = (IF flag THEN fed ELSE fed + k) /\ UNCHANGED flag
ContBad   == h' = Append(h, Call("contbad", 0, 2, TRUE)) /\ UNCHANGED <<fed, flag>>
Final(k, rc) == /\ h' = Append(h, Call("final", k, rc, flag))
                /\ fed' = (IF flag THEN fed ELSE fed + k) /\ flag' = TRUE
Overlong  == h' = Append(h, Call("overlong", 0, 2, TRUE)) /\ UNCHANGED <<fed, flag>>
Reset     == h' = Append(h, Call("reset", 0, 1, FALSE)) /\ fed' = 0 /\ flag' = FALSE
Remove    == flag /\ h' = Append(h, Call("remove", 0, 1, FALSE)) /\ UNCHANGED <<fed, flag>>
Next == /\ Len(h) < D
        /\ \/ \E k \in 0..2 : Cont(k)
           \/ ContBad
           \/ \E k \in 0..1, rc \in 1..NRes : Final(k, rc)
           \/ Overlong \/ Reset \/ Remove
Spec == Init /\ [][Next]_vars
\* the abstract design property: once the pad is out everything is refused until reset
AfterPadRefuses == \A j \in 1..Len(h) : \A l \in 1..(j-1) :
     (h[l].op = "final" /\ ~h[l].refused /\ \A x \in (l+1)..(j-1) : h[x].op # "reset")
       => (h[j].op \in {"cont", "final"} => h[j].refused)
Emit == (Len(h) = D => PrintT(ToJson(h)))
=============================================================================
