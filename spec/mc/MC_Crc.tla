------------------------------- MODULE MC_Crc -------------------------------
(***************************************************************************)
(* Width-8 CRCs, every reflected polynomial with the x^0 term: table-driven *)
(* = bitwise on all 1- and 2-byte data, backward o forward = identity on    *)
(* all (register, byte) pairs; CRC-32 forging postcondition reachable for   *)
(* every target of a sample and every position.  Run-length evaluation by   *)
(* affine powers (Crc!CrcRegRuns, used for megabyte inputs) = bytewise.     *)
(***************************************************************************)
EXTENDS Crc, Integers, TLC
CONSTANT Polys
VARIABLES p, b1, phase
Init == p \in Polys /\ b1 \in {16 * k : k \in 0..15} /\ phase = 0          \* 16 groups per polynomial: successors are generated (and judged) by
Next == phase = 0 /\ phase' = 1 /\ b1' \in b1..(b1 + 15) /\ UNCHANGED p      \* the worker that owns the group, so all workers share the load
P8 == <<p>>
AllPolys == 128..255
Width8 == phase = 1 =>
  LET T == CrcTable(P8) IN
  /\ CrcWidth(P8) = 8
  /\ \A init \in {0, 255, 90} : CrcTabled(P8, <<b1>>, <<init>>, <<0>>) = CrcBitwise(P8, <<b1>>, <<init>>, <<0>>)
  /\ \A b2 \in {0, 1, 128, 255, p} : CrcRegTabled(T, <<b1, b2>>, <<255>>) = CrcRegBitwise(P8, <<b1, b2>>, <<255>>)
  /\ \A reg \in {0, 1, 37, 128, 200, 255, b1} :
        LET after == CrcByteBitwise(P8, <<reg>>, b1) IN
        CrcBackByteBitwise(P8, after, b1) = <<reg>> /\ CrcBackByte(P8, T, after, b1) = <<reg>>
Forge == phase = 1 /\ p = 140 =>       \* once per b1: CRC-32 patch at every position of an 8-byte string, target built from b1
  LET data == <<b1, 1, 2, 3, 250, 251, 252, (b1 * 7) % 256>>
      target == W32((b1 * 257) % 65536, (b1 * 263 + 5) % 65536) IN
  \A pos \in 0..4 : FixOk(data, Crc32Patch(data, pos, target), pos, target)
\* run-length evaluation (affine powers) = byte-by-byte evaluation, every polynomial of the configuration x every byte value,
\* run lengths on both sides of the switch-over (12) and beyond a power of two; and for CRC-32 with the table-driven Crc32
RunsThm == phase = 1 =>
  LET M8 == CrcByteStepLin(P8) IN
  \A n \in {0, 12, 13, 14 + (b1 % 90)} :                      \* b1 sweeps 0..255: run lengths 14..103, registers 0..255
     LET runs == <<<<b1, n>>, <<p, 13>>, <<255 - b1, 2>>>> IN
     /\ CrcRegRunsR(P8, M8, runs, 1, <<b1>>) = CrcRegBitwise(P8, RunsExpand(runs), <<b1>>)
     /\ RunsLen(runs) = Len(RunsExpand(runs))
RunsThm32 == phase = 1 /\ p = 140 /\ (b1 % 4 = 0 \/ Polys = AllPolys) =>
  LET runs == <<<<b1, 13 + b1>>, <<1, 1>>, <<(b1 * 5) % 256, 300>>, <<7, 12>>>> IN Crc32Runs(runs) = Crc32(RunsExpand(runs))
=============================================================================
