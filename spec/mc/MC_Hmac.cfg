INIT Init
NEXT Next
CONSTANTS BL = 4
 DG = 2
INVARIANT OneBlock
INVARIANT NoTrace
INVARIANT Branches
CHECK_DEADLOCK FALSE
