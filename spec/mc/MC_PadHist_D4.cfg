SPECIFICATION Spec
CONSTANTS D = 4
 NRes = 5
INVARIANT AfterPadRefuses
CONSTRAINT Emit
CHECK_DEADLOCK FALSE
