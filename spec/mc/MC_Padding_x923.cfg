SPECIFICATION Spec
CONSTANTS
 Scheme = "x923"
 B = 8
 W = 4
 Marker = 0
 Exhaustive = TRUE
 MaxBits <- MBbyte
INVARIANT FullBlocks
INVARIANT FinalIsMsgThenPad
INVARIANT Minimal
INVARIANT UnpadInverts
INVARIANT CounterIdle
PROPERTY AfterFinalRefuses
CHECK_DEADLOCK FALSE
