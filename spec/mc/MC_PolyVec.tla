------------------------------ MODULE MC_PolyVec ------------------------------
(* Spec-level laws of base/PolyVec (C16), all vectors of dims 0..D over Z/2^k, k in 1..K. *)
EXTENDS PolyVec, TLC
CONSTANTS D, K
VARIABLES k, a, b
Vecs(kk) == UNION { [1..d -> [1..kk -> {0,1}]] : d \in 0..D }
Init == k \in 1..K /\ a \in Vecs(k) /\ b \in Vecs(k)
Next == UNCHANGED <<k, a, b>>
ZeroV(n) == LET F(j) == Zeros(k) IN Mk(F, n)
Laws ==
  /\ PAdd(k, a, b) = PAdd(k, b, a) /\ PXor(k, a, b) = PXor(k, b, a) /\ PAnd(k, a, b) = PAnd(k, b, a) /\ POr(k, a, b) = POr(k, b, a)
  /\ Len(PAdd(k, a, b)) = Max(Len(a), Len(b)) /\ Len(PSub(k, a, b)) = Max(Len(a), Len(b))
  /\ PAdd(k, a, PNeg(k, a)) = ZeroV(Len(a))
  /\ PSub(k, PAdd(k, a, b), b) = a \o ZeroV(Max(Len(b) - Len(a), 0))
  /\ \A j \in 1..Max(Len(a), Len(b)) : ToNat(PAdd(k, a, b)[j]) = (ToNat(At(k, a, j)) + ToNat(At(k, b, j))) % (2^k)
  /\ \A j \in 1..Max(Len(a), Len(b)) : ToNat(PSub(k, a, b)[j]) = (ToNat(At(k, a, j)) - ToNat(At(k, b, j)) + 2^k) % (2^k)
  /\ SubSeq(PConcat(a, b), 1, Len(a)) = a /\ SubSeq(PConcat(a, b), Len(a) + 1, Len(a) + Len(b)) = b
  /\ (Len(a) = 0 /\ Len(b) = 0 => PAdd(k, a, b) = <<>> /\ PXor(k, a, b) = <<>> /\ POr(k, a, b) = <<>>)
  /\ (k = 2 => PSplit(a, 1, FALSE) = (LET RECURSIVE Cat(_) Cat(j) == IF j = 0 THEN <<>> ELSE Cat(j-1) \o << <<a[j][1]>>, <<a[j][2]>> >> IN Cat(Len(a))))
  /\ PMul(k, a, b) = PMul(k, b, a) /\ Len(PMul(k, a, b)) = Len(a) + Len(b)
  /\ PDegree(k, PMul(k, a, b)) <= (IF PIsZero(k, a) \/ PIsZero(k, b) THEN -1 ELSE PDegree(k, a) + PDegree(k, b))
  /\ (PIsZero(k, a) => PIsZero(k, PMul(k, a, b))) /\ PEq(k, a, a) /\ PEq(k, a, a \o <<Zeros(k)>>) /\ (PEq(k, a, b) <=> PIsZero(k, PSub(k, a, b)))
  /\ (Len(a) >= 1 => PEq(k, PMul(k, a, <<FromNat(1, k)>>), a))
  /\ \A i1 \in 1..Len(a) : LET r == PSetList(a, <<i1 - 1>>, <<Ones(k)>>) IN r[i1] = Ones(k) /\ \A j \in 1..Len(a) : j # i1 => r[j] = a[j]
=============================================================================
