INIT Init
NEXT Next
CONSTANTS A = 6
 D = 3
INVARIANT Functional
CONSTRAINT Emit
CHECK_DEADLOCK FALSE
