INIT Init
NEXT Next
CONSTANTS TBL = 4
 MaxLen = 9
 Alphabet = {0, 255}
INVARIANT RoundTrip
INVARIANT Domain
INVARIANT Shape
INVARIANT Counter
INVARIANT ToyIsBijection
CHECK_DEADLOCK FALSE
