INIT Init
NEXT Next
CONSTANT Polys <- AllPolys
INVARIANT Width8
INVARIANT Forge
INVARIANT RunsThm
INVARIANT RunsThm32
CHECK_DEADLOCK FALSE
