INIT Init
NEXT Next
CONSTANT Polys <- AllPolys
INVARIANT Width8
INVARIANT Forge
CHECK_DEADLOCK FALSE
