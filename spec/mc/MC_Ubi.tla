------------------------------- MODULE MC_Ubi -------------------------------
(***************************************************************************)
(* The UBI tweak schedule of sys/Skein as a per-block machine, for every    *)
(* bit length 0..4 blocks+ (toy block of NB bytes) and start positions near *)
(* 2^16, 2^32, 2^64 limb boundaries: First only on block 0, Final only on   *)
(* the last, BitPad only there and only if L mod 8 # 0, Position = bytes    *)
(* processed including the current block (start + ...), the empty message   *)
(* is one block at position start + 0, positions strictly increase.         *)
(***************************************************************************)
EXTENDS Skein, Integers
CONSTANT NB
VARIABLES L, pos0, phase
Starts == {ZeroPos, <<65535, 0, 0, 0, 0, 0>>, <<65532, 65535, 0, 0, 0, 0>>, <<65535, 65535, 65535, 65535, 0, 0>>, <<65520, 65535, 65535, 65535, 65535, 0>>}
Init == pos0 \in Starts /\ L = 0 /\ phase = 0
Next == phase = 0 /\ phase' = 1 /\ L' \in 0..(8 * NB * 4 + 9) /\ UNCHANGED pos0
M == [q \in 1..((L + 7) \div 8) |-> 255]
Mp == UbiPadMsg(M, L)
K == UbiNumBlocks(Len(Mp), NB)
T(q) == UbiTweakAt(TMsg, 0, pos0, Len(Mp), NB, UbiB(L), q)
Schedule == phase = 1 =>
  /\ Len(Mp) = (L + 7) \div 8
  /\ K = (IF L = 0 THEN 1 ELSE (Len(Mp) + NB - 1) \div NB)
  /\ \A q \in 0..(K-1) :
       /\ T(q).first = (IF q = 0 THEN 1 ELSE 0)
       /\ T(q).final = (IF q = K - 1 THEN 1 ELSE 0)
       /\ T(q).bitpad = (IF q = K - 1 /\ (L % 8) # 0 THEN 1 ELSE 0)
       /\ T(q).position = WAddNat(pos0, IF q = K - 1 THEN Len(Mp) ELSE (q + 1) * NB)
       /\ T(q).type = TMsg
  /\ (L % 8 # 0 => LET last == Mp[Len(Mp)]  rr == L % 8 IN (last \div Pow2(7 - rr)) % 2 = 1 /\ last % Pow2(7 - rr) = 0)   \* the bit after the message is set, the rest cleared
  /\ Len(TweakBytes(T(0))) = 16
=============================================================================
