SPECIFICATION Spec
CONSTANTS D = 3
 NRes = 5
INVARIANT AfterPadRefuses
CONSTRAINT Emit
CHECK_DEADLOCK FALSE
