INIT Init
NEXT Next
CONSTANTS N = 4
 V = 3
INVARIANT Thm
CHECK_DEADLOCK FALSE
