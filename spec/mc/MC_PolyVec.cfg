INIT Init
NEXT Next
CONSTANTS D = 2
 K = 2
INVARIANT Laws
CHECK_DEADLOCK FALSE
