INIT Init
NEXT Next
CONSTANT W = 1
INVARIANT SpongeFacts
CHECK_DEADLOCK FALSE
