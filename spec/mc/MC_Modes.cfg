INIT Init
NEXT Next
CONSTANTS TBL = 2
 MaxLen = 7
 Alphabet = {0, 1, 255}
INVARIANT RoundTrip
INVARIANT Domain
INVARIANT Shape
INVARIANT Counter
INVARIANT ToyIsBijection
CHECK_DEADLOCK FALSE
