INIT Init
NEXT Next
CONSTANT Polys = {128, 140, 171, 184, 224, 225, 255, 149}
INVARIANT Width8
INVARIANT Forge
INVARIANT RunsThm
INVARIANT RunsThm32
CHECK_DEADLOCK FALSE
