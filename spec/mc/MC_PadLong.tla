----------------------------- MODULE MC_PadLong -----------------------------
(***************************************************************************)
(* Spec-internal theorem: PadBytes!IterLong - the compressed evaluation of  *)
(* a message pat^K \o tail that the trace validator uses for inputs of up   *)
(* to a megabyte - equals PadBytes!Iter on the expanded message, for every  *)
(* scheme instance, bit length and content class of MC_PadBytes, K = 0..2,  *)
(* two patterns, a fresh object and one that has consumed a block, with an  *)
(* explicit bit length, without one, and as a continuation (padding=FALSE). *)
(* Two-phase (few initial states, Next picks the case) so that the workers  *)
(* share the evaluation of the invariant.                                   *)
(***************************************************************************)
EXTENDS MC_PadBytes
VARIABLE phase
InitL == /\ sch \in Insts /\ L \in 0..41 /\ L <= MaxL(sch) /\ (sch.B = 1 => L <= 11) /\ (ByteGranular(sch) => (L % 8) = 0)
         /\ msg = <<>> /\ junk = 0 /\ phase = 0
NextL == phase = 0 /\ phase' = 1 /\ msg' \in Classes(L) /\ junk' \in {0,1} /\ UNCHANGED <<sch, L>>

\* IterLong (compressed evaluation of pat^K \o tail, used for megabyte inputs) = Iter on the expanded message
RECURSIVE RepSeq(_,_)
RepSeq(x, k) == IF k = 0 THEN <<>> ELSE x \o RepSeq(x, k-1)
SameOut(c, d, B8) == /\ c.raises = d.raises
                     /\ (~d.raises => /\ c.blocks = CompressBlocks(<<>>, 0, d.blocks)
                                      /\ c.cnts = CompressCnts(CZero, 0, B8, d.cnts)
                                      /\ c.st = d.st)
LongAgree == phase = 1 =>
  LET m == BitsToBytes(msg, junk)  B == sch.B  B8 == 8 * sch.B IN
  \A K \in 0..2 : \A pat \in {Rep(0, B), Rep(0, B-1) \o <<129>>} : \A st \in {IF junk = 0 THEN PadInit ELSE [PadInit EXCEPT !.bitcnt = CNat(B8)]} :
     LET mm == RepSeq(pat, K) \o m IN
     /\ SameOut(IterLong(sch, st, pat, K, m, (B8 * K) + L, TRUE), Iter(sch, st, mm, (B8 * K) + L, TRUE), B8)
     /\ (L = 8 * Len(m) => SameOut(IterLong(sch, st, pat, K, m, -1, TRUE), Iter(sch, st, mm, -1, TRUE), B8))
     /\ SameOut(IterLong(sch, st, pat, K, m, (B8 * K) + L, FALSE), Iter(sch, st, mm, (B8 * K) + L, FALSE), B8)
=============================================================================
