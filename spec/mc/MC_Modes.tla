------------------------------ MODULE MC_Modes ------------------------------
(***************************************************************************)
(* Design-level check of sys/Modes over the toy cipher: every message of    *)
(* 0..MaxLen bytes over a small alphabet, every admissible padding, IV and  *)
(* counter classes incl. the wrap of the counter half.  One state per case. *)
(***************************************************************************)
EXTENDS Modes, FiniteSets
CONSTANTS TBL,       \* toy block length in bytes (2 or 4)
          MaxLen, Alphabet
VARIABLES mo, msg, phase      \* phase 0: object chosen (few initial states); phase 1: message chosen (successors: all workers)
Key == <<40503, 31161>>
Ci == [c |-> "toy", bl |-> TBL, keys |-> <<Key>>, tweak |-> <<>>]
Sch(s) == [s |-> s, B |-> TBL, w |-> 0, mk |-> 0]
Half == TBL \div 2
IVs == IF TBL = 2 THEN {<<0, 0>>, <<255, 1>>} ELSE {<<0, 0, 0, 0>>, <<255, 1, 128, 7>>}
Nonces == IF TBL = 2 THEN {<<7>>} ELSE {<<7, 9>>}
Counts == IF TBL = 2 THEN {<<0>>, <<254>>, <<255>>} ELSE {<<0, 0>>, <<0, 255>>, <<255, 254>>, <<255, 255>>}
Objs == { [mode |-> m, ci |-> Ci, sch |-> Sch(s), iv |-> iv, nonce |-> <<>>, count0 |-> <<>>] :
              m \in {"ecb", "cbc"}, s \in {"pkcs7", "x923", "iso", "none", "zero"}, iv \in IVs }
        \cup { [mode |-> "ctr", ci |-> Ci, sch |-> Sch("none"), iv |-> <<>>, nonce |-> n, count0 |-> c] : n \in Nonces, c \in Counts }
Msgs == UNION { [1..n -> Alphabet] : n \in 0..MaxLen }
Init == mo \in Objs /\ msg = <<>> /\ phase = 0 /\ (mo.mode = "ecb" => mo.iv = CHOOSE v \in IVs : TRUE)
Next == phase = 0 /\ phase' = 1 /\ msg' \in Msgs /\ UNCHANGED mo

n == BL(mo.ci)
c == Enc(mo, msg)
RoundTrip == (c.ok /\ Injective(mo)) => Dec(mo, c.val) = Done(msg)
Domain == \* when is encryption defined
  /\ (mo.mode = "ctr" => c.ok)
  /\ (mo.mode # "ctr" /\ mo.sch.s # "none" => c.ok)
  /\ (mo.mode # "ctr" /\ mo.sch.s = "none" => (c.ok <=> (Len(msg) > 0 /\ (Len(msg) % n) = 0)))
Shape ==
  /\ (mo.mode = "ctr" => Len(c.val) = Len(msg))
  /\ (mo.mode = "ecb" /\ c.ok => (Len(c.val) % n) = 0 /\ Len(c.val) >= Len(msg) /\ Len(c.val) <= Len(msg) + n)
  /\ (mo.mode = "cbc" /\ c.ok => SubSeq(c.val, 1, n) = mo.iv /\ (Len(c.val) % n) = 0 /\ Len(c.val) <= Len(msg) + 2*n)
  /\ (mo.mode \in {"ecb", "cbc"} /\ mo.sch.s \in {"pkcs7", "x923", "iso"} /\ c.ok =>
         Len(c.val) = (IF mo.mode = "cbc" THEN n ELSE 0) + n * ((Len(msg) \div n) + 1))
Counter == mo.mode = "ctr" =>
  \A q \in 0..3 : LET b == CtrBlock(mo, q) IN
      /\ Len(b) = n /\ SubSeq(b, 1, Half) = mo.nonce
      /\ (Half = 1 => b[n] = (mo.count0[1] + q) % 256)
      /\ (Half = 2 => b[n-1] * 256 + b[n] = (mo.count0[1] * 256 + mo.count0[2] + q) % 65536)
ToyIsBijection == LET b == IF Len(msg) >= n THEN SubSeq(msg, 1, n) ELSE [q \in 1..n |-> 1] IN
                  ToyDec(Key, ToyEnc(Key, b)) = b /\ ToyEnc(Key, ToyDec(Key, b)) = b
=============================================================================
