----------------------------- MODULE MC_TlshDist -----------------------------
(***************************************************************************)
(* The TLSH distance of prim/Tlsh behaves as a distance on the digest       *)
(* space: over ALL header field pairs (checksum byte, L value, Q nibbles)   *)
(* at a fixed body, and over all body byte pairs at a fixed header, it is   *)
(* symmetric, non-negative, and zero between identical digests.             *)
(***************************************************************************)
EXTENDS Tlsh, Integers
VARIABLES x, y, which, phase
Cfg == TlshCfg(48, 5, 1)
Body == Rep(27, 12)
D(c, l, q, b) == <<c, l, q>> \o <<b>> \o SubSeq(Body, 2, 12)
Init == which \in {"chk", "len", "q", "body"} /\ x \in 0..255 /\ y = 0 /\ phase = 0
Next == phase = 0 /\ phase' = 1 /\ y' \in 0..255 /\ UNCHANGED <<x, which>>
Mk(v) == CASE which = "chk" -> D(v, 7, 35, 9) [] which = "len" -> D(5, v, 35, 9) [] which = "q" -> D(5, 7, v, 9) [] which = "body" -> D(5, 7, 35, v)
Metric == phase = 1 =>
  LET a == Mk(x)  b == Mk(y) IN
  /\ TlshDistance(Cfg, a, b) = TlshDistance(Cfg, b, a)
  /\ TlshDistance(Cfg, a, b) >= 0
  /\ TlshDistance(Cfg, a, a) = 0
  /\ (x # y => TlshDistance(Cfg, a, b) > 0)
=============================================================================
