------------------------------ MODULE MC_Sponge ------------------------------
(***************************************************************************)
(* Design-level facts of sys/Sponge, exhaustively for the two smallest      *)
(* widths: pad10*1 for every rate and length; for Keccak-f[25] / [50] the   *)
(* WHOLE sponge for every rate 0 < r < b, every L <= 2r+2 (one content      *)
(* class), d <= 2r+1: block structure of the padded message, squeezing by   *)
(* prefix (asking for fewer bits gives a prefix), absorbing = iterated      *)
(* duplexing for block-sized inputs, f is a permutation on sampled states.  *)
(***************************************************************************)
EXTENDS Sponge, Integers
CONSTANT W
VARIABLES r, L, phase
b == 25 * W
Init == r \in 1..(b-1) /\ L = 0 /\ phase = 0
Next == phase = 0 /\ phase' = 1 /\ L' \in 0..(2*r + 2) /\ UNCHANGED r
Msg == [q \in 1..L |-> (q * q + r) % 2]
PadFacts == \A rr \in 1..40 : \A ll \in 0..(3*rr) :
               LET p == Pad101(ll, rr) IN
               /\ (ll + Len(p)) % rr = 0 /\ Len(p) >= 2 /\ Len(p) <= rr + 1 /\ p[1] = 1 /\ p[Len(p)] = 1
               /\ \A q \in 2..(Len(p)-1) : p[q] = 0
               /\ ((ll % rr) = rr - 1 => Len(p) = rr + 1)                \* no room for two bits: an extra block
ASSUME PadFacts
SpongeFacts == phase = 1 =>
  LET m == SubSeq(Msg, 1, L)
      full == SpongeHash(W, r, m, 2*r + 1)
      P == m \o Pad101(L, r)
  IN /\ Len(full) = 2*r + 1
     /\ \A d \in {1, r - 1, r, r + 1} : d >= 1 => SpongeHash(W, r, m, d) = SubSeq(full, 1, d)
     /\ Len(P) = r * ((L + 2 + r - 1) \div r)
     \* absorbing the padded message = a chain of AbsorbBlock = duplex steps on block-sized inputs without further padding
     /\ Absorb(W, r, ZeroBits(b), P) = (LET RECURSIVE Chain(_,_) Chain(s, q) == IF q * r >= Len(P) THEN s ELSE Chain(AbsorbBlock(W, r, s, SubSeq(P, q*r+1, (q+1)*r)), q+1) IN Chain(ZeroBits(b), 0))
     /\ (L <= r - 2 => DuplexStep(W, r, ZeroBits(b), m, r).out = SubSeq(full, 1, r))
=============================================================================
