INIT Init
NEXT Next
CONSTANT W = 2
INVARIANT SpongeFacts
CHECK_DEADLOCK FALSE
