INIT Init
NEXT Next
CONSTANT W = 4
INVARIANT ArithAgrees
INVARIANT Laws
INVARIANT Conversions
INVARIANT Indexing
CHECK_DEADLOCK FALSE
