INIT Init
NEXT Next
CONSTANT NB = 4
INVARIANT Schedule
CHECK_DEADLOCK FALSE
