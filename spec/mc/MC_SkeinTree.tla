---------------------------- MODULE MC_SkeinTree ----------------------------
(***************************************************************************)
(* The Skein tree of sys/Skein with a SYMBOLIC UBI: a chaining value is NB  *)
(* copies of a record holding the ids <<level, position>> of the whole      *)
(* subtree.  For every leaf/fan-out/height parameter Yl, Yf in 1..3,        *)
(* Ym in 2..4 and every message length up to MaxLeaves leaves: every node's *)
(* (level, position) is unique, no level exceeds Ym, the result is ONE      *)
(* chaining value, leaves cover the message exactly, positions of a level   *)
(* are the byte offsets of its chunks.                                      *)
(***************************************************************************)
EXTENDS Skein, FiniteSets, Integers
CONSTANTS NB, MaxBytes
VARIABLES yl, yf, ym, n, phase
Init == yl \in 1..3 /\ yf \in 1..3 /\ ym \in 2..4 /\ n = 0 /\ phase = 0
Next == phase = 0 /\ phase' = 1 /\ n' \in 1..MaxBytes /\ UNCHANGED <<yl, yf, ym>>
G0 == Rep(0, NB)
PosNat(p) == p[1] + 65536 * p[2]
\* children of a node of level > 1: one record per NB data elements
Kids(data) == {data[(c - 1) * NB + 1] : c \in 1..(Len(data) \div NB)}
USym(G, data, bits, type, level, pos) ==
  LET me == <<level, PosNat(pos), Len(data)>>
      kids == IF level = 1 THEN {} ELSE Kids(data)
      below == UNION {k.all : k \in kids}
      clash == \/ \E k \in kids : k.dup
               \/ \E k1 \in kids, k2 \in kids : k1 # k2 /\ k1.all \cap k2.all # {}
               \/ \E x \in below : x[1] = level /\ x[2] = PosNat(pos)
               \/ Cardinality(kids) # (IF level = 1 THEN 0 ELSE Len(data) \div NB)       \* two equal children = duplicate ids
      node == [all |-> below \cup {me}, dup |-> clash, top |-> level]
  IN Rep(node, NB)
Msg == Rep(7, n)
Root == SkeinTreeMsgG(USym, G0, Msg, 8 * n, yl, yf, ym)
Leaf == SkeinSatSize(NB, yl, n)
TreeOk == phase = 1 =>
  /\ Len(Root) = NB                                              \* one chaining value
  /\ ~Root[1].dup                                                \* all (level, position) pairs unique
  /\ \A x \in Root[1].all : x[1] >= 1 /\ x[1] <= ym              \* no level above Ym
  /\ LET leaves == {x \in Root[1].all : x[1] = 1} IN
       /\ Cardinality(leaves) = (n + Leaf - 1) \div Leaf
       /\ {x[2] : x \in leaves} = {Leaf * q : q \in 0..(((n + Leaf - 1) \div Leaf) - 1)}     \* positions = byte offsets of the leaves
       /\ \A x \in leaves : x[3] = (IF x[2] + Leaf <= n THEN Leaf ELSE n - x[2])              \* leaves cover the message exactly
  /\ Cardinality({x \in Root[1].all : x[1] = Root[1].top}) = 1   \* a single root node
=============================================================================
