INIT Init
NEXT Next
CONSTANTS D = 3
 K = 2
INVARIANT Laws
CHECK_DEADLOCK FALSE
