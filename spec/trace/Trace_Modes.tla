----------------------------- MODULE Trace_Modes -----------------------------
(* Validates recorded calls of the real ECB/CBC/CTR/CTS_* mode objects (C05) against sys/Modes.  Stateless spec. *)
(* One call on a long message is recorded as segments (whole blocks): ECB segments are independent, a CBC segment is the chain started  *)
(* from the recorded previous ciphertext block, a CTR segment is the mode with its counter advanced by the block offset (enc_at).          *)
EXTENDS Modes, Json, IOUtils
Traces == ndJsonDeserialize(IOEnv.TRACE_FILE)
VARIABLES vvTid, vvPos, vvBad
C(name, exp) == [c |-> name, e |-> exp]
Want(e, r) == IF ~r.ok THEN (IF e.raised = "" THEN <<C("must-refuse", "an exception")>> ELSE <<>>)
              ELSE IF e.raised # "" THEN <<C("must-not-raise", r.val)>> ELSE IF e.obs # r.val THEN <<C("value", r.val)>> ELSE <<>>
Judge(e) ==
  CASE e.op = "enc" -> Want(e, Enc(e.mo, e.m))
    [] e.op = "enc_at" -> Want(e, Enc([e.mo EXCEPT !.count0 = IncBE(e.mo.count0, e.c)], e.m))   \* CTR: the segment of one long call that starts at block e.c
    [] e.op = "dec_at" -> Want(e, Dec([e.mo EXCEPT !.count0 = IncBE(e.mo.count0, e.c)], e.m))
    [] e.op = "dec" -> Want(e, Dec(e.mo, e.m))
    [] e.op = "rt"  -> LET c == Enc(e.mo, e.m) IN IF c.ok /\ Injective(e.mo) THEN Want(e, Done(e.m)) ELSE <<>>
    [] e.op = "cts_enc" -> IF e.raised # "" THEN <<C("must-not-raise", "ciphertext of the message's length")>>
                           ELSE IF ~CtsLenOk(e.mo, e.m, e.obs) THEN <<C("cts-length-and-iv", Len(e.m))>> ELSE <<>>
    [] e.op = "cts_rt"  -> Want(e, Done(e.m))
Init == vvTid \in 1..Len(Traces) /\ vvPos = 0 /\ vvBad = 0
Next == /\ vvPos < Len(Traces[vvTid].ev)
        /\ \E bad \in {Judge(Traces[vvTid].ev[vvPos+1])} :
           /\ vvPos' = vvPos + 1 /\ vvBad' = vvBad + Len(bad) /\ UNCHANGED vvTid
           /\ (bad # <<>> => PrintT(ToJson([tid |-> vvTid, step |-> vvPos+1, bad |-> bad])))
           /\ (vvPos + 1 = Len(Traces[vvTid].ev) => PrintT(ToJson([tid |-> vvTid, done |-> TRUE, nbad |-> vvBad'])))
=============================================================================
