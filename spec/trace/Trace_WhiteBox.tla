--------------------------- MODULE Trace_WhiteBox ---------------------------
(***************************************************************************)
(* C18: the refinement obligation of the white-box DES.  The table network  *)
(* generated for key K is a PROGRAM; nothing about its internal encoding is *)
(* specified.  What is specified: evaluated on any block it yields          *)
(* DES_K(block) (prim/Des, FIPS 46-3); every generated lookup table is a    *)
(* total map 0..255 -> 0..255 (16 rounds x 12 tables); the key-independent  *)
(* tables (input map, mixing matrix, output map) are the same for all keys. *)
(* One trace = several keys; the trace state remembers the key-independent  *)
(* tables of the first key.                                                 *)
(***************************************************************************)
EXTENDS Des, Json, IOUtils, TLC, Integers
Traces == ndJsonDeserialize(IOEnv.TRACE_FILE)
VARIABLES vvTid, vvPos, vvSt, vvBad
C(name, exp) == [c |-> name, e |-> exp]
Judge(s, e) ==
  CASE e.op = "wb_enc" -> [st |-> s, bad |-> LET x == DesEnc(e.key, e.blk) IN
                             IF e.raised # "" THEN <<C("must-not-raise", x)>> ELSE IF e.obs # x THEN <<C("equals-DES", x)>> ELSE <<>>]
    [] e.op = "wb_tables" ->
         [st |-> IF s.seen THEN s ELSE [seen |-> TRUE, indep |-> e.indep],
          bad |-> (IF e.raised # "" THEN <<C("must-not-raise", "table generation")>> ELSE <<>>)
                  \o (IF e.raised = "" /\ e.shape # [rounds |-> 16, tables |-> 12, minlen |-> 256, maxlen |-> 256, inrange |-> TRUE]
                      THEN <<C("tables-are-total-byte-maps", [rounds |-> 16, tables |-> 12, len |-> 256])>> ELSE <<>>)
                  \o (IF e.raised = "" /\ s.seen /\ e.indep # s.indep THEN <<C("key-independent-tables-identical", "same as for the first key")>> ELSE <<>>)]
Init == vvTid \in 1..Len(Traces) /\ vvPos = 0 /\ vvSt = [seen |-> FALSE, indep |-> <<>>] /\ vvBad = 0
Next == /\ vvPos < Len(Traces[vvTid].ev)
        /\ \E q \in {Judge(vvSt, Traces[vvTid].ev[vvPos+1])} :
           /\ vvSt' = q.st /\ vvPos' = vvPos + 1 /\ vvBad' = vvBad + Len(q.bad) /\ UNCHANGED vvTid
           /\ (q.bad # <<>> => PrintT(ToJson([tid |-> vvTid, step |-> vvPos+1, bad |-> q.bad])))
           /\ (vvPos + 1 = Len(Traces[vvTid].ev) => PrintT(ToJson([tid |-> vvTid, done |-> TRUE, nbad |-> vvBad'])))
=============================================================================
