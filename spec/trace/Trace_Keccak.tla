---------------------------- MODULE Trace_Keccak ----------------------------
(***************************************************************************)
(* Validates recorded calls of crysp's Keccak object, SHA3, SHAKE and       *)
(* duplex sequences (C04) against sys/Sponge (FIPS 202 / Keccak reference). *)
(* Bit-order conventions of the message:                                    *)
(*   native: bit i of byte j is message bit 8j+i (LSB first), first L bits; *)
(*   NIST:   whole bytes as above; the last partial byte (the byte at index *)
(*           L div 8) holds its L mod 8 message bits MSB-ALIGNED and they   *)
(*           are moved to the low end, x >> (8 - L mod 8), then read LSB    *)
(*           first (Keccak submission section 6.1, KeccakNISTInterface).    *)
(* Output: d bits packed LSB-first into ceil(d/8) bytes.                    *)
(* State of a trace: the duplex state of the object (b bits), zero at start.*)
(***************************************************************************)
EXTENDS Sponge, Json, IOUtils, TLC, Integers
Traces == ndJsonDeserialize(IOEnv.TRACE_FILE)
VARIABLES vvTid, vvPos, vvSt, vvBad
C(name, exp) == [c |-> name, e |-> exp]
MsgBits(m, bitlen, nist) ==
  IF bitlen < 0 THEN BytesToBitsLSB(m)
  ELSE LET nb == bitlen \div 8  rr == bitlen % 8  full == BytesToBitsLSB(SubSeq(m, 1, nb)) IN
       IF rr = 0 THEN full
       ELSE IF nist THEN full \o (LET x == m[nb+1]  F(q) == (x \div P2[8 - rr + q]) % 2 IN SubSeq([q \in 1..rr |-> F(q)], 1, rr))   \* (x >> (8-rr)), LSB first
       ELSE full \o SubSeq(BytesToBitsLSB(<<m[nb+1]>>), 1, rr)
Want(e, exp) == IF e.raised # "" THEN <<C("must-not-raise", exp)>> ELSE IF e.obs # exp THEN <<C("value", exp)>> ELSE <<>>
Judge(s, e) ==
  CASE e.op = "call" ->    \* Keccak(b, r, len=d)(M, bitlen): d output bits
         LET w == e.b \div 25  L == IF e.bitlen < 0 THEN 8 * Len(e.m) ELSE e.bitlen IN
         IF L > 8 * Len(e.m) THEN [st |-> s, bad |-> IF e.raised = "" THEN <<C("must-refuse", "bit length beyond the data")>> ELSE <<>>]
         ELSE [st |-> s, bad |-> Want(e, BitsToBytesLSB(SpongeHash(w, e.r, MsgBits(e.m, e.bitlen, e.nist), e.d)))]
    [] e.op = "sha3"  -> [st |-> s, bad |-> Want(e, Sha3(e.n, e.m))]
    [] e.op = "shake" -> [st |-> s, bad |-> Want(e, BitsToBytesLSB(SpongeHash(64, 1600 - 2*e.n, BytesToBitsLSB(e.m) \o <<1, 1, 1, 1>>, e.d)))]
    [] e.op = "duplex" ->   \* duplex(m, bitlen, outlen) on the trace's object
         LET w == e.b \div 25  sigma == MsgBits(e.m, e.bitlen, FALSE)
             s0 == IF Len(s) = 0 THEN ZeroBits(e.b) ELSE s IN
         IF ~DuplexPre(e.r, sigma, e.d) THEN [st |-> s, bad |-> IF e.raised = "" THEN <<C("must-refuse", "input longer than r-2 bits or output longer than r")>> ELSE <<>>]
         ELSE LET x == DuplexStep(w, e.r, s0, sigma, e.d) IN [st |-> x.S, bad |-> Want(e, BitsToBytesLSB(x.out))]
Init == vvTid \in 1..Len(Traces) /\ vvPos = 0 /\ vvSt = <<>> /\ vvBad = 0
Next == /\ vvPos < Len(Traces[vvTid].ev)
        /\ \E j \in {Judge(vvSt, Traces[vvTid].ev[vvPos+1])} :
           /\ vvSt' = j.st /\ vvPos' = vvPos + 1 /\ vvBad' = vvBad + Len(j.bad) /\ UNCHANGED vvTid
           /\ (j.bad # <<>> => PrintT(ToJson([tid |-> vvTid, step |-> vvPos+1, bad |-> j.bad])))
           /\ (vvPos + 1 = Len(Traces[vvTid].ev) => PrintT(ToJson([tid |-> vvTid, done |-> TRUE, nbad |-> vvBad'])))
=============================================================================
