---------------------------- MODULE Trace_Cipher ----------------------------
(***************************************************************************)
(* Validates recorded calls of the block ciphers and of their exposed       *)
(* components (C02, C03) against sys/Ciphers and the primitive modules.     *)
(* The specified ciphers have no state; every event is judged on its own.   *)
(***************************************************************************)
EXTENDS Ciphers, Json, IOUtils
Traces == ndJsonDeserialize(IOEnv.TRACE_FILE)
VARIABLES vvTid, vvPos, vvBad
C(name, exp) == [c |-> name, e |-> exp]
Want(e, exp) == IF e.raised # "" THEN <<C("must-not-raise", exp)>> ELSE IF e.obs # exp THEN <<C("value", exp)>> ELSE <<>>
Refuse(e) == IF e.raised = "" THEN <<C("must-reject", "an exception")>> ELSE <<>>
Row(F(_), n) == SubSeq([q \in 1..n |-> F(q-1)], 1, n)
InvMaps(pm, qm) == /\ Len(pm) = 16 /\ Len(qm) = 16 /\ \A q \in 1..16 : pm[q] \in 0..15 /\ qm[q] \in 0..15
                   /\ \A q \in 1..16 : qm[pm[q] + 1] = q - 1 /\ pm[qm[q] + 1] = q - 1
Judge(e) ==
  CASE e.op = "new" -> IF CipherOk(e.ci) THEN (IF e.raised # "" THEN <<C("must-not-raise", "constructor")>> ELSE <<>>) ELSE Refuse(e)
    [] e.op = "enc" -> IF Len(e.blk) # BlockLen(e.ci) THEN Refuse(e) ELSE Want(e, CipherEnc(e.ci, e.blk))
    [] e.op = "dec" -> IF Len(e.blk) # BlockLen(e.ci) THEN Refuse(e) ELSE Want(e, CipherDec(e.ci, e.blk))
    [] e.op = "pair" -> Want(e, [fg |-> e.x, gf |-> e.x])                      \* f_inv(f(x)) = x = f(f_inv(x))
    [] e.op = "inv_maps" -> IF e.raised # "" THEN <<C("must-not-raise", "index maps")>>
                            ELSE IF ~InvMaps(e.p, e.q) THEN <<C("mutually-inverse-permutations-of-0..15", e.name)>> ELSE <<>>
    [] e.op = "gmul_row" -> LET F(q) == GMul(e.a, q) IN Want(e, Row(F, 256))
    [] e.op = "table" ->
         Want(e, CASE e.name = "aes_sbox" -> SBox [] e.name = "aes_sboxinv" -> InvSBox
                   [] e.name = "rcon" -> (LET F(q) == Rcon(q+1) IN Row(F, 10))
                   [] e.name = "des_sbox" -> SBoxes[e.n + 1])
    [] e.op = "aes_step" ->
         Want(e, CASE e.name = "SubBytes" -> SubBytes(e.s) [] e.name = "InvSubBytes" -> InvSubBytes(e.s)
                   [] e.name = "ShiftRows" -> ShiftRows(e.s) [] e.name = "InvShiftRows" -> InvShiftRows(e.s)
                   [] e.name = "MixColumns" -> MixColumns(e.s) [] e.name = "InvMixColumns" -> InvMixColumns(e.s))
    [] e.op = "des_perm" ->
         Want(e, Permute(e.x, CASE e.name = "IP" -> IPtab [] e.name = "IPinv" -> FPtab [] e.name = "PC1" -> PC1tab
                                [] e.name = "PC2" -> PC2tab [] e.name = "E" -> Etab [] e.name = "P" -> Ptab))
    [] e.op = "serp_s" -> Want(e, IF e.inv THEN SerpSinvW(e.box, e.x) ELSE SerpSW(e.box, e.x))
    [] e.op = "serp_l" -> Want(e, IF e.inv THEN SerpLTinv(e.x) ELSE SerpLT(e.x))
    [] e.op = "serp_p" -> Want(e, IF e.name = "IP" THEN SerpIP(e.x) ELSE SerpFP(e.x))
Init == vvTid \in 1..Len(Traces) /\ vvPos = 0 /\ vvBad = 0
Next == /\ vvPos < Len(Traces[vvTid].ev)
        /\ \E bad \in {Judge(Traces[vvTid].ev[vvPos+1])} :
           /\ vvPos' = vvPos + 1 /\ vvBad' = vvBad + Len(bad) /\ UNCHANGED vvTid
           /\ (bad # <<>> => PrintT(ToJson([tid |-> vvTid, step |-> vvPos+1, bad |-> bad])))
           /\ (vvPos + 1 = Len(Traces[vvTid].ev) => PrintT(ToJson([tid |-> vvTid, done |-> TRUE, nbad |-> vvBad'])))
=============================================================================
