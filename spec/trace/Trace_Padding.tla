---------------------------- MODULE Trace_Padding ----------------------------
(***************************************************************************)
(* Validates recorded histories of ONE padding object of crysp/padding.py   *)
(* (iterblocks / remove / reset) against sys/PadBytes.  Total verdicts: a   *)
(* failed clause is reported and the run continues from the SPECIFIED state.*)
(***************************************************************************)
EXTENDS PadBytes, Json, IOUtils
Traces == ndJsonDeserialize(IOEnv.TRACE_FILE)
VARIABLES vvTid, vvPos, vvSt, vvBad


C(name, exp) == [c |-> name, e |-> exp]
\* verdict of one event e in state s: [st |-> next specified state, bad |-> failed clauses]
Judge(sch, s, e) ==
  CASE e.op = "reset" -> [st |-> PadInit, bad |-> <<>>]
    [] e.op = "preset" -> [st |-> [s EXCEPT !.bitcnt = e.cnt], bad |-> <<>>]        \* the public bit counter assigned: as if that many bits went before
    [] e.op = "iter" ->
         LET x == Iter(sch, s, e.m, e.bitlen, e.padding) IN
         IF x.raises THEN [st |-> s, bad |-> IF e.raised = "" THEN <<C("must-refuse", "any exception")>> ELSE <<>>]
         ELSE [st |-> x.st,
               bad |-> IF e.raised # "" THEN <<C("must-not-raise", [blocks |-> x.blocks])>>
                       ELSE (IF e.blocks # x.blocks THEN <<C("blocks", x.blocks)>> ELSE <<>>)
                         \o (IF e.cnts # x.cnts THEN <<C("bitcnt-per-block", x.cnts)>> ELSE <<>>)
                         \o (IF e.after.bitcnt # x.st.bitcnt THEN <<C("bitcnt-after", x.st.bitcnt)>> ELSE <<>>)
                         \o (IF e.after.padflag # x.st.padflag THEN <<C("padflag-after", x.st.padflag)>> ELSE <<>>)
                         \o (IF DefinesPadcnt(sch) /\ e.padding /\ e.after.padcnt # x.st.padcnt THEN <<C("padcnt", x.st.padcnt)>> ELSE <<>>)]
    [] e.op = "iterlong" ->      \* message = K copies of one block, then a short tail; output in the compressed form of PadBytes!IterLong
         LET x == IterLong(sch, s, e.pat, e.K, e.tail, e.bitlen, e.padding) IN
         IF x.raises THEN [st |-> s, bad |-> IF e.raised = "" THEN <<C("must-refuse", "any exception")>> ELSE <<>>]
         ELSE [st |-> x.st,
               bad |-> IF e.raised # "" THEN <<C("must-not-raise", [blocks |-> x.blocks])>>
                       ELSE (IF e.bhead # x.blocks.head \/ e.brest # x.blocks.rest THEN <<C("blocks", x.blocks)>> ELSE <<>>)
                         \o (IF e.chead # x.cnts.head \/ e.crest # x.cnts.rest THEN <<C("bitcnt-per-block", x.cnts)>> ELSE <<>>)
                         \o (IF e.after.bitcnt # x.st.bitcnt THEN <<C("bitcnt-after", x.st.bitcnt)>> ELSE <<>>)
                         \o (IF e.after.padflag # x.st.padflag THEN <<C("padflag-after", x.st.padflag)>> ELSE <<>>)
                         \o (IF DefinesPadcnt(sch) /\ e.padding /\ e.after.padcnt # x.st.padcnt THEN <<C("padcnt", x.st.padcnt)>> ELSE <<>>)]
    [] e.op = "remove" ->
         LET u == Unpad(sch, e.c, s.padcnt) IN
         [st |-> s,
          bad |-> IF ~u.ok THEN (IF e.raised = "PaddingError" THEN <<>> ELSE <<C("must-raise-PaddingError", "PaddingError")>>)
                  ELSE IF e.raised # "" THEN <<C("must-not-raise", u.val)>>
                  ELSE IF e.out # u.val THEN <<C("unpadded", u.val)>> ELSE <<>>]

Init == vvTid \in 1..Len(Traces) /\ vvPos = 0 /\ vvSt = PadInit /\ vvBad = 0
Next == /\ vvPos < Len(Traces[vvTid].ev)
        /\ \E j \in {LET e == Traces[vvTid].ev[vvPos+1] IN Judge(Traces[vvTid].sch, vvSt, e)} :     \* bound once (an action-level LET would be re-evaluated at every use)
           /\ vvSt' = j.st /\ vvPos' = vvPos + 1 /\ vvBad' = vvBad + Len(j.bad) /\ UNCHANGED vvTid
           /\ (j.bad # <<>> => PrintT(ToJson([tid |-> vvTid, step |-> vvPos+1, bad |-> j.bad])))
           /\ (vvPos + 1 = Len(Traces[vvTid].ev) => PrintT(ToJson([tid |-> vvTid, done |-> TRUE, nbad |-> vvBad'])))
=============================================================================
