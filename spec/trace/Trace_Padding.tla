---------------------------- MODULE Trace_Padding ----------------------------
(***************************************************************************)
(* Validates recorded histories of ONE padding object of crysp/padding.py   *)
(* (iterblocks / remove / reset) against sys/PadBytes.  Total verdicts: a   *)
(* failed clause is reported and the run continues from the SPECIFIED state.*)
(***************************************************************************)
EXTENDS PadBytes, Json, IOUtils
Traces == ndJsonDeserialize(IOEnv.TRACE_FILE)
VARIABLES tid, i, st, nbad
vars == <<tid, i, st, nbad>>

C(name, exp) == [c |-> name, e |-> exp]
\* verdict of one event e in state s: [st |-> next specified state, bad |-> failed clauses]
Judge(sch, s, e) ==
  CASE e.op = "reset" -> [st |-> PadInit, bad |-> <<>>]
    [] e.op = "iter" ->
         LET x == Iter(sch, s, e.m, e.bitlen, e.padding) IN
         IF x.raises THEN [st |-> s, bad |-> IF e.raised = "" THEN <<C("must-refuse", "any exception")>> ELSE <<>>]
         ELSE [st |-> x.st,
               bad |-> IF e.raised # "" THEN <<C("must-not-raise", [blocks |-> x.blocks])>>
                       ELSE (IF e.blocks # x.blocks THEN <<C("blocks", x.blocks)>> ELSE <<>>)
                         \o (IF e.cnts # x.cnts THEN <<C("bitcnt-per-block", x.cnts)>> ELSE <<>>)
                         \o (IF e.after.bitcnt # x.st.bitcnt THEN <<C("bitcnt-after", x.st.bitcnt)>> ELSE <<>>)
                         \o (IF e.after.padflag # x.st.padflag THEN <<C("padflag-after", x.st.padflag)>> ELSE <<>>)
                         \o (IF DefinesPadcnt(sch) /\ e.padding /\ e.after.padcnt # x.st.padcnt THEN <<C("padcnt", x.st.padcnt)>> ELSE <<>>)]
    [] e.op = "remove" ->
         LET u == Unpad(sch, e.c, s.padcnt) IN
         [st |-> s,
          bad |-> IF ~u.ok THEN (IF e.raised = "PaddingError" THEN <<>> ELSE <<C("must-raise-PaddingError", "PaddingError")>>)
                  ELSE IF e.raised # "" THEN <<C("must-not-raise", u.val)>>
                  ELSE IF e.out # u.val THEN <<C("unpadded", u.val)>> ELSE <<>>]

Init == tid \in 1..Len(Traces) /\ i = 0 /\ st = PadInit /\ nbad = 0
Next == /\ i < Len(Traces[tid].ev)
        /\ \E j \in {LET e == Traces[tid].ev[i+1] IN Judge(Traces[tid].sch, st, e)} :     \* bound once (an action-level LET would be re-evaluated at every use)
           /\ st' = j.st /\ i' = i + 1 /\ nbad' = nbad + Len(j.bad) /\ UNCHANGED tid
           /\ (j.bad # <<>> => PrintT(ToJson([tid |-> tid, step |-> i+1, bad |-> j.bad])))
           /\ (i + 1 = Len(Traces[tid].ev) => PrintT(ToJson([tid |-> tid, done |-> TRUE, nbad |-> nbad'])))
=============================================================================
