------------------------------ MODULE Trace_Md6 ------------------------------
(* Validates recorded MD6 digests (C17) against sys/Md6Tree (MD6 report): d, key, mode parameter L, rounds, message, bit length. *)
EXTENDS Md6Tree, Json, IOUtils, TLC, Integers
Traces == ndJsonDeserialize(IOEnv.TRACE_FILE)
VARIABLES vvTid, vvPos, vvBad
C(name, exp) == [c |-> name, e |-> exp]
Judge(e) ==
  LET bl == IF e.bitlen < 0 THEN 8 * Len(e.m) ELSE e.bitlen IN
  IF bl > 8 * Len(e.m) THEN (IF e.raised = "" THEN <<C("must-refuse", "bit length beyond the data")>> ELSE <<>>)
  ELSE LET r == IF e.r >= 0 THEN e.r                                                  \* rounds assigned on the object
                ELSE IF Len(e.key) > 0 THEN (IF 40 + (e.d \div 4) > 80 THEN 40 + (e.d \div 4) ELSE 80)    \* default (MD6 report 2.4.7): 40 + floor(d/4), at least 80 when keyed
                ELSE 40 + (e.d \div 4)
           x == Md6Hash(e.d, e.key, e.L, r, e.m, bl) IN
       IF e.raised # "" THEN <<C("must-not-raise", x)>>
       ELSE (IF e.obs # x THEN <<C("digest", x)>> ELSE <<>>) \o (IF Len(e.obs) # (e.d + 7) \div 8 THEN <<C("digest-length", (e.d + 7) \div 8)>> ELSE <<>>)
Init == vvTid \in 1..Len(Traces) /\ vvPos = 0 /\ vvBad = 0
Next == /\ vvPos < Len(Traces[vvTid].ev)
        /\ \E bad \in {Judge(Traces[vvTid].ev[vvPos+1])} :
           /\ vvPos' = vvPos + 1 /\ vvBad' = vvBad + Len(bad) /\ UNCHANGED vvTid
           /\ (bad # <<>> => PrintT(ToJson([tid |-> vvTid, step |-> vvPos+1, bad |-> bad])))
           /\ (vvPos + 1 = Len(Traces[vvTid].ev) => PrintT(ToJson([tid |-> vvTid, done |-> TRUE, nbad |-> vvBad'])))
=============================================================================
