---------------------------- MODULE Trace_Blake2 ----------------------------
(***************************************************************************)
(* The BLAKE2b / BLAKE2s hash object of crysp (C11, C14) against RFC 7693   *)
(* (prim/Blake2).  Specified object: a parameter record and the bytes fed   *)
(* so far; non-final pieces are whole blocks; the digest after the final    *)
(* piece is BLAKE2(all bytes) - only the last block of the WHOLE message    *)
(* carries the finalization flag, and each block's counter is the number of *)
(* bytes up to and including it.  keylen is a parameter-block field only    *)
(* (the library does not take the key itself).                              *)
(***************************************************************************)
EXTENDS Blake2, Json, IOUtils, Integers, TLC
Traces == ndJsonDeserialize(IOEnv.TRACE_FILE)
VARIABLES vvTid, vvPos, vvSt, vvBad
C(name, exp) == [c |-> name, e |-> exp]
\* "preset": the byte counter starts at `base` (a 2-word number as 16-bit limbs) instead of 0 - as if that many bytes had been
\* compressed before, with the chaining value still the initial one; covers the carry from t0 into t1
ZeroBase(b) == WFromNat(0, IF b THEN 8 ELSE 4)
CtrFrom(b, base, n) == LET t == WAddNat(base, n)  w == IF b THEN 4 ELSE 2 IN <<SubSeq(t, 1, w), SubSeq(t, w + 1, 2 * w)>>
RECURSIVE FoldFrom(_,_,_,_,_)
FoldFrom(b, h, data, i, base) ==
  LET B == Blake2BlockBytes(b)  n == Len(data) IN
  IF (i+1)*B >= n
  THEN Blake2F(b, h, Blake2PadTo(SubSeq(data, i*B + 1, n), B), CtrFrom(b, base, n), TRUE, FALSE)
  ELSE FoldFrom(b, Blake2F(b, h, SubSeq(data, i*B + 1, (i+1)*B), CtrFrom(b, base, (i+1)*B), FALSE, FALSE), data, i+1, base)
DigestFrom(b, p, data, base) ==
  LET h0 == Blake2Params(b, p.outlen, p.keylen, p.fanout, p.depth, p.leafl, p.noffset, p.ndepth, p.inner, p.salt, p.pers)
      B == Blake2BlockBytes(b)
  IN Blake2Out(IF Len(data) = 0 THEN Blake2F(b, h0, Rep(0, B), CtrFrom(b, base, 0), TRUE, FALSE)
               ELSE FoldFrom(b, h0, data, 0, base), p.outlen)
Digest(b, p, data) == DigestFrom(b, p, data, ZeroBase(b))
ParOk(b, p) == p.outlen >= 1 /\ p.outlen <= (IF b THEN 64 ELSE 32) /\ p.keylen <= (IF b THEN 64 ELSE 32)
Cnt(n) == <<(8*n) % 65536, (8*n) \div 65536, 0, 0, 0, 0, 0, 0>>          \* bit counter as 8 limbs (n < 2^27 bytes)
Judge(b, s, e) ==
  CASE e.op = "preset" -> [st |-> [s EXCEPT !.base = e.base], bad |-> <<>>]
    [] e.op = "init" -> [st |-> [par |-> e.par, fed |-> <<>>, fin |-> FALSE, base |-> ZeroBase(b)],
                         bad |-> IF ParOk(b, e.par) THEN (IF e.raised # "" THEN <<C("must-not-raise", "initstate")>> ELSE <<>>)
                                 ELSE (IF e.raised = "" THEN <<C("must-reject-parameters", "an exception")>> ELSE <<>>)]
    [] e.op = "call" -> IF ~ParOk(b, e.par) THEN [st |-> s, bad |-> IF e.raised = "" THEN <<C("must-reject-parameters", "an exception")>> ELSE <<>>]
                        ELSE LET d == Digest(b, e.par, e.m) IN
                             [st |-> [par |-> e.par, fed |-> e.m, fin |-> TRUE, base |-> ZeroBase(b)],
                              bad |-> IF e.raised # "" THEN <<C("must-not-raise", d)>> ELSE IF e.out # d THEN <<C("digest", d)>> ELSE <<>>]
    [] e.op = "update" ->
         IF s.fin \/ (~e.padding /\ (Len(e.m) % Blake2BlockBytes(b)) # 0)
         THEN [st |-> s, bad |-> IF e.raised = "" THEN <<C("must-refuse", "an exception")>> ELSE <<>>]
         ELSE LET all == s.fed \o e.m IN
              IF e.padding
              THEN LET d == DigestFrom(b, s.par, all, s.base) IN
                   [st |-> [s EXCEPT !.fed = all, !.fin = TRUE],
                    bad |-> IF e.raised # "" THEN <<C("must-not-raise", d)>> ELSE IF e.out # d THEN <<C("digest", d)>> ELSE <<>>]
              ELSE [st |-> [s EXCEPT !.fed = all],
                    bad |-> IF e.raised # "" THEN <<C("must-not-raise", "continuation")>>
                            ELSE IF s.base = ZeroBase(b) /\ e.bitcnt # Cnt(Len(all)) THEN <<C("bitcnt-after-piece", Cnt(Len(all)))>> ELSE <<>>]
Init == vvTid \in 1..Len(Traces) /\ vvPos = 0 /\ vvSt = [par |-> Traces[vvTid].par0, fed |-> <<>>, fin |-> FALSE, base |-> ZeroBase(Traces[vvTid].b)] /\ vvBad = 0
Next == /\ vvPos < Len(Traces[vvTid].ev)
        /\ \E j \in {Judge(Traces[vvTid].b, vvSt, Traces[vvTid].ev[vvPos+1])} :
           /\ vvSt' = j.st /\ vvPos' = vvPos + 1 /\ vvBad' = vvBad + Len(j.bad) /\ UNCHANGED vvTid
           /\ (j.bad # <<>> => PrintT(ToJson([tid |-> vvTid, step |-> vvPos+1, bad |-> j.bad])))
           /\ (vvPos + 1 = Len(Traces[vvTid].ev) => PrintT(ToJson([tid |-> vvTid, done |-> TRUE, nbad |-> vvBad'])))
=============================================================================
