----------------------------- MODULE Trace_Hash -----------------------------
(***************************************************************************)
(* Validates recorded histories of one hash object (C01, C11 BLAKE, C14)    *)
(* against sys/HashObj.  Events:                                            *)
(*   init(salt)                      initstate                              *)
(*   call(m, bitlen, salt)           one-shot  H()(M, bitlen)               *)
(*   update(m, bitlen, padding)      incremental                            *)
(*   preset(cnt)                     padmethod.bitcnt = cnt                 *)
(* Observed: raised, out (bytes returned), bitcnt after (8 limbs).          *)
(***************************************************************************)
EXTENDS HashObj, Json, IOUtils
Traces == ndJsonDeserialize(IOEnv.TRACE_FILE)
VARIABLES vvTid, vvPos, vvSt, vvBad
C(name, exp) == [c |-> name, e |-> exp]
ZSalt(a) == IF HBig(a) THEN <<ZeroW(4), ZeroW(4), ZeroW(4), ZeroW(4)>> ELSE <<ZeroW(2), ZeroW(2), ZeroW(2), ZeroW(2)>>
Judge(a, s, e) ==
  CASE e.op = "init"   -> [st |-> HInit(a, e.salt), bad |-> IF e.raised # "" THEN <<C("must-not-raise", "initstate")>> ELSE <<>>]
    [] e.op = "preset" -> [st |-> HPreset(s, e.cnt), bad |-> <<>>]
    [] e.op \in {"call", "update"} ->
         LET s0 == IF e.op = "call" THEN HInit(a, e.salt) ELSE s
             u  == HUpdate(a, s0, e.m, e.bitlen, IF e.op = "call" THEN TRUE ELSE e.padding)
             final == e.op = "call" \/ e.padding
         IN IF u.raises THEN [st |-> s0, bad |-> IF e.raised = "" THEN <<C("must-refuse", "any exception")>> ELSE <<>>]
            ELSE [st |-> u.st,
                  bad |-> IF e.raised # "" THEN <<C("must-not-raise", u.out)>>
                          ELSE (IF final /\ e.out # u.out THEN <<C("digest", u.out)>> ELSE <<>>)
                            \o (IF final /\ Len(e.out) # HOutLen(a) THEN <<C("digest-length", HOutLen(a))>> ELSE <<>>)
                            \o (IF ~final /\ Len(e.out) = HOutLen(a) /\ e.out # u.out THEN <<C("chaining-value", u.out)>> ELSE <<>>)
                            \o (IF ~final /\ e.bitcnt # u.st.pad.bitcnt THEN <<C("bitcnt-after-piece", u.st.pad.bitcnt)>> ELSE <<>>)]
Init == vvTid \in 1..Len(Traces) /\ vvPos = 0 /\ vvSt = HInit(Traces[vvTid].alg, ZSalt(Traces[vvTid].alg)) /\ vvBad = 0
Next == /\ vvPos < Len(Traces[vvTid].ev)
        /\ \E j \in {Judge(Traces[vvTid].alg, vvSt, Traces[vvTid].ev[vvPos+1])} :
           /\ vvSt' = j.st /\ vvPos' = vvPos + 1 /\ vvBad' = vvBad + Len(j.bad) /\ UNCHANGED vvTid
           /\ (j.bad # <<>> => PrintT(ToJson([tid |-> vvTid, step |-> vvPos+1, bad |-> j.bad])))
           /\ (vvPos + 1 = Len(Traces[vvTid].ev) => PrintT(ToJson([tid |-> vvTid, done |-> TRUE, nbad |-> vvBad'])))
=============================================================================
