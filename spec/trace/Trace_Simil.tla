----------------------------- MODULE Trace_Simil -----------------------------
(* Validates recorded TLSH and Nilsimsa calls (C19, and the Nilsimsa part of C14) against prim/Tlsh and prim/Nilsimsa. *)
EXTENDS Tlsh, Nilsimsa, Json, IOUtils, TLC, Integers
Traces == ndJsonDeserialize(IOEnv.TRACE_FILE)
VARIABLES vvTid, vvPos, vvBad
C(name, exp) == [c |-> name, e |-> exp]
Want(e, exp) == IF e.raised # "" THEN <<C("must-not-raise", exp)>> ELSE IF e.obs # exp THEN <<C("value", exp)>> ELSE <<>>
RECURSIVE CatAll(_,_,_)
CatAll(ps, q, acc) == IF q > Len(ps) THEN acc ELSE CatAll(ps, q+1, acc \o ps[q])
Judge(e) ==
  CASE e.op = "tlsh" ->
         LET x == TlshHash(e.cfg, e.data, e.force) IN
         IF e.raised # "" THEN <<C("must-not-raise", IF x.ok THEN x.digest ELSE "None")>>
         ELSE IF ~x.ok THEN (IF ~e.obs.none THEN <<C("must-yield-no-digest", "None")>> ELSE <<>>)
         ELSE IF e.obs.none THEN <<C("digest", x.digest)>>
         ELSE (IF e.obs.digest # x.digest THEN <<C("digest", x.digest)>> ELSE <<>>)
              \o (IF Len(e.obs.digest) # TlshDigestLen(e.cfg) THEN <<C("digest-length", TlshDigestLen(e.cfg))>> ELSE <<>>)
    [] e.op = "tlsh_reload" ->      \* from_hash(h).digest() serializes back to h with the same header fields and code
         IF e.raised # "" THEN <<C("must-not-raise", e.h)>>
         ELSE (IF e.obs.bytes # e.h THEN <<C("reserialized-bytes", e.h)>> ELSE <<>>)
              \o (IF e.obs.fields # e.fields THEN <<C("header-fields-and-code", e.fields)>> ELSE <<>>)
    [] e.op = "tlsh_dist" ->
         LET d == TlshDistance(e.cfg, e.d1, e.d2) IN
         IF e.raised # "" THEN <<C("must-not-raise", d)>>
         ELSE IF \E q \in 1..Len(e.obs) : e.obs[q] # d THEN <<C("distance (objects, bytes, mixed, both orders)", d)>> ELSE <<>>
    [] e.op = "tlsh_lvalue" -> Want(e, TlshLvalue(e.len))                   \* the length byte as a function of the data length alone
    [] e.op = "nil" -> Want(e, NilsimsaT(e.target, e.data))
    [] e.op = "nil_split" -> Want(e, NilsimsaT(e.target, e.a \o e.b))
    [] e.op = "nil_multi" -> Want(e, NilsimsaT(e.target, CatAll(e.pieces, 1, <<>>)))     \* any number of pieces, any byte positions
    [] e.op = "nil_dist" -> LET d == NilDistance(e.d1, e.d2) IN Want(e, <<d, d>>)
Init == vvTid \in 1..Len(Traces) /\ vvPos = 0 /\ vvBad = 0
Next == /\ vvPos < Len(Traces[vvTid].ev)
        /\ \E bad \in {Judge(Traces[vvTid].ev[vvPos+1])} :
           /\ vvPos' = vvPos + 1 /\ vvBad' = vvBad + Len(bad) /\ UNCHANGED vvTid
           /\ (bad # <<>> => PrintT(ToJson([tid |-> vvTid, step |-> vvPos+1, bad |-> bad])))
           /\ (vvPos + 1 = Len(Traces[vvTid].ev) => PrintT(ToJson([tid |-> vvTid, done |-> TRUE, nbad |-> vvBad'])))
=============================================================================
