---------------------------- MODULE Trace_Objects ----------------------------
(***************************************************************************)
(* C10: the value returned by a one-shot operation is a function of the     *)
(* constructor arguments and the call's arguments alone.  A trace carries   *)
(* `tab`: the outcome of every distinct (kind, configuration, call) on a    *)
(* FRESHLY constructed object, and `ev`: the calls made on long-lived       *)
(* objects (and siblings / module singletons) with their outcomes.  Every   *)
(* judged event must equal the table entry of its key, at every step of     *)
(* every history.  (Functional CORRECTNESS of the values is C01..C19.)      *)
(***************************************************************************)
EXTENDS Naturals, Sequences, Json, IOUtils, TLC
Traces == ndJsonDeserialize(IOEnv.TRACE_FILE)
VARIABLES vvTid, vvPos, vvBad
Lookup(tab, key) == LET S == {q \in 1..Len(tab) : tab[q].key = key} IN IF S = {} THEN "missing-from-table" ELSE tab[CHOOSE q \in S : TRUE].out
Judge(t, e) == IF e.judged /\ e.out # Lookup(t.tab, e.key) THEN << [c |-> "same-as-fresh-object", e |-> Lookup(t.tab, e.key)] >> ELSE <<>>
Init == vvTid \in 1..Len(Traces) /\ vvPos = 0 /\ vvBad = 0
Next == /\ vvPos < Len(Traces[vvTid].ev)
        /\ \E bad \in {Judge(Traces[vvTid], Traces[vvTid].ev[vvPos+1])} :
           /\ vvPos' = vvPos + 1 /\ vvBad' = vvBad + Len(bad) /\ UNCHANGED vvTid
           /\ (bad # <<>> => PrintT(ToJson([tid |-> vvTid, step |-> vvPos+1, bad |-> bad])))
           /\ (vvPos + 1 = Len(Traces[vvTid].ev) => PrintT(ToJson([tid |-> vvTid, done |-> TRUE, nbad |-> vvBad'])))
=============================================================================
