---------------------------- MODULE Trace_BitVec ----------------------------
(***************************************************************************)
(* Validates recorded executions of crysp.bits.Bits (C07 conversions, C08   *)
(* operators and mutation histories on one object) against base/BitVec.     *)
(* A trace is a sequence of events on one "object under mutation" (obj0 =   *)
(* its initial bits); pure operations carry their own operands.  Verdicts   *)
(* are total: a failed clause is printed and the run goes on from the       *)
(* SPECIFIED object value.                                                  *)
(* Operands are records [t, v]: t = "b" bits, "i" small Python int (its     *)
(* significant bits are the operand), "I" Python int given by its bits.     *)
(***************************************************************************)
EXTENDS BitVec, Json, IOUtils, TLC
Traces == ndJsonDeserialize(IOEnv.TRACE_FILE)
VARIABLES vvTid, vvPos, vvObj, vvBad

Val(o) == IF o.t = "i" THEN IntOperand(o.v) ELSE o.v
C(name, exp) == [c |-> name, e |-> exp]
\* the operation must return `exp`; e.raised = "" and e.obs = exp
Expect(e, exp) == IF e.raised # "" THEN <<C("must-not-raise", exp)>> ELSE IF e.obs # exp THEN <<C("value", exp)>> ELSE <<>>
Refuse(e) == IF e.raised = "" THEN <<C("must-raise", "an exception")>> ELSE <<>>
\* fitting value of an assignment: an int fills the selection from its low bits; a list / Bits value has at most the selection's length
AsgVal(o, n) == IF o.t = "i" THEN FromNat(o.v, n) ELSE Resize(o.v, n)      \* a shorter list / Bits value is zero-extended to the selection

\* utils.operators.concat: left fold of //, the first piece in the low positions
RECURSIVE ConcatList(_)
ConcatList(ps) == IF Len(ps) = 1 THEN ps[1] ELSE Concat2(ConcatList(SubSeq(ps, 1, Len(ps) - 1)), ps[Len(ps)])

\* expected outcome of a PURE operation e: [raise |-> BOOLEAN, val |-> value]
R(v) == [raise |-> FALSE, val |-> v]
X == [raise |-> TRUE, val |-> <<>>]
Pure(e) ==
  CASE e.op = "from_int"   -> R(IF e.size = NONE THEN IntOperand(e.x) ELSE FromNat(e.x, e.size))
    [] e.op = "from_bigint"-> R(IF e.size = NONE THEN e.a ELSE Resize(e.a, e.size))
    [] e.op = "from_list"  -> R(e.a)
    [] e.op = "from_bits"  -> R(IF e.size = NONE THEN e.a ELSE Resize(e.a, e.size))
    [] e.op = "from_bytes" -> IF LoadOk(e.s, e.order) THEN R(FromBytes(e.s, e.order, e.size)) ELSE X
    [] e.op = "to_bytes"   -> R(ToBytes(e.a))
    [] e.op = "pack"       -> R(IF e.be THEN PackBE(e.a) ELSE PackLE(e.a))
    [] e.op = "unpack"     -> R(IF e.be THEN UnpackBE(e.s) ELSE UnpackLE(e.s))
    [] e.op = "rt_pack"    -> R(e.a)                                  \* Bits(*unpack(pack(b,fmt), bigend)) = b
    [] e.op = "rt_bytes"   -> R(e.a)                                  \* Bits(b.bytes(), size=n) = b
    [] e.op = "rt_bitlist" -> R(e.a)
    [] e.op = "rt_str"     -> R(e.a)
    [] e.op = "bitlist"    -> R(BitList(e.a, e.dir))
    [] e.op \in {"str", "dots", "iter", "int", "index"} -> R(e.a)      \* harness renders them back to a bit list
    [] e.op = "sint"       -> R([neg |-> e.a[Len(e.a)], mag |-> IF e.a[Len(e.a)] = 1 THEN Neg1(e.a) ELSE e.a])
    [] e.op = "len"        -> R(Len(e.a))
    [] e.op = "bit"        -> IF BitIdx(e.a, e.i) = -1 THEN X ELSE R(BitIdx(e.a, e.i))
    [] e.op = "and"        -> R(And2(Val(e.l), Val(e.r)))
    [] e.op = "or"         -> R(Or2(Val(e.l), Val(e.r)))
    [] e.op = "xor"        -> R(Xor2(Val(e.l), Val(e.r)))
    [] e.op = "add"        -> R(Add2(Val(e.l), Val(e.r)))
    [] e.op = "sub"        -> R(Sub2(Val(e.l), Val(e.r)))
    [] e.op = "mul"        -> R(Mul2(Val(e.l), Val(e.r)))
    [] e.op = "neg"        -> R(Neg1(e.a))
    [] e.op = "inv"        -> R(Not1(e.a))
    [] e.op = "shl"        -> R(Shl1(e.a, e.k))
    [] e.op = "shr"        -> R(Shr1(e.a, e.k))
    [] e.op = "rol"        -> R(Rol1(e.a, e.k))
    [] e.op = "ror"        -> R(Ror1(e.a, e.k))
    [] e.op = "concat"     -> R(Concat2(Val(e.l), Val(e.r)))
    [] e.op = "split"      -> R(Split1(e.a, e.k, e.be))
    [] e.op = "zext"       -> R(ZeroExtend(e.a, e.n))
    [] e.op = "sext"       -> R(SignExtend(e.a, e.n))
    [] e.op = "hw"         -> R(Hw(e.a))
    [] e.op = "hd"         -> IF Len(Val(e.l)) # Len(Val(e.r)) THEN X ELSE R(Hw(Xor2(Val(e.l), Val(e.r))))
    [] e.op = "get_int"    -> IF NormIdx(e.i, Len(e.a)) = -1 THEN X ELSE R(<<e.a[NormIdx(e.i, Len(e.a)) + 1]>>)
    [] e.op = "get_slice"  -> R(GetList(e.a, SliceRange(e.start, e.stop, e.step, Len(e.a))))
    [] e.op = "get_list"   -> R(GetList(e.a, e.idx))
    [] e.op = "concat_list"-> IF e.parts = <<>> THEN X ELSE R(ConcatList(IF e.be THEN [i \in 1..Len(e.parts) |-> e.parts[Len(e.parts) + 1 - i]] ELSE e.parts))

\* mutation of the object: new specified value, or "refused"
Mutate(o, e) ==
  CASE e.op = "set_int"   -> IF NormIdx(e.i, Len(o)) = -1 THEN X ELSE R([o EXCEPT ![NormIdx(e.i, Len(o)) + 1] = e.v])
    [] e.op = "set_slice" -> LET sel == SliceRange(e.start, e.stop, e.step, Len(o)) IN R(SetList(o, sel, AsgVal(e.val, Len(sel))))
    [] e.op = "set_list"  -> R(SetList(o, e.idx, AsgVal(e.val, Len(e.idx))))
    [] e.op = "set_size"  -> R(Resize(o, e.n))
    [] e.op = "zext_ip"   -> R(ZeroExtend(o, e.n))
    [] e.op = "sext_ip"   -> R(SignExtend(o, e.n))
    [] e.op = "load"      -> IF LoadOk(e.s, e.order) THEN R(FromBytes(e.s, e.order, NONE)) ELSE X     \* the object is REPLACED by the loaded bytes
IsMut(e) == e.op \in {"set_int", "set_slice", "set_list", "set_size", "zext_ip", "sext_ip", "load"}

Judge(o, e) ==
  IF IsMut(e)
  THEN LET m == Mutate(o, e) IN
       IF m.raise THEN [obj |-> o, bad |-> Refuse(e) \o (IF e.raised # "" /\ e.obj # o THEN <<C("object-changed-by-refused-call", o)>> ELSE <<>>)]
       ELSE [obj |-> m.val,
             bad |-> (IF e.raised # "" THEN <<C("must-not-raise", m.val)>> ELSE IF e.obj # m.val THEN <<C("object", m.val)>> ELSE <<>>)
                     \o (IF ~e.others_unchanged THEN <<C("operands-and-copies-unchanged", TRUE)>> ELSE <<>>)]
  ELSE LET p == Pure(e) IN
       [obj |-> o,
        bad |-> (IF p.raise THEN Refuse(e) ELSE Expect(e, p.val))
                \o (IF ~e.others_unchanged THEN <<C("operands-unchanged", TRUE)>> ELSE <<>>)]

Init == vvTid \in 1..Len(Traces) /\ vvPos = 0 /\ vvObj = Traces[vvTid].obj0 /\ vvBad = 0
Next == /\ vvPos < Len(Traces[vvTid].ev)
        /\ \E j \in {LET e == Traces[vvTid].ev[vvPos+1] IN Judge(vvObj, e)} :     \* bound once (an action-level LET would be re-evaluated at every use)
           /\ vvObj' = j.obj /\ vvPos' = vvPos + 1 /\ vvBad' = vvBad + Len(j.bad) /\ UNCHANGED vvTid
           /\ (j.bad # <<>> => PrintT(ToJson([tid |-> vvTid, step |-> vvPos+1, bad |-> j.bad])))
           /\ (vvPos + 1 = Len(Traces[vvTid].ev) => PrintT(ToJson([tid |-> vvTid, done |-> TRUE, nbad |-> vvBad'])))
=============================================================================
