---------------------------- MODULE Trace_Stream ----------------------------
(***************************************************************************)
(* Salsa20 / ChaCha / RC4 objects of crysp (C06) against prim/Salsa, Chacha *)
(* and Rc4.  Salsa20/ChaCha: enc(v, M) = M xor keystream(K, v, rounds)      *)
(* from block counter ctr0 (0, or the hook's start block), per call.        *)
(* RC4: one continuous stream per object: the trace state is the RC4 state  *)
(* (S, i, j) after the bytes produced so far.                               *)
(***************************************************************************)
EXTENDS Salsa, Chacha, Rc4, Json, IOUtils, Integers
Traces == ndJsonDeserialize(IOEnv.TRACE_FILE)
VARIABLES vvTid, vvPos, vvSt, vvBad
C(name, exp) == [c |-> name, e |-> exp]
Want(e, exp) == IF e.raised # "" THEN <<C("must-not-raise", exp)>> ELSE IF e.obs # exp THEN <<C("value", exp)>> ELSE <<>>
NoSt == [S |-> <<>>, i |-> 0, j |-> 0]
Judge(s, e) ==
  CASE e.op = "salsa"  -> [st |-> s, bad |-> Want(e, SalsaXor(e.key, e.nonce, e.ctr0, e.rounds, e.m))]
    [] e.op = "chacha" -> [st |-> s, bad |-> Want(e, ChachaXor(e.key, e.nonce, e.ctr0, e.rounds, e.m))]
    [] e.op = "salsa_hash" -> [st |-> s, bad |-> Want(e, SalsaCore(20, e.x))]
    [] e.op = "rc4_new" -> IF Len(e.key) < 1 \/ Len(e.key) > 256
                           THEN [st |-> s, bad |-> IF e.raised = "" THEN <<C("must-reject-key", "1..256 bytes")>> ELSE <<>>]
                           ELSE [st |-> Rc4Ksa(256, e.key), bad |-> IF e.raised # "" THEN <<C("must-not-raise", "RC4(key)")>> ELSE <<>>]
    [] e.op = "rc4_xor" -> LET x == Rc4Xor(256, s, e.m) IN [st |-> x.st, bad |-> Want(e, x.out)]
Init == vvTid \in 1..Len(Traces) /\ vvPos = 0 /\ vvSt = NoSt /\ vvBad = 0
Next == /\ vvPos < Len(Traces[vvTid].ev)
        /\ \E q \in {Judge(vvSt, Traces[vvTid].ev[vvPos+1])} :
           /\ vvSt' = q.st /\ vvPos' = vvPos + 1 /\ vvBad' = vvBad + Len(q.bad) /\ UNCHANGED vvTid
           /\ (q.bad # <<>> => PrintT(ToJson([tid |-> vvTid, step |-> vvPos+1, bad |-> q.bad])))
           /\ (vvPos + 1 = Len(Traces[vvTid].ev) => PrintT(ToJson([tid |-> vvTid, done |-> TRUE, nbad |-> vvBad'])))
=============================================================================
