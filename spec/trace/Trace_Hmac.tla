----------------------------- MODULE Trace_Hmac -----------------------------
(* Validates histories of one crysp HMAC object: setkey(K) / mac(M) (C13) against sys/Hmac. *)
EXTENDS Hmac, Json, IOUtils
Traces == ndJsonDeserialize(IOEnv.TRACE_FILE)
VARIABLES vvTid, vvPos, vvKey, vvBad
C(name, exp) == [c |-> name, e |-> exp]
Judge(a, k, e) ==
  CASE e.op = "setkey" -> [kp |-> HmacKey(a, e.key), bad |-> IF e.raised # "" THEN <<C("must-not-raise", "setkey")>> ELSE <<>>]
    [] e.op = "mac" -> LET x == HmacMac(a, k, e.m) IN
                       [kp |-> k, bad |-> IF e.raised # "" THEN <<C("must-not-raise", x)>> ELSE IF e.out # x THEN <<C("mac", x)>> ELSE <<>>]
Init == vvTid \in 1..Len(Traces) /\ vvPos = 0 /\ vvKey = <<>> /\ vvBad = 0
Next == /\ vvPos < Len(Traces[vvTid].ev)
        /\ \E j \in {Judge(Traces[vvTid].alg, vvKey, Traces[vvTid].ev[vvPos+1])} :
           /\ vvKey' = j.kp /\ vvPos' = vvPos + 1 /\ vvBad' = vvBad + Len(j.bad) /\ UNCHANGED vvTid
           /\ (j.bad # <<>> => PrintT(ToJson([tid |-> vvTid, step |-> vvPos+1, bad |-> j.bad])))
           /\ (vvPos + 1 = Len(Traces[vvTid].ev) => PrintT(ToJson([tid |-> vvTid, done |-> TRUE, nbad |-> vvBad'])))
=============================================================================
