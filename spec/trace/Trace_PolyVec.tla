---------------------------- MODULE Trace_PolyVec ----------------------------
(* Validates recorded executions of crysp.poly.Poly (C16) against base/PolyVec; same shape as Trace_BitVec. *)
EXTENDS PolyVec, Json, IOUtils, TLC
Traces == ndJsonDeserialize(IOEnv.TRACE_FILE)
VARIABLES vvTid, vvPos, vvObj, vvBad
C(name, exp) == [c |-> name, e |-> exp]
R(v) == [raise |-> FALSE, val |-> v]
X == [raise |-> TRUE, val |-> <<>>]
Pure(e) ==
  CASE e.op = "add" -> R(PAdd(e.k, e.l, e.r))
    [] e.op = "sub" -> R(PSub(e.k, e.l, e.r))
    [] e.op = "xor" -> R(PXor(e.k, e.l, e.r))
    [] e.op = "and" -> R(PAnd(e.k, e.l, e.r))
    [] e.op = "or"  -> R(POr(e.k, e.l, e.r))
    [] e.op = "neg" -> R(PNeg(e.k, e.l))
    [] e.op = "addneg" -> R(LET F(j) == CZ(e.k) IN Mk(F, Len(e.l)))            \* a + (-a) = 0
    [] e.op = "shl" -> R(PShl(e.k, e.l, e.n))
    [] e.op = "shr" -> R(PShr(e.k, e.l, e.n))
    [] e.op = "concat" -> R(PConcat(e.l, e.r))
    [] e.op = "split"  -> R(PSplit(e.l, e.k2, e.be))
    [] e.op = "mul"    -> R(PMul(e.k, e.l, e.r))                       \* the next four: beyond C16 (supplementary check X01)
    [] e.op = "degree" -> R(PDegree(e.k, e.l))
    [] e.op = "is_zero" -> R(PIsZero(e.k, e.l))
    [] e.op = "eq"     -> R(PEq(e.k, e.l, e.r))
    [] e.op = "pack"   -> R(PPack(e.l))
    [] e.op = "pack_be_frame" -> R(<<>>)          \* pack(a, ">L"): only "does not raise, leaves its operand alone" is judged (the harness records no value)
    [] e.op = "dim"    -> R(Len(e.l))
    [] e.op = "get_int"  -> IF PIdx(e.i, Len(e.l)) = -1 THEN X ELSE R(<<e.l[PIdx(e.i, Len(e.l)) + 1]>>)
    [] e.op = "get_slice" -> R(PGetList(e.l, SliceRange(e.start, e.stop, e.step, Len(e.l))))
    [] e.op = "get_list" -> R(PGetList(e.l, e.idx))
Mutate(o, e) ==
  CASE e.op = "set_int"   -> IF PIdx(e.i, Len(o)) = -1 THEN X ELSE R([o EXCEPT ![PIdx(e.i, Len(o)) + 1] = e.val[1]])
    [] e.op = "set_slice" -> R(PSetList(o, SliceRange(e.start, e.stop, e.step, Len(o)), e.val))
    [] e.op = "set_list"  -> R(PSetList(o, e.idx, e.val))
    [] e.op = "set_dim"   -> IF e.n <= 0 THEN X                                  \* a.dim = n: truncation or zero-extension (n > 0)
                             ELSE R(LET F(j) == IF j <= Len(o) THEN o[j] ELSE CZ(e.k) IN Mk(F, e.n))
IsMut(e) == e.op \in {"set_int", "set_slice", "set_list", "set_dim"}
Judge(o, e) ==
  IF IsMut(e)
  THEN LET m == Mutate(o, e) IN
       IF m.raise THEN [obj |-> o, bad |-> IF e.raised = "" THEN <<C("must-raise", "an exception")>> ELSE <<>>]
       ELSE [obj |-> m.val,
             bad |-> (IF e.raised # "" THEN <<C("must-not-raise", m.val)>> ELSE IF e.obj # m.val THEN <<C("object", m.val)>> ELSE <<>>)
                     \o (IF ~e.others_unchanged THEN <<C("operands-and-copies-unchanged", TRUE)>> ELSE <<>>)]
  ELSE LET p == Pure(IF "live" \in DOMAIN e THEN (IF e.live = "l" THEN [e EXCEPT !.l = o] ELSE [e EXCEPT !.r = o]) ELSE e) IN     \* live: one operand is the object under mutation, as SPECIFIED so far
       [obj |-> o,
        bad |-> (IF p.raise THEN (IF e.raised = "" THEN <<C("must-raise", "an exception")>> ELSE <<>>)
                 ELSE IF e.raised # "" THEN <<C("must-not-raise", p.val)>>
                 ELSE IF e.obs # p.val THEN <<C("value", p.val)>> ELSE <<>>)
                \o (IF ~e.others_unchanged THEN <<C("operands-unchanged", TRUE)>> ELSE <<>>)]
Init == vvTid \in 1..Len(Traces) /\ vvPos = 0 /\ vvObj = Traces[vvTid].obj0 /\ vvBad = 0
Next == /\ vvPos < Len(Traces[vvTid].ev)
        /\ \E j \in {LET e == Traces[vvTid].ev[vvPos+1] IN Judge(vvObj, e)} :     \* bound once (an action-level LET would be re-evaluated at every use)
           /\ vvObj' = j.obj /\ vvPos' = vvPos + 1 /\ vvBad' = vvBad + Len(j.bad) /\ UNCHANGED vvTid
           /\ (j.bad # <<>> => PrintT(ToJson([tid |-> vvTid, step |-> vvPos+1, bad |-> j.bad])))
           /\ (vvPos + 1 = Len(Traces[vvTid].ev) => PrintT(ToJson([tid |-> vvTid, done |-> TRUE, nbad |-> vvBad'])))
=============================================================================
