---------------------------- MODULE Trace_Combinat ----------------------------
(* Validates recorded calls of permutk / nextperm / combink / exactsum / dynprog (C20) against base/Combinat. *)
(* The specified functions have no state: each event is judged on its own, at every position of a call history. *)
EXTENDS Combinat, Json, IOUtils
Traces == ndJsonDeserialize(IOEnv.TRACE_FILE)
VARIABLES vvTid, vvPos, vvBad
C(name, exp) == [c |-> name, e |-> exp]
NoRaise(e, rest) == IF e.raised # "" THEN <<C("must-not-raise", "a value")>> ELSE rest
Judge(e) ==
  CASE e.op = "permutk" -> NoRaise(e, (IF ~PermutkOk(e.l, e.k, e.obs) THEN <<C("arrangements", [count |-> Fact(Len(e.l) - e.k), each |-> Multiplicity(e.l, e.k)])>> ELSE <<>>)
                                      \o (IF e.after # e.l THEN <<C("list-restored", e.l)>> ELSE <<>>))
    [] e.op = "nextperm" -> NoRaise(e, IF e.obs # NextPerm(e.l) THEN <<C("successor", NextPerm(e.l))>> ELSE <<>>)
    [] e.op = "combink"  -> NoRaise(e, IF e.obs # Combinations(e.l, e.p) THEN <<C("combinations", Combinations(e.l, e.p))>> ELSE <<>>)
    [] e.op \in {"exactsum", "dynprog"} ->
         IF Len(e.items) > 14                     \* long lists: existence by the reachable-sums recurrence; minimality is not judged
         THEN NoRaise(e, IF ~SolvableDP(e.items, e.s) THEN (IF e.kind # "fail" THEN <<C("must-report-failure", "no sub-collection sums to the target")>> ELSE <<>>)
                         ELSE IF e.kind # "list" THEN <<C("must-return-a-sub-collection", e.s)>>
                         ELSE IF ~AnswerOk(e.items, e.s, e.obs) THEN <<C("answer-is-a-sub-collection-with-the-sum", e.s)>> ELSE <<>>)
         ELSE
         NoRaise(e, IF ~Solvable(e.items, e.s)
                    THEN (IF e.kind # "fail" THEN <<C("must-report-failure", "no sub-collection sums to the target")>> ELSE <<>>)
                    ELSE IF e.kind # "list" THEN <<C("must-return-a-sub-collection", [min |-> MinCard(e.items, e.s)])>>
                    ELSE IF ~AnswerOk(e.items, e.s, e.obs) THEN <<C("answer-is-a-sub-collection-with-the-sum", e.s)>>
                    ELSE IF e.op = "dynprog" /\ Len(e.obs) # MinCard(e.items, e.s) THEN <<C("minimal-cardinality", MinCard(e.items, e.s))>>
                    ELSE <<>>)
Init == vvTid \in 1..Len(Traces) /\ vvPos = 0 /\ vvBad = 0
Next == /\ vvPos < Len(Traces[vvTid].ev)
        /\ \E bad \in {Judge(Traces[vvTid].ev[vvPos+1])} :
           /\ vvPos' = vvPos + 1 /\ vvBad' = vvBad + Len(bad) /\ UNCHANGED vvTid
           /\ (bad # <<>> => PrintT(ToJson([tid |-> vvTid, step |-> vvPos+1, bad |-> bad])))
           /\ (vvPos + 1 = Len(Traces[vvTid].ev) => PrintT(ToJson([tid |-> vvTid, done |-> TRUE, nbad |-> vvBad'])))
=============================================================================
