----------------------------- MODULE Trace_Skein -----------------------------
(* Validates recorded Skein / UBI calls (C12) against sys/Skein (Skein 1.3). *)
EXTENDS Skein, Json, IOUtils, TLC, Integers
Traces == ndJsonDeserialize(IOEnv.TRACE_FILE)
VARIABLES vvTid, vvPos, vvBad
C(name, exp) == [c |-> name, e |-> exp]
Want(e, exp) == IF e.raised # "" THEN <<C("must-not-raise", exp)>>
                ELSE (IF e.obs # exp THEN <<C("value", exp)>> ELSE <<>>) \o (IF Len(e.obs) # Len(exp) THEN <<C("output-length", Len(exp))>> ELSE <<>>)
Judge(e) ==
  LET L == IF e.bitlen < 0 THEN 8 * Len(e.m) ELSE e.bitlen IN
  CASE e.op = "skein" -> Want(e, SkeinFull(e.Nb, e.No, e.m, L, e.key, e.haskey, e.prs, e.PK, e.kdf, e.nonce, e.Yl, e.Yf, e.Ym))
    [] e.op = "ubi"   -> Want(e, Ubi(e.G, e.m, L, e.type, e.level, e.pos0))
Init == vvTid \in 1..Len(Traces) /\ vvPos = 0 /\ vvBad = 0
Next == /\ vvPos < Len(Traces[vvTid].ev)
        /\ \E bad \in {Judge(Traces[vvTid].ev[vvPos+1])} :
           /\ vvPos' = vvPos + 1 /\ vvBad' = vvBad + Len(bad) /\ UNCHANGED vvTid
           /\ (bad # <<>> => PrintT(ToJson([tid |-> vvTid, step |-> vvPos+1, bad |-> bad])))
           /\ (vvPos + 1 = Len(Traces[vvTid].ev) => PrintT(ToJson([tid |-> vvTid, done |-> TRUE, nbad |-> vvBad'])))
=============================================================================
