------------------------------ MODULE Trace_Crc ------------------------------
(* Validates recorded calls of crysp/crc.py (C15) against prim/Crc: crc32, generic reflected CRCs, the backward *)
(* computation and the forging helpers (judged by their POSTCONDITION, not by one particular patch).            *)
EXTENDS Crc, Json, IOUtils, TLC, Integers
Traces == ndJsonDeserialize(IOEnv.TRACE_FILE)
VARIABLES vvTid, vvPos, vvBad
C(name, exp) == [c |-> name, e |-> exp]
Want(e, exp) == IF e.raised # "" THEN <<C("must-not-raise", exp)>> ELSE IF e.obs # exp THEN <<C("value", exp)>> ELSE <<>>
Judge(e) ==
  CASE e.op = "crc32" -> Want(e, Crc32(e.data))
    [] e.op = "crc"   -> Want(e, CrcBitwise(e.P, e.data, e.init, e.final))
    [] e.op = "back"  -> Want(e, CrcRegBitwise(e.P, SubSeq(e.data, 1, e.pos), e.init))     \* register after data[:pos]
    [] e.op = "crc32r" -> Want(e, Crc32Runs(e.runs))                                          \* data run-length encoded <<byte, count>>.. (long inputs)
    [] e.op = "crcr"  -> Want(e, CrcRuns(e.P, e.runs, e.init, e.final))
    [] e.op = "fixr"  -> \* long forgeries: the recorder gives the canonical run-length encoding of input and result on both sides of the window
                         IF e.raised # "" THEN <<C("must-not-raise", "patched data")>>
                         ELSE IF e.olen # e.dlen \/ RunsLen(e.ohead) + Len(e.owin) + RunsLen(e.otail) # e.dlen \/ Len(e.owin) # 4 THEN <<C("same-length", e.dlen)>>
                         ELSE IF e.ohead # e.dhead \/ e.otail # e.dtail THEN <<C("only-the-four-designated-bytes-change", RunsLen(e.dhead))>>
                         ELSE LET got == Crc32Runs(e.ohead \o [q \in 1..4 |-> <<e.owin[q], 1>>] \o e.otail)
                              IN IF got # e.target THEN <<C("crc32-of-result-is-the-target", [got |-> got, target |-> e.target])>> ELSE <<>>
    [] e.op = "fix"   -> IF e.raised # "" THEN <<C("must-not-raise", "patched data")>>
                         ELSE IF Len(e.obs) # Len(e.data) THEN <<C("same-length", Len(e.data))>>
                         ELSE IF \E q \in 1..Len(e.data) : (q <= e.pos \/ q > e.pos + 4) /\ e.obs[q] # e.data[q] THEN <<C("only-the-four-designated-bytes-change", e.pos)>>
                         ELSE IF Crc32(e.obs) # e.target THEN <<C("crc32-of-result-is-the-target", [got |-> Crc32(e.obs), target |-> e.target])>>
                         ELSE <<>>
Init == vvTid \in 1..Len(Traces) /\ vvPos = 0 /\ vvBad = 0
Next == /\ vvPos < Len(Traces[vvTid].ev)
        /\ \E bad \in {Judge(Traces[vvTid].ev[vvPos+1])} :
           /\ vvPos' = vvPos + 1 /\ vvBad' = vvBad + Len(bad) /\ UNCHANGED vvTid
           /\ (bad # <<>> => PrintT(ToJson([tid |-> vvTid, step |-> vvPos+1, bad |-> bad])))
           /\ (vvPos + 1 = Len(Traces[vvTid].ev) => PrintT(ToJson([tid |-> vvTid, done |-> TRUE, nbad |-> vvBad'])))
=============================================================================
