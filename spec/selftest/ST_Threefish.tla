---- MODULE ST_Threefish ----
(* spec self-test: Threefish.tla against spec/kat/threefish.ndjson (official vectors of the Skein
   submission as typed in /repo/tests/test_threefish.py + tools/pyref/ref_skein.py), both directions *)
EXTENDS Threefish, Json, IOUtils, TLC
KAT == ndJsonDeserialize(IOEnv.KAT_FILE)
VARIABLES k, verdict
Init == k \in 1..Len(KAT) /\ verdict = "pending"
Next == /\ verdict = "pending" /\ UNCHANGED k
        /\ LET e == KAT[k]
               c == ThreefishEnc(e.key, e.tweak, e.pt)
               p == ThreefishDec(e.key, e.tweak, e.ct)
               q == ThreefishEnc(e.key, e.tweak, ThreefishDec(e.key, e.tweak, e.pt))   \* Enc o Dec = id off the KAT pair
           IN /\ verdict' = IF c = e.ct /\ p = e.pt /\ q = e.pt THEN "ok" ELSE "bad"
              /\ PrintT(ToJson([k |-> k, verdict |-> verdict', got |-> c, gotdec |-> p]))
====
