---- MODULE ST_AesThm ----
(* Spec-internal theorems about GF256.tla / Aes.tla (ASSUMEs only, no known-answer file).           *)
(* NB: ASSUMEs are evaluated on the JVM main thread (small stack): keep recursion shallow here.     *)
EXTENDS Aes, FiniteSets, TLC

Bytes == 0..255

\* ---- GF(2^8) ------------------------------------------------------------------------------------
\* worked examples of FIPS 197 s.4.2 and s.4.2.1
ASSUME GMul(87, 131) = 193                                   \* {57} . {83} = {c1}
ASSUME GMul(87, 19) = 254                                    \* {57} . {13} = {fe}
ASSUME XTime(87) = 174 /\ XTime(174) = 71 /\ XTime(71) = 142 /\ XTime(142) = 7    \* {57}->{ae}->{47}->{8e}->{07}
ASSUME \A a \in Bytes : XTime(a) = GMul(2, a) /\ GMul(1, a) = a /\ GMul(0, a) = 0 /\ GMul(a, 0) = 0
\* exhaustive 256 x 256: commutativity
ASSUME \A a \in Bytes : \A b \in Bytes : GMul(a, b) = GMul(b, a)
\* exhaustive 256 x 256 against the definition of s.4.2 read literally: multiply the polynomials over GF(2)
\* (carry-less product, degree <= 14), then reduce modulo m(x) = x^8 + x^4 + x^3 + x + 1 = {01}{1b} = 283
ClMul(a, b) == LET T(i) == IF (a \div 2^i) % 2 = 1 THEN b * 2^i ELSE 0
               IN ((T(0) ^^ T(1)) ^^ (T(2) ^^ T(3))) ^^ ((T(4) ^^ T(5)) ^^ (T(6) ^^ T(7)))
Red(p, d) == IF (p \div 2^d) % 2 = 1 THEN p ^^ (283 * 2^(d-8)) ELSE p        \* cancel the term of degree d >= 8
ModM(p) == Red(Red(Red(Red(Red(Red(Red(p, 14), 13), 12), 11), 10), 9), 8)
ASSUME \A a \in Bytes : \A b \in Bytes : GMul(a, b) = ModM(ClMul(a, b))
\* inverses
ASSUME GInv(0) = 0
ASSUME \A a \in 1..255 : GMul(a, GInv(a)) = 1 /\ GInv(a) \in 1..255
ASSUME \A a \in Bytes : GPow(a, 0) = 1 /\ GPow(a, 1) = a /\ GPow(a, 2) = GMul(a, a) /\ GPow(a, 255) = (IF a = 0 THEN 0 ELSE 1)
\* distributivity over xor and associativity, on a sample (all a; b, c in a 16-element set)
Sample == {0, 1, 2, 3, 9, 11, 13, 14, 27, 83, 87, 99, 128, 131, 202, 255}
ASSUME \A a \in Bytes : \A b \in Sample : \A c \in Sample :
          /\ GMul(a, b ^^ c) = GMul(a, b) ^^ GMul(a, c)
          /\ GMul(GMul(a, b), c) = GMul(a, GMul(b, c))

\* ---- S-boxes ------------------------------------------------------------------------------------
ASSUME Len(SBox) = 256 /\ Len(InvSBox) = 256
ASSUME SBox[1] = 99                                          \* S(00) = 63
ASSUME SBox[83 + 1] = 237                                    \* S(53) = ed  (example of s.5.1.1)
ASSUME SBox[256] = 22 /\ InvSBox[1] = 82                     \* S(ff) = 16, InvS(00) = 52 (fig. 7, fig. 14)
ASSUME {SBox[v+1] : v \in Bytes} = Bytes                     \* a permutation of 0..255
ASSUME {InvSBox[v+1] : v \in Bytes} = Bytes
ASSUME \A v \in Bytes : InvSBox[SBox[v+1] + 1] = v /\ SBox[InvSBox[v+1] + 1] = v
ASSUME \A v \in Bytes : SBox[v+1] # v /\ SBox[v+1] # 255 - v    \* no fixed point, no "opposite" fixed point
ASSUME \A v \in Bytes : InvAffine(Affine(v)) = v

\* ---- round transformations ----------------------------------------------------------------------
\* the 128 states with exactly one bit set (MixColumns, ShiftRows, AddRoundKey are GF(2)-linear)
Unit(j) == LET F(i) == IF i = j \div 8 THEN 2^(j % 8) ELSE 0 IN BuildW(F, 0, 16, <<>>)
Idx == <<0,1,2,3,4,5,6,7,8,9,10,11,12,13,14,15>>
ASSUME ShiftRows(Idx) = <<0,5,10,15, 4,9,14,3, 8,13,2,7, 12,1,6,11>>          \* fig. 8, column by column
ASSUME \A j \in 0..127 : LET s == Unit(j) IN
          /\ InvShiftRows(ShiftRows(s)) = s /\ ShiftRows(InvShiftRows(s)) = s
          /\ InvMixColumns(MixColumns(s)) = s /\ MixColumns(InvMixColumns(s)) = s
          /\ InvSubBytes(SubBytes(s)) = s
          /\ AddRoundKey(AddRoundKey(s, Idx), Idx) = s
\* appendix B, round 1: column d4 bf 5d 30 -> 04 66 81 e5
ASSUME MixCol(212, 191, 93, 48) = <<4, 102, 129, 229>>
ASSUME InvMixCol(4, 102, 129, 229) = <<212, 191, 93, 48>>

\* ---- key expansion ------------------------------------------------------------------------------
ASSUME <<Rcon(1), Rcon(2), Rcon(3), Rcon(4), Rcon(5), Rcon(6), Rcon(7), Rcon(8), Rcon(9), Rcon(10)>>
       = <<1, 2, 4, 8, 16, 32, 64, 128, 27, 54>>
\* appendix A.1 / A.2 / A.3: last word of the schedule (w43 = b6630ca6, w51 = 01002202, w59 = 706c631e)
K128 == <<43,126,21,22,40,174,210,166,171,247,21,136,9,207,79,60>>
K192 == <<142,115,176,247,218,14,100,82,200,16,243,43,128,144,121,229,98,248,234,210,82,44,107,123>>
K256 == <<96,61,235,16,21,202,113,190,43,115,174,240,133,125,119,129,31,53,44,7,59,97,8,215,45,152,16,163,9,20,223,244>>
ASSUME LET rks == AesKeyExpansion(K128) IN Len(rks) = 11 /\ rks[1] = K128 /\ SubSeq(rks[11], 13, 16) = <<182, 99, 12, 166>>
ASSUME LET rks == AesKeyExpansion(K192) IN Len(rks) = 13 /\ SubSeq(rks[13], 13, 16) = <<1, 0, 34, 2>>
ASSUME LET rks == AesKeyExpansion(K256) IN Len(rks) = 15 /\ SubSeq(rks[15], 13, 16) = <<112, 108, 99, 30>>
ASSUME PrintT("ST_AesThm ok")
====
