---- MODULE ST_Sha2 ----
(* spec self-test: Sha2.tla against hashlib outputs frozen in spec/kat/sha2.ndjson *)
EXTENDS Sha2, MDPad, Json, IOUtils, TLC
KAT == ndJsonDeserialize(IOEnv.KAT_FILE)
VARIABLES k, verdict
Digest(size, t, m) ==
  LET big == Sha2Big(size)  B == IF big THEN 128 ELSE 64
      p == PadMD(m, 8*Len(m), B, LenFieldNat(8*Len(m), IF big THEN 16 ELSE 8, TRUE), 0)
      F(h, blk) == Sha2Compress(big, h, blk)
  IN Sha2Out(size, t, FoldBlocks(F, Sha2IV(size, t), p, B, 0))
Init == k \in 1..Len(KAT) /\ verdict = "pending"
Next == /\ verdict = "pending" /\ UNCHANGED k
        /\ LET e == KAT[k]  d == Digest(e.size, e.t, e.m) IN
           /\ verdict' = IF d = e.d THEN "ok" ELSE "bad"
           /\ PrintT(ToJson([k |-> k, verdict |-> verdict', got |-> d]))
====
