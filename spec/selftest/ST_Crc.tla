---- MODULE ST_Crc ----
(* spec self-test: Crc.tla against zlib.crc32 and an independent bit-by-bit reflected CRC       *)
(* (tools/gen_kat_crc.py) frozen in spec/kat/crc.ndjson.  For each known answer: the bitwise     *)
(* and the table-driven evaluation, Crc32 for kind "crc32", and the backward walk from the       *)
(* final register to init.                                                                       *)
EXTENDS Crc, Json, IOUtils, TLC
KAT == ndJsonDeserialize(IOEnv.KAT_FILE)
VARIABLES k, verdict
\* NB: everything is computed inside one expression-level LET: TLC does not cache the definitions of a LET
\* that encloses primed conjuncts (action level), each use would recompute the CRCs.
Run(kk) == LET e == KAT[kk]
               T == CrcTable(e.poly)
               b == CrcBitwise(e.poly, e.m, e.init, e.final)
               t == CrcTabled(e.poly, e.m, e.init, e.final)
               z == IF e.kind = "crc32" THEN Crc32(e.m) ELSE e.crc
               back == CrcRegBack(e.poly, e.m, CrcXor(e.crc, e.final))
               m40 == SubSeq(e.m, 1, IF Len(e.m) < 40 THEN Len(e.m) ELSE 40)      \* the table search is slow: a prefix
               backT == CrcRegBackTabled(e.poly, T, m40, CrcRegTabled(T, m40, e.init))
               ok == /\ b = e.crc /\ t = e.crc /\ z = e.crc
                     /\ CrcWidth(e.poly) = e.w
                     /\ back = e.init /\ backT = e.init
               v == IF ok THEN "ok" ELSE "bad"
           IN IF PrintT(ToJson([k |-> kk, verdict |-> v, got |-> b, tabled |-> t, back |-> back])) THEN v ELSE v
Init == k \in 1..Len(KAT) /\ verdict = "pending"
Next == verdict = "pending" /\ UNCHANGED k /\ verdict' = Run(k)
====
