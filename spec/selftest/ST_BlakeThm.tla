---- MODULE ST_BlakeThm ----
(* spec-internal facts about Blake.tla / Blake2.tla *)
EXTENDS Blake2, TLC
\* every Sigma row is a permutation of 0..15
ASSUME Len(Sigma) = 10
ASSUME \A r \in 1..10 : Len(Sigma[r]) = 16 /\ {Sigma[r][i] : i \in 1..16} = 0..15
ASSUME \A i \in 1..16 : Sigma[1][i] = i - 1
\* the 32-bit constants are the halves of the first eight 64-bit constants (same digits of pi)
ASSUME Len(BlakeC32) = 16 /\ Len(BlakeC64) = 16
ASSUME \A i \in 1..8 : /\ BlakeC64[i] = <<BlakeC32[2*i][1], BlakeC32[2*i][2], BlakeC32[2*i-1][1], BlakeC32[2*i-1][2]>>
ASSUME \A i \in 1..16 : /\ Len(BlakeC32[i]) = 2 /\ Len(BlakeC64[i]) = 4
                        /\ \A j \in 1..2 : BlakeC32[i][j] \in 0..65535
                        /\ \A j \in 1..4 : BlakeC64[i][j] \in 0..65535
\* the parameter block has the size of the chaining value; defaults of sequential mode:
\* h0 = IV xor 0x0101kknn in the first word only (RFC 7693 s.2.5)
Z2 == <<0, 0>>
Z4 == <<0, 0, 0, 0>>
ASSUME Len(Blake2ParamBlock(TRUE, 64, 0, 1, 1, Z2, Z4, 0, 0, <<>>, <<>>)) = 64
ASSUME Len(Blake2ParamBlock(FALSE, 32, 0, 1, 1, Z2, Z4, 0, 0, <<>>, <<>>)) = 32
ASSUME Blake2Params(TRUE, 64, 0, 1, 1, Z2, Z4, 0, 0, <<>>, <<>>)
       = <<WXor(IV512[1], W64(0, 0, \h0101, \h0040)), IV512[2], IV512[3], IV512[4], IV512[5], IV512[6], IV512[7], IV512[8]>>
ASSUME Blake2Params(FALSE, 32, 16, 1, 1, Z2, Z4, 0, 0, <<>>, <<>>)
       = <<WXor(IV256[1], W32(\h0101, \h1020)), IV256[2], IV256[3], IV256[4], IV256[5], IV256[6], IV256[7], IV256[8]>>
\* G is a permutation of the four state words for fixed message input (spot check of invertibility
\* is not cheap); instead: the mix with all-zero input is the zero map, both variants
ASSUME BlakeMix(Z2, Z2, Z2, Z2, Z2, Z2, 16, 12, 8, 7) = <<Z2, Z2, Z2, Z2>>
ASSUME BlakeMix(Z4, Z4, Z4, Z4, Z4, Z4, 32, 24, 16, 63) = <<Z4, Z4, Z4, Z4>>
\* padding: the marker-bit position exists in all four variants (447 / 895 message bits spill into a second
\* block); 446 / 894 bits still fit; byte lengths 55/56 (111/112) are the one-block / two-block boundary
M200 == Rep(255, 200)
ASSUME \A size \in {224, 256} : /\ Len(BlakePad(size, M200, 446)) = 64  /\ Len(BlakePad(size, M200, 447)) = 128
                                /\ Len(BlakePad(size, M200, 8*55)) = 64 /\ Len(BlakePad(size, M200, 8*56)) = 128
ASSUME \A size \in {384, 512} : /\ Len(BlakePad(size, M200, 894)) = 128  /\ Len(BlakePad(size, M200, 895)) = 256
                                /\ Len(BlakePad(size, M200, 8*111)) = 128 /\ Len(BlakePad(size, M200, 8*112)) = 256
\* 224 and 256 (384 and 512) paddings differ exactly in the lowest bit of the byte before the length field
ASSUME \A L \in {0, 1, 7, 8, 439, 440, 441, 446, 447, 448, 511, 512} :
         LET p == BlakePad(224, M200, L)  q == BlakePad(256, M200, L)  j == Len(p) - 8 IN
         /\ Len(p) = Len(q) /\ q[j] = p[j] + 1 /\ (p[j] % 2) = 0
         /\ \A i \in 1..Len(p) : i # j => p[i] = q[i]
ASSUME \A L \in {0, 887, 888, 889, 894, 895, 896, 1023, 1024} :
         LET p == BlakePad(384, M200, L)  q == BlakePad(512, M200, L)  j == Len(p) - 16 IN
         /\ Len(p) = Len(q) /\ q[j] = p[j] + 1 /\ (p[j] % 2) = 0
         /\ \A i \in 1..Len(p) : i # j => p[i] = q[i]
\* counter: bits so far, 0 for a block without message bits
ASSUME BlakeCtr(256, 512, 0) = <<W32(0, 512), W32(0, 0)>> /\ BlakeCtr(256, 512, 1) = <<W32(0, 0), W32(0, 0)>>
ASSUME BlakeCtr(256, 513, 1) = <<W32(0, 513), W32(0, 0)>> /\ BlakeCtr(256, 0, 0) = <<W32(0, 0), W32(0, 0)>>
ASSUME BlakeCtr(512, 895, 0) = <<W64(0, 0, 0, 895), W64(0, 0, 0, 0)>> /\ BlakeCtr(512, 895, 1) = <<W64(0,0,0,0), W64(0,0,0,0)>>
ASSUME PrintT("ST_BlakeThm ok")
====
