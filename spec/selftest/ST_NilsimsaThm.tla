---- MODULE ST_NilsimsaThm ----
(* Spec-internal theorems of Nilsimsa.tla (ASSUMEs, no known answers).                            *)
EXTENDS Nilsimsa, TLC
\* the TRAN table that the later ports of nilsimsa (e.g. py-nilsimsa) carry as a literal, typed from
\* memory in tools/gen_kat_nilsimsa.py (TRAN_LIT): the generator reproduces it
TranLit == <<  2, 214, 158, 111, 249,  29,   4, 171, 208,  34,  22,  31, 216, 115, 161, 172,
             59, 112,  98, 150,  30, 110, 143,  57, 157,   5,  20,  74, 166, 190, 174,  14,
            207, 185, 156, 154, 199, 104,  19, 225,  45, 164, 235,  81, 141, 100, 107,  80,
             35, 128,   3,  65, 236, 187, 113, 204, 122, 134, 127, 152, 242,  54,  94, 238,
            142, 206,  79, 184,  50, 182,  95,  89, 220,  27,  49,  76, 123, 240,  99,   1,
            108, 186,   7, 232,  18, 119,  73,  60, 218,  70, 254,  47, 121,  28, 155,  48,
            227,   0,   6, 126,  46,  15,  56,  51,  33, 173, 165,  84, 202, 167,  41, 252,
             90,  71, 105, 125, 197, 149, 181, 244,  11, 144, 163, 129, 109,  37,  85,  53,
            245, 117, 116,  10,  38, 191,  25,  92,  26, 198, 255, 153,  93, 132, 170, 102,
             62, 175, 120, 179,  32,  67, 193, 237,  36, 234, 230,  63,  24, 243, 160,  66,
             87,   8,  83,  96, 195, 192, 131,  64, 130, 215,   9, 189,  68,  42, 103, 168,
            147, 224, 194,  86, 159, 217, 221, 133,  21, 180, 138,  39,  40, 146, 118, 222,
            239, 248, 178, 183, 201,  61,  69, 148,  75,  17,  13, 101, 213,  52, 139, 145,
             12, 250, 135, 233, 124,  91, 177,  77, 229, 212, 203,  16, 162,  23, 137, 188,
            219, 176, 226, 151, 136,  82, 247,  72, 211,  97,  44,  58,  43, 209, 140, 251,
            241, 205, 228, 106, 231, 169, 253, 196,  55, 200, 210, 246, 223,  88, 114,  78>>
ASSUME NilTran53 = TranLit
ASSUME NilTran53[1] = 2 /\ NilTran53[2] = 214 /\ NilTran53[3] = 158 /\ NilTran53[4] = 111    \* 02 D6 9E 6F
ASSUME Len(NilTran53) = 256
\* tran is a permutation of 0..255, also for other multipliers (tran[0] = 2 whatever the multiplier)
ASSUME \A t \in {0, 1, 2, 17, 53, 54, 127, 128, 255} :
         LET T == NilTran(t) IN {T[i] : i \in 1..256} = 0..255 /\ T[1] = 2
\* only the multiplier modulo 256 matters (python's & on big / negative integers)
ASSUME NilTran(53 + 256) = NilTran53 /\ NilTran(53 - 256) = NilTran53 /\ NilTran(17 + 65536) = NilTran(17)
\* tran3: definition instances computed by hand from the table
\*   tran3(0,0,0,0) = ((tran[0] ^ tran[0]*1) + tran[0 ^ tran[0]]) & 255 = (0 + tran[2]) & 255 = 158
ASSUME tran3(0, 0, 0, 0) = 158
\*   tran3(255,1,2,7) = ((tran[(255+7)&255] ^ tran[1]*15) + tran[2 ^ tran[7]]) & 255
ASSUME tran3(255, 1, 2, 7) = ((NilTran53[7] ^^ (214 * 15)) + NilTran53[(2 ^^ NilTran53[8]) + 1]) % 256
ASSUME \A a, b \in {0, 97, 255} : \A cc \in {0, 128} : \A n \in 0..7 : tran3(a, b, cc, n) \in 0..255
\* the state: window keeps the last 4 bytes, most recent first; NilTotal is the number of counted trigrams
Msg == <<10, 20, 30, 40, 50, 60, 70>>
RECURSIVE SumSeq(_,_,_)
SumSeq(s, i, acc) == IF i > Len(s) THEN acc ELSE SumSeq(s, i+1, acc + s[i])
ASSUME NilInit \in NilsimsaState
ASSUME \A n \in 0..7 : LET st == NilUpdate(NilInit, SubSeq(Msg, 1, n)) IN
         /\ st.count = n
         /\ st.window = [i \in 1..(IF n < 4 THEN n ELSE 4) |-> Msg[n + 1 - i]]
         /\ SumSeq(st.acc, 1, 0) = NilTotal(n)
         /\ Len(NilDigest(st)) = 32
ASSUME NilTotal(0) = 0 /\ NilTotal(2) = 0 /\ NilTotal(3) = 1 /\ NilTotal(4) = 4 /\ NilTotal(5) = 12 /\ NilTotal(6) = 20
\* fewer than 3 bytes: nothing is counted, the digest is zero
ASSUME Nilsimsa(<<>>) = Rep(0, 32) /\ Nilsimsa(<<1, 2>>) = Rep(0, 32)
\* 3 bytes: exactly one counter is 1 > 0 = threshold: one bit, at byte 31 - (i >> 3), bit i & 7, i = tran3(c3, c2, c1, 0)
ASSUME LET i == tran3(30, 20, 10, 0)  d == Nilsimsa(<<10, 20, 30>>) IN
         /\ NilPopCount(d) = 1 /\ d[(31 - (i \div 8)) + 1] = P2[(i % 8) + 1]
\* incremental = one shot
ASSUME NilUpdate(NilUpdate(NilInit, <<10, 20, 30>>), <<40, 50, 60, 70>>) = NilUpdate(NilInit, Msg)
\* comparison
D1 == Nilsimsa(Msg)
D2 == Nilsimsa(<<10, 20, 30, 41, 50, 60, 70>>)
ASSUME NilDistance(D1, D1) = 0 /\ NilScore(D1, D1) = 128
ASSUME NilDistance(D1, D2) = NilDistance(D2, D1) /\ NilDistance(D1, D2) > 0
ASSUME NilDistance(D1, [i \in 1..32 |-> 255 - D1[i]]) = 256 /\ NilScore(D1, [i \in 1..32 |-> 255 - D1[i]]) = -128
ASSUME NilPopCount(<<255, 1, 0, 128, 170>>) = 14
ASSUME PrintT("ST_NilsimsaThm ok")
====
