---- MODULE ST_Chacha ----
(* spec self-test: Chacha.tla against the known answers frozen in spec/kat/chacha.ndjson
   (OpenSSL enc -chacha20, vectors of /repo/tests/test_chacha.py, tools/gen_kat_chacha.py) *)
EXTENDS Chacha, Json, IOUtils, TLC
KAT == ndJsonDeserialize(IOEnv.KAT_FILE)
VARIABLES k, verdict
Init == k \in 1..Len(KAT) /\ verdict = "pending"
Next == /\ verdict = "pending" /\ UNCHANGED k
        /\ LET e == KAT[k]  d == ChachaXor(e.key, e.nonce, e.ctr, e.rounds, e.m) IN
           /\ verdict' = IF d = e.out THEN "ok" ELSE "bad"
           /\ PrintT(ToJson([k |-> k, verdict |-> verdict', got |-> d]))
\* segment law used by C06 for long messages: the output from byte 64c on is the rest of the message xor the keystream from block ctr0 + c
ASSUME LET key == [q \in 1..32 |-> (q * 7) % 256]  nonce == <<1, 2, 3, 4, 5, 6, 7, 8>>  m == [q \in 1..150 |-> (q * 11) % 256]
           c0 == <<65535, 65535, 0, 0>>                                   \* the carry into the next limb lies inside the message
       IN \A r \in {8, 20} : ChachaXor(key, nonce, c0, r, m) = ChachaXor(key, nonce, c0, r, SubSeq(m, 1, 64)) \o ChachaXor(key, nonce, WAddNat(c0, 1), r, SubSeq(m, 65, 150))
====
