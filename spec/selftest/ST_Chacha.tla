---- MODULE ST_Chacha ----
(* spec self-test: Chacha.tla against the known answers frozen in spec/kat/chacha.ndjson
   (OpenSSL enc -chacha20, vectors of /repo/tests/test_chacha.py, tools/gen_kat_chacha.py) *)
EXTENDS Chacha, Json, IOUtils, TLC
KAT == ndJsonDeserialize(IOEnv.KAT_FILE)
VARIABLES k, verdict
Init == k \in 1..Len(KAT) /\ verdict = "pending"
Next == /\ verdict = "pending" /\ UNCHANGED k
        /\ LET e == KAT[k]  d == ChachaXor(e.key, e.nonce, e.ctr, e.rounds, e.m) IN
           /\ verdict' = IF d = e.out THEN "ok" ELSE "bad"
           /\ PrintT(ToJson([k |-> k, verdict |-> verdict', got |-> d]))
====
