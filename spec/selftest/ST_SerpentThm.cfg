CONSTANTS
