CONSTANTS
