---- MODULE ST_TlshThm ----
(* spec-internal facts about Tlsh.tla, checked by TLC as assumptions *)
EXTENDS Tlsh, TLC
\* Pearson's table is a permutation of 0..255
ASSUME Len(PearsonT) = 256 /\ {PearsonT[i] : i \in 1..256} = 0..255
\* the reference's fast_b_mapping() is called with these pre-hashed salts v_table[salt] (recalled independently)
Fast == << <<0,1>>, <<2,49>>, <<3,12>>, <<5,178>>, <<7,166>>, <<11,84>>, <<13,230>>, <<17,197>>, <<19,181>>, <<23,80>>,
           <<29,142>>, <<31,200>>, <<37,253>>, <<41,101>>, <<43,18>>, <<47,222>>, <<53,237>>, <<59,214>>, <<61,227>>,
           <<67,22>>, <<71,175>>, <<73,5>> >>
ASSUME \A i \in 1..Len(Fast) : PearsonT[Fast[i][1] + 1] = Fast[i][2]
ASSUME \A s, a \in {0, 1, 77, 255} : BMap(s, a, 3, 200) = PearsonT[(PearsonT[(PearsonT[(PearsonT[s+1] ^^ a)+1] ^^ 3)+1] ^^ 200)+1]
\* triplets: salts are the first primes in order; a window of size w uses every pair of older positions
\* exactly once: {a, b} ranges over the 2-subsets of 1..w-1, C(w-1, 2) triplets
IsPrime(n) == n > 1 /\ \A d \in 2..(n-1) : (n % d) # 0
Primes == {n \in 2..73 : IsPrime(n)}
ASSUME \A w \in 4..8 : LET t == TlshTriplets(w) IN
         /\ Len(t) = ((w-1) * (w-2)) \div 2
         /\ \A i \in 1..Len(t) : t[i][1] \in Primes /\ Cardinality({p \in Primes : p < t[i][1]}) = i - 1
         /\ \A i \in 1..Len(t) : 1 <= t[i][2] /\ t[i][2] < t[i][3] /\ t[i][3] <= w - 1
         /\ {{t[i][2], t[i][3]} : i \in 1..Len(t)} = {{a, b} : a, b \in 1..(w-1)} \ {{a} : a \in 1..(w-1)}
\* L value: strictly increasing thresholds, spot values of floor(log_1.5 len), the seams 656/657 and 3199/3200
ASSUME \A i \in 1..(Len(TlshLThresh) - 1) : TlshLThresh[i] < TlshLThresh[i+1]
ASSUME Len(TlshLThresh) < 256
\* len <= 656: L = floor(log_1.5 len), i.e. 1.5^L <= len < 1.5^(L+1)   (all values < 2^31: 3^16, 656 * 2^16)
ASSUME \A n \in 1..656 : LET l == TlshLvalue(n) IN (3^l <= n * 2^l) /\ (3^(l+1) > n * 2^(l+1))
ASSUME <<TlshLvalue(1), TlshLvalue(2), TlshLvalue(50), TlshLvalue(255), TlshLvalue(256), TlshLvalue(656), TlshLvalue(657),
         TlshLvalue(3199), TlshLvalue(3200), TlshLvalue(2147483647)>> = <<0, 1, 9, 13, 13, 15, 16, 22, 22, 162>>
\* nibble swap is an involution, mod_diff is a metric-like symmetric function bounded by R/2
ASSUME \A x \in 0..255 : TlshSwap(TlshSwap(x)) = x /\ TlshSwap(x) \in 0..255
ASSUME \A x, y \in 0..15 : TlshModDiff(x, y, 16) = TlshModDiff(y, x, 16) /\ TlshModDiff(x, y, 16) \in 0..8
                            /\ TlshModDiff(x, y, 16) = CHOOSE d \in 0..8 : ((x + d) % 16 = y) \/ ((y + d) % 16 = x)
ASSUME \A x \in {0, 1, 2, 127, 128, 129, 254, 255} : \A y \in 0..255 : TlshModDiff(x, y, 256) = TlshModDiff(y, x, 256)
                            /\ TlshModDiff(x, y, 256) = CHOOSE d \in 0..128 : ((x + d) % 256 = y) \/ ((y + d) % 256 = x)
\* the bit-pair difference table of the reference: 0 1 2 6 / 1 0 1 2 / 2 1 0 1 / 6 2 1 0
ASSUME <<TlshByteDiff(0, 0), TlshByteDiff(0, 1), TlshByteDiff(0, 2), TlshByteDiff(0, 3), TlshByteDiff(3, 0), TlshByteDiff(1, 3),
         TlshByteDiff(255, 0), TlshByteDiff(228, 27)>> = <<0, 1, 2, 6, 6, 2, 24, 14>>
ASSUME \A x, y \in {0, 27, 85, 141, 228, 255} : TlshByteDiff(x, y) = TlshByteDiff(y, x)
\* quartiles are the sorted positions (SortSeq of module TLC), on an example with ties
Ex == <<5, 0, 7, 7, 1, 0, 9, 3, 3, 3, 12, 0>> \o Rep(4, 36) \o Rep(0, 208)
ASSUME LET s == SortSeq(SubSeq(Ex, 1, 48), LAMBDA a, b : a < b) IN TlshQuartiles(TlshCfg(48, 5, 1), Ex) = <<s[12], s[24], s[36]>>
ASSUME LET s == SortSeq(SubSeq(Ex, 1, 128), LAMBDA a, b : a < b) IN TlshQuartiles(TlshCfg(128, 5, 1), Ex) = <<s[32], s[64], s[96]>>
\* update is incremental
Msg == <<84, 76, 83, 72, 32, 105, 115, 32, 97, 32, 102, 117, 122, 122, 121, 32, 104, 97, 115, 104>>
ASSUME \A w \in 4..8 : \A cut \in 0..Len(Msg) : LET cfg == TlshCfg(128, w, 3) IN
         TlshUpdate(cfg, TlshUpdate(cfg, TlshInit(cfg), SubSeq(Msg, 1, cut)), SubSeq(Msg, cut + 1, Len(Msg))) = TlshUpdate(cfg, TlshInit(cfg), Msg)
\* every full window adds one count per triplet
RECURSIVE Sum(_,_,_)
Sum(s, i, acc) == IF i > Len(s) THEN acc ELSE Sum(s, i + 1, acc + s[i])
ASSUME \A w \in 4..8 : LET cfg == TlshCfg(256, w, 1)  st == TlshUpdate(cfg, TlshInit(cfg), Msg) IN
         st.len = Len(Msg) /\ Sum(st.bkt, 1, 0) = (Len(Msg) - w + 1) * Len(TlshTriplets(w)) /\ st.win = SubSeq(Msg, Len(Msg) - w + 1, Len(Msg))
====
