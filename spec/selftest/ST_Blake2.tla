---- MODULE ST_Blake2 ----
(* spec self-test: Blake2.tla against hashlib.blake2b / blake2s outputs frozen in           *)
(* spec/kat/blake2.ndjson (tools/gen_kat_blake2.py): all parameters of the parameter block. *)
EXTENDS Blake2, Json, IOUtils, TLC
KAT == ndJsonDeserialize(IOEnv.KAT_FILE)
VARIABLES k, verdict
Init == k \in 1..Len(KAT) /\ verdict = "pending"
Next == /\ verdict = "pending" /\ UNCHANGED k
        /\ LET e == KAT[k]
               d == Blake2Hash(e.b = 1, e.m, e.key, e.outlen, e.fanout, e.depth, e.leaf, e.off,
                               e.nd, e.inner, e.salt, e.person, e.last = 1) IN
           /\ verdict' = IF d = e.d THEN "ok" ELSE "bad"
           /\ PrintT(ToJson([k |-> k, verdict |-> verdict', got |-> d]))
====
