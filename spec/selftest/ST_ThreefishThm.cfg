CONSTANTS
