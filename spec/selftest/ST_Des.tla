---- MODULE ST_Des ----
(* spec self-test: Des.tla against OpenSSL outputs frozen in spec/kat/des.ndjson (tools/gen_kat_des.py). *)
(* Every known answer is checked in both directions: Enc(p) = c and Dec(c) = p.                          *)
EXTENDS Des, Json, IOUtils, TLC
KAT == ndJsonDeserialize(IOEnv.KAT_FILE)
VARIABLES k, verdict
Enc(e) == IF e.alg = "des" THEN DesEnc(e.k1, e.p) ELSE TdeaEnc(e.k1, e.k2, e.k3, e.p)
Dec(e) == IF e.alg = "des" THEN DesDec(e.k1, e.c) ELSE TdeaDec(e.k1, e.k2, e.k3, e.c)
Init == k \in 1..Len(KAT) /\ verdict = "pending"
Next == /\ verdict = "pending" /\ UNCHANGED k
        /\ LET e == KAT[k]  c == Enc(e)  p == Dec(e) IN
           /\ verdict' = IF c = e.c /\ p = e.p THEN "ok" ELSE "bad"
           /\ PrintT(ToJson([k |-> k, verdict |-> verdict', got |-> <<c, p>>]))
====
