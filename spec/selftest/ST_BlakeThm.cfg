CONSTANTS
