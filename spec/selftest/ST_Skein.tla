---- MODULE ST_Skein ----
(* spec self-test: Skein.tla against spec/kat/skein.ndjson (official vectors of the Skein 1.3 paper as
   typed in /repo/tests/test_skein.py + tools/pyref/ref_skein.py).  Record fields: op in
   {"cfgiv","hash","tree","ubi"} and every argument of the operators explicit. *)
EXTENDS Skein, Json, IOUtils, TLC
KAT == ndJsonDeserialize(IOEnv.KAT_FILE)
VARIABLES k, verdict
Got(e) ==
  CASE e.op = "cfgiv" -> Ubi(Rep(0, e.Nb \div 8), SkeinConfig(e.Nb, e.No, e.Yl, e.Yf, e.Ym), 256, TCfg, 0, ZeroPos)
    [] e.op = "hash"  -> SkeinHash(e.Nb, e.No, e.M, e.L, e.key, e.haskey, e.prs, e.PK, e.kdf, e.nonce)
    [] e.op = "tree"  -> SkeinTree(e.Nb, e.No, e.M, e.L, e.key, e.haskey, e.Yl, e.Yf, e.Ym)
    [] e.op = "ubi"   -> Ubi(e.G, e.M, e.L, e.type, e.level, e.pos0)
Init == k \in 1..Len(KAT) /\ verdict = "pending"
Next == /\ verdict = "pending" /\ UNCHANGED k
        /\ LET e == KAT[k]  d == Got(e) IN
           /\ verdict' = IF d = e.out THEN "ok" ELSE "bad"
           /\ PrintT(ToJson([k |-> k, verdict |-> verdict', got |-> d]))

\* tweak encoding (s. 3.4): T = position + level 2^112 + B 2^119 + type 2^120 + first 2^126 + final 2^127
ASSUME TweakBytes(MkTweak(<<513, 0, 0, 0, 0, 2>>, 3, 1, TMsg, 0, 1)) = <<1,2,0,0,0,0,0,0,0,0,2,0, 0,0, 131, 176>>
ASSUME TweakBytes(MkTweak(ZeroPos, 0, 0, TOut, 1, 1)) = <<0,0,0,0,0,0,0,0,0,0,0,0, 0,0, 0, 255>>
ASSUME TweakBytes(MkTweak(<<32,0,0,0,0,0>>, 0, 0, TCfg, 1, 1)) = <<32,0,0,0,0,0,0,0,0,0,0,0, 0,0, 0, 196>>
ASSUME Len(SkeinConfig(256, 256, 0, 0, 0)) = 32
ASSUME UbiPadMsg(<<255, 255, 255>>, 19) = <<255, 255, 240>> /\ UbiPadMsg(<<255, 255, 255>>, 16) = <<255, 255>>
ASSUME UbiPadMsg(<<0>>, 1) = <<64>> /\ UbiPadMsg(<<255>>, 7) = <<255>> /\ UbiPadMsg(<<>>, 0) = <<>>
ASSUME UbiNumBlocks(0, 32) = 1 /\ UbiNumBlocks(32, 32) = 1 /\ UbiNumBlocks(33, 32) = 2
ASSUME UbiTweakAt(TMsg, 0, <<65535,65535,65535,65535,0,0>>, 33, 32, 1, 1) = MkTweak(<<32,0,0,0,1,0>>, 0, 1, TMsg, 0, 1)
ASSUME UbiTweakAt(TMsg, 0, ZeroPos, 33, 32, 1, 0) = MkTweak(<<32,0,0,0,0,0>>, 0, 0, TMsg, 1, 0)
ASSUME UbiPosFits(<<65535,65535,65535,65535,65535,65535>>, 0) /\ ~UbiPosFits(<<65535,65535,65535,65535,65535,65535>>, 1)
====
