CONSTANTS
