---- MODULE ST_CrcThm ----
(* Spec-internal theorems of Crc.tla, checked exhaustively on small domains (no known answers).  *)
(* The cheap ones are ASSUMEs.  The exhaustive ones (every 8-bit polynomial, every (reg, byte)   *)
(* pair) are one TLC state per case, Assert-ed in Next, so that they run on the worker threads   *)
(* (16 in parallel, big stack): an Assert failure is a TLC error and fails the self-test.        *)
EXTENDS Crc, TLC
W8(x) == <<x>>

\* ---- exhaustive cases ---------------------------------------------------------------------
\* "tab", p: for the 8-bit reflected polynomial p (top bit set):
\*   table-driven = bitwise on all 1-byte data (from 3 initial registers) and on a sample of 2-byte data;
\*   the table is a permutation of 0..255 (what CrcBackByte relies on)
TabOk(p) ==
  LET P == W8(p)  T == CrcTable(P) IN
    /\ \A i \in {0, 255, 90} : \A x \in 0..255 :
          CrcXor(CrcByteTable(T, W8(i), x), W8(255 - i)) = CrcBitwise(P, <<x>>, W8(i), W8(255 - i))
    /\ \A x \in {0, 1, 77, 128, 255} : \A y \in {0, 3, 100, 254, 255} :
          CrcRegTabled(T, <<x, y>>, W8(255)) = CrcRegBitwise(P, <<x, y>>, W8(255))
    /\ \A x \in {0, 1, 77, 128, 255} :                  \* CrcTabled rebuilds the table: only a few calls
          CrcTabled(P, <<x, 255 - x>>, W8(x), W8(85)) = CrcBitwise(P, <<x, 255 - x>>, W8(x), W8(85))
    /\ {T[i][1] : i \in 1..256} = 0..255
\* "back", p, r: CrcBackByte inverts the forward byte step for registers 16r..16r+15 and every byte
BackOk(P, T, reg, byte) == LET a == CrcByteTable(T, reg, byte)
                           IN CrcBackByte(P, T, a, byte) = reg /\ CrcBackByteBitwise(P, a, byte) = reg
BackAll(p, r) ==
  LET P == W8(p)  T == CrcTable(P) IN
    \A g \in (16*r)..((16*r) + 15) : \A x \in 0..255 :
       /\ BackOk(P, T, W8(g), x)
       /\ CrcBackByteBitwise(P, CrcByteBitwise(P, W8(g), x), x) = W8(g)
       /\ CrcBackBit(P, CrcStepBit(P, W8(g), x % 2), x % 2) = W8(g)
Cases == {[t |-> "tab", p |-> p, r |-> 0] : p \in 128..255}
         \cup {[t |-> "back", p |-> p, r |-> r] : p \in {140, 224}, r \in 0..15}      \* 0x8C (MAXIM-DOW), 0xE0 (ROHC)
VARIABLES c, done
Init == c \in Cases /\ done = FALSE
Next == /\ ~done /\ done' = TRUE /\ UNCHANGED c
        /\ Assert(IF c.t = "tab" THEN TabOk(c.p) ELSE BackAll(c.p, c.r), <<"ST_CrcThm: theorem fails for case", c>>)

\* ---- cheap ones ---------------------------------------------------------------------------
\* the byte step is linear: T[i xor j] = T[i] xor T[j]
ASSUME LET T == CrcTable(W8(140)) IN \A i, j \in 0..255 : T[(i ^^ j) + 1] = CrcXor(T[i+1], T[j+1])
\* CrcBackByte on samples of wider registers: 12 bits in one limb, 16, 31, 32 (CRC-32, CRC-32C), 33 and 64 bits
Sample(P, regs) == LET T == CrcTable(P) IN \A r \in regs : \A x \in {0, 1, 127, 128, 200, 255} : BackOk(P, T, r, x)
ASSUME Sample(<<3201>>, {<<0>>, <<4095>>, <<2748>>, <<1>>, <<2048>>})                     \* 0xC81, W = 12
ASSUME Sample(<<40961>>, {<<0>>, <<65535>>, <<4660>>, <<32768>>})                          \* 0xA001
ASSUME Sample(<<4660, 22136>>, {<<0,0>>, <<65535,32767>>, <<1,16384>>, <<43981, 291>>})    \* 0x56781234, W = 31
ASSUME Sample(Crc32Poly, {<<0,0>>, Crc32Ones, <<48879, 57005>>, <<0, 32768>>, <<1, 0>>})
ASSUME Sample(W32(33526, 15224), {<<0,0>>, Crc32Ones, <<4660, 22136>>})                    \* 0x82F63B78
ASSUME Sample(<<7, 99, 1>>, {<<0,0,0>>, <<65535,65535,1>>, <<12345, 54321, 1>>, <<12345, 54321, 0>>})  \* W = 33
ASSUME Sample(W64(51564, 22421, 55175, 3906), {<<0,0,0,0>>, <<65535,65535,65535,65535>>, <<1,2,3,32768>>})  \* CRC-64/XZ
ASSUME CrcWidth(<<3201>>) = 12 /\ CrcWidth(<<4660, 22136>>) = 31 /\ CrcWidth(<<7, 99, 1>>) = 33
       /\ CrcWidth(Crc32Poly) = 32 /\ CrcWidth(<<140, 0>>) = 8 /\ CrcWidth(W64(51564, 22421, 55175, 3906)) = 64
\* the top bytes of the CRC-32 table are pairwise different
ASSUME {CrcTopByte(Crc32Table[i], 32) : i \in 1..256} = 0..255

\* run-length evaluation (affine powers): known answers frozen from zlib.crc32 at authoring time
\*   zlib.crc32(bytes(2^20) + b'a' + b'\xff' * 70000) = 0xD77B7C98;  zlib.crc32(bytes(100) + b'\x07' + b'\xff' * 33) = 0xE594A72A
ASSUME Crc32Runs(<<<<0, 1048576>>, <<97, 1>>, <<255, 70000>>>>) = W32(55163, 31896)
ASSUME Crc32Runs(<<<<0, 100>>, <<7, 1>>, <<255, 33>>>>) = W32(58772, 42794)
ASSUME Crc32Runs(<<>>) = W32(0, 0) /\ Crc32Runs(<<<<49,1>>,<<50,1>>,<<51,1>>,<<52,1>>,<<53,1>>,<<54,1>>,<<55,1>>,<<56,1>>,<<57,1>>>>) = W32(52212, 14630)
\* an affine power is the repeated byte step, on a 64-bit and a 12-bit register, run lengths around the switch-over and a power of two
ASSUME LET P == W64(51564, 22421, 55175, 3906)  r == <<1, 2, 3, 32768>> IN
       \A n \in {0, 1, 12, 13, 16, 17, 100} : CrcRegRuns(P, <<<<200, n>>, <<0, 13>>>>, r) = CrcRegBitwise(P, RunsExpand(<<<<200, n>>, <<0, 13>>>>), r)
ASSUME \A n \in {13, 64, 129} : CrcRegRuns(<<3201>>, <<<<255, n>>>>, <<4095>>) = CrcRegBitwise(<<3201>>, RunsExpand(<<<<255, n>>>>), <<4095>>)
ASSUME RunsCanonical(<<<<0, 5>>, <<1, 1>>, <<0, 2>>>>) /\ ~RunsCanonical(<<<<0, 5>>, <<0, 1>>>>) /\ ~RunsCanonical(<<<<3, 0>>>>)

\* CRC-32 facts: check value, entries of zlib's crc_table, residue
ASSUME Crc32Poly = <<33568, 60856>>                                                         \* 0xEDB88320
ASSUME Crc32(<<49,50,51,52,53,54,55,56,57>>) = W32(52212, 14630)                            \* 0xCBF43926
ASSUME Crc32Table[1] = W32(0, 0) /\ Crc32Table[2] = W32(30471, 12438)                       \* 0x77073096
       /\ Crc32Table[3] = W32(60942, 24876) /\ Crc32Table[256] = W32(11522, 61325)          \* 0xEE0E612C, 0x2D02EF8D
\* appending the CRC (little-endian) leaves the constant residue 0x2144DF1C after the final xor
ASSUME \A m \in {<<>>, <<0>>, <<1,2,3>>, <<255,254,253,252,251>>} :
         Crc32(m \o WToLE(Crc32(m))) = W32(8516, 57116)
\* bit-level definition: a byte is its 8 bits, least significant first
ASSUME LET S(r, b) == CrcStepBit(Crc32Poly, r, b) IN
         CrcByteBitwise(Crc32Poly, Crc32Ones, 163) = S(S(S(S(S(S(S(S(Crc32Ones, 1), 1), 0), 0), 0), 1), 0), 1)   \* 0xA3 = 10100011b

\* forging: Crc32Patch meets FixOk, at the front, in the middle and at the very end of the data
D == <<84,104,101,32,113,117,105,99,107,32,98,114,111,119,110,32,102,111,120>>
ASSUME \A pos \in {0, 1, 7, 14, 15} : \A t \in {W32(0,0), Crc32Ones, W32(57005, 48879), Crc32(D)} :
         LET out == Crc32Patch(D, pos, t) IN
           /\ FixOk(D, out, pos, t)
           /\ (t = Crc32(D) => out = D)            \* the patch is unique: the original bytes come back
ASSUME FixOk(<<1,2,3,4>>, Crc32Patch(<<1,2,3,4>>, 0, W32(4660, 22136)), 0, W32(4660, 22136))
ASSUME ~ FixOk(D, D, 3, W32(0, 0))                                         \* wrong CRC
ASSUME LET out == Crc32Patch(D, 3, W32(0, 0))  bad == <<85>> \o Tail(out)
       IN FixOk(D, out, 3, W32(0, 0)) /\ ~ FixOk(D, bad, 3, Crc32(bad))    \* a byte outside the window changed
ASSUME ~ FixOk(D, Tail(D), 3, Crc32(Tail(D)))                              \* length changed
ASSUME PrintT("ST_CrcThm ok")
====
