---- MODULE ST_Sha1 ----
(* spec self-test: Sha1.tla against hashlib outputs (SHA-1, v = 1) and published SHA-0 digests (v = 0)
   frozen in spec/kat/sha1.ndjson *)
EXTENDS Sha1, MDPad, Json, IOUtils, TLC
KAT == ndJsonDeserialize(IOEnv.KAT_FILE)
VARIABLES k, verdict
Digest(v, m) ==
  LET p == PadMD(m, 8*Len(m), 64, LenFieldNat(8*Len(m), 8, TRUE), 0)
      F(h, blk) == Sha1Compress(v, h, blk)
  IN Sha1Out(FoldBlocks(F, Sha1IV, p, 64, 0))
Init == k \in 1..Len(KAT) /\ verdict = "pending"
Next == /\ verdict = "pending" /\ UNCHANGED k
        /\ LET e == KAT[k]  d == Digest(e.v, e.m) IN
           /\ verdict' = IF d = e.d THEN "ok" ELSE "bad"
           /\ PrintT(ToJson([k |-> k, verdict |-> verdict', got |-> d]))
====
