---- MODULE ST_DesThm ----
(* spec-internal theorems about Des.tla (no known answers involved): structure of the tables of FIPS 46-3 *)
(* and algebraic properties of the cipher.  ASSUME-only; TLC evaluates every assumption at start-up.      *)
EXTENDS Des, FiniteSets, TLC

Injective(t) == \A i, j \in 1..Len(t) : t[i] = t[j] => i = j
RECURSIVE SumR(_,_)
SumR(t, i) == IF i > Len(t) THEN 0 ELSE t[i] + SumR(t, i+1)

\* IP and IP^-1 are mutually inverse permutations of 1..64
ASSUME Len(IPtab) = 64 /\ Len(FPtab) = 64
ASSUME \A i \in 1..64 : IPtab[i] \in 1..64 /\ FPtab[i] \in 1..64
ASSUME \A i \in 1..64 : FPtab[IPtab[i]] = i /\ IPtab[FPtab[i]] = i
\* the regular structure of IP: even bits of the bytes, last byte first, then the odd bits
ASSUME \A r \in 0..7, c \in 0..7 : IPtab[8*r + c + 1] = 8*(7 - c) + (IF r < 4 THEN 2*r + 2 ELSE 2*(r - 4) + 1)

\* S-boxes: 8 boxes of 4 rows, every row a permutation of 0..15
ASSUME Len(SBoxes) = 8 /\ \A n \in 1..8 : Len(SBoxes[n]) = 64
ASSUME \A n \in 1..8, r \in 0..3 : {SBoxes[n][16*r + c + 1] : c \in 0..15} = 0..15
\* the worked example of the standard: S1(011011) = row 01, column 1101 = 0101
ASSUME DesS(1, 27) = 5
\* DesS addresses the printed table by row b1b6, column b2b3b4b5
ASSUME \A n \in 1..8, b1, b6 \in 0..1, m \in 0..15 : DesS(n, 32*b1 + 2*m + b6) = SBoxes[n][16*(2*b1 + b6) + m + 1]

\* E: 48 selections, every bit of 1..32 used once or twice; 8 windows of 6 consecutive bits (cyclically), step 4
ASSUME Len(Etab) = 48
ASSUME \A b \in 1..32 : Cardinality({i \in 1..48 : Etab[i] = b}) \in {1, 2}
ASSUME \A j \in 0..7, m \in 1..6 : Etab[6*j + m] = ((4*j + m + 30) % 32) + 1

\* P is a permutation of 1..32
ASSUME Len(Ptab) = 32 /\ Injective(Ptab) /\ {Ptab[i] : i \in 1..32} = 1..32

\* PC1: an injective selection of the 56 non-parity key bits (so: all of them)
ASSUME Len(PC1tab) = 56 /\ Injective(PC1tab)
ASSUME {PC1tab[i] : i \in 1..56} = {b \in 1..64 : (b % 8) # 0}
\* PC2: an injective selection of 48 of the 56 bits of C D; first 24 from C, last 24 from D
ASSUME Len(PC2tab) = 48 /\ Injective(PC2tab)
ASSUME \A i \in 1..48 : PC2tab[i] \in (IF i <= 24 THEN 1..28 ELSE 29..56)
ASSUME Cardinality({PC2tab[i] : i \in 1..48}) = 48

\* after the 16 iterations C and D are back to C0, D0
ASSUME Len(Shifts) = 16 /\ SumR(Shifts, 1) = 28 /\ \A i \in 1..16 : Shifts[i] \in {1, 2}

\* ---- properties of the operators ------------------------------------------------
K1 == <<19, 52, 87, 121, 155, 188, 223, 241>>       \* 133457799BBCDFF1
P1 == <<1, 35, 69, 103, 137, 171, 205, 239>>        \* 0123456789ABCDEF
Inv(b) == [i \in 1..Len(b) |-> 255 - b[i]]
ASSUME BitsToBytes(BytesToBits(P1)) = P1 /\ Len(BytesToBits(P1)) = 64
ASSUME BytesToBits(<<128, 1>>) = <<1,0,0,0,0,0,0,0, 0,0,0,0,0,0,0,1>>
ASSUME Permute(<<10, 20, 30>>, <<3, 1, 1, 2>>) = <<30, 10, 10, 20>>
ASSUME Permute(Permute(BytesToBits(P1), IPtab), FPtab) = BytesToBits(P1)
ASSUME Len(DesSubkeys(K1)) = 16 /\ \A n \in 1..16 : Len(DesSubkeys(K1)[n]) = 48
\* K1 of the classic worked example: 000110 110000 001011 101111 111111 000111 000001 110010
ASSUME DesSubkeys(K1)[1] = <<0,0,0,1,1,0, 1,1,0,0,0,0, 0,0,1,0,1,1, 1,0,1,1,1,1,
                             1,1,1,1,1,1, 0,0,0,1,1,1, 0,0,0,0,0,1, 1,1,0,0,1,0>>
ASSUME DesDec(K1, DesEnc(K1, P1)) = P1 /\ DesEnc(K1, DesDec(K1, P1)) = P1
\* complementation property
ASSUME DesEnc(Inv(K1), Inv(P1)) = Inv(DesEnc(K1, P1))
\* weak keys: the 16 subkeys are equal; semi-weak pairs: reversed key schedules
ASSUME \A k \in {<<1,1,1,1,1,1,1,1>>, <<254,254,254,254,254,254,254,254>>,
                 <<224,224,224,224,241,241,241,241>>, <<31,31,31,31,14,14,14,14>>} :
          \A n \in 2..16 : DesSubkeys(k)[n] = DesSubkeys(k)[1]
ASSUME DesSubkeys(<<1,254,1,254,1,254,1,254>>) = DesReverse16(DesSubkeys(<<254,1,254,1,254,1,254,1>>))
ASSUME DesSubkeys(<<31,224,31,224,14,241,14,241>>) = DesReverse16(DesSubkeys(<<224,31,224,31,241,14,241,14>>))
\* TDEA: decryption inverts encryption; keying option 3 is single DES
ASSUME TdeaDec(K1, P1, Inv(K1), TdeaEnc(K1, P1, Inv(K1), P1)) = P1
ASSUME TdeaEnc(K1, K1, K1, P1) = DesEnc(K1, P1) /\ TdeaDec(K1, K1, K1, P1) = DesDec(K1, P1)
ASSUME PrintT("ST_DesThm ok")
====
