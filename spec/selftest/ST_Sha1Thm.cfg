CONSTANTS
