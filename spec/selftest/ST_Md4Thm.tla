---- MODULE ST_Md4Thm ----
(* spec-internal facts about Md4.tla (no known answers involved) *)
EXTENDS Md4, TLC
\* truth tables: x = 11110000, y = 11001100, z = 10101010 per byte enumerate the 8 input combinations
x == W32(\hF0F0, \hF0F0)   y == W32(\hCCCC, \hCCCC)   z == W32(\hAAAA, \hAAAA)
ASSUME Md4F(x, y, z) = W32(\hCACA, \hCACA)      \* if x then y else z
ASSUME Md4G(x, y, z) = W32(\hE8E8, \hE8E8)      \* majority
ASSUME Md4H(x, y, z) = W32(\h9696, \h9696)      \* parity
\* 48 operations; in each round every X[k], k = 0..15, is used exactly once
ASSUME Len(Md4Ops) = 48 /\ Len(Md4C) = 3
ASSUME \A r \in 0..2 : {Md4Ops[16*r + j][1] : j \in 1..16} = 0..15
\* RFC 1320 s.3.5: round 1 uses k in order, round 2 reads the 4x4 matrix by columns, round 3 in bit-reversed order
Rev4(j) == 8*(j % 2) + 4*((j \div 2) % 2) + 2*((j \div 4) % 2) + (j \div 8)
ASSUME \A j \in 0..15 : /\ Md4Ops[j + 1][1] = j
                        /\ Md4Ops[16 + j + 1][1] = 4*(j % 4) + (j \div 4)
                        /\ Md4Ops[32 + j + 1][1] = Rev4(j)
\* shift amounts repeat with period 4 inside a round
ASSUME \A j \in 0..15 : /\ Md4Ops[j + 1][2] = <<3,7,11,19>>[(j % 4) + 1]
                        /\ Md4Ops[16 + j + 1][2] = <<3,5,9,13>>[(j % 4) + 1]
                        /\ Md4Ops[32 + j + 1][2] = <<3,9,11,15>>[(j % 4) + 1]
\* the fused 4-operand addition is Words' addition
a == W32(\hFFFF, \hFFFF)  b == W32(\h8000, \h0001)  c == W32(\h7FFF, \hFFFF)  d == W32(\hABCD, \hEF01)
ASSUME \A p \in {a,b,c,d} : \A q \in {a,b,c,d} : \A s \in {a,b,c,d} : \A t \in {a,b,c,d, W32(0,0)} :
          Md4Sum4(p, q, s, t) = WAdd4(p, q, s, t)
ASSUME Md4Out(Md4IV) = <<1,35,69,103, 137,171,205,239, 254,220,186,152, 118,84,50,16>>   \* 01 23 45 67 89 ab ...
====
