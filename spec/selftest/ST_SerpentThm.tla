---- MODULE ST_SerpentThm ----
(* spec-internal theorems of Serpent.tla, checked by TLC as ASSUMEs *)
EXTENDS Serpent, FiniteSets, TLC
\* each S-box as printed is a permutation of 0..15, and so is each derived inverse
ASSUME \A i \in 0..7 : {SerpS(i, x) : x \in 0..15} = 0..15
ASSUME \A i \in 0..7 : {SerpSinv(i, x) : x \in 0..15} = 0..15
ASSUME \A i \in 0..7 : \A x \in 0..15 : SerpSinv(i, SerpS(i, x)) = x /\ SerpS(i, SerpSinv(i, x)) = x
ASSUME Len(SerpSTab) = 8 /\ Len(SerpSinvTab) = 8 /\ \A i \in 1..8 : Len(SerpSTab[i]) = 16 /\ Len(SerpSinvTab[i]) = 16

\* the 128 unit vectors (bit b of word w), the zero and the all-ones state
Z == <<0, 0>>
Unit(w, b) == LET u == IF b < 16 THEN <<P2[b+1], 0>> ELSE <<0, P2[b-15]>>
              IN <<IF w = 0 THEN u ELSE Z, IF w = 1 THEN u ELSE Z, IF w = 2 THEN u ELSE Z, IF w = 3 THEN u ELSE Z>>
Units == {Unit(w, b) : w \in 0..3, b \in 0..31}
F32 == <<65535, 65535>>
ASSUME Cardinality(Units) = 128
ASSUME \A U \in Units : SerpLTinv(SerpLT(U)) = U /\ SerpLT(SerpLTinv(U)) = U
ASSUME \A U \in {<<Z,Z,Z,Z>>, <<F32,F32,F32,F32>>, <<<<4660,22136>>, <<39612,57072>>, <<1,32768>>, <<65535,0>>>>} :
          SerpLTinv(SerpLT(U)) = U /\ SerpLT(SerpLTinv(U)) = U
\* LT is linear: on a sum of two unit vectors
ASSUME \A b \in 0..31 : SerpLT(SerpXor4(Unit(0, b), Unit(3, 31-b))) = SerpXor4(SerpLT(Unit(0, b)), SerpLT(Unit(3, 31-b)))
\* one hand-computed image: bit 0 of X0 -> X0: 13 -> (xor X1,X3 images) ...; X0 = 1:
\*   a0 = 1<<13, a1 = a0, a3 = a0<<3 = 1<<16, b1 = 1<<14, b3 = 1<<23, b0 = 2^13+2^14+2^23, b2 = 2^23 + 2^21,
\*   out = <<b0<<<5, b1, b2<<<22, b3>> = <<2^18+2^19+2^28, 2^14, 2^13+2^11, 2^23>>
ASSUME SerpLT(Unit(0, 0)) = << <<0, 4+8+4096>>, <<16384, 0>>, <<8192+2048, 0>>, <<0, 128>> >>

\* bitslice S-box layer: copy j acts on bit j of the four words, X0 = lsb of the nibble
Nib(X, j) == WBit(X[1], j) + 2*WBit(X[2], j) + 4*WBit(X[3], j) + 8*WBit(X[4], j)
TX == << <<4660,22136>>, <<39612,57072>>, <<1,32768>>, <<65535,0>> >>
ASSUME \A i \in 0..7 : \A j \in 0..31 : Nib(SerpSW(i, TX), j) = SerpS(i, Nib(TX, j))
ASSUME \A i \in 0..7 : SerpSinvW(i, SerpSW(i, TX)) = TX /\ SerpSW(i, SerpSinvW(i, TX)) = TX

\* IP / FP of the standard description: inverse permutations, the first table entries as printed,
\* and the relation between the bitslice words and the nibbles of the standard representation
Id128 == LET F(p) == p IN SerpB128(F)
ASSUME SerpFP(SerpIP(Id128)) = Id128 /\ SerpIP(SerpFP(Id128)) = Id128
ASSUME SubSeq(SerpIP(Id128), 1, 9) = <<0, 32, 64, 96, 1, 33, 65, 97, 2>> /\ SerpIP(Id128)[128] = 127
ASSUME SubSeq(SerpFP(Id128), 1, 5) = <<0, 4, 8, 12, 16>> /\ SubSeq(SerpFP(Id128), 32, 34) = <<124, 1, 5>> /\ SerpFP(Id128)[128] = 127
ASSUME \A p \in 0..126 : SerpIP(Id128)[p+1] = ((32*p) % 127) /\ SerpFP(Id128)[p+1] = ((4*p) % 127)
ASSUME LET b == SerpIP(SerpBits(TX)) IN \A j \in 0..31 : b[4*j+1] + 2*b[4*j+2] + 4*b[4*j+3] + 8*b[4*j+4] = Nib(TX, j)

\* key padding and schedule shape
ASSUME SerpPadKey(<<7>>) = <<7, 1>> \o Rep(0, 30) /\ SerpPadKey(Rep(9, 31)) = Rep(9, 31) \o <<1>> /\ SerpPadKey(Rep(9, 32)) = Rep(9, 32)
ASSUME Len(SerpPreKeys(<<1,2,3>>)) = 140 /\ SerpPreKeys(<<1,2,3>>)[1] = <<513, 259>> /\ SerpPreKeys(<<1,2,3>>)[2] = Z
ASSUME SerpRoundKeys(<<1,2,3>>) = SerpRoundKeys(<<1,2,3,1>> \o Rep(0, 28))   \* padding = appending the byte 1, then zeros
ASSUME SerpRoundKeys(<<1,2,3>>) # SerpRoundKeys(<<1,2,3,0>>)
ASSUME PrintT("ST_SerpentThm ok")
====
