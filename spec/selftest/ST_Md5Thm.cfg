CONSTANTS
