---- MODULE ST_KeccakThm ----
(* spec-internal theorems of KeccakF.tla / Sponge.tla: shallow ones as ASSUMEs (TLC's main thread, small stack), *)
(* those that run permutations in the single step Next (Assert).                                               *)
EXTENDS Sponge, Integers, FiniteSets, TLC

\* ---- round constants: the 24 values listed in the Keccak reference (table 1.2 / FIPS 202 derivation) --------
RCKnown == << W64(0,0,0,1),             W64(0,0,0,32898),         W64(32768,0,0,32906),     W64(32768,0,32768,32768),
              W64(0,0,0,32907),         W64(0,0,32768,1),         W64(32768,0,32768,32897), W64(32768,0,0,32777),
              W64(0,0,0,138),           W64(0,0,0,136),           W64(0,0,32768,32777),     W64(0,0,32768,10),
              W64(0,0,32768,32907),     W64(32768,0,0,139),       W64(32768,0,0,32905),     W64(32768,0,0,32771),
              W64(32768,0,0,32770),     W64(32768,0,0,128),       W64(0,0,0,32778),         W64(32768,0,32768,10),
              W64(32768,0,32768,32897), W64(32768,0,0,32896),     W64(0,0,32768,1),         W64(32768,0,32768,32776) >>
ASSUME KeccakRC(64, 0)  = W64(0, 0, 0, 1)                      \* 0x0000000000000001
ASSUME KeccakRC(64, 1)  = W64(0, 0, 0, 32898)                  \* 0x0000000000008082
ASSUME KeccakRC(64, 23) = W64(32768, 0, 32768, 32776)          \* 0x8000000080008008
ASSUME KeccakRCTab = RCKnown
ASSUME \A ir \in 0..23 : /\ KeccakRC64(ir) = KeccakRCTab[ir + 1]          \* the two derivation paths agree
                         /\ KeccakRC64(ir - 255) = KeccakRCTab[ir + 1]    \* rc(t) has period 255, negative ir
                         /\ KeccakRC64(ir + 510) = KeccakRCTab[ir + 1]
                         /\ KeccakRC(32, ir) = <<RCKnown[ir+1][1], RCKnown[ir+1][2]>>
                         /\ KeccakRC(16, ir) = <<RCKnown[ir+1][1]>>
                         /\ KeccakRC(8, ir)  = <<RCKnown[ir+1][1] % 256>>
                         /\ KeccakRC(4, ir)  = <<RCKnown[ir+1][1] % 16>>
                         /\ KeccakRC(2, ir)  = <<RCKnown[ir+1][1] % 4>>
                         /\ KeccakRC(1, ir)  = <<RCKnown[ir+1][1] % 2>>
                         /\ KeccakRC(1, ir)  = <<KeccakRc(7*ir)>>
ASSUME KeccakRc(0) = 1 /\ KeccakRc(255) = 1 /\ KeccakRc(-255) = 1 /\ \A t \in 1..7 : KeccakRc(t) = 0
ASSUME KeccakRc(8) = 1                                         \* first wrap: R = 0x80 -> 0x100 xor 0x171 = 0x71
ASSUME \A t \in 0..40 : KeccakRc(t - 255) = KeccakRc(t) /\ KeccakRc(t + 255) = KeccakRc(t)

\* ---- rho offsets (index order 5*y + x), reduced mod 64, and pi ------------------------------------------------
RhoKnown == <<0, 1, 62, 28, 27, 36, 44, 6, 55, 20, 3, 10, 43, 25, 39, 41, 45, 15, 21, 8, 18, 2, 61, 56, 14>>
ASSUME Len(KeccakRho) = 25 /\ \A i \in 1..25 : (KeccakRho[i] % 64) = RhoKnown[i]
ASSUME {KeccakRho[i] : i \in 2..25} = {((t + 1)*(t + 2)) \div 2 : t \in 0..23}
ASSUME Len(KeccakPiSrc) = 25 /\ {KeccakPiSrc[i] : i \in 1..25} = 1..25 /\ KeccakPiSrc[1] = 1
\* pi moves lane (x, y) to (y, 2x + 3y)
ASSUME \A x \in 0..4, y \in 0..4 : KeccakPiSrc[5*((2*x + 3*y) % 5) + y + 1] = 5*y + x + 1
ASSUME KeccakRounds(1) = 12 /\ KeccakRounds(8) = 18 /\ KeccakRounds(32) = 22 /\ KeccakRounds(64) = 24

\* ---- lane rotation: bit z of LaneRol(w, x, k) is bit (z - k) mod w of x ---------------------------------------
ASSUME \A w \in {1, 2, 4, 8} : \A v \in 0..(Pow2(w) - 1) : \A k \in 0..(2*w + 1) : \A z \in 0..(w - 1) :
          WBit(LaneRol(w, <<v>>, k), z) = WBit(<<v>>, (z + 3*w - k) % w)
ASSUME \A k \in 0..40 : \A z \in 0..15 : WBit(LaneRol(16, <<43981>>, k), z) = WBit(<<43981>>, (z + 48 - k) % 16)
ASSUME \A k \in 0..70 : \A z \in 0..31 : WBit(LaneRol(32, <<43981, 4660>>, k), z) = WBit(<<43981, 4660>>, (z + 96 - k) % 32)
ASSUME \A k \in 0..130 : \A z \in 0..63 :
          WBit(LaneRol(64, <<43981, 4660, 22136, 61185>>, k), z) = WBit(<<43981, 4660, 22136, 61185>>, (z + 192 - k) % 64)

\* ---- pad10*1 -------------------------------------------------------------------------------------------------
ASSUME \A r \in 1..40 : \A L \in 0..(3*r) :
          LET p == Pad101(L, r)  n == Len(p)
          IN /\ n >= 2 /\ n <= r + 1 /\ ((L + n) % r) = 0
             /\ p[1] = 1 /\ p[n] = 1 /\ \A j \in 2..(n - 1) : p[j] = 0
ASSUME Pad101(0, 1) = <<1, 1>> /\ Pad101(0, 2) = <<1, 1>> /\ Pad101(1, 2) = <<1, 0, 1>> /\ Pad101(7, 8) = <<1,0,0,0,0,0,0,0,1>>

\* ---- state bits <-> lanes, bytes <-> bits ------------------------------------------------------------------------
OneBit(n, p) == [ZeroBits(n) EXCEPT ![p] = 1]
\* S[w(5y+x)+z] is bit z of lane (x, y)
ASSUME \A w \in {1, 2, 4, 8, 16, 32, 64} : \A x \in {0, 3, 4}, y \in {0, 2, 4} : \A z \in {0, w \div 2, w - 1} :
          LET A == BitsToLanes(w, OneBit(25*w, w*(5*y + x) + z + 1))
          IN /\ \A i \in 1..25 : \A zz \in 0..(w - 1) : WBit(A[i], zz) = IF i = 5*y + x + 1 /\ zz = z THEN 1 ELSE 0
             /\ LanesToBits(w, A) = OneBit(25*w, w*(5*y + x) + z + 1)
             /\ Len(A[1]) = (IF w >= 16 THEN w \div 16 ELSE 1)
ASSUME BytesToBitsLSB(<<1, 128, 163>>) = <<1,0,0,0,0,0,0,0, 0,0,0,0,0,0,0,1, 1,1,0,0,0,1,0,1>>
ASSUME BitsToBytesLSB(<<1,0,0,0,0,0,0,0, 0,0,0,0,0,0,0,1, 1,1,0,0,0,1,0,1>>) = <<1, 128, 163>>
ASSUME BitsToBytesLSB(<<1,1,0,0,0,0,0,0, 1>>) = <<3, 1>> /\ BitsToBytesLSB(<<>>) = <<>> /\ BytesToBitsLSB(<<>>) = <<>>
ASSUME ZeroBits(0) = <<>> /\ ZeroBits(3) = <<0,0,0>> /\ XorBits(<<1,1,0,0>>, <<1,0,1>>) = <<0,1,1>>

\* ---- KECCAK-p, duplex: deep evaluations, done in a step (worker threads have the big -Xss stack, the main --------
\* ---- thread that evaluates ASSUMEs does not) -------------------------------------------------------------------------
Z1 == BitsToLanes(1, OneBit(25, 7))
DeepThm ==
  /\ KeccakP(1, 0, Z1) = Z1
  /\ KeccakP(1, 1, Z1) = KeccakRound(1, Z1, 11)
  /\ KeccakP(1, 2, Z1) = KeccakRound(1, KeccakRound(1, Z1, 10), 11)
  /\ KeccakF(1, Z1) = KeccakP(1, 12, Z1)
  /\ KeccakF(1, Z1) = KeccakP(1, 4, KeccakRnds(1, Z1, 0, 7))
  \* KECCAK-p[b, nr] with nr > 12 + 2l starts at a negative round index
  /\ KeccakP(1, 14, Z1) = KeccakP(1, 12, KeccakRound(1, KeccakRound(1, Z1, -2), -1))
  \* KECCAK-f is a permutation of the 2^25 states: no collision among the 26 states of weight <= 1 (w = 1)
  /\ LET Ins == {ZeroBits(25)} \cup {OneBit(25, p) : p \in 1..25} IN Cardinality({FBits(1, S) : S \in Ins}) = 26
  \* duplexing-sponge lemma on KECCAK[r = 3, c = 22]
  /\ \A s0 \in {<<>>, <<0>>, <<1>>}, s1 \in {<<>>, <<0>>, <<1>>} :
          LET d0 == DuplexStep(1, 3, ZeroBits(25), s0, 3)
              d1 == DuplexStep(1, 3, d0.S, s1, 2)
          IN /\ DuplexPre(3, s0, 3) /\ DuplexPre(3, s1, 2) /\ ~DuplexPre(3, <<0, 1>>, 1) /\ ~DuplexPre(3, <<>>, 4)
             /\ d0.out = SpongeHash(1, 3, s0, 3)
             /\ d1.out = SpongeHash(1, 3, s0 \o Pad101(Len(s0), 3) \o s1, 2)
  \* Squeeze: prefix property, and d <= r needs no permutation
  /\ LET S == FBits(8, OneBit(200, 3))  z == Squeeze(8, 37, S, 80)
     IN /\ Len(z) = 80 /\ SubSeq(z, 1, 37) = SubSeq(S, 1, 37) /\ Squeeze(8, 37, S, 37) = SubSeq(S, 1, 37)
        /\ SubSeq(z, 38, 74) = SubSeq(FBits(8, S), 1, 37) /\ Squeeze(8, 37, S, 0) = <<>>
  \* the well-known first lane of KECCAK-f[1600](0): 0xF1258F7940E1DDE7
  /\ KeccakF(64, BitsToLanes(64, ZeroBits(1600)))[1] = W64(61733, 36729, 16609, 56807)
VARIABLE done
Init == done = FALSE
Next == ~done /\ done' = TRUE /\ Assert(DeepThm, "ST_KeccakThm: DeepThm is false") /\ PrintT("ST_KeccakThm deep ok")
ASSUME PrintT("ST_KeccakThm assumptions ok")
====
