---- MODULE ST_Md4 ----
(* spec self-test: Md4.tla against the RFC 1320 test suite and OpenSSL outputs frozen in spec/kat/md4.ndjson *)
EXTENDS Md4, MDPad, Json, IOUtils, TLC
KAT == ndJsonDeserialize(IOEnv.KAT_FILE)
VARIABLES k, verdict
Digest(m) ==
  LET p == PadMD(m, 8*Len(m), 64, LenFieldNat(8*Len(m), 8, FALSE), 0)
      F(h, blk) == Md4Compress(h, blk)
  IN Md4Out(FoldBlocks(F, Md4IV, p, 64, 0))
Init == k \in 1..Len(KAT) /\ verdict = "pending"
Next == /\ verdict = "pending" /\ UNCHANGED k
        /\ LET e == KAT[k]  d == Digest(e.m) IN
           /\ verdict' = IF d = e.d THEN "ok" ELSE "bad"
           /\ PrintT(ToJson([k |-> k, verdict |-> verdict', got |-> d]))
====
