---- MODULE ST_Md5 ----
(* spec self-test: Md5.tla against hashlib outputs (incl. the RFC 1321 test suite) frozen in spec/kat/md5.ndjson *)
EXTENDS Md5, MDPad, Json, IOUtils, TLC
KAT == ndJsonDeserialize(IOEnv.KAT_FILE)
VARIABLES k, verdict
Digest(m) ==
  LET p == PadMD(m, 8*Len(m), 64, LenFieldNat(8*Len(m), 8, FALSE), 0)
      F(h, blk) == Md5Compress(h, blk)
  IN Md5Out(FoldBlocks(F, Md5IV, p, 64, 0))
Init == k \in 1..Len(KAT) /\ verdict = "pending"
Next == /\ verdict = "pending" /\ UNCHANGED k
        /\ LET e == KAT[k]  d == Digest(e.m) IN
           /\ verdict' = IF d = e.d THEN "ok" ELSE "bad"
           /\ PrintT(ToJson([k |-> k, verdict |-> verdict', got |-> d]))
====
