---- MODULE ST_StreamThm ----
(* Spec-internal theorems about Rc4.tla, Salsa.tla and Chacha.tla, checked as ASSUMEs:
   - RC4 with N = 8 (and a few with N = 256): KSA gives a permutation, steps keep a permutation and
     i, j in range, Rc4Gen(a+b) = Rc4Gen(a) then Rc4Gen(b), Rc4Xor is an involution;
   - the component examples of the Salsa20 specification (ss.3-7), which the byte-level known answers of
     ST_Salsa only exercise indirectly (hex constants written as W32(hi16, lo16) in decimal);
     "columnround is the transpose of rowround"; x -> m xor keystream is an involution;
   - the ChaCha quarter-round example of RFC 7539 2.1.1 (the quarter-round is the same as in ChaCha 2008). *)
EXTENDS Rc4, Salsa, Chacha, TLC

\* ---------------------------------------------------------------- RC4
IsPerm(N, S) == Len(S) = N /\ {S[x] : x \in 1..N} = 0..(N-1)
StOk(N, st) == IsPerm(N, st.S) /\ st.i \in 0..(N-1) /\ st.j \in 0..(N-1)
Keys8 == {<<1,2,3>>, <<7>>, <<0>>, <<0,5,2,6,3,1,4,7>>, <<3,3,3,3,3>>}
ASSUME Rc4Ksa(8, <<0>>).S = <<7,6,3,2,1,5,4,0>>           \* by hand: j = 0,1,3,5,1,3,1,0
ASSUME \A key \in Keys8 : LET st == Rc4Ksa(8, key) IN StOk(8, st) /\ st.i = 0 /\ st.j = 0
ASSUME \A a, b \in 0..7 : IsPerm(8, Rc4Ksa(8, <<a, b>>).S)                       \* all 64 two-value keys
ASSUME \A key \in Keys8 : \A n \in 0..20 : StOk(8, Rc4Gen(8, Rc4Ksa(8, key), n).st)
ASSUME \A key \in Keys8 : \A n \in 0..20 : LET g == Rc4Gen(8, Rc4Ksa(8, key), n) IN Len(g.ks) = n /\ \A t \in 1..n : g.ks[t] \in 0..7
ASSUME \A key \in Keys8 : \A a, b \in 0..9 :
         LET st == Rc4Ksa(8, key)
             g  == Rc4Gen(8, st, a + b)
             g1 == Rc4Gen(8, st, a)
             g2 == Rc4Gen(8, g1.st, b)
         IN g = [st |-> g2.st, ks |-> g1.ks \o g2.ks]
ASSUME \A a \in {63, 64, 65, 127, 128, 129, 200} : \A b \in {0, 1, 64, 65} :          \* across the chunks of Rc4Gen
         LET st == Rc4Ksa(8, <<1,2,3>>)
             g  == Rc4Gen(8, st, a + b)
             g1 == Rc4Gen(8, st, a)
             g2 == Rc4Gen(8, g1.st, b)
         IN g = [st |-> g2.st, ks |-> g1.ks \o g2.ks] /\ g = Rc4GenR(8, st, a + b, <<>>)
ASSUME \A key \in Keys8 : LET st == Rc4Ksa(8, key)  g == Rc4Gen(8, st, 1)  r == Rc4Step(8, st) IN g.st = r.st /\ g.ks = <<r.out>>
ASSUME \A key \in Keys8 : LET st == Rc4Ksa(8, key)  m == <<0,1,2,3,4,5,6,7,7,7,0,3>>  c == Rc4Xor(8, st, m)
                          IN Len(c.out) = 12 /\ Rc4Xor(8, st, c.out).out = m /\ Rc4Xor(8, st, c.out).st = c.st
ASSUME \A n \in {0, 1, 63, 64, 65, 128, 129, 150} :                                         \* across the chunks of Rc4Xor
         LET st == Rc4Ksa(8, <<1,2,3>>)  m == Rep(5, n)  g == Rc4Gen(8, st, n)  c == Rc4Xor(8, st, m)
         IN c.st = g.st /\ c.out = XorBytes(m, g.ks) /\ Len(c.out) = n
\* the real size
K256a == <<75,101,121>>          \* "Key"
ASSUME LET st == Rc4Ksa(256, K256a) IN StOk(256, st) /\ SubSeq(st.S, 1, 4) = <<75, 51, 132, 157>>
ASSUME LET st == Rc4Ksa(256, K256a)  g == Rc4Gen(256, st, 300)  g1 == Rc4Gen(256, st, 255)  g2 == Rc4Gen(256, g1.st, 45)
       IN StOk(256, g.st) /\ g.st.i = 300 - 256 /\ g = [st |-> g2.st, ks |-> g1.ks \o g2.ks]

\* ---------------------------------------------------------------- Salsa20 specification, examples
Z == W32(0,0)
One == W32(0,1)
\* s.2 / s.7
ASSUME WAdd(W32(49320,30846), W32(40913,5661)) = W32(24697,36507)      \* 0xc0a8787e + 0x9fd1161d = 0x60798e9b
ASSUME WXor(W32(49320,30846), W32(40913,5661)) = W32(24441,28259)      \* 0xc0a8787e xor 0x9fd1161d = 0x5f796e63
ASSUME Rol(W32(49320,30846), 5) = W32(5391,4056)                       \* 0xc0a8787e <<< 5 = 0x150f0fd8
ASSUME WFromLE(<<0,0,0,0>>) = Z
ASSUME WFromLE(<<86,75,30,9>>) = W32(2334,19286)                       \* littleendian(86,75,30,9) = 0x091e4b56
ASSUME WFromLE(<<255,255,255,250>>) = W32(64255,65535)                 \* littleendian(255,255,255,250) = 0xfaffffff
\* s.3 quarterround
ASSUME SalsaQuarter(<<Z, Z, Z, Z>>) = <<Z, Z, Z, Z>>
ASSUME SalsaQuarter(<<One, Z, Z, Z>>) = <<W32(2048,33093), W32(0,128), W32(1,512), W32(8272,0)>>
ASSUME SalsaQuarter(<<Z, One, Z, Z>>) = <<W32(34816,256), W32(0,1), W32(0,512), W32(64,8192)>>
ASSUME SalsaQuarter(<<Z, Z, One, Z>>) = <<W32(32772,0), W32(0,0), W32(0,1), W32(0,8192)>>
ASSUME SalsaQuarter(<<Z, Z, Z, One>>) = <<W32(4,32836), W32(0,128), W32(1,0), W32(8208,1)>>
ASSUME SalsaQuarter(<<W32(59368,49158), W32(50425,16765), W32(25721,46258), W32(26822,28983)>>)
       = <<W32(59510,55083), W32(37729,57301), W32(61766,580), W32(38021,16803)>>
ASSUME SalsaQuarter(<<W32(54161,31835), W32(22001,50183), W32(21157,35450), W32(36744,31291)>>)
       = <<W32(15919,12428), W32(55562,36662), W32(27314,43299), W32(10371,21068)>>
\* s.4 rowround, s.5 columnround
X1000 == <<One, Z, Z, Z,  One, Z, Z, Z,  One, Z, Z, Z,  One, Z, Z, Z>>
ASSUME SalsaRowRound(X1000) = <<W32(2048,33093), W32(0,128), W32(1,512), W32(8272,0), W32(8208,1), W32(4,32836), W32(0,128), W32(1,0),
                                W32(0,1), W32(0,8192), W32(32772,0), W32(0,0), W32(0,1), W32(0,512), W32(64,8192), W32(34816,256)>>
ASSUME SalsaColumnRound(X1000) = <<W32(4105,648), Z, Z, Z,  W32(0,257), Z, Z, Z,  W32(2,1025), Z, Z, Z,  W32(16544,16385), Z, Z, Z>>
X2 == <<W32(2130,7126), W32(8168,34871), W32(47914,42358), W32(15010,25445), W32(50508,27227), W32(12231,19503), W32(28115,40131), W32(55818,25846),
        W32(37026,62013), W32(1663,38310), W32(1715,24417), W32(16868,29486), W32(59481,49408), W32(59981,33975), W32(3937,39935), W32(48238,38490)>>
ASSUME SalsaRowRound(X2) =
  <<W32(43152,54173), W32(26071,5526), W32(59720,32170), W32(51402,27270), W32(38045,8594), W32(30283,30548), W32(58376,55737), W32(31297,46289),
    W32(13314,57731), W32(15418,62514), W32(20582,40854), W32(55454,61608), W32(64,60901), W32(46405,64462), W32(53847,60751), W32(6168,34861)>>
ASSUME SalsaColumnRound(X2) =
  <<W32(35997,6410), W32(52878,19600), W32(7928,59859), W32(4902,42778), W32(37026,291), W32(60115,50419), W32(25504,37280), W32(61552,36201),
    W32(30875,268), W32(53653,42625), W32(60285,21764), W32(42868,4956), W32(18460,8231), W32(21416,58549), W32(19487,35269), W32(16248,51656)>>
\* s.5: columnround = transpose . rowround . transpose
Tr(x) == <<x[1], x[5], x[9], x[13],  x[2], x[6], x[10], x[14],  x[3], x[7], x[11], x[15],  x[4], x[8], x[12], x[16]>>
ASSUME \A x \in {X1000, X2, SalsaRowRound(X2)} : SalsaColumnRound(x) = Tr(SalsaRowRound(Tr(x)))
\* s.6 doubleround
ASSUME SalsaDoubleRound(<<One, Z, Z, Z,  Z, Z, Z, Z,  Z, Z, Z, Z,  Z, Z, Z, Z>>) =
  <<W32(33158,41517), W32(64,41604), W32(33351,37392), W32(1682,36945), W32(2048,144), W32(576,8704), W32(0,16384), W32(128,0),
    W32(1,512), W32(8256,0), W32(2048,33028), W32(0,0), W32(8272,0), W32(40960,64), W32(8,6154), W32(24874,32800)>>
\* s.8: rounds = 0 doubles every word; s.9 layouts
ASSUME SubSeq(SalsaCore(0, Rep(129, 64)), 1, 8) = <<2,3,3,3, 2,3,3,3>>     \* 2 * 0x81818181 mod 2^32 = 0x03030302
ASSUME SalsaCore(0, Rep(64, 64)) = Rep(128, 64)
Key32 == <<1,2,3,4,5,6,7,8,9,10,11,12,13,14,15,16, 201,202,203,204,205,206,207,208,209,210,211,212,213,214,215,216>>
Key16 == SubSeq(Key32, 1, 16)
N16   == <<101,102,103,104,105,106,107,108,109,110,111,112,113,114,115,116>>
ASSUME SalsaLayout(Key32, N16) = <<101,120,112,97>> \o Key16 \o <<110,100,32,51>> \o N16 \o <<50,45,98,121>> \o SubSeq(Key32, 17, 32) \o <<116,101,32,107>>
ASSUME SalsaLayout(Key16, N16) = <<101,120,112,97>> \o Key16 \o <<110,100,32,49>> \o N16 \o <<54,45,98,121>> \o Key16 \o <<116,101,32,107>>
ASSUME SalsaBlock(Key32, SubSeq(N16, 1, 8), W64(29811, 29297, 28783, 28269), 20) = SalsaExpand(Key32, N16)      \* bytes 109..116 = 0x74737271706f6e6d
\* s.10: decryption = encryption; the block counter carries from the low to the high word
Msg == N16 \o Key32 \o Key32 \o <<0>>            \* 81 bytes
ASSUME \A key \in {Key16, Key32} : \A c \in {W64(0,0,0,0), W64(0,0,65535,65535), W64(65535,65535,65535,65535)} :
         LET nonce == <<9,8,7,6,5,4,3,2>>  e == SalsaXor(key, nonce, c, 8, Msg)
         IN /\ Len(e) = 81 /\ SalsaXor(key, nonce, c, 8, e) = Msg
            /\ SubSeq(e, 65, 81) = XorBytes(SubSeq(Msg, 65, 81), SalsaBlock(key, nonce, WAdd(c, W64(0,0,0,1)), 8))
ASSUME WAdd(W64(0,0,65535,65535), W64(0,0,0,1)) = W64(0,1,0,0)

\* ---------------------------------------------------------------- ChaCha
ASSUME ChachaQuarter(<<W32(4369,4369), W32(258,772), W32(39821,28483), W32(291,17767)>>)
       = <<W32(59946,37620), W32(51996,63694), W32(17793,18222), W32(22657,50363)>>      \* RFC 7539 2.1.1
ASSUME ChachaSigma = SalsaSigma[1] \o SalsaSigma[2] \o SalsaSigma[3] \o SalsaSigma[4]
ASSUME ChachaTau   = SalsaTau[1] \o SalsaTau[2] \o SalsaTau[3] \o SalsaTau[4]
ASSUME LET x == ChachaInit(Key32, <<9,8,7,6,5,4,3,2>>, W64(4660, 22136, 39612, 57072))
       IN /\ Len(x) = 16 /\ x[1] = W32(24944, 30821) /\ x[4] = W32(27424, 25972)         \* "expa" = 0x61707865, "te k" = 0x6b206574
          /\ x[5] = W32(1027, 513) /\ x[12] = W32(55511, 54997)
          /\ x[13] = W32(39612, 57072) /\ x[14] = W32(4660, 22136)                       \* counter 0x123456789abcdef0: low word first
          /\ x[15] = W32(1543, 2057) /\ x[16] = W32(515, 1029)
ASSUME LET x == ChachaInit(Key16, <<9,8,7,6,5,4,3,2>>, W64(0,0,0,0))
       IN SubSeq(x, 5, 8) = SubSeq(x, 9, 12) /\ x[2] = W32(12576, 25710) /\ x[3] = W32(31074, 11574)   \* "nd 1", "6-by"
ASSUME \A key \in {Key16, Key32} : \A c \in {W64(0,0,0,0), W64(0,0,65535,65535), W64(65535,65535,65535,65535)} :
         LET nonce == <<9,8,7,6,5,4,3,2>>  e == ChachaXor(key, nonce, c, 8, Msg)
         IN /\ Len(e) = 81 /\ ChachaXor(key, nonce, c, 8, e) = Msg
            /\ SubSeq(e, 65, 81) = XorBytes(SubSeq(Msg, 65, 81), ChachaBlock(key, nonce, WAdd(c, W64(0,0,0,1)), 8))
ASSUME PrintT("ST_StreamThm ok")
====
