---- MODULE ST_Serpent ----
(* spec self-test: Serpent.tla against the answers frozen in spec/kat/serpent.ndjson
   (NESSIE vectors + tools/pyref/ref_serpent.py cross-checked with libnettle, see tools/gen_kat_serpent.py).
   Each known answer {key, pt, ct} is checked in both directions. *)
EXTENDS Serpent, Json, IOUtils, TLC
KAT == ndJsonDeserialize(IOEnv.KAT_FILE)
VARIABLES k, verdict
Init == k \in 1..Len(KAT) /\ verdict = "pending"
Next == /\ verdict = "pending" /\ UNCHANGED k
        /\ LET e == KAT[k]
               rk == SerpRoundKeys(e.key)
               c == SerpEncRK(rk, e.pt)
               p == SerpDecRK(rk, e.ct)
               c2 == IF k % 8 = 1 THEN SerpentEnc(e.key, e.pt) ELSE c     \* the top-level operators on some cases
               p2 == IF k % 8 = 1 THEN SerpentDec(e.key, e.ct) ELSE p
           IN
           /\ verdict' = IF c = e.ct /\ p = e.pt /\ c2 = e.ct /\ p2 = e.pt /\ Len(rk) = 33 THEN "ok" ELSE "bad"
           /\ PrintT(ToJson([k |-> k, verdict |-> verdict', got |-> [ct |-> c, pt |-> p]]))
====
