CONSTANTS
