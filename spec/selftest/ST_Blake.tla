---- MODULE ST_Blake ----
(* spec self-test: Blake.tla against the official vectors and tools/pyref/ref_blake.py,     *)
(* frozen in spec/kat/blake.ndjson (tools/gen_kat_blake.py).  L is the bit length, the salt  *)
(* is given as 16 / 32 bytes (4 big-endian words).                                          *)
EXTENDS Blake, Json, IOUtils, TLC
KAT == ndJsonDeserialize(IOEnv.KAT_FILE)
VARIABLES k, verdict
Digest(size, m, L, saltbytes) == BlakeHash(size, m, L, WordsFromBE(saltbytes, IF BlakeBig(size) THEN 8 ELSE 4))
Init == k \in 1..Len(KAT) /\ verdict = "pending"
Next == /\ verdict = "pending" /\ UNCHANGED k
        /\ LET e == KAT[k]  d == Digest(e.size, e.m, e.L, e.salt) IN
           /\ verdict' = IF d = e.d THEN "ok" ELSE "bad"
           /\ PrintT(ToJson([k |-> k, verdict |-> verdict', got |-> d]))
====
