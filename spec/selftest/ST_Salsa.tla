---- MODULE ST_Salsa ----
(* spec self-test: Salsa.tla against the known answers frozen in spec/kat/salsa.ndjson
   (examples of the Salsa20 specification, ECRYPT vectors, tools/gen_kat_salsa.py) *)
EXTENDS Salsa, Json, IOUtils, TLC
KAT == ndJsonDeserialize(IOEnv.KAT_FILE)
VARIABLES k, verdict
Got(e) == IF e.kind = "core" THEN SalsaCore(e.rounds, e.x)
          ELSE IF e.kind = "expand" THEN SalsaExpand(e.key, e.n)
          ELSE SalsaXor(e.key, e.nonce, e.ctr, e.rounds, e.m)
Init == k \in 1..Len(KAT) /\ verdict = "pending"
Next == /\ verdict = "pending" /\ UNCHANGED k
        /\ LET e == KAT[k]  d == Got(e) IN
           /\ verdict' = IF d = e.out THEN "ok" ELSE "bad"
           /\ PrintT(ToJson([k |-> k, verdict |-> verdict', got |-> d]))
====
