---- MODULE ST_Salsa ----
(* spec self-test: Salsa.tla against the known answers frozen in spec/kat/salsa.ndjson
   (examples of the Salsa20 specification, ECRYPT vectors, tools/gen_kat_salsa.py) *)
EXTENDS Salsa, Json, IOUtils, TLC
KAT == ndJsonDeserialize(IOEnv.KAT_FILE)
VARIABLES k, verdict
Got(e) == IF e.kind = "core" THEN SalsaCore(e.rounds, e.x)
          ELSE IF e.kind = "expand" THEN SalsaExpand(e.key, e.n)
          ELSE SalsaXor(e.key, e.nonce, e.ctr, e.rounds, e.m)
Init == k \in 1..Len(KAT) /\ verdict = "pending"
Next == /\ verdict = "pending" /\ UNCHANGED k
        /\ LET e == KAT[k]  d == Got(e) IN
           /\ verdict' = IF d = e.out THEN "ok" ELSE "bad"
           /\ PrintT(ToJson([k |-> k, verdict |-> verdict', got |-> d]))
\* segment law used by C06 for long messages: the output from byte 64c on is the rest of the message xor the keystream from block ctr0 + c
ASSUME LET key == [q \in 1..32 |-> (q * 7) % 256]  nonce == <<1, 2, 3, 4, 5, 6, 7, 8>>  m == [q \in 1..150 |-> (q * 11) % 256]
           c0 == <<65535, 65535, 0, 0>>                                   \* the carry into the next limb lies inside the message
       IN \A r \in {8, 20} : SalsaXor(key, nonce, c0, r, m) = SalsaXor(key, nonce, c0, r, SubSeq(m, 1, 64)) \o SalsaXor(key, nonce, WAddNat(c0, 1), r, SubSeq(m, 65, 150))
====
