CONSTANTS
