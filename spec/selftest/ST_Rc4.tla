---- MODULE ST_Rc4 ----
(* spec self-test: Rc4.tla against the known answers frozen in spec/kat/rc4.ndjson
   (OpenSSL enc -rc4, classic vectors, tools/gen_kat_rc4.py) *)
EXTENDS Rc4, Json, IOUtils, TLC
KAT == ndJsonDeserialize(IOEnv.KAT_FILE)
VARIABLES k, verdict
Has(e, f) == f \in DOMAIN e
Init == k \in 1..Len(KAT) /\ verdict = "pending"
Next == /\ verdict = "pending" /\ UNCHANGED k
        /\ LET e  == KAT[k]
               r1 == Rc4Xor(e.N, Rc4Ksa(e.N, e.key), e.m)
               r2 == Rc4Xor(e.N, r1.st, e.m2)
               ok == /\ r1.out = e.out
                     /\ Has(e, "m2") => /\ r2.out = e.out2
                                        /\ r2.st = [S |-> e.S, i |-> e.i, j |-> e.j]
           IN
           /\ verdict' = IF ok THEN "ok" ELSE "bad"
           /\ PrintT(ToJson([k |-> k, verdict |-> verdict', got |-> r1.out]))
====
