CONSTANTS
