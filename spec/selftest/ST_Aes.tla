---- MODULE ST_Aes ----
(* spec self-test: Aes.tla against OpenSSL AES-ECB single blocks frozen in spec/kat/aes.ndjson      *)
(* (tools/gen_kat_aes.py: FIPS 197 appendix B/C, all-zero/all-ones, walking ones, random; 3 sizes). *)
(* Each known answer is checked in both directions: AesEnc(key, pt) = ct and AesDec(key, ct) = pt.  *)
EXTENDS Aes, Json, IOUtils, TLC
KAT == ndJsonDeserialize(IOEnv.KAT_FILE)
VARIABLES k, verdict
Init == k \in 1..Len(KAT) /\ verdict = "pending"
Next == /\ verdict = "pending" /\ UNCHANGED k
        /\ LET e == KAT[k]
               c == AesEnc(e.key, e.pt)
               p == AesDec(e.key, e.ct)
           IN
           /\ verdict' = IF Len(e.key) = e.klen /\ c = e.ct /\ p = e.pt THEN "ok" ELSE "bad"
           /\ PrintT(ToJson([k |-> k, verdict |-> verdict', got |-> [ct |-> c, pt |-> p]]))
====
