---- MODULE ST_Keccak ----
(* spec self-test: KeccakF.tla / Sponge.tla against spec/kat/keccak.ndjson (tools/gen_kat_keccak.py):         *)
(*  kind "hash":   hashlib SHA3-n / SHAKEn, OpenSSL pre-standard Keccak-n        {alg, n, m, dlen, d} (bytes)   *)
(*  kind "sponge": KECCAK[r, 25w - r](m, d) from an independent bit-level reference   {w, r, m, d, out} (bits)  *)
(*  kind "duplex": a sequence of duplexing calls from the same reference  {w, r, calls: [{sigma, d, out}]}      *)
EXTENDS Sponge, Json, IOUtils, TLC
KAT == ndJsonDeserialize(IOEnv.KAT_FILE)
VARIABLES k, verdict
Hash(e) == IF e.alg = "sha3" THEN Sha3(e.n, e.m)
           ELSE IF e.alg = "shake" THEN Shake(e.n, e.m, e.dlen)
           ELSE KeccakOrig(e.n, e.m)
\* the outputs of the successive calls, threading the state
RECURSIVE DuplexRun(_,_,_,_,_)
DuplexRun(w, r, S, calls, acc) ==
  IF Len(calls) = 0 THEN acc
  ELSE LET c == calls[1]  st == DuplexStep(w, r, S, c.sigma, c.d)
       IN IF ~DuplexPre(r, c.sigma, c.d) THEN <<"precondition">>
          ELSE DuplexRun(w, r, st.S, SubSeq(calls, 2, Len(calls)), Append(acc, st.out))
RECURSIVE Outs(_,_,_)
Outs(calls, i, acc) == IF i > Len(calls) THEN acc ELSE Outs(calls, i + 1, Append(acc, calls[i].out))
Got(e) == IF e.kind = "hash" THEN Hash(e)
          ELSE IF e.kind = "sponge" THEN SpongeHash(e.w, e.r, e.m, e.d)
          ELSE DuplexRun(e.w, e.r, ZeroBits(25*e.w), e.calls, <<>>)
Want(e) == IF e.kind = "hash" THEN e.d ELSE IF e.kind = "sponge" THEN e.out ELSE Outs(e.calls, 1, <<>>)
Init == k \in 1..Len(KAT) /\ verdict = "pending"
Next == /\ verdict = "pending" /\ UNCHANGED k
        /\ LET e == KAT[k]  g == Got(e) IN
           /\ verdict' = IF g = Want(e) THEN "ok" ELSE "bad"
           /\ PrintT(ToJson([k |-> k, verdict |-> verdict', got |-> g]))
====
