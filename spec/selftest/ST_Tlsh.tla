---- MODULE ST_Tlsh ----
(* spec self-test: Tlsh.tla against spec/kat/tlsh.ndjson (official vectors of /repo/tests/test_tlsh.py and
   answers of the independent reference-semantics implementation tools/gen_kat_tlsh.py) *)
EXTENDS Tlsh, Json, IOUtils, TLC
KAT == ndJsonDeserialize(IOEnv.KAT_FILE)
VARIABLES k, verdict
RECURSIVE Feed(_,_,_,_)
Feed(cfg, st, chunks, i) == IF i > Len(chunks) THEN st ELSE Feed(cfg, TlshUpdate(cfg, st, chunks[i]), chunks, i + 1)
Init == k \in 1..Len(KAT) /\ verdict = "pending"
Next == /\ verdict = "pending" /\ UNCHANGED k
        /\ LET e == KAT[k]  cfg == TlshCfg(e.buckets, e.wnd, e.chk) IN
           IF e.op = "hash"
           THEN LET r == TlshFinal(cfg, Feed(cfg, TlshInit(cfg), e.chunks, 1), e.force = 1) IN
                /\ verdict' = IF TlshCfgOK(cfg) /\ r.ok = (e.ok = 1) /\ r.digest = e.d THEN "ok" ELSE "bad"
                /\ PrintT(ToJson([k |-> k, verdict |-> verdict', got |-> r.digest]))
           ELSE LET v == TlshDiff(cfg, e.d1, e.d2, e.lendiff = 1) IN
                /\ verdict' = IF v = e.dist /\ (e.lendiff = 0 \/ v = TlshDistance(cfg, e.d1, e.d2)) THEN "ok" ELSE "bad"
                /\ PrintT(ToJson([k |-> k, verdict |-> verdict', got |-> <<v>>]))
====
