---- MODULE ST_Nilsimsa ----
(* spec self-test: Nilsimsa.tla against the vectors of /repo/tests/test_nilsimsa.py and the       *)
(* from-memory reference of tools/gen_kat_nilsimsa.py, frozen in spec/kat/nilsimsa.ndjson.        *)
(* Each known answer is a pair of messages: both digests, their distance / score, the weight of   *)
(* the first digest, and the first digest once more with the message absorbed in two pieces.      *)
EXTENDS Nilsimsa, Json, IOUtils, TLC
KAT == ndJsonDeserialize(IOEnv.KAT_FILE)
VARIABLES k, verdict
Init == k \in 1..Len(KAT) /\ verdict = "pending"
Next == /\ verdict = "pending" /\ UNCHANGED k
        /\ LET e == KAT[k]
               T == NilTran(e.target)
               s1 == NilUpdateT(T, NilInit, e.m)
               d1 == NilDigest(s1)
               d2 == NilsimsaT(e.target, e.m2)
               h  == Len(e.m) \div 3
               sp == NilUpdateT(T, NilUpdateT(T, NilInit, SubSeq(e.m, 1, h)), SubSeq(e.m, h+1, Len(e.m)))
               ok == /\ d1 = e.d /\ d2 = e.d2
                     /\ NilDistance(d1, d2) = e.dist /\ NilScore(d1, d2) = e.score
                     /\ NilPopCount(d1) = e.hw
                     /\ sp = s1
                     /\ s1.count = Len(e.m) /\ Len(s1.acc) = 256
                     /\ (e.target = 53 => d1 = Nilsimsa(e.m))
           IN /\ verdict' = IF ok THEN "ok" ELSE "bad"
              /\ PrintT(ToJson([k |-> k, verdict |-> verdict', got |-> d1, got2 |-> d2, dist |-> NilDistance(d1, d2)]))
====
