---- MODULE ST_Nilsimsa ----
(* spec self-test: Nilsimsa.tla against the vectors of /repo/tests/test_nilsimsa.py and the       *)
(* from-memory reference of tools/gen_kat_nilsimsa.py, frozen in spec/kat/nilsimsa.ndjson.        *)
(* Each known answer is a pair of messages: both digests, their distance / score, the weight of   *)
(* the first digest, and the first digest once more with the message absorbed in two pieces.      *)
EXTENDS Nilsimsa, Json, IOUtils, TLC
KAT == ndJsonDeserialize(IOEnv.KAT_FILE)
VARIABLES k, verdict
\* NB: everything is computed inside one expression-level LET: TLC does not cache the definitions of a LET
\* that encloses primed conjuncts (action level), each use would recompute the digests.
Run(kk) == LET e == KAT[kk]
               T == NilTran(e.target)
               s1 == NilUpdateT(T, NilInit, e.m)
               d1 == NilDigest(s1)
               d2 == NilsimsaT(e.target, e.m2)
               h  == Len(e.m) \div 3
               sp == NilUpdateT(T, NilUpdateT(T, NilInit, SubSeq(e.m, 1, h)), SubSeq(e.m, h+1, Len(e.m)))
               dist == NilDistance(d1, d2)
               ok == /\ d1 = e.d /\ d2 = e.d2
                     /\ dist = e.dist /\ NilScore(d1, d2) = e.score
                     /\ NilPopCount(d1) = e.hw
                     /\ sp = s1
                     /\ s1.count = Len(e.m) /\ Len(s1.acc) = 256 /\ Len(s1.window) = (IF Len(e.m) < 4 THEN Len(e.m) ELSE 4)
                     /\ (e.target = 53 => d1 = Nilsimsa(e.m))
               v == IF ok THEN "ok" ELSE "bad"
           IN IF PrintT(ToJson([k |-> kk, verdict |-> v, got |-> d1, got2 |-> d2, dist |-> dist])) THEN v ELSE v
Init == k \in 1..Len(KAT) /\ verdict = "pending"
Next == verdict = "pending" /\ UNCHANGED k /\ verdict' = Run(k)
====
