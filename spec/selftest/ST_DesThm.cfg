CONSTANTS
