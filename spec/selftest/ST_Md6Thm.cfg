CONSTANTS
