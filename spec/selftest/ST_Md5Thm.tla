---- MODULE ST_Md5Thm ----
(* spec-internal facts about Md5.tla (no known answers involved) *)
EXTENDS Md5, TLC
x == W32(\hF0F0, \hF0F0)   y == W32(\hCCCC, \hCCCC)   z == W32(\hAAAA, \hAAAA)
ASSUME Md5F(x, y, z) = W32(\hCACA, \hCACA)      \* if x then y else z
ASSUME Md5G(x, y, z) = W32(\hE4E4, \hE4E4)      \* if z then x else y
ASSUME Md5G(x, y, z) = Md5F(z, x, y)
ASSUME Md5H(x, y, z) = W32(\h9696, \h9696)      \* parity
ASSUME Md5I(x, y, z) = W32(\h3939, \h3939)      \* y xor (x or not z)
ASSUME Len(Md5Ops) = 64 /\ Len(Md5T) = 64
ASSUME \A i \in 1..64 : Len(Md5T[i]) = 2 /\ Md5T[i][1] \in 0..65535 /\ Md5T[i][2] \in 0..65535
ASSUME \A r \in 0..3 : {Md5Ops[16*r + j][1] : j \in 1..16} = 0..15
\* the well-known closed forms of the index sequences listed in RFC 1321 s.3.4
ASSUME \A j \in 0..15 : /\ Md5Ops[j + 1][1] = j
                        /\ Md5Ops[16 + j + 1][1] = ((1 + 5*j) % 16)
                        /\ Md5Ops[32 + j + 1][1] = ((5 + 3*j) % 16)
                        /\ Md5Ops[48 + j + 1][1] = ((7*j) % 16)
ASSUME \A j \in 0..15 : /\ Md5Ops[j + 1][2] = <<7,12,17,22>>[(j % 4) + 1]
                        /\ Md5Ops[16 + j + 1][2] = <<5,9,14,20>>[(j % 4) + 1]
                        /\ Md5Ops[32 + j + 1][2] = <<4,11,16,23>>[(j % 4) + 1]
                        /\ Md5Ops[48 + j + 1][2] = <<6,10,15,21>>[(j % 4) + 1]
a == W32(\hFFFF, \hFFFF)  b == W32(\h8000, \h0001)  c == W32(\h7FFF, \hFFFF)  d == W32(\hABCD, \hEF01)
ASSUME \A p \in {a,b,c,d} : \A q \in {a,b,c,d} : \A s \in {a,b,c,d} : \A t \in {a,b,c,d} :
          Md5Sum4(p, q, s, t) = WAdd4(p, q, s, t)
====
