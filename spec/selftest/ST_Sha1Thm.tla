---- MODULE ST_Sha1Thm ----
(* spec-internal facts about Sha1.tla (no known answers involved) *)
EXTENDS Sha1, TLC
x == W32(\hF0F0, \hF0F0)   y == W32(\hCCCC, \hCCCC)   z == W32(\hAAAA, \hAAAA)
ASSUME Sha1Ch(x, y, z)     = W32(\hCACA, \hCACA)
ASSUME Sha1Parity(x, y, z) = W32(\h9696, \h9696)
ASSUME Sha1Maj(x, y, z)    = W32(\hE8E8, \hE8E8)
a == W32(\hFFFF, \hFFFF)  b == W32(\h8000, \h0001)  c == W32(\h7FFF, \hFFFF)  d == W32(\hABCD, \hEF01)
ASSUME \A p \in {a,b,c,d} : \A q \in {a,b,c,d} : \A s \in {a,b,c,d} : \A t \in {a,b,c,d} : \A u \in {a,b,c,d} :
          Sha1Sum5(p, q, s, t, u) = WAdd5(p, q, s, t, u)
\* schedule: 80 words, the first 16 are the block; SHA-0 and SHA-1 differ exactly by the 1-bit rotation
Blk == <<97,98,99,128>> \o Rep(0, 59) \o <<24>>          \* the padded block of "abc"
W0 == Sha1Sched(0, WordsFromBE(Blk, 4))
W1 == Sha1Sched(1, WordsFromBE(Blk, 4))
ASSUME Len(W0) = 80 /\ Len(W1) = 80
ASSUME \A t \in 1..16 : W0[t] = W1[t] /\ W1[t] = WFromBE(SubSeq(Blk, 4*t - 3, 4*t))
ASSUME \A t \in 17..80 : /\ W1[t] = Rol(WXor(WXor(W1[t-3], W1[t-8]), WXor(W1[t-14], W1[t-16])), 1)
                         /\ W0[t] = WXor(WXor(W0[t-3], W0[t-8]), WXor(W0[t-14], W0[t-16]))
ASSUME W0 # W1
ASSUME Sha1Out(Sha1IV) = <<103,69,35,1, 239,205,171,137, 152,186,220,254, 16,50,84,118, 195,210,225,240>>
====
