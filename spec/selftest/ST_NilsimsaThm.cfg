CONSTANTS
