---- MODULE ST_Md6Thm ----
(* spec-internal facts about Md6.tla / Md6Tree.tla (no compression function is evaluated here) *)
EXTENDS Md6Tree, TLC

\* ---- constants ----------------------------------------------------------------
ASSUME Len(Md6Q) = 15 /\ \A i \in 1..15 : Len(Md6Q[i]) = 4 /\ \A k \in 1..4 : Md6Q[i][k] \in 0..65535
ASSUME Md6Smask = Md6Q[1]                              \* the report: S* = Q[0]
ASSUME Len(Md6ShiftR) = 16 /\ Len(Md6ShiftL) = 16
ASSUME \A i \in 1..16 : Md6ShiftR[i] \in 1..15 /\ Md6ShiftL[i] \in 1..31 /\ Md6ShiftR[i] # Md6ShiftL[i]
\* taps: c < t0 < t1 < t2 < t3 < t4 < n (all > c = 16, so the 16 steps of a round do not depend on each other)
ASSUME \A i \in 1..5 : Md6Taps[i] > Md6C /\ Md6Taps[i] < Md6N
ASSUME \A i \in 1..4 : Md6Taps[i] < Md6Taps[i+1]
ASSUME Md6S(0) = Md6S0
ASSUME Md6S(1) = W64(839, 51918, 4982, 22142)        \* by hand: 02468acf13579bde xor 010140010021cda0 = 0347cace1376567e
ASSUME LET T == Md6STable(12) IN Len(T) = 12 /\ \A j \in 0..11 : T[j+1] = Md6S(j)

\* ---- the unrolled shifts are Words!Shr / Words!Shl -------------------------------
Samples == {W64(4660, 22136, 39612, 57072), W64(65535, 65535, 65535, 65535), W64(32768, 0, 0, 1),
            W64(1, 32768, 65535, 0), Md6Q[7], Md6Q[15]}
ASSUME \A x \in Samples : \A k \in 1..15 : Md6Shr(x, k) = Shr(x, k)
ASSUME \A x \in Samples : \A k \in 1..31 : Md6Shl(x, k) = Shl(x, k)

\* ---- auxiliary words: one field at a time, and all fields full --------------------
ASSUME Md6ControlWord(1, 0, 0, 0, 0, 0) = W64(1, 0, 0, 0)
ASSUME Md6ControlWord(0, 1, 0, 0, 0, 0) = W64(0, 256, 0, 0)
ASSUME Md6ControlWord(0, 0, 1, 0, 0, 0) = W64(0, 16, 0, 0)
ASSUME Md6ControlWord(0, 0, 0, 1, 0, 0) = W64(0, 0, 16, 0)
ASSUME Md6ControlWord(0, 0, 0, 0, 1, 0) = W64(0, 0, 0, 4096)
ASSUME Md6ControlWord(0, 0, 0, 0, 0, 1) = W64(0, 0, 0, 1)
ASSUME Md6ControlWord(4095, 255, 15, 65535, 255, 4095) = W64(4095, 65535, 65535, 65535)
\* the report's example: r = 5, L = 64, z = 1, p = 4072, keylen = 0, d = 256  ->  00054010fe800100
ASSUME Md6ControlWord(5, 64, 1, 4072, 0, 256) = W64(5, 16400, 65152, 256)
ASSUME Md6NodeId(1, 0) = W64(256, 0, 0, 0)
ASSUME Md6NodeId(255, 65541) = W64(65280, 0, 1, 5)
ASSUME Md6KeyWords(<<>>) = Md6Zeros(8)
ASSUME Md6KeyWords(<<1, 2, 3, 4, 5, 6, 7, 8, 9>>)[1] = W64(258, 772, 1286, 1800)
ASSUME Md6KeyWords(<<1, 2, 3, 4, 5, 6, 7, 8, 9>>)[2] = W64(2304, 0, 0, 0)
ASSUME Md6DefaultRounds(256, 0) = 104 /\ Md6DefaultRounds(512, 0) = 168 /\ Md6DefaultRounds(160, 0) = 80
ASSUME Md6DefaultRounds(1, 0) = 40 /\ Md6DefaultRounds(128, 0) = 72 /\ Md6DefaultRounds(128, 1) = 80
ASSUME Md6DefaultRounds(1, 64) = 80 /\ Md6DefaultRounds(224, 5) = 96 /\ Md6DefaultRounds(512, 64) = 168

\* ---- output ---------------------------------------------------------------------
Ramp == WordsFromBE([i \in 1..128 |-> i - 1], 8)       \* bytes 0 .. 127
ASSUME Md6Trim(512, Ramp) = [i \in 1..64 |-> 63 + i]
ASSUME Md6Trim(8, Ramp) = <<127>>
ASSUME Md6Trim(1, Ramp) = <<128>>                      \* last bit of 0x7f, first bit of the output
ASSUME Md6Trim(7, Ramp) = <<254>>                      \* 1111111 0
ASSUME Md6Trim(12, Ramp) = <<231, 240>>                \* ..7e 7f -> e7f -> e7 f0
ASSUME Md6Trim(9, Ramp) = <<63, 128>>                  \* 0 01111111 -> 00111111 1 0000000
ASSUME Md6MsgWords(<<255, 255>>, 11) = <<W64(65504, 0, 0, 0)>>
ASSUME Md6MsgWords(<<>>, 0) = <<>>
ASSUME Len(Md6MsgWords([i \in 1..9 |-> 1], 72)) = 2

\* ---- the shape of the computation: L in {0,1,2,3,4,64} x 0 .. 70 leaf blocks --------
Max(a, b) == IF a > b THEN a ELSE b
CeilDiv(a, b) == (a + b - 1) \div b
\* expected <<level, number of nodes, bits of input of that level>> per level, from the report's loop
RECURSIVE Shape(_,_,_,_)
Shape(L, l, nbits, acc) ==
  IF l = L + 1 THEN Append(acc, <<l, Max(1, CeilDiv(nbits, 3072)), nbits>>)
  ELSE LET j == Max(1, CeilDiv(nbits, 4096)) IN
       IF j = 1 THEN Append(acc, <<l, 1, nbits>>) ELSE Shape(L, l + 1, 1024 * j, Append(acc, <<l, j, nbits>>))
RECURSIVE ExpandR(_,_,_,_,_)
\* nodes of one level: indices 0 .. j-1, p only on the last, z as specified
ExpandR(L, lv, i, last, acc) ==
  IF i = lv[2] THEN acc
  ELSE LET seq == (lv[1] = L + 1)
           bb  == IF seq THEN 3072 ELSE 4096
           p   == IF i = lv[2] - 1 THEN (lv[2] * bb) - lv[3] ELSE 0
           z   == IF (i = lv[2] - 1) /\ last THEN 1 ELSE 0
       IN ExpandR(L, lv, i + 1, last, Append(acc, <<lv[1], i, z, p>>))
RECURSIVE Expand(_,_,_,_)
Expand(L, sh, k, acc) ==
  IF k > Len(sh) THEN acc ELSE Expand(L, sh, k + 1, ExpandR(L, sh[k], 0, k = Len(sh), acc))
Expected(L, bitlen) == Expand(L, Shape(L, 1, bitlen, <<>>), 1, <<>>)

BitLens == {0, 1, 7, 3071, 3072, 3073, 6144, 6145} \cup
           UNION {{(4096 * j) - 1, 4096 * j, (4096 * j) + 1, (4096 * j) + 2049} : j \in 1..70}
Ls == {0, 1, 2, 3, 4, 64}
PlanOK(L, n) ==
  LET pl == Md6Plan(L, n)  m == Len(pl) IN
  /\ pl = Expected(L, n)
  /\ \A a, b \in 1..m : a # b => <<pl[a][1], pl[a][2]>> # <<pl[b][1], pl[b][2]>>     \* node ids unique
  /\ \A a \in 1..m : pl[a][3] = (IF a = m THEN 1 ELSE 0)                              \* z = 1 only on the last
  /\ \A a \in 1..m : pl[a][1] \in 1..(L+1) /\ pl[a][4] \in 0..4096
  /\ \A a \in 1..(m-1) : \/ pl[a+1][1] = pl[a][1] /\ pl[a+1][2] = pl[a][2] + 1 /\ pl[a][4] = 0
                         \/ pl[a+1][1] = pl[a][1] + 1 /\ pl[a+1][2] = 0
  /\ pl[1] [1] = 1 /\ pl[1][2] = 0
ASSUME \A L \in Ls : \A n \in BitLens : PlanOK(L, n)
\* height of the tree: 4^(h-1) < leaf blocks <= 4^h  gives h + 1 levels when L is large
ASSUME Md6Plan(64, 4096 * 16)[Len(Md6Plan(64, 4096 * 16))][1] = 3
ASSUME Md6Plan(64, (4096 * 16) + 1)[Len(Md6Plan(64, (4096 * 16) + 1))][1] = 4
ASSUME Md6Plan(64, 4096 * 64)[Len(Md6Plan(64, 4096 * 64))][1] = 4
ASSUME Md6Plan(64, (4096 * 64) + 1)[Len(Md6Plan(64, (4096 * 64) + 1))][1] = 5
ASSUME Len(Md6Plan(64, 4096 * 64)) = 64 + 16 + 4 + 1
ASSUME Len(Md6Plan(0, 4096 * 3)) = 4 /\ Len(Md6Plan(1, 4096 * 4)) = 4 + 2
ASSUME PrintT("ST_Md6Thm ok")
====
