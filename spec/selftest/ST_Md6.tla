---- MODULE ST_Md6 ----
(* spec self-test: Md6.tla + Md6Tree.tla against the official MD6 vectors and tools/pyref/ref_md6.py,
   frozen in spec/kat/md6.ndjson by tools/gen_kat_md6.py.  Per known answer: the digest, the list of
   compressions <<level, index, z, p>> (also against Md6Plan, which never calls f), and that the
   whole-level operators Md6Par / Md6Seq give the same root as the step machine. *)
EXTENDS Md6Tree, Json, IOUtils, TLC
KAT == ndJsonDeserialize(IOEnv.KAT_FILE)
VARIABLES k, verdict

\* the report's loop written with whole levels
RECURSIVE ByLevels(_,_,_,_)
ByLevels(P, l, data, nbits) ==
  LET C(N) == Md6F(P.r, N) IN
  IF l = P.L + 1 THEN Md6Seq(C, P, l, data, nbits)
  ELSE LET o == Md6Par(C, P, l, data, nbits)
       IN IF Len(o) = 16 THEN o ELSE ByLevels(P, l + 1, o, 64 * Len(o))

Init == k \in 1..Len(KAT) /\ verdict = "pending"
Next == /\ verdict = "pending" /\ UNCHANGED k
        /\ LET e   == KAT[k]
               P   == Md6Params(e.d, e.key, e.L, e.r)
               fin == Md6Run(P, Md6Init(e.m, e.bitlen))
               got == Md6Trim(e.d, fin.cv)
               lv  == fin.cv = ByLevels(P, 1, Md6MsgWords(e.m, e.bitlen), e.bitlen)
           IN
           /\ verdict' = IF got = e.out /\ fin.log = e.nodes /\ Md6Plan(e.L, e.bitlen) = e.nodes
                            /\ (Len(e.nodes) > 8 \/ lv)
                            /\ (Len(e.m) > 64 \/ got = Md6Hash(e.d, e.key, e.L, e.r, e.m, e.bitlen))
                         THEN "ok" ELSE "bad"
           /\ PrintT(ToJson([k |-> k, verdict |-> verdict', got |-> got, nodes |-> Len(fin.log)]))
====
