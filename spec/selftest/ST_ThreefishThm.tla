---- MODULE ST_ThreefishThm ----
(* spec-internal theorems of Threefish.tla *)
EXTENDS Threefish, FiniteSets, TLC
IsPerm(p, n) == Len(p) = n /\ {p[i] : i \in 1..n} = 0..(n-1)
Sizes == {4, 8, 16}
\* Table 3 rows are permutations of 0..Nw-1, and TfPermInv is the inverse both ways
ASSUME \A nw \in Sizes : IsPerm(TfPerm(nw), nw) /\ IsPerm(TfPermInv(nw), nw)
ASSUME \A nw \in Sizes : \A i \in 0..(nw-1) : TfPerm(nw)[TfPermInv(nw)[i+1]+1] = i /\ TfPermInv(nw)[TfPerm(nw)[i+1]+1] = i
\* pi sends even positions to even words and odd to odd (a property of Table 3 visible in the paper)
ASSUME \A nw \in Sizes : \A i \in 0..(nw-1) : (TfPerm(nw)[i+1] % 2) = (i % 2)
\* rotation tables: 8 rows of Nw/2 amounts in 1..63
ASSUME \A nw \in Sizes : Len(TfRot(nw)) = 8 /\ \A d \in 1..8 : Len(TfRot(nw)[d]) = nw \div 2 /\ \A j \in 1..(nw \div 2) : TfRot(nw)[d][j] \in 1..63
ASSUME TfNr(4) = 72 /\ TfNr(8) = 72 /\ TfNr(16) = 80
\* C240 = 0x1BD11BDAA9FC1A22
ASSUME WToBE(C240) = <<27, 209, 27, 218, 169, 252, 26, 34>>
\* key schedule on a recognisable key
K4 == <<W64(0,0,0,1), W64(0,0,0,2), W64(0,0,0,4), W64(0,0,0,8)>>
T2 == <<W64(0,0,0,16), W64(65535,65535,65535,65535)>>
ASSUME TfKeyExt(K4)[5] = W64(7121, 7130, 43516, 6701)      \* 0x1A22 xor 0xF = 0x1A2D
ASSUME TfTweakExt(T2) = <<T2[1], T2[2], W64(65535,65535,65535,65535-16)>>
\* s = 0: k0, k1 + t0, k2 + t1, k3 + 0
ASSUME TfSubkey(TfKeyExt(K4), TfTweakExt(T2), 4, 0) = <<K4[1], W64(0,0,0,18), W64(0,0,0,3), K4[4]>>
\* s = 4: k4, k0 + t1, k1 + t2, k2 + 4   (indices (s+i) mod 5; t_{4 mod 3} = t1, t_{5 mod 3} = t2)
ASSUME TfSubkey(TfKeyExt(K4), TfTweakExt(T2), 4, 4) = <<TfKeyExt(K4)[5], W64(0,0,0,0), W64(65535,65535,65535,65535-16+2), W64(0,0,0,8)>>
\* s = 18 (last): indices 18 mod 5 = 3: k3, k4 + t0, k0 + t1, k1 + 18
ASSUME TfSubkey(TfKeyExt(K4), TfTweakExt(T2), 4, 18) = <<K4[4], WAdd(TfKeyExt(K4)[5], T2[1]), W64(0,0,0,0), W64(0,0,0,20)>>
\* one MIX and its inverse, a whole round layer
V4 == <<W64(65535,65535,65535,65535), W64(0,0,0,1), W64(32768,0,0,1), W64(4660,22136,39612,57072)>>
ASSUME TfMixAll(V4, TfRot4[1], 0, <<>>)[1] = W64(0,0,0,0)
ASSUME TfMixAll(V4, TfRot4[1], 0, <<>>)[2] = W64(0,0,0,16384)           \* 1 <<< 14
ASSUME \A d \in 1..8 : TfUnmixAll(TfMixAll(V4, TfRot4[d], 0, <<>>), TfRot4[d], 0, <<>>) = V4
ASSUME TfPermute(TfPermute(V4, TfPerm4), TfPermInv4) = V4
ASSUME TfPermute(<<10,11,12,13>>, TfPerm4) = <<10,13,12,11>>
\* (Dec o Enc = Enc o Dec = identity is checked on every known answer by ST_Threefish: whole-cipher
\*  evaluation inside an ASSUME overflows the stack of the TLC main thread)
ASSUME PrintT("ST_ThreefishThm ok")
====
