------------------------------- MODULE MDObj -------------------------------
(* A Merkle-Damgard hash object (MD4/MD5/SHA-1/SHA-2/BLAKE shape) over the   *)
(* Padding machine.  Here Compress is SYMBOLIC and injective (it records its *)
(* arguments), which is what makes "piecewise = one-shot" a structural fact. *)
(* The trace specification replaces Compress/IV/Encode by the real ones.     *)
EXTENDS Padding
VARIABLE H                       \* chaining value
ovars == <<vars, H>>
IV == <<>>
Compress(h, blk, t) == Append(h, <<blk, t>>)     \* t = counter given to the compression (BLAKE); ignored by MD/SHA
RECURSIVE Fold(_,_,_)
Fold(h, o, k) == IF k > Len(o) THEN h ELSE Fold(Compress(h, o[k][1], o[k][2]), o, k+1)

InitObj  == Init /\ H = IV                                   \* initstate()
Update(m, pad) == Iter(m, pad) /\ H' = Fold(H, out', 1)      \* update(m, padding=pad); refused => out' = <<>> => H' = H
ReInit   == Reset /\ H' = IV
NextObj  == \/ \E n \in 0..MaxBits, pad \in BOOLEAN :
                 /\ Len(fed) + n <= MaxBits /\ (~pad => n % 8 = 0)
                 /\ \E m \in Msgs(n) : Update(m, pad)
            \/ ReInit
SpecObj == InitObj /\ [][NextObj]_ovars

\* what a fresh object computes in one call on the whole message
OneShot(msg) == LET p == Pad(msg) n == NBlocks(Len(p))
                IN Fold(IV, [i \in 1..n |-> <<Block(p,i), Cnt(0,Len(msg),i)>>], 1)
\* C14 / C01 / C11 as invariants
IdleIsPrefix   == ~padflag => /\ bitcnt = Len(fed)
                              /\ H = Fold(IV, [i \in 1..(Len(fed) \div B) |-> <<Block(fed,i), i*B>>], 1)
PiecewiseIsOneShot == padflag => H = OneShot(fed)
=============================================================================
