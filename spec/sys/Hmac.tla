-------------------------------- MODULE Hmac --------------------------------
(***************************************************************************)
(* HMAC (RFC 2104 / FIPS 198-1) over the hash objects of sys/HashObj: a key *)
(* register K' of exactly one block (key zero-padded, or its digest zero-   *)
(* padded when the key is longer than a block), replaced completely by      *)
(* SetKey; Mac(M) = H((K' xor opad) || H((K' xor ipad) || M)).              *)
(***************************************************************************)
EXTENDS HashObj, Integers
ZSaltH(a) == IF HBig(a) THEN <<ZeroW(4), ZeroW(4), ZeroW(4), ZeroW(4)>> ELSE <<ZeroW(2), ZeroW(2), ZeroW(2), ZeroW(2)>>
HDigest(a, m) == HUpdate(a, HInit(a, ZSaltH(a)), m, -1, TRUE).out
HmacKey(a, K) == LET Bk == HSch(a).B IN
                 IF Len(K) > Bk THEN HDigest(a, K) \o Rep(0, Bk - HOutLen(a)) ELSE K \o Rep(0, Bk - Len(K))
HmacMac(a, Kp, M) == LET Bk == HSch(a).B IN
                     HDigest(a, XorBytes(Kp, Rep(92, Bk)) \o HDigest(a, XorBytes(Kp, Rep(54, Bk)) \o M))
=============================================================================
