------------------------------- MODULE Ciphers -------------------------------
(***************************************************************************)
(* The block ciphers of crysp behind one interface (C02, C03, C05, C18):    *)
(* a cipher instance is a record [c, keys, tweak]:                          *)
(*   c = "aes" | "des" | "tdea" | "serpent" | "threefish"                   *)
(*   keys  = tuple of the byte strings passed to the constructor (TDEA: 1,  *)
(*           2 or 3 of them, or ONE string of 8/16/24 bytes; others: one)   *)
(*   tweak = 16 bytes (Threefish only, else <<>>)                           *)
(* CipherOk says whether the standard defines such an instance; sizes the   *)
(* standard does not define must be rejected by the code.                   *)
(***************************************************************************)
EXTENDS Aes, Des, Serpent, Threefish

\* TDEA keying: (K1) -> K1,K1,K1; (K1,K2) -> K1,K2,K1; (K1,K2,K3); one string of 8/16/24 bytes is cut into 8-byte keys
TdeaKeys(keys) ==
  IF Len(keys) = 1 THEN
       LET k == keys[1] IN
       IF Len(k) = 8 THEN <<k, k, k>>
       ELSE IF Len(k) = 16 THEN <<SubSeq(k, 1, 8), SubSeq(k, 9, 16), SubSeq(k, 1, 8)>>
       ELSE IF Len(k) = 24 THEN <<SubSeq(k, 1, 8), SubSeq(k, 9, 16), SubSeq(k, 17, 24)>>
       ELSE <<>>
  ELSE IF Len(keys) = 2 THEN <<keys[1], keys[2], keys[1]>>
  ELSE IF Len(keys) = 3 THEN keys ELSE <<>>
CipherOk(ci) ==
  CASE ci.c = "aes"       -> Len(ci.keys) = 1 /\ Len(ci.keys[1]) \in {16, 24, 32}
    [] ci.c = "des"       -> Len(ci.keys) = 1 /\ Len(ci.keys[1]) = 8
    [] ci.c = "tdea"      -> LET t == TdeaKeys(ci.keys) IN Len(t) = 3 /\ \A j \in 1..3 : Len(t[j]) = 8
    [] ci.c = "serpent"   -> Len(ci.keys) = 1 /\ Len(ci.keys[1]) \in 1..32
    [] ci.c = "threefish" -> Len(ci.keys) = 1 /\ Len(ci.keys[1]) \in {32, 64, 128} /\ Len(ci.tweak) = 16
BlockLen(ci) == CASE ci.c = "aes" -> 16 [] ci.c \in {"des", "tdea"} -> 8 [] ci.c = "serpent" -> 16 [] ci.c = "threefish" -> Len(ci.keys[1])
CipherEnc(ci, blk) ==
  CASE ci.c = "aes"       -> AesEnc(ci.keys[1], blk)
    [] ci.c = "des"       -> DesEnc(ci.keys[1], blk)
    [] ci.c = "tdea"      -> LET t == TdeaKeys(ci.keys) IN TdeaEnc(t[1], t[2], t[3], blk)
    [] ci.c = "serpent"   -> SerpentEnc(ci.keys[1], blk)
    [] ci.c = "threefish" -> ThreefishEnc(ci.keys[1], ci.tweak, blk)
CipherDec(ci, blk) ==
  CASE ci.c = "aes"       -> AesDec(ci.keys[1], blk)
    [] ci.c = "des"       -> DesDec(ci.keys[1], blk)
    [] ci.c = "tdea"      -> LET t == TdeaKeys(ci.keys) IN TdeaDec(t[1], t[2], t[3], blk)
    [] ci.c = "serpent"   -> SerpentDec(ci.keys[1], blk)
    [] ci.c = "threefish" -> ThreefishDec(ci.keys[1], ci.tweak, blk)
=============================================================================
