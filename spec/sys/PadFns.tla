------------------------------ MODULE PadFns ------------------------------
(* The eight padding schemes of crysp/padding.py as functions over bit strings (Seq({0,1}), stream order: bit 1 is the MSB of  *)
(* the first byte).                                                          *)
EXTENDS Naturals, Sequences, FiniteSets, TLC

CONSTANTS B,        \* block size in bits (multiple of 8)
          Scheme,   \* "none","zero","iso","pkcs7","x923","md","sha","blake"
          W,        \* word size for md/sha/blake (length field = 2W bits)
          Marker    \* blake: 1 for BLAKE-256/512, 0 for 224/384

Bit == {0,1}
Zeros(n) == [i \in 1..n |-> 0]
Min(a,b) == IF a < b THEN a ELSE b
\* n-bit big-endian field of v, stream order
BE(v,n) == [i \in 1..n |-> ((v \div (2^(n-i))) % 2)]
\* byte value as 8 stream bits
Byte(v) == BE(v,8)
RECURSIVE Rep(_,_)
Rep(s,k) == IF k = 0 THEN <<>> ELSE s \o Rep(s,k-1)
\* n-bit little-endian-bytes field (MD style): bytes LSB first, bits MSB first in each
LEbytes(v,n) == LET RECURSIVE G(_,_)
                    G(x,k) == IF k = 0 THEN <<>> ELSE Byte(x % 256) \o G(x \div 256, k-1)
                IN G(v % (2^n), n \div 8)
ByteGranular == Scheme \in {"pkcs7","x923","none"}

PadBits(L) ==   \* the pad appended to a message of L bits
  CASE Scheme = "none"  -> <<>>
    [] Scheme = "zero"  -> Zeros(IF L = 0 THEN B ELSE (B - (L % B)) % B)
    [] Scheme = "iso"   -> <<1>> \o Zeros(B - (L % B) - 1)
    [] Scheme = "pkcs7" -> LET q == (B \div 8) - ((L \div 8) % (B \div 8)) IN Rep(Byte(q),q)
    [] Scheme = "x923"  -> LET q == (B \div 8) - ((L \div 8) % (B \div 8)) IN Rep(Byte(0),q-1) \o Byte(q)
    [] Scheme = "md"    -> <<1>> \o Zeros((3*B - 1 - 2*W - (L % B)) % B) \o LEbytes(L,2*W)
    [] Scheme = "sha"   -> <<1>> \o Zeros((3*B - 1 - 2*W - (L % B)) % B) \o BE(L % (2^(2*W)),2*W)
    [] Scheme = "blake" -> <<1>> \o Zeros((3*B - 2 - 2*W - (L % B)) % B) \o <<Marker>> \o BE(L % (2^(2*W)),2*W)

Pad(m) == m \o PadBits(Len(m))
NBlocks(n) == (n + B - 1) \div B
Block(p,i) == SubSeq(p, (i-1)*B + 1, Min(i*B, Len(p)))        \* i = 1..NBlocks(Len(p))
\* counter reported with block i (1-based) of a message of L bits that started at offset start
Cnt(start,L,i) == IF (i-1)*B < L THEN start + Min(L, i*B) ELSE 0

\* ---- removal --------------------------------------------------------------
LastOne(c) == CHOOSE k \in 0..Len(c) : (k = 0 \/ c[k] = 1) /\ \A j \in (k+1)..Len(c) : c[j] = 0
ByteAt(c,k) == LET s == SubSeq(c, 8*(k-1)+1, 8*k)              \* k-th byte value
               IN s[1]*128+s[2]*64+s[3]*32+s[4]*16+s[5]*8+s[6]*4+s[7]*2+s[8]
Bad == [ok |-> FALSE, val |-> <<>>]
Ok(v) == [ok |-> TRUE, val |-> v]
Unpad(c, pc) ==   \* Bad = PaddingError
  CASE Scheme = "none"  -> Ok(c)
    [] Scheme = "zero"  -> Ok(SubSeq(c,1,Len(c)-pc))
    [] Scheme = "iso"   -> IF LastOne(c) = 0 THEN Bad ELSE Ok(SubSeq(c,1,LastOne(c)-1))
    [] Scheme \in {"pkcs7","x923"} ->
         LET n == Len(c) \div 8  q == ByteAt(c,n)
             okfill == IF Scheme = "pkcs7" THEN \A k \in (n-q+1)..n : ByteAt(c,k) = q
                                           ELSE \A k \in (n-q+1)..(n-1) : ByteAt(c,k) = 0
         IN IF q = 0 \/ q > B \div 8 \/ q > n \/ ~okfill THEN Bad ELSE Ok(SubSeq(c,1,8*(n-q)))
    [] Scheme \in {"md","sha"} -> LET d == SubSeq(c,1,Len(c)-2*W) IN Ok(SubSeq(d,1,LastOne(d)-1))
    [] Scheme = "blake" -> LET d == SubSeq(c,1,Len(c)-2*W-1) IN Ok(SubSeq(d,1,LastOne(d)-1))
=============================================================================
