------------------------------ MODULE PadBytes ------------------------------
(***************************************************************************)
(* The eight padding schemes of crysp/padding.py on BYTE strings with a BIT *)
(* length, and the blockiterator object (bitcnt, padcnt, padflag) as a      *)
(* step function.  This is the form the trace validators use (block sizes   *)
(* up to 1024 bits); mc/MC_PadBytes checks it against the bit-level machine *)
(* sys/Padding.tla on every small case.                                     *)
(*                                                                         *)
(* A scheme is a record [s, B, w, mk]: s in {"none","zero","iso","pkcs7",    *)
(* "x923","md","sha","blake"}, B block BYTES, w bytes of ONE counter word    *)
(* (the length field has 2w bytes), mk BLAKE's marker bit.                  *)
(* Counters are 8-limb words (128 bits) so that 2^32 / 2^64 carries exist.  *)
(***************************************************************************)
EXTENDS MDPad, TLC

CNT == 8                                 \* limbs of a bit counter
CZero == ZeroW(CNT)
CNat(v) == WFromNat(v, CNT)
\* low 2w bytes of a counter, as the length field
LenField(sch, total) == LET n == sch.w IN      \* n limbs = 2w bytes
                        IF sch.s = "md" THEN WToLE(SubSeq(total, 1, n)) ELSE WToBE(SubSeq(total, 1, n))
ByteGranular(sch) == sch.s \in {"pkcs7", "x923", "none"}
BitGranular(sch)  == ~ByteGranular(sch)
DefinesPadcnt(sch) == sch.s \in {"zero", "iso", "pkcs7", "x923"}

\* ---- the pad of the FINAL piece ------------------------------------------------
\* m: bytes of the final piece, L: its bit length (<= 8 Len(m)), total: counter = bits before + L
\* anyBefore: TRUE iff at least one bit was fed before this piece
\* result: bytes emitted for this piece (message bits, then the pad)
PadTail(sch, m, L, total, anyBefore) ==
  LET B == sch.B  nb == L \div 8  r == L % 8  lastfill == (B - (Len(FirstBits(m, L)) % B)) % B IN
  CASE sch.s = "none"  -> FirstBits(m, L)
    [] sch.s = "zero"  -> IF L = 0 THEN (IF anyBefore THEN <<>> ELSE Rep(0, B))
                          ELSE FirstBits(m, L) \o Rep(0, lastfill)
    [] sch.s = "iso"   -> LET x == WithOneBit(m, L) IN x \o Rep(0, (B - (Len(x) % B)) % B)
    [] sch.s = "pkcs7" -> LET q == B - (nb % B) IN SubSeq(m, 1, nb) \o Rep(q, q)
    [] sch.s = "x923"  -> LET q == B - (nb % B) IN SubSeq(m, 1, nb) \o Rep(0, q-1) \o <<q>>
    [] sch.s \in {"md", "sha"} -> PadMD(m, L, B, LenField(sch, total), 0)
    [] sch.s = "blake" -> PadBlake(m, L, B, LenField(sch, total), sch.mk)

\* number of pad bits, where the scheme defines the pad-bit counter
PadBitsCount(sch, m, L, anyBefore) == 8 * Len(PadTail(sch, m, L, CZero, anyBefore)) - L

\* ---- removal ---------------------------------------------------------------------
\* position (1-based bit index, bit 1 = MSB of byte 1) of the last 1 bit of c, 0 if none
RECURSIVE LastOneByte(_,_)
LastOneByte(c, k) == IF k = 0 THEN 0 ELSE IF c[k] # 0 THEN k ELSE LastOneByte(c, k-1)
RECURSIVE LowestSet(_,_)
LowestSet(v, i) == IF (v \div P2[i+1]) % 2 = 1 THEN i ELSE LowestSet(v, i+1)       \* v # 0
LastOneBit(c) == LET k == LastOneByte(c, Len(c)) IN IF k = 0 THEN 0 ELSE 8*(k-1) + (8 - LowestSet(c[k], 0))
AllEq(c, lo, hi, v) == \A k \in lo..hi : c[k] = v
Bad == [ok |-> FALSE, val |-> <<>>]
Ok(v) == [ok |-> TRUE, val |-> v]
\* Unpad(sch, c, padcnt): Bad stands for "PaddingError"
Unpad(sch, c, padcnt) ==
  LET n == Len(c) IN
  CASE sch.s = "none"  -> Ok(c)
    [] sch.s = "zero"  -> IF padcnt > 8*n THEN Bad ELSE Ok(FirstBits(c, 8*n - padcnt))      \* total: an impossible pad count is "malformed"
    [] sch.s = "iso"   -> LET p == LastOneBit(c) IN IF p = 0 THEN Bad ELSE Ok(FirstBits(c, p-1))
    [] sch.s \in {"pkcs7", "x923"} ->
         IF n = 0 THEN Bad ELSE
         LET q == c[n] IN
         IF q = 0 \/ q > sch.B \/ q > n THEN Bad
         ELSE IF sch.s = "pkcs7" /\ ~AllEq(c, n-q+1, n, q) THEN Bad
         ELSE IF sch.s = "x923" /\ ~AllEq(c, n-q+1, n-1, 0) THEN Bad
         ELSE Ok(SubSeq(c, 1, n-q))
    [] sch.s \in {"md", "sha"} ->
         LET d == SubSeq(c, 1, n - 2*sch.w)  p == LastOneBit(d) IN IF p = 0 THEN Bad ELSE Ok(FirstBits(d, p-1))
    [] sch.s = "blake" ->
         LET d0 == SubSeq(c, 1, n - 2*sch.w)
             d  == IF sch.mk = 1 /\ Len(d0) > 0 THEN SubSeq(d0, 1, Len(d0)-1) \o <<(d0[Len(d0)] \div 2) * 2>> ELSE d0
             p  == LastOneBit(d)
         IN IF p = 0 \/ (sch.mk = 1 /\ Len(d0) > 0 /\ (d0[Len(d0)] % 2) = 0) THEN Bad ELSE Ok(FirstBits(d, p-1))

\* ---- the blockiterator object as a step function -----------------------------------
\* state st = [bitcnt |-> counter word, padcnt |-> Nat, padflag |-> BOOLEAN]
PadInit == [bitcnt |-> CZero, padcnt |-> 0, padflag |-> FALSE]
Min(a, b) == IF a < b THEN a ELSE b
\* blocks of byte string p (a last partial block only for "none")
RECURSIVE SplitR(_,_,_,_)
SplitR(p, B, i, acc) == IF (i-1)*B >= Len(p) THEN acc ELSE SplitR(p, B, i+1, Append(acc, SubSeq(p, (i-1)*B+1, Min(i*B, Len(p)))))
Split(p, B) == SplitR(p, B, 1, <<>>)
\* counter reported with block i (1-based) of a piece of L message bits that started at counter `start`
CntAt(start, L, B, i) == IF (i-1)*8*B < L THEN WAddNat(start, Min(L, i*8*B)) ELSE CZero
RECURSIVE CntsR(_,_,_,_,_,_)
CntsR(start, L, B, n, i, acc) == IF i > n THEN acc ELSE CntsR(start, L, B, n, i+1, Append(acc, CntAt(start, L, B, i)))

\* Iter(sch, st, m, bitlen, padding): bitlen = -1 when omitted.
\* Result: [raises |-> BOOLEAN, blocks |-> <<bytes>>, cnts |-> <<counter at yield of each block>>, st |-> state after]
Iter(sch, st, m, bitlen, padding) ==
  LET L == IF bitlen < 0 THEN 8*Len(m) ELSE bitlen
      B == sch.B
      refuse == [raises |-> TRUE, blocks |-> <<>>, cnts |-> <<>>, st |-> st]
  IN IF st.padflag \/ L > 8*Len(m) \/ (~padding /\ (L % (8*B)) # 0) THEN refuse
     ELSE IF ~padding
     THEN LET n == L \div (8*B) IN
          [raises |-> FALSE, blocks |-> Split(SubSeq(m, 1, n*B), B), cnts |-> CntsR(st.bitcnt, L, B, n, 1, <<>>),
           st |-> [st EXCEPT !.bitcnt = WAddNat(st.bitcnt, L)]]
     ELSE LET anyBefore == ~WIsZero(st.bitcnt)
              tail == PadTail(sch, m, L, WAddNat(st.bitcnt, L), anyBefore)
              blks == IF sch.s = "none" /\ Len(tail) = 0 THEN << <<>> >> ELSE Split(tail, B)   \* the unpadded scheme hands over one empty block
              n == Len(blks)
              cn == CntsR(st.bitcnt, L, B, n, 1, <<>>)
          IN [raises |-> FALSE, blocks |-> blks, cnts |-> cn,
              st |-> [bitcnt |-> IF n = 0 THEN st.bitcnt ELSE cn[n],
                      padcnt |-> IF DefinesPadcnt(sch) THEN 8*Len(tail) - L ELSE st.padcnt,
                      padflag |-> TRUE]]

\* ---- long messages: K copies of one block `pat`, then a short tail -------------------------------
\* A message of a megabyte cannot be handed to TLC byte by byte, but  pat^K \o tail  can: the first K blocks of the output
\* are `pat` with counters start + 8B, start + 16B, ..., and the rest is what Iter emits for `tail` from the state in which
\* 8BK bits went before (MC_PadBytes!LongAgree: equal to Iter on the expanded message, K = 0..2).  Output is in the
\* compressed form the recorder uses: the maximal leading run of equal blocks [b, n] + the remaining blocks, and the maximal
\* leading arithmetic progression of counters with step 8B [first, n] + the remaining counters.
RECURSIVE LeadEqR(_,_,_)
LeadEqR(seq, v, j) == IF j > Len(seq) \/ seq[j] # v THEN j - 1 ELSE LeadEqR(seq, v, j+1)
LeadEq(seq, v) == LeadEqR(seq, v, 1)                    \* number of leading elements equal to v
RECURSIVE LeadProgR(_,_,_,_,_)
LeadProgR(cn, start, k0, B8, j) == IF j > Len(cn) \/ cn[j] # WAddNat(start, (k0 + j) * B8) THEN j - 1 ELSE LeadProgR(cn, start, k0, B8, j+1)
LeadProg(cn, start, k0, B8) == LeadProgR(cn, start, k0, B8, 1)   \* leading j with cn[j] = start + (k0 + j) B8
CompressBlocks(pat, K, blks) ==
  IF K = 0 THEN (IF blks = <<>> THEN [head |-> [b |-> <<>>, n |-> 0], rest |-> <<>>]
                 ELSE LET n == LeadEq(blks, blks[1]) IN [head |-> [b |-> blks[1], n |-> n], rest |-> SubSeq(blks, n+1, Len(blks))])
  ELSE LET n == LeadEq(blks, pat) IN [head |-> [b |-> pat, n |-> K + n], rest |-> SubSeq(blks, n+1, Len(blks))]
CompressCnts(start, K, B8, cn) ==                        \* counters start + B8, ..., start + K B8, then cn
  IF K = 0 THEN (IF cn = <<>> THEN [head |-> [first |-> CZero, n |-> 0], rest |-> <<>>]
                 ELSE LET n == 1 + LeadProg(SubSeq(cn, 2, Len(cn)), cn[1], 0, B8) IN [head |-> [first |-> cn[1], n |-> n], rest |-> SubSeq(cn, n+1, Len(cn))])
  ELSE LET n == LeadProg(cn, start, K, B8) IN [head |-> [first |-> WAddNat(start, B8), n |-> K + n], rest |-> SubSeq(cn, n+1, Len(cn))]
\* IterLong(sch, st, pat, K, tail, bitlen, padding): the message is pat^K \o tail (Len(pat) = B, 8BK < 2^31), bitlen = -1 when
\* omitted, otherwise a bit length that reaches into the tail region (bitlen >= 8BK).
IterLong(sch, st, pat, K, tail, bitlen, padding) ==
  LET B == sch.B  B8 == 8 * sch.B
      L == IF bitlen < 0 THEN 8 * Len(tail) ELSE bitlen - (B8 * K)          \* bits taken from the tail
      st1 == [st EXCEPT !.bitcnt = WAddNat(st.bitcnt, B8 * K)]
      x == Iter(sch, st1, tail, L, padding)
      \* the unpadded scheme hands over one empty block only when the WHOLE final piece is empty
      xb == IF sch.s = "none" /\ padding /\ K > 0 /\ x.blocks = << <<>> >> THEN <<>> ELSE x.blocks
      xc == IF sch.s = "none" /\ padding /\ K > 0 /\ x.blocks = << <<>> >> THEN <<>> ELSE x.cnts
  IN IF st.padflag \/ L < 0 \/ x.raises THEN [raises |-> TRUE, blocks |-> CompressBlocks(pat, 0, <<>>), cnts |-> CompressCnts(CZero, 0, B8, <<>>), st |-> st]
     ELSE [raises |-> FALSE, blocks |-> CompressBlocks(pat, K, xb), cnts |-> CompressCnts(st.bitcnt, K, B8, xc),
           st |-> IF padding /\ xc = <<>> /\ K > 0 THEN [x.st EXCEPT !.bitcnt = WAddNat(st.bitcnt, B8 * K)] ELSE x.st]
=============================================================================
