------------------------------- MODULE Sponge -------------------------------
(***************************************************************************)
(* The sponge and duplex constructions over KECCAK-f[25 w] at BIT level,    *)
(* transcribed from FIPS 202 sections 3.1.2, 4, 5, 6 and from "Duplexing    *)
(* the sponge" (Bertoni, Daemen, Peeters, Van Assche, SAC 2011, alg. 2).    *)
(*                                                                          *)
(* A state S is a tuple of b = 25 w bits (0/1); bit (x, y, z) of the state  *)
(* array is S[w*(5*y + x) + z + 1]  (FIPS 202 3.1.2, 0-based index          *)
(* w(5y+x)+z).  Bit strings are tuples of 0/1, first bit first.  r is the   *)
(* rate (0 < r < b), the capacity is c = b - r.                             *)
(*                                                                          *)
(*   BitsToLanes(w, S)          state bits -> 25 lanes of module KeccakF    *)
(*   LanesToBits(w, A)          25 lanes -> state bits                      *)
(*   FBits(w, S)                KECCAK-f[25w] on state bits                 *)
(*   ZeroBits(n)                n zero bits                                 *)
(*   XorBits(a, b)              bitwise xor over the shorter length         *)
(*   Pad101(L, r)               pad10*1(r, L): <<1, 0 x j, 1>> with         *)
(*                              j = (-L-2) mod r; the shortest string of    *)
(*                              >= 2 bits making L + |pad| a multiple of r  *)
(*   AbsorbBlock(w, r, S, blk)  f(S xor (blk || 0^c)), Len(blk) = r         *)
(*   Absorb(w, r, S, P)         AbsorbBlock over the r-bit blocks of P      *)
(*                              (Len(P) a multiple of r)                    *)
(*   Squeeze(w, r, S, d)        d output bits: Trunc_r(S) || Trunc_r(f(S))  *)
(*                              || ..., as many f as needed (none if d <= r)*)
(*   SpongeHash(w, r, M, d)     KECCAK[r, b-r] sponge = SPONGE[f, pad10*1,  *)
(*                              r](M, d), M a bit string, d >= 0            *)
(*   DuplexPre(r, sigma, d)     precondition of DuplexStep: Len(sigma) <=   *)
(*                              r - 2 /\ d <= r                             *)
(*   DuplexStep(w, r, S, sigma, d)   one D.duplexing(sigma, d) call:        *)
(*                              [S |-> f(S xor (sigma || pad10*1 || 0^c)),  *)
(*                               out |-> its first d bits]; D.initialize    *)
(*                              is S = ZeroBits(25 w)                       *)
(*   BytesToBitsLSB(bytes)      bit i of byte j at index 8j+i (FIPS 202     *)
(*                              B.1, bit 0 of byte 0 first)                 *)
(*   BitsToBytesLSB(bits)       inverse; the last byte is zero filled       *)
(*   Sha3(n, bytes)             SHA3-n, n in {224,256,384,512}: KECCAK[2n]  *)
(*                              (M || 01, n), n/8 bytes                     *)
(*   Shake(n, bytes, dbytes)    SHAKEn, n in {128,256}: KECCAK[2n]          *)
(*                              (M || 1111, 8 dbytes)                       *)
(*   KeccakOrig(n, bytes)       pre-standard Keccak-n (round-3 submission): *)
(*                              KECCAK[2n](M, n), no suffix, r = 1600 - 2n  *)
(***************************************************************************)
EXTENDS KeccakF

\* ---- state bits <-> lanes ----------------------------------------------------
\* sum_{z < n} 2^z S[o + z + 1]
RECURSIVE BitsNat(_,_,_,_)
BitsNat(S, o, n, acc) == IF n = 0 THEN acc ELSE BitsNat(S, o, n - 1, 2*acc + S[o + n])
Limb16(S, o) == S[o+1] + 2*S[o+2] + 4*S[o+3] + 8*S[o+4] + 16*S[o+5] + 32*S[o+6] + 64*S[o+7] + 128*S[o+8]
                + 256*S[o+9] + 512*S[o+10] + 1024*S[o+11] + 2048*S[o+12] + 4096*S[o+13] + 8192*S[o+14]
                + 16384*S[o+15] + 32768*S[o+16]
LaneOfBits(w, S, o) == IF w = 64 THEN <<Limb16(S, o), Limb16(S, o + 16), Limb16(S, o + 32), Limb16(S, o + 48)>>
                       ELSE IF w = 32 THEN <<Limb16(S, o), Limb16(S, o + 16)>>
                       ELSE <<BitsNat(S, o, w, 0)>>
BitsToLanes(w, S) == LET F(i) == LaneOfBits(w, S, w*i) IN BuildW(F, 0, 25, <<>>)

\* the n low bits of v, least significant first
RECURSIVE NatBits(_,_,_)
NatBits(v, n, acc) == IF n = 0 THEN acc ELSE NatBits(v \div 2, n - 1, Append(acc, v % 2))
Bits16(v) == <<v % 2, (v \div 2) % 2, (v \div 4) % 2, (v \div 8) % 2, (v \div 16) % 2, (v \div 32) % 2,
               (v \div 64) % 2, (v \div 128) % 2, (v \div 256) % 2, (v \div 512) % 2, (v \div 1024) % 2,
               (v \div 2048) % 2, (v \div 4096) % 2, (v \div 8192) % 2, (v \div 16384) % 2, (v \div 32768) % 2>>
LaneBits(w, a) == IF w = 64 THEN Bits16(a[1]) \o Bits16(a[2]) \o Bits16(a[3]) \o Bits16(a[4])
                  ELSE IF w = 32 THEN Bits16(a[1]) \o Bits16(a[2])
                  ELSE NatBits(a[1], w, <<>>)
RECURSIVE LanesToBitsR(_,_,_,_)
LanesToBitsR(w, A, i, acc) == IF i > 25 THEN acc ELSE LanesToBitsR(w, A, i + 1, acc \o LaneBits(w, A[i]))
LanesToBits(w, A) == LanesToBitsR(w, A, 1, <<>>)

FBits(w, S) == LanesToBits(w, KeccakF(w, BitsToLanes(w, S)))

\* ---- bit strings -------------------------------------------------------------
ZeroBits(n) == Rep(0, n)
XorBits(a, b) == XorBytes(a, b)
Pad101(L, r) == <<1>> \o ZeroBits((r - ((L + 2) % r)) % r) \o <<1>>

\* ---- sponge (FIPS 202 algorithm 8) ------------------------------------------
AbsorbBlock(w, r, S, blk) == FBits(w, XorBits(SubSeq(S, 1, r), blk) \o SubSeq(S, r + 1, 25*w))
RECURSIVE Absorb(_,_,_,_)
Absorb(w, r, S, P) == IF Len(P) = 0 THEN S
                      ELSE Absorb(w, r, AbsorbBlock(w, r, S, SubSeq(P, 1, r)), SubSeq(P, r + 1, Len(P)))
RECURSIVE SqueezeR(_,_,_,_,_)
SqueezeR(w, r, S, d, Z) == LET Z2 == Z \o SubSeq(S, 1, r)
                           IN IF d <= Len(Z2) THEN SubSeq(Z2, 1, d) ELSE SqueezeR(w, r, FBits(w, S), d, Z2)
Squeeze(w, r, S, d) == SqueezeR(w, r, S, d, <<>>)
SpongeHash(w, r, M, d) == Squeeze(w, r, Absorb(w, r, ZeroBits(25*w), M \o Pad101(Len(M), r)), d)

\* ---- duplex -------------------------------------------------------------------
DuplexPre(r, sigma, d) == Len(sigma) <= r - 2 /\ d <= r
DuplexStep(w, r, S, sigma, d) == LET S2 == AbsorbBlock(w, r, S, sigma \o Pad101(Len(sigma), r))
                                 IN [S |-> S2, out |-> SubSeq(S2, 1, d)]

\* ---- bytes <-> bits, FIPS 202 appendix B.1 ------------------------------------
Bits8(v) == <<v % 2, (v \div 2) % 2, (v \div 4) % 2, (v \div 8) % 2, (v \div 16) % 2, (v \div 32) % 2,
              (v \div 64) % 2, (v \div 128) % 2>>
RECURSIVE BytesToBitsR(_,_,_)
BytesToBitsR(bs, i, acc) == IF i > Len(bs) THEN acc ELSE BytesToBitsR(bs, i + 1, acc \o Bits8(bs[i]))
BytesToBitsLSB(bytes) == BytesToBitsR(bytes, 1, <<>>)
BitOr0(s, i) == IF i <= Len(s) THEN s[i] ELSE 0
RECURSIVE BitsToBytesR(_,_,_)
BitsToBytesR(bits, o, acc) ==
   IF o >= Len(bits) THEN acc
   ELSE BitsToBytesR(bits, o + 8, Append(acc, BitOr0(bits, o+1) + 2*BitOr0(bits, o+2) + 4*BitOr0(bits, o+3)
            + 8*BitOr0(bits, o+4) + 16*BitOr0(bits, o+5) + 32*BitOr0(bits, o+6) + 64*BitOr0(bits, o+7)
            + 128*BitOr0(bits, o+8)))
BitsToBytesLSB(bits) == BitsToBytesR(bits, 0, <<>>)

\* ---- the standard instances (FIPS 202 section 6) -------------------------------
Sha3(n, bytes) == BitsToBytesLSB(SpongeHash(64, 1600 - 2*n, BytesToBitsLSB(bytes) \o <<0, 1>>, n))
Shake(n, bytes, dbytes) == BitsToBytesLSB(SpongeHash(64, 1600 - 2*n, BytesToBitsLSB(bytes) \o <<1, 1, 1, 1>>, 8*dbytes))
KeccakOrig(n, bytes) == BitsToBytesLSB(SpongeHash(64, 1600 - 2*n, BytesToBitsLSB(bytes), n))
=============================================================================
