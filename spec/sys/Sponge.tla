------------------------------- MODULE Sponge -------------------------------
(***************************************************************************)
(* The sponge and duplex constructions over KECCAK-f[25 w] at BIT level,    *)
(* transcribed from FIPS 202 sections 3.1.2, 4, 5, 6 and from "Duplexing    *)
(* the sponge" (Bertoni, Daemen, Peeters, Van Assche, SAC 2011, alg. 2).    *)
(*                                                                          *)
(* A state S is a tuple of b = 25 w bits (0/1); bit (x, y, z) of the state  *)
(* array is S[w*(5*y + x) + z + 1]  (FIPS 202 3.1.2, 0-based index          *)
(* w(5y+x)+z).  Bit strings are tuples of 0/1, first bit first.  r is the   *)
(* rate (0 < r < b), the capacity is c = b - r.                             *)
(*                                                                          *)
(*   Tup(f, n)                  a function with domain 1..n as a concrete   *)
(*                              tuple (used instead of deep recursions)     *)
(*   BitsToLanes(w, S)          state bits -> 25 lanes of module KeccakF    *)
(*   LanesToBits(w, A)          25 lanes -> state bits                      *)
(*   FBits(w, S)                KECCAK-f[25w] on state bits                 *)
(*   ZeroBits(n)                n zero bits                                 *)
(*   XorBits(a, b)              bitwise xor over the shorter length         *)
(*   Pad101(L, r)               pad10*1(r, L): <<1, 0 x j, 1>> with         *)
(*                              j = (-L-2) mod r; the shortest string of    *)
(*                              >= 2 bits making L + |pad| a multiple of r  *)
(*   AbsorbBlock(w, r, S, blk)  f(S xor (blk || 0^c)), Len(blk) = r         *)
(*   Absorb(w, r, S, P)         AbsorbBlock over the r-bit blocks of P      *)
(*                              (Len(P) a multiple of r)                    *)
(*   Squeeze(w, r, S, d)        d output bits: Trunc_r(S) || Trunc_r(f(S))  *)
(*                              || ..., as many f as needed (none if d <= r)*)
(*   SpongeHash(w, r, M, d)     KECCAK[r, b-r] sponge = SPONGE[f, pad10*1,  *)
(*                              r](M, d), M a bit string, d >= 0            *)
(*   DuplexPre(r, sigma, d)     precondition of DuplexStep: Len(sigma) <=   *)
(*                              r - 2 /\ d <= r                             *)
(*   DuplexStep(w, r, S, sigma, d)   one D.duplexing(sigma, d) call:        *)
(*                              [S |-> f(S xor (sigma || pad10*1 || 0^c)),  *)
(*                               out |-> its first d bits]; D.initialize    *)
(*                              is S = ZeroBits(25 w)                       *)
(*   BytesToBitsLSB(bytes)      bit i of byte j at index 8j+i (FIPS 202     *)
(*                              B.1, bit 0 of byte 0 first)                 *)
(*   BitsToBytesLSB(bits)       inverse; the last byte is zero filled       *)
(*   Sha3(n, bytes)             SHA3-n, n in {224,256,384,512}: KECCAK[2n]  *)
(*                              (M || 01, n), n/8 bytes                     *)
(*   Shake(n, bytes, dbytes)    SHAKEn, n in {128,256}: KECCAK[2n]          *)
(*                              (M || 1111, 8 dbytes)                       *)
(*   KeccakOrig(n, bytes)       pre-standard Keccak-n (round-3 submission): *)
(*                              KECCAK[2n](M, n), no suffix, r = 1600 - 2n  *)
(***************************************************************************)
EXTENDS KeccakF

\* A sequence given as a function with domain 1..n, as a concrete tuple.  (TLC keeps [j \in 1..n |-> e] lazy and
\* would re-evaluate e at every access; SubSeq enumerates it once.  Recursion with Append over n = 1600 elements
\* is quadratic in TLC, because every bound name on the call chain lengthens every later symbol lookup.)
Tup(f, n) == SubSeq(f, 1, n)

\* ---- state bits <-> lanes (FIPS 202 3.1.2: A[x, y, z] = S[w(5y + x) + z]) ------
\* sum_{z < n} 2^z S[o + z + 1]
RECURSIVE BitsNat(_,_,_,_)
BitsNat(S, o, n, acc) == IF n = 0 THEN acc ELSE BitsNat(S, o, n - 1, 2*acc + S[o + n])
Limb16(S, o) == S[o+1] + 2*S[o+2] + 4*S[o+3] + 8*S[o+4] + 16*S[o+5] + 32*S[o+6] + 64*S[o+7] + 128*S[o+8]
                + 256*S[o+9] + 512*S[o+10] + 1024*S[o+11] + 2048*S[o+12] + 4096*S[o+13] + 8192*S[o+14]
                + 16384*S[o+15] + 32768*S[o+16]                                    \* = BitsNat(S, o, 16, 0)
LaneOfBits(w, S, o) == IF w = 64 THEN <<Limb16(S, o), Limb16(S, o + 16), Limb16(S, o + 32), Limb16(S, o + 48)>>
                       ELSE IF w = 32 THEN <<Limb16(S, o), Limb16(S, o + 16)>>
                       ELSE <<BitsNat(S, o, w, 0)>>
BitsToLanes(w, S) == Tup([i \in 1..25 |-> LaneOfBits(w, S, w*(i - 1))], 25)
\* bit z of lane a is WBit(a, z) for every width (z < 16 when there is one limb)
LanesToBits(w, A) == Tup([j \in 1..25*w |-> WBit(A[((j - 1) \div w) + 1], (j - 1) % w)], 25*w)

FBits(w, S) == LanesToBits(w, KeccakF(w, BitsToLanes(w, S)))

\* ---- bit strings -------------------------------------------------------------
ZeroBits(n) == Tup([j \in 1..n |-> 0], n)
XorBits(a, b) == LET n == IF Len(a) < Len(b) THEN Len(a) ELSE Len(b) IN Tup([j \in 1..n |-> a[j] ^^ b[j]], n)
Pad101(L, r) == <<1>> \o ZeroBits((r - ((L + 2) % r)) % r) \o <<1>>

\* ---- sponge (FIPS 202 algorithm 8) ------------------------------------------
\* S xor (blk || 0^c), then f
AbsorbBlock(w, r, S, blk) == FBits(w, Tup([j \in 1..25*w |-> IF j <= r THEN S[j] ^^ blk[j] ELSE S[j]], 25*w))
RECURSIVE Absorb(_,_,_,_)
Absorb(w, r, S, P) == IF Len(P) = 0 THEN S
                      ELSE Absorb(w, r, AbsorbBlock(w, r, S, SubSeq(P, 1, r)), SubSeq(P, r + 1, Len(P)))
RECURSIVE SqueezeR(_,_,_,_,_)
SqueezeR(w, r, S, d, Z) == LET Z2 == Z \o SubSeq(S, 1, r)
                           IN IF d <= Len(Z2) THEN SubSeq(Z2, 1, d) ELSE SqueezeR(w, r, FBits(w, S), d, Z2)
Squeeze(w, r, S, d) == SqueezeR(w, r, S, d, <<>>)
SpongeHash(w, r, M, d) == Squeeze(w, r, Absorb(w, r, ZeroBits(25*w), M \o Pad101(Len(M), r)), d)

\* ---- duplex -------------------------------------------------------------------
DuplexPre(r, sigma, d) == Len(sigma) <= r - 2 /\ d <= r
DuplexStep(w, r, S, sigma, d) == LET S2 == AbsorbBlock(w, r, S, sigma \o Pad101(Len(sigma), r))
                                 IN [S |-> S2, out |-> SubSeq(S2, 1, d)]

\* ---- bytes <-> bits, FIPS 202 appendix B.1 ------------------------------------
\* bit i of byte number j (from 0) is bit 8j + i of the string
BytesToBitsLSB(bytes) == Tup([j \in 1..8*Len(bytes) |-> (bytes[((j - 1) \div 8) + 1] \div Pow2((j - 1) % 8)) % 2], 8*Len(bytes))
BitOr0(s, j) == IF j <= Len(s) THEN s[j] ELSE 0
BitsToBytesLSB(bits) ==
   LET n == (Len(bits) + 7) \div 8
   IN Tup([i \in 1..n |-> LET o == 8*(i - 1)
                          IN BitOr0(bits, o+1) + 2*BitOr0(bits, o+2) + 4*BitOr0(bits, o+3) + 8*BitOr0(bits, o+4)
                             + 16*BitOr0(bits, o+5) + 32*BitOr0(bits, o+6) + 64*BitOr0(bits, o+7)
                             + 128*BitOr0(bits, o+8)], n)

\* ---- the standard instances (FIPS 202 section 6) -------------------------------
Sha3(n, bytes) == BitsToBytesLSB(SpongeHash(64, 1600 - 2*n, BytesToBitsLSB(bytes) \o <<0, 1>>, n))
Shake(n, bytes, dbytes) == BitsToBytesLSB(SpongeHash(64, 1600 - 2*n, BytesToBitsLSB(bytes) \o <<1, 1, 1, 1>>, 8*dbytes))
KeccakOrig(n, bytes) == BitsToBytesLSB(SpongeHash(64, 1600 - 2*n, BytesToBitsLSB(bytes), n))
=============================================================================
