------------------------------- MODULE HashObj -------------------------------
(***************************************************************************)
(* The Merkle-Damgard hash OBJECT of crysp (MD4, MD5, SHA-0/1, SHA-2 incl.  *)
(* SHA-512/t, BLAKE-224..512): chaining value H over the blockiterator      *)
(* object of sys/PadBytes.  Actions: Init (initstate), Update(m, bitlen,    *)
(* padding) = one Absorb per emitted block, Preset (assignment to the       *)
(* public bit counter, standing for "so many bits were hashed before").     *)
(* An algorithm is a record [k, size, t]:                                   *)
(*   k = "md4" | "md5" | "sha1" (size = version 0/1) | "sha2" (size, t)     *)
(*     | "blake" (size)                                                    *)
(***************************************************************************)
EXTENDS PadBytes, Md4, Md5, Sha1, Blake

HBig(a)   == a.k \in {"sha2", "blake"} /\ a.size > 256
HSch(a)   == CASE a.k \in {"md4", "md5"} -> [s |-> "md",  B |-> 64, w |-> 4, mk |-> 0]
               [] a.k = "sha1"           -> [s |-> "sha", B |-> 64, w |-> 4, mk |-> 0]
               [] a.k = "sha2"           -> [s |-> "sha", B |-> IF HBig(a) THEN 128 ELSE 64, w |-> IF HBig(a) THEN 8 ELSE 4, mk |-> 0]
               [] a.k = "blake"          -> [s |-> "blake", B |-> IF HBig(a) THEN 128 ELSE 64, w |-> IF HBig(a) THEN 8 ELSE 4,
                                             mk |-> IF a.size \in {256, 512} THEN 1 ELSE 0]
HIV(a)    == CASE a.k = "md4" -> Md4IV [] a.k = "md5" -> Md5IV [] a.k = "sha1" -> Sha1IV
               [] a.k = "sha2" -> Sha2IV(a.size, a.t) [] a.k = "blake" -> BlakeIV(a.size)
HOut(a, H) == CASE a.k = "md4" -> Md4Out(H) [] a.k = "md5" -> Md5Out(H) [] a.k = "sha1" -> Sha1Out(H)
                [] a.k = "sha2" -> Sha2Out(a.size, a.t, H) [] a.k = "blake" -> BlakeOut(a.size, H)
HOutLen(a) == CASE a.k \in {"md4", "md5"} -> 16 [] a.k = "sha1" -> 20 [] a.k = "sha2" -> Sha2OutLen(a.size, a.t) [] a.k = "blake" -> a.size \div 8
\* counter words <<t0, t1>> of the variant's word size from an 8-limb counter
CtrWords(a, c) == IF HBig(a) THEN <<SubSeq(c, 1, 4), SubSeq(c, 5, 8)>> ELSE <<SubSeq(c, 1, 2), SubSeq(c, 3, 4)>>
\* one compression: cnt = the bit counter reported with this block (BLAKE only), salt = 4 words (BLAKE only)
HComp(a, H, blk, cnt, salt) ==
  CASE a.k = "md4" -> Md4Compress(H, blk) [] a.k = "md5" -> Md5Compress(H, blk)
    [] a.k = "sha1" -> Sha1Compress(a.size, H, blk)
    [] a.k = "sha2" -> Sha2Compress(HBig(a), H, blk)
    [] a.k = "blake" -> BlakeCompress(a.size, H, salt, blk, CtrWords(a, cnt))

\* object state: [H, pad (blockiterator state), salt]
HInit(a, salt) == [H |-> HIV(a), pad |-> PadInit, salt |-> salt]
RECURSIVE HAbsorb(_,_,_,_,_,_)
HAbsorb(a, H, blocks, cnts, salt, i) ==
  IF i > Len(blocks) THEN H ELSE HAbsorb(a, HComp(a, H, blocks[i], cnts[i], salt), blocks, cnts, salt, i+1)
\* Update: [raises, st, out]
HUpdate(a, st, m, bitlen, padding) ==
  LET x == Iter(HSch(a), st.pad, m, bitlen, padding) IN
  IF x.raises THEN [raises |-> TRUE, st |-> st, out |-> <<>>]
  ELSE LET H2 == HAbsorb(a, st.H, x.blocks, x.cnts, st.salt, 1)
       IN [raises |-> FALSE, st |-> [st EXCEPT !.H = H2, !.pad = x.st], out |-> HOut(a, H2)]
HPreset(st, cnt) == [st EXCEPT !.pad.bitcnt = cnt]
=============================================================================
