------------------------------ MODULE Padding ------------------------------
(* The blockiterator machine of crysp/padding.py (bitcnt, padcnt, padflag)   *)
(* over the padding functions of PadFns, at bit level.                       *)
EXTENDS PadFns
CONSTANTS MaxBits,  \* bound on total message bits explored
          Exhaustive \* TRUE: all bit strings; FALSE: four content classes per length

\* ---- the machine ----------------------------------------------------------
VARIABLES bitcnt, padcnt, padflag,   \* the three attributes of blockiterator
          fed,                       \* history: all message bits accepted so far
          out, refused               \* blocks emitted by the last call: <<block, bitcnt at yield>>; refused = the call raised
vars == <<bitcnt,padcnt,padflag,fed,out,refused>>

Init == bitcnt = 0 /\ padcnt = 0 /\ padflag = FALSE /\ fed = <<>> /\ out = <<>> /\ refused = FALSE

Refuse == out' = <<>> /\ refused' = TRUE /\ UNCHANGED <<bitcnt,padcnt,padflag,fed>>

\* iterblocks(m, bitlen=L, padding=pad) where m has mbits bits (8*len(m)) and L <= mbits is taken from it
Iter(m, pad) ==
  LET L == Len(m) start == bitcnt IN
  IF padflag THEN Refuse
  ELSE IF ~pad /\ L % B # 0 THEN Refuse
  ELSE IF ~pad THEN
       /\ out' = [i \in 1..(L \div B) |-> <<Block(m,i), start + i*B>>] /\ refused' = FALSE
       /\ bitcnt' = start + L /\ fed' = fed \o m /\ UNCHANGED <<padcnt,padflag>>
  ELSE LET p == Pad(fed \o m)                     \* pad depends on the TOTAL length
           tail == SubSeq(p, Len(fed)+1, Len(p))   \* what this call emits
           n == NBlocks(Len(tail))
       IN /\ out' = [i \in 1..n |-> <<Block(tail,i), Cnt(start,L,i)>>] /\ refused' = FALSE
          /\ bitcnt' = IF n = 0 THEN start ELSE Cnt(start,L,n)
          /\ padcnt' = IF Scheme \in {"zero","iso","pkcs7","x923"} THEN Len(PadBits(Len(fed)+L)) ELSE padcnt
          /\ padflag' = TRUE /\ fed' = fed \o m

Reset == bitcnt' = 0 /\ padcnt' = 0 /\ padflag' = FALSE /\ fed' = <<>> /\ out' = <<>> /\ refused' = FALSE

Msgs(n) == IF Exhaustive THEN [1..n -> Bit]
           ELSE { [i \in 1..n |-> IF i = n THEN b ELSE a] : a \in Bit, b \in Bit }   \* content classes
Gran == IF ByteGranular THEN 8 ELSE 1
Next == \/ \E n \in 0..MaxBits, pad \in BOOLEAN :
             /\ Len(fed) + n <= MaxBits /\ (pad /\ Scheme # "none" => n % Gran = 0) /\ (Scheme = "none" => n % 8 = 0)
             /\ \E m \in Msgs(n) : Iter(m,pad)
        \/ Reset
Spec == Init /\ [][Next]_vars

\* ---- the property, as invariants of the specification ---------------------
Emitted == out
Concat(o) == LET RECURSIVE C(_) C(k) == IF k = 0 THEN <<>> ELSE C(k-1) \o o[k][1] IN C(Len(o))
FullBlocks == \A i \in 1..Len(Emitted) : (i < Len(Emitted) \/ Scheme # "none") => Len(Emitted[i][1]) = B
FinalIsMsgThenPad == padflag /\ ~refused => \E k \in 0..Len(fed) :        \* the last call's output is a suffix of Pad(fed)
                        Concat(Emitted) = SubSeq(Pad(fed), k+1, Len(Pad(fed)))
Minimal == padflag /\ Scheme \notin {"none"} =>
             Len(Pad(fed)) % B = 0 /\
             Len(Pad(fed)) - Len(fed) <= (IF Scheme \in {"md","sha"} THEN B + 2*W ELSE IF Scheme = "blake" THEN B + 2*W + 1 ELSE B)
UnpadInverts == padflag => Unpad(Pad(fed), padcnt) = Ok(fed)
CounterIdle == ~padflag => bitcnt = Len(fed)
AfterFinalRefuses == [][padflag /\ ~padflag' => bitcnt' = 0 /\ fed' = <<>>]_vars   \* only Reset leaves the padded state
=============================================================================
