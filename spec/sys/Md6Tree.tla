------------------------------- MODULE Md6Tree -------------------------------
(***************************************************************************)
(* The MD6 mode of operation (MD6 report, section 2.4), one compression per  *)
(* step, over an arbitrary compression function C so that a model can run    *)
(* it with a symbolic C and the self-test with the real Md6F.                *)
(*                                                                           *)
(*   l = 0, M_0 = M                                                          *)
(*   loop: l = l + 1                                                         *)
(*         if l = L + 1: return the last d bits of SEQ(M_{l-1}, l)           *)
(*         M_l = PAR(M_{l-1}, l);  if |M_l| = c words: return its last d bits*)
(*                                                                           *)
(*   PAR(M, l): pad M with 0 bits to j = max(1, ceil(|M| / 4096)) blocks B_i *)
(*      of b = 64 words; C_i = f(Q || K || U(l,i) || V(r,L,z,p,keylen,d) || B_i),*)
(*      p = number of padding bits in B_i (only the last block has any),      *)
(*      z = 1 iff j = 1;  result C_0 || ... || C_{j-1}.                       *)
(*   SEQ(M, l): pad M to j = max(1, ceil(|M| / 3072)) blocks of b - c = 48    *)
(*      words; C_{-1} = 0^c;  C_i = f(Q || K || U(l,i) || V || C_{i-1} || B_i),*)
(*      z = 1 iff i = j - 1;  result C_{j-1}.                                 *)
(*                                                                           *)
(* Parameter record  P = [d, L, r, keylen, K]   K = the 8 key WORDS.          *)
(* State record st:                                                          *)
(*   level   current level l >= 1                                             *)
(*   idx     index i of the NEXT node of this level (0-based)                 *)
(*   data    input of this level M_{l-1} as a tuple of 64-bit words (the      *)
(*           message is zero-filled to a word boundary), nbits its bit length *)
(*   out     PAR: chaining values C_0 .. C_{idx-1} of this level (words)      *)
(*   cv      SEQ: C_{idx-1};  when done: the final chaining value (16 words)  *)
(*   log     one tuple <<level, index, z, p>> per compression done, in order  *)
(*   done    TRUE when the root has been compressed                           *)
(*                                                                           *)
(* Interface:                                                                *)
(*   Md6Params(d, K, L, r)           K = key BYTES (0..64)                    *)
(*   Md6Init(M, bitlen)              M bytes, bitlen <= 8 Len(M); bits beyond *)
(*                                   bitlen are ignored                       *)
(*   Md6InitPlan(bitlen)             same without data (all-zero message)     *)
(*   Md6IsSeq(P, st), Md6NumBlocks(P, st), Md6NextNode(P, st) = <<level,      *)
(*                                   index, z, p>> of the next compression    *)
(*   Md6NextInput(P, st)             its 89 input words                       *)
(*   Md6StepWith(C, P, st)           next state using C(N): 89 -> 16 words    *)
(*   Md6Step(P, st)                  ... with C(N) = Md6F(P.r, N)             *)
(*   Md6RunWith(C, P, st), Md6Run(P, st)    iterate until st.done             *)
(*   Md6Par(C, P, level, data, nbits), Md6Seq(C, P, level, data, nbits)       *)
(*                                   one whole level: tuple of 16 j / 16 words*)
(*   Md6Trim(d, cv)                  last d bits of cv, left aligned in       *)
(*                                   ceil(d/8) bytes, unused low bits 0       *)
(*   Md6Hash(d, K, L, r, M, bitlen)  digest bytes                             *)
(*   Md6Levels(d, K, L, r, M, bitlen)   the log of that computation           *)
(*   Md6Plan(L, bitlen)              the same log without computing f: it     *)
(*                                   depends on L and bitlen only             *)
(*                                                                           *)
(* Cost note: Md6RunWith recurses once per compression and TLC's identifier   *)
(* lookups get slower with the recursion depth (see Md6.tla), so for trees of *)
(* more than a few dozen nodes with the real f prefer one Md6Step per TLC     *)
(* step (st is an ordinary value; log grows by one tuple per step).           *)
(***************************************************************************)
EXTENDS Md6, MDPad

Md6Params(d, K, L, r) == [d |-> d, L |-> L, r |-> r, keylen |-> Len(K), K |-> Md6KeyWords(K)]

RECURSIVE Md6ZerosR(_,_)
Md6ZerosR(n, acc) == IF n <= 0 THEN acc ELSE Md6ZerosR(n - 1, Append(acc, Md6ZeroWord))
Md6Zeros(n) == Md6ZerosR(n, <<>>)                        \* n zero words
Md6ZeroCV == Md6Zeros(Md6C)

\* message bytes -> words: first bitlen bits, zero-filled to a multiple of 8 bytes
Md6MsgWords(M, bitlen) ==
  LET m == FirstBits(M, bitlen) IN WordsFromBE(m \o Rep(0, (8 - (Len(m) % 8)) % 8), 8)

Md6State(data, nbits) ==
  [level |-> 1, idx |-> 0, data |-> data, nbits |-> nbits, out |-> <<>>, cv |-> Md6ZeroCV,
   log |-> <<>>, done |-> FALSE]
Md6Init(M, bitlen) == Md6State(Md6MsgWords(M, bitlen), bitlen)
Md6InitPlan(bitlen) == Md6State(<<>>, bitlen)

\* ---- the next node ------------------------------------------------------------
Md6IsSeq(P, st) == st.level = P.L + 1
Md6BlockWords(P, st) == IF Md6IsSeq(P, st) THEN Md6B - Md6C ELSE Md6B          \* 48 / 64
Md6NumBlocks(P, st) ==
  LET bb == 64 * Md6BlockWords(P, st)  j == (st.nbits + bb - 1) \div bb IN IF j = 0 THEN 1 ELSE j
Md6IsLast(P, st) == st.idx = Md6NumBlocks(P, st) - 1
Md6NextZ(P, st) == IF Md6IsSeq(P, st) THEN (IF Md6IsLast(P, st) THEN 1 ELSE 0)
                   ELSE (IF Md6NumBlocks(P, st) = 1 THEN 1 ELSE 0)
Md6NextP(P, st) == IF Md6IsLast(P, st) THEN (Md6NumBlocks(P, st) * 64 * Md6BlockWords(P, st)) - st.nbits ELSE 0
Md6NextNode(P, st) == <<st.level, st.idx, Md6NextZ(P, st), Md6NextP(P, st)>>
\* words i*bw+1 .. (i+1)*bw of the level input, zero words past its end
Md6NextBlock(P, st) ==
  LET bw == Md6BlockWords(P, st)
      lo == (st.idx * bw) + 1
      hi == IF (st.idx + 1) * bw <= Len(st.data) THEN (st.idx + 1) * bw ELSE Len(st.data)
      have == SubSeq(st.data, lo, hi)
  IN have \o Md6Zeros(bw - Len(have))
Md6NextInput(P, st) ==
  Md6Input(P.K, st.level, st.idx, P.r, P.L, Md6NextZ(P, st), Md6NextP(P, st), P.keylen, P.d,
           IF Md6IsSeq(P, st) THEN st.cv \o Md6NextBlock(P, st) ELSE Md6NextBlock(P, st))

\* ---- one compression -----------------------------------------------------------
Md6StepWith(C(_), P, st) ==
  LET cv  == C(Md6NextInput(P, st))
      log == Append(st.log, Md6NextNode(P, st))
      j   == Md6NumBlocks(P, st)
  IN IF Md6IsSeq(P, st)
     THEN [st EXCEPT !.idx = st.idx + 1, !.cv = cv, !.log = log, !.done = Md6IsLast(P, st)]
     ELSE IF ~Md6IsLast(P, st)
     THEN [st EXCEPT !.idx = st.idx + 1, !.out = st.out \o cv, !.log = log]
     ELSE IF j = 1
     THEN [st EXCEPT !.idx = st.idx + 1, !.cv = cv, !.log = log, !.done = TRUE]
     ELSE [st EXCEPT !.level = st.level + 1, !.idx = 0, !.data = st.out \o cv, !.nbits = 1024 * j,
                     !.out = <<>>, !.log = log]

RECURSIVE Md6RunWith(_,_,_)
Md6RunWith(C(_), P, st) == IF st.done THEN st ELSE Md6RunWith(C, P, Md6StepWith(C, P, st))

Md6Step(P, st) == LET C(N) == Md6F(P.r, N) IN Md6StepWith(C, P, st)
Md6Run(P, st)  == LET C(N) == Md6F(P.r, N) IN Md6RunWith(C, P, st)

\* ---- whole levels (the report's PAR and SEQ), for reference and cross-checks ------
RECURSIVE Md6LevelR(_,_,_)
Md6LevelR(C(_), P, st) ==
  IF Md6IsLast(P, st) THEN Md6StepWith(C, P, st) ELSE Md6LevelR(C, P, Md6StepWith(C, P, st))
Md6LevelState(level, data, nbits) == [Md6State(data, nbits) EXCEPT !.level = level]
\* PAR: C_0 || ... || C_{j-1}   (level # P.L + 1)
Md6Par(C(_), P, level, data, nbits) ==
  LET e == Md6LevelR(C, P, Md6LevelState(level, data, nbits)) IN IF e.done THEN e.cv ELSE e.data
\* SEQ: C_{j-1}                 (level = P.L + 1)
Md6Seq(C(_), P, level, data, nbits) == Md6LevelR(C, P, Md6LevelState(level, data, nbits)).cv

\* ---- output ---------------------------------------------------------------------
RECURSIVE Md6ShlBytes(_,_,_,_)
Md6ShlBytes(t, k, i, acc) ==        \* byte string t shifted left by k bits (1..7), same length
  IF i > Len(t) THEN acc
  ELSE Md6ShlBytes(t, k, i + 1,
         Append(acc, ((t[i] * P2[k+1]) % 256) + (IF i < Len(t) THEN t[i+1] \div P2[9-k] ELSE 0)))
Md6Trim(d, cv) ==
  LET h  == WordsToBE(cv)                 \* 128 bytes, first bit = most significant bit of h[1]
      nb == (d + 7) \div 8
      t  == SubSeq(h, Len(h) - nb + 1, Len(h))
      s  == d % 8
  IN IF s = 0 THEN t ELSE Md6ShlBytes(t, 8 - s, 1, <<>>)

Md6Hash(d, K, L, r, M, bitlen) ==
  LET P == Md6Params(d, K, L, r) IN Md6Trim(d, Md6Run(P, Md6Init(M, bitlen)).cv)
Md6Levels(d, K, L, r, M, bitlen) ==
  LET P == Md6Params(d, K, L, r) IN Md6Run(P, Md6Init(M, bitlen)).log

\* the nodes visited depend on L and the message bit length only
Md6Plan(L, bitlen) ==
  LET P == Md6Params(1, <<>>, L, 1)  C(N) == Md6ZeroCV IN Md6RunWith(C, P, Md6InitPlan(bitlen)).log
=============================================================================
