-------------------------------- MODULE Modes --------------------------------
(***************************************************************************)
(* ECB / CBC / CTR per NIST SP 800-38A over the block ciphers of            *)
(* sys/Ciphers (or a toy cipher), with the padding schemes of sys/PadBytes, *)
(* and what C05 demands of the ciphertext-stealing variants.  A mode object *)
(* is a record                                                             *)
(*   [mode, ci, sch, iv, nonce, count0]                                     *)
(* mode in {"ecb","cbc","ctr","cts_ecb","cts_cbc"}; ci a cipher instance    *)
(* (ci.c = "toy": the toy cipher below, block length ci.bl bytes, key       *)
(* ci.keys[1] = <<k1, k2>>); sch a padding scheme record (B = block bytes); *)
(* iv: CBC IV; nonce, count0: the two halves of the default counter block.  *)
(* The specified object has NO state between calls (C10): every call pads   *)
(* with a fresh pad machine and restarts the counter at count0.             *)
(***************************************************************************)
EXTENDS Ciphers, PadBytes, Integers

\* ---- a toy block cipher: bijection on blocks of an even number of bytes ---------
Rotl16(v, r) == ((v * P2[r+1]) % 65536) + (v \div P2[17-r])
Rotr16(v, r) == Rotl16(v, 16 - r)
ToyW(k, j, v)    == Rotl16(((v + k[2] + j) % 65536) ^^ k[1], 3)                         \* word j of a block
ToyWinv(k, j, v) == ((Rotr16(v, 3) ^^ k[1]) + 2*65536 - k[2] - j) % 65536
RECURSIVE ToyR(_,_,_,_,_)
ToyR(k, blk, enc, j, acc) ==
  IF 2*j >= Len(blk) THEN acc
  ELSE LET v == blk[2*j+1] * 256 + blk[2*j+2]
           o == IF enc THEN ToyW(k, j, v) ELSE ToyWinv(k, j, v)
       IN ToyR(k, blk, enc, j+1, acc \o <<o \div 256, o % 256>>)
\* encrypt words, then rotate the word list by one; decrypt undoes both
ToyEnc(k, blk) == LET x == ToyR(k, blk, TRUE, 0, <<>>) IN SubSeq(x, 3, Len(x)) \o SubSeq(x, 1, 2)
ToyDec(k, blk) == LET n == Len(blk)
                      y == SubSeq(blk, n-1, n) \o SubSeq(blk, 1, n-2)
                  IN ToyR(k, y, FALSE, 0, <<>>)

BL(ci) == IF ci.c = "toy" THEN ci.bl ELSE BlockLen(ci)
E(ci, b) == IF ci.c = "toy" THEN ToyEnc(ci.keys[1], b) ELSE CipherEnc(ci, b)
D(ci, b) == IF ci.c = "toy" THEN ToyDec(ci.keys[1], b) ELSE CipherDec(ci, b)

\* ---- helpers --------------------------------------------------------------------
Refused == [ok |-> FALSE, val |-> <<>>]
Done(v) == [ok |-> TRUE, val |-> v]
PadBlocks(mo, M) == Iter(mo.sch, PadInit, M, -1, TRUE)          \* fresh pad machine at every call
AllFull(bs, n) == \A q \in 1..Len(bs) : Len(bs[q]) = n
RECURSIVE CutR(_,_,_,_)
CutR(C, n, q, acc) == IF q * n >= Len(C) THEN acc ELSE CutR(C, n, q+1, Append(acc, SubSeq(C, q*n+1, (q+1)*n)))
Cut(C, n) == CutR(C, n, 0, <<>>)                                \* whole blocks of C (Len(C) multiple of n)
\* big-endian byte string + small natural, modulo 256^Len
RECURSIVE IncBE(_,_)
IncBE(bs, v) == IF Len(bs) = 0 THEN <<>>
                ELSE LET s == bs[Len(bs)] + v IN Append(IncBE(SubSeq(bs, 1, Len(bs)-1), s \div 256), s % 256)
UnpadOf(mo, P, padcnt) == Unpad(mo.sch, P, padcnt)

\* ---- ECB ----------------------------------------------------------------------------
RECURSIVE EcbR(_,_,_,_,_)
EcbR(ci, bs, enc, q, acc) == IF q > Len(bs) THEN acc ELSE EcbR(ci, bs, enc, q+1, acc \o (IF enc THEN E(ci, bs[q]) ELSE D(ci, bs[q])))
EcbEnc(mo, M) == LET x == PadBlocks(mo, M) IN
                 IF x.raises \/ ~AllFull(x.blocks, BL(mo.ci)) THEN Refused ELSE Done(EcbR(mo.ci, x.blocks, TRUE, 1, <<>>))
EcbDec(mo, C) == IF (Len(C) % BL(mo.ci)) # 0 THEN Refused
                 ELSE LET u == UnpadOf(mo, EcbR(mo.ci, Cut(C, BL(mo.ci)), FALSE, 1, <<>>), 0) IN IF u.ok THEN Done(u.val) ELSE Refused
\* ---- CBC: output is the IV followed by the chained blocks -------------------------------
RECURSIVE CbcEncR(_,_,_,_,_)
CbcEncR(ci, bs, prev, q, acc) == IF q > Len(bs) THEN acc
                                 ELSE LET c == E(ci, XorBytes(bs[q], prev)) IN CbcEncR(ci, bs, c, q+1, acc \o c)
CbcEnc(mo, M) == LET x == PadBlocks(mo, M) IN
                 IF x.raises \/ ~AllFull(x.blocks, BL(mo.ci)) THEN Refused ELSE Done(mo.iv \o CbcEncR(mo.ci, x.blocks, mo.iv, 1, <<>>))
RECURSIVE CbcDecR(_,_,_,_)
CbcDecR(ci, cs, q, acc) == IF q > Len(cs) THEN acc ELSE CbcDecR(ci, cs, q+1, acc \o XorBytes(D(ci, cs[q]), cs[q-1]))
CbcDec(mo, C) == IF (Len(C) % BL(mo.ci)) # 0 \/ Len(C) = 0 THEN Refused
                 ELSE LET u == UnpadOf(mo, CbcDecR(mo.ci, Cut(C, BL(mo.ci)), 2, <<>>), 0) IN IF u.ok THEN Done(u.val) ELSE Refused
\* ---- CTR: counter block i = nonce || BE(count0 + i mod 2^(8 |count0|)) ---------------------
CtrBlock(mo, q) == mo.nonce \o IncBE(mo.count0, q)
RECURSIVE CtrR(_,_,_,_)
CtrR(mo, M, q, acc) == LET n == BL(mo.ci) IN
                       IF q * n >= Len(M) THEN acc
                       ELSE CtrR(mo, M, q+1, acc \o XorBytes(SubSeq(M, q*n+1, Min((q+1)*n, Len(M))), E(mo.ci, CtrBlock(mo, q))))
CtrEnc(mo, M) == Done(CtrR(mo, M, 0, <<>>))                     \* same length as M, also for the empty message
CtrDec(mo, C) == CtrEnc(mo, C)
\* ---- what C05 states about ciphertext stealing (any stealing variant is acceptable) --------
CtsLenOk(mo, M, C) == IF mo.mode = "cts_cbc" THEN Len(C) = Len(M) + BL(mo.ci) /\ SubSeq(C, 1, BL(mo.ci)) = mo.iv ELSE Len(C) = Len(M)

Enc(mo, M) == CASE mo.mode = "ecb" -> EcbEnc(mo, M) [] mo.mode = "cbc" -> CbcEnc(mo, M) [] mo.mode = "ctr" -> CtrEnc(mo, M)
Dec(mo, C) == CASE mo.mode = "ecb" -> EcbDec(mo, C) [] mo.mode = "cbc" -> CbcDec(mo, C) [] mo.mode = "ctr" -> CtrDec(mo, C)
\* message domain in which decryption must give back the message
Injective(mo) == mo.mode = "ctr" \/ mo.sch.s \in {"pkcs7", "x923", "iso"} \/ mo.sch.s = "none"
=============================================================================
