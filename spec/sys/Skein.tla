-------------------------------- MODULE Skein --------------------------------
(***************************************************************************)
(* UBI chaining mode and Skein, transcribed from "The Skein Hash Function   *)
(* Family", version 1.3 (1 Oct 2010): s. 3.4 (UBI), s. 3.5 (Skein: 3.5.1    *)
(* configuration string, 3.5.2 output function, 3.5.4 full Skein, 3.5.6     *)
(* tree hashing).  Sizes: Nb, No are in BITS (Nb in {256,512,1024});        *)
(* nb == Nb \div 8 is the state size in bytes.  Chaining values G are nb    *)
(* bytes.  Every integer stays below 2^31 (message lengths < 2^27 bytes).   *)
(*                                                                         *)
(* Tweak (s. 3.4, Table 5), a record:                                       *)
(*   position  bits 0..95   6-limb Word, bytes processed so far incl. this  *)
(*                          block (plus the start position)                 *)
(*   (reserved bits 96..111 are zero)                                       *)
(*   treelevel bits 112..118  0..127                                        *)
(*   bitpad    bit 119        0/1                                           *)
(*   type      bits 120..125  0..63                                         *)
(*   first     bit 126        0/1                                           *)
(*   final     bit 127        0/1                                           *)
(*   TweakBytes(t) = ToBytes(tweak, 16): 16 bytes, little-endian            *)
(*   MkTweak(position, treelevel, bitpad, type, first, final) builds one    *)
(*                                                                         *)
(* UBI (s. 3.4), explicit per-block interface:                              *)
(*   UbiBlock(G, blk, tw)   one step: H' = E(H, tweak, blk) xor blk         *)
(*   UbiPadMsg(M, L)        M' : the ceil(L/8) first bytes of M with the    *)
(*                          bit padding applied when (L % 8) # 0 (bits of a *)
(*                          byte are consumed most significant first: the   *)
(*                          bit after the last message bit is set, the      *)
(*                          lower ones cleared); M' = M-prefix otherwise    *)
(*   UbiB(L)                the BitPad flag B: 1 iff (L % 8) # 0            *)
(*   UbiNumBlocks(nm, nb)   k = max(1, ceil(nm/nb)), nm = Len(M')           *)
(*   UbiBlockAt(Mp, nb, i)  block i (0-based) of M' zero-padded to k*nb     *)
(*   UbiTweakAt(type, level, pos0, nm, nb, B, i)  tweak of block i:         *)
(*        position = pos0 + min(nm, (i+1) nb), first = [i = 0],             *)
(*        final = [i = k-1], bitpad = B only on the final block             *)
(*   Ubi(G, M, L, type, level, pos0) = H_k, folding UbiBlock over the k     *)
(*        blocks.  M: bytes, L: bit length (only the first ceil(L/8) bytes  *)
(*        of M are looked at), pos0: 6-limb start position (ZeroPos for the *)
(*        standard UBI; i*Nl / i*Nn for tree nodes).  The empty message is  *)
(*        ONE all-zero block with position pos0 + 0, first = final = 1.     *)
(*        position is computed modulo 2^96; the paper only defines UBI for  *)
(*        positions < 2^96 (UbiPosFits tells whether that holds).           *)
(*                                                                         *)
(* Skein:                                                                   *)
(*   SkeinConfig(Nb, No, Yl, Yf, Ym)  the 32-byte configuration string C    *)
(*        ("SHA3", version 1, reserved 0, No as 8 bytes LE, Yl, Yf, Ym,     *)
(*        13 zero bytes).  Nb is not part of the string (argument unused).  *)
(*   SkeinOutBlock(G, i)    UBI(G, ToBytes(i, 8), Tout 2^120), i < 2^31     *)
(*   SkeinOutput(G, Nb, No) first ceil(No/8) bytes of                       *)
(*                          SkeinOutBlock(G,0) || SkeinOutBlock(G,1) || ... *)
(*   SkeinHash(Nb, No, M, L, key, haskey, prs, PK, kdf, nonce)              *)
(*        K' = 0^Nb if no key (haskey = FALSE, or key = <<>>: s. 3.5.4      *)
(*        "if Nk = 0 ... K' := 0"), else UBI(0^Nb, key, Tkey);              *)
(*        G0 = UBI(K', C, Tcfg); then for every PRESENT optional argument   *)
(*        in increasing type order (prs 8, PK 12, kdf 16, nonce 20)         *)
(*        G := UBI(G, arg, T); then the message (type 48, bit length L);    *)
(*        result SkeinOutput(G, Nb, No): ceil(No/8) bytes.  An optional     *)
(*        argument equal to <<>> is ABSENT (skipped): this interface cannot *)
(*        express a present-but-empty personalisation/PK/kdf/nonce.         *)
(*   SkeinTree(Nb, No, M, L, key, haskey, Yl, Yf, Ym)  same chain key ->    *)
(*        config(Yl,Yf,Ym) -> message, where the message stage is the tree  *)
(*        of s. 3.5.6 (SkeinTreeMsg) unless Yl = Yf = Ym = 0 (plain UBI).   *)
(*   SkeinFull(Nb, No, M, L, key, haskey, prs, PK, kdf, nonce, Yl, Yf, Ym)  *)
(*        the general form of which the two above are instances.            *)
(*   SkeinChainIn(...)      the chaining value that enters the message stage *)
(*   SkeinTreeMsg(G, M, L, Yl, Yf, Ym)  the tree (s. 3.5.6), nb = Len(G):   *)
(*        leaf size Nl = nb 2^Yl bytes, node size Nn = nb 2^Yf bytes;       *)
(*        M split into k >= 1 leaves of Nl bytes (last may be shorter; the  *)
(*        empty message is one empty leaf);                                 *)
(*        M_1 = || UBI(G, M_{0,i}, pos i*Nl, level 1, Tmsg);                *)
(*        for l = 1, 2, ...: if Len(M_l) = nb the result is M_l; else if    *)
(*        l = Ym - 1 the result is UBI(G, M_l, level Ym, Tmsg); else M_l is *)
(*        split in nodes of Nn bytes and                                    *)
(*        M_{l+1} = || UBI(G, M_{l,i}, pos i*Nn, level l+1, Tmsg).          *)
(*        When (L % 8) # 0 the bit padding (and B) goes to the last leaf,   *)
(*        whose bit length is L - 8 (k-1) Nl.                               *)
(*        Preconditions of the paper: Yl >= 1, Yf >= 1, Ym >= 2 (with       *)
(*        Yf = 0 and more than one leaf the level loop only ends through    *)
(*        Ym; Ym < 2 never triggers the height limit).  Leaf / node sizes   *)
(*        saturate above the data length so Yl, Yf up to 255 are evaluable. *)
(***************************************************************************)
EXTENDS Threefish

\* type values T_xxx (Table 6)
TKey == 0
TCfg == 4
TPrs == 8
TPK  == 12
TKdf == 16
TNon == 20
TMsg == 48
TOut == 63

ZeroPos == <<0,0,0,0,0,0>>
MkTweak(position, treelevel, bitpad, type, first, final) ==
  [position |-> position, treelevel |-> treelevel, bitpad |-> bitpad, type |-> type, first |-> first, final |-> final]
TweakBytes(t) == WToLE(t.position) \o <<0, 0, t.treelevel + 128 * t.bitpad, t.type + 64 * t.first + 128 * t.final>>

\* ---- UBI --------------------------------------------------------------------
UbiBlock(G, blk, tw) == XorBytes(ThreefishEnc(G, TweakBytes(tw), blk), blk)

UbiB(L) == IF (L % 8) = 0 THEN 0 ELSE 1
UbiPadMsg(M, L) ==
  LET n == (L + 7) \div 8
      r == L % 8
      m == Take(M, n)
  IN IF r = 0 THEN m
     ELSE LET q == Pow2(8 - r)                         \* the r top bits are message bits
          IN Append(SubSeq(m, 1, n - 1), ((m[n] \div q) * q) + Pow2(7 - r))
UbiNumBlocks(nm, nb) == IF nm = 0 THEN 1 ELSE (nm + nb - 1) \div nb
UbiBlockAt(Mp, nb, i) == LET lo == i * nb  hi == (i + 1) * nb
                         IN IF hi <= Len(Mp) THEN SubSeq(Mp, lo + 1, hi)
                            ELSE SubSeq(Mp, lo + 1, Len(Mp)) \o Rep(0, hi - (IF Len(Mp) > lo THEN Len(Mp) ELSE lo))
UbiTweakAt(type, level, pos0, nm, nb, B, i) ==
  LET k == UbiNumBlocks(nm, nb)
      n == IF nm < (i + 1) * nb THEN nm ELSE (i + 1) * nb
  IN MkTweak(WAddNat(pos0, n), level, IF i = k - 1 THEN B ELSE 0, type,
             IF i = 0 THEN 1 ELSE 0, IF i = k - 1 THEN 1 ELSE 0)
UbiPosFits(pos0, nm) == WCarry(pos0, WFromNat(nm, 6)) = 0
RECURSIVE UbiR(_,_,_,_,_,_,_,_,_)
UbiR(H, Mp, nb, type, level, pos0, B, i, k) ==
  IF i = k THEN H
  ELSE UbiR(UbiBlock(H, UbiBlockAt(Mp, nb, i), UbiTweakAt(type, level, pos0, Len(Mp), nb, B, i)),
            Mp, nb, type, level, pos0, B, i + 1, k)
Ubi(G, M, L, type, level, pos0) ==
  LET Mp == UbiPadMsg(M, L)
      nb == Len(G)
  IN UbiR(G, Mp, nb, type, level, pos0, UbiB(L), 0, UbiNumBlocks(Len(Mp), nb))

\* ---- configuration, output ---------------------------------------------------
SkeinConfig(Nb, No, Yl, Yf, Ym) ==
  <<83, 72, 65, 51>> \o <<1, 0>> \o <<0, 0>> \o WToLE(WFromNat(No, 4)) \o <<Yl, Yf, Ym>> \o Rep(0, 13)
SkeinOutBlock(G, i) == Ubi(G, WToLE(WFromNat(i, 4)), 64, TOut, 0, ZeroPos)
RECURSIVE SkeinOutR(_,_,_,_)
SkeinOutR(G, i, n, acc) == IF i = n THEN acc ELSE SkeinOutR(G, i + 1, n, acc \o SkeinOutBlock(G, i))
SkeinOutput(G, Nb, No) ==
  LET nb == Nb \div 8
      no == (No + 7) \div 8
  IN Take(SkeinOutR(G, 0, (no + nb - 1) \div nb, <<>>), no)

\* ---- tree hashing (s. 3.5.6) -------------------------------------------------
\* min(nb * 2^Y, least nb * 2^j >= cap): every size >= the data length gives one single chunk at position 0
RECURSIVE SkeinSatSize(_,_,_)
SkeinSatSize(x, Y, cap) == IF Y = 0 \/ x >= cap THEN x ELSE SkeinSatSize(2 * x, Y - 1, cap)
\* The tree is written over an arbitrary UBI operator U(G, data, bits, type, level, pos) so that the SAME definition
\* is model-checked with a symbolic U (mc/MC_SkeinTree: node ids, levels, single root) and evaluated with the real one.
\* one level: D (bytes, total bit length Lb) cut in chunks of sz bytes, each hashed by U at the given level
RECURSIVE SkeinLevelGR(_,_,_,_,_,_,_,_,_)
SkeinLevelGR(U(_,_,_,_,_,_), G, D, Lb, sz, level, i, k, acc) ==
  IF i = k THEN acc
  ELSE LET lo == i * sz
           hi == IF (i + 1) * sz < Len(D) THEN (i + 1) * sz ELSE Len(D)
           lc == IF i = k - 1 THEN Lb - 8 * lo ELSE 8 * sz
       IN SkeinLevelGR(U, G, D, Lb, sz, level, i + 1, k,
                       acc \o U(G, SubSeq(D, lo + 1, hi), lc, TMsg, level, WFromNat(lo, 6)))
SkeinLevelG(U(_,_,_,_,_,_), G, D, Lb, sz, level) == SkeinLevelGR(U, G, D, Lb, sz, level, 0, UbiNumBlocks(Len(D), sz), <<>>)
\* cur = M_l
RECURSIVE SkeinTreeUpG(_,_,_,_,_,_)
SkeinTreeUpG(U(_,_,_,_,_,_), G, cur, l, Yf, Ym) ==
  LET nb == Len(G) IN
  IF Len(cur) = nb THEN cur
  ELSE IF l = Ym - 1 THEN U(G, cur, 8 * Len(cur), TMsg, Ym, ZeroPos)
  ELSE SkeinTreeUpG(U, G, SkeinLevelG(U, G, cur, 8 * Len(cur), SkeinSatSize(nb, Yf, Len(cur)), l + 1), l + 1, Yf, Ym)
SkeinTreeMsgG(U(_,_,_,_,_,_), G, M, L, Yl, Yf, Ym) ==
  LET nb == Len(G)
      D  == Take(M, (L + 7) \div 8)
  IN SkeinTreeUpG(U, G, SkeinLevelG(U, G, D, L, SkeinSatSize(nb, Yl, Len(D)), 1), 1, Yf, Ym)
SkeinLevel(G, D, Lb, sz, level) == SkeinLevelG(Ubi, G, D, Lb, sz, level)
SkeinTreeMsg(G, M, L, Yl, Yf, Ym) == SkeinTreeMsgG(Ubi, G, M, L, Yl, Yf, Ym)

\* ---- full Skein (s. 3.5.4) ---------------------------------------------------
SkeinOpt(G, arg, type) == IF arg = <<>> THEN G ELSE Ubi(G, arg, 8 * Len(arg), type, 0, ZeroPos)
SkeinChainIn(Nb, No, key, haskey, prs, PK, kdf, nonce, Yl, Yf, Ym) ==
  LET nb == Nb \div 8
      Z  == Rep(0, nb)
      K  == IF haskey /\ key # <<>> THEN Ubi(Z, key, 8 * Len(key), TKey, 0, ZeroPos) ELSE Z
      G0 == Ubi(K, SkeinConfig(Nb, No, Yl, Yf, Ym), 256, TCfg, 0, ZeroPos)
  IN SkeinOpt(SkeinOpt(SkeinOpt(SkeinOpt(G0, prs, TPrs), PK, TPK), kdf, TKdf), nonce, TNon)
SkeinFull(Nb, No, M, L, key, haskey, prs, PK, kdf, nonce, Yl, Yf, Ym) ==
  LET G  == SkeinChainIn(Nb, No, key, haskey, prs, PK, kdf, nonce, Yl, Yf, Ym)
      Gm == IF Yl = 0 /\ Yf = 0 /\ Ym = 0 THEN Ubi(G, M, L, TMsg, 0, ZeroPos)
            ELSE SkeinTreeMsg(G, M, L, Yl, Yf, Ym)
  IN SkeinOutput(Gm, Nb, No)
SkeinHash(Nb, No, M, L, key, haskey, prs, PK, kdf, nonce) ==
  SkeinFull(Nb, No, M, L, key, haskey, prs, PK, kdf, nonce, 0, 0, 0)
SkeinTree(Nb, No, M, L, key, haskey, Yl, Yf, Ym) ==
  SkeinFull(Nb, No, M, L, key, haskey, <<>>, <<>>, <<>>, <<>>, Yl, Yf, Ym)
=============================================================================
